//! C07 — the parallel walker terminates and loses / duplicates nothing under every thread schedule.
//!
//! The real `WalkParallel` runs with real threads, but every worker parks at each `verif-hooks` yield
//! point (top of `Stack::{push,pop,steal}`, `deactivate_worker`, `activate_worker`, `is_quit_now`,
//! `quit_now`, before the idle sleep, after the worker loop) and the scheduler below releases exactly
//! one worker per step, so the interleaving is chosen by the harness:
//!   * `rand`  uniform random choice among the live workers,
//!   * `pct`   PCT-style random priorities with d-1 priority change points (a worker reaching the idle
//!             sleep is demoted, so spinning never starves a worker that holds work),
//!   * `dfs`   every schedule with at most b deviations from the non-pre-emptive round-robin scheduler (a deviation =
//!             pre-empting a running worker, or not taking the next worker in round-robin order when the current one
//!             reaches the idle sleep or exits); depth-first, stateless re-execution,
//!   * `fixed` an explicit worker sequence (replays).
//! A visitor `Quit` is injected at a chosen visit index.  The observed schedule (worker per step, and
//! for successful steal rounds the victim and batch size read off the deque lengths) is replayed in
//! the Lean model (`c07.run`); per step the next yield point, all deque lengths, the visited labels
//! and the `active_workers` / `quit_now` values must agree (C).  Independently (F) the run must finish
//! within a step bound and the visited multiset must equal an independent recursive listing (no quit)
//! resp. be duplicate-free and within it (quit).
use ignore::walk_verif::{set_yield_hook, YieldInfo, YieldPoint};
use ignore::{WalkBuilder, WalkState};
use rgverif_harness::*;
use std::collections::{BTreeMap, BTreeSet};
use std::path::{Path, PathBuf};
use std::sync::{Arc, Condvar, Mutex, MutexGuard};
use std::thread::ThreadId;

// ------------------------------------------------------------------ forests

#[derive(Clone, Debug, PartialEq)]
enum Node {
    F,
    D(Vec<Node>),
    /// a directory that cannot be listed (mode 000; such forests are walked with fsuid nobody): the visitor gets the
    /// entry and then an error visit, which is not an entry
    X(Vec<Node>),
}

extern "C" {
    fn setfsuid(uid: u32) -> i32;
}

fn has_locked(n: &Node) -> bool {
    match n {
        Node::F => false,
        Node::X(_) => true,
        Node::D(ks) => ks.iter().any(has_locked),
    }
}

fn show_node(n: &Node, out: &mut String) {
    match n {
        Node::F => out.push('f'),
        Node::D(ks) | Node::X(ks) => {
            out.push_str(if matches!(n, Node::X(_)) { "x(" } else { "d(" });
            for (i, k) in ks.iter().enumerate() {
                if i > 0 {
                    out.push(',');
                }
                show_node(k, out);
            }
            out.push(')');
        }
    }
}

fn show_forest(f: &[Node]) -> String {
    let mut s = String::new();
    for (i, n) in f.iter().enumerate() {
        if i > 0 {
            s.push('+');
        }
        show_node(n, &mut s);
    }
    s
}

fn parse_node(b: &[u8], i: &mut usize) -> Option<Node> {
    match b.get(*i)? {
        b'f' => {
            *i += 1;
            Some(Node::F)
        }
        c @ (b'd' | b'x') => {
            let locked = *c == b'x';
            let mk = move |ks: Vec<Node>| if locked { Node::X(ks) } else { Node::D(ks) };
            *i += 1;
            if b.get(*i)? != &b'(' {
                return None;
            }
            *i += 1;
            let mut ks = vec![];
            if b.get(*i)? == &b')' {
                *i += 1;
                return Some(mk(ks));
            }
            loop {
                ks.push(parse_node(b, i)?);
                match b.get(*i)? {
                    b',' => *i += 1,
                    b')' => {
                        *i += 1;
                        return Some(mk(ks));
                    }
                    _ => return None,
                }
            }
        }
        _ => None,
    }
}

fn parse_forest(s: &str) -> Option<Vec<Node>> {
    let mut out = vec![];
    for part in s.split('+') {
        let b = part.as_bytes();
        let mut i = 0;
        let n = parse_node(b, &mut i)?;
        if i != b.len() {
            return None;
        }
        out.push(n);
    }
    Some(out)
}

fn count_nodes(n: &Node) -> usize {
    match n {
        Node::F => 1,
        Node::D(ks) | Node::X(ks) => 1 + ks.iter().map(count_nodes).sum::<usize>(),
    }
}

fn materialise(path: &Path, n: &Node) {
    match n {
        Node::F => std::fs::write(path, b"x").unwrap(),
        Node::D(ks) | Node::X(ks) => {
            std::fs::create_dir_all(path).unwrap();
            for (i, k) in ks.iter().enumerate() {
                materialise(&path.join(format!("c{}", i)), k);
            }
            if matches!(n, Node::X(_)) {
                use std::os::unix::fs::PermissionsExt;
                std::fs::set_permissions(path, std::fs::Permissions::from_mode(0o000)).unwrap();
            }
        }
    }
}

/// Independent recursive listing (plain `read_dir`), children in `read_dir` order.
#[derive(Clone, Debug)]
struct Listed {
    label: usize,
    path: PathBuf,
    kids: Vec<Listed>,
}

fn list(path: &Path, next: &mut usize) -> Listed {
    let label = *next;
    *next += 1;
    let mut kids = vec![];
    let md = std::fs::symlink_metadata(path).unwrap();
    if md.is_dir() {
        // an unreadable directory has no children as far as any walker can tell
        if let Ok(rd) = std::fs::read_dir(path) {
            for e in rd {
                kids.push(list(&e.unwrap().path(), next));
            }
        }
    }
    Listed { label, path: path.to_path_buf(), kids }
}

fn listed_sx(l: &Listed, out: &mut String) {
    out.push('(');
    out.push_str(&l.label.to_string());
    for k in &l.kids {
        out.push(' ');
        listed_sx(k, out);
    }
    out.push(')');
}

/// The tree as the walker sees it when the visitor answers Skip for the entries `skip`: they keep no children.
fn prune(l: &Listed, skip: &[usize]) -> Listed {
    Listed {
        label: l.label,
        path: l.path.clone(),
        kids: if skip.contains(&l.label) { vec![] } else { l.kids.iter().map(|k| prune(k, skip)).collect() },
    }
}

fn labels_of(l: &Listed, out: &mut Vec<usize>) {
    out.push(l.label);
    for k in &l.kids {
        labels_of(k, out);
    }
}

fn collect_labels(l: &Listed, map: &mut BTreeMap<PathBuf, usize>) {
    map.insert(l.path.clone(), l.label);
    for k in &l.kids {
        collect_labels(k, map);
    }
}

// ------------------------------------------------------------------ scheduler

#[derive(Clone, Debug)]
struct Arrive {
    point: YieldPoint,
    lens: Vec<usize>,
    active: Option<usize>,
    quit: Option<bool>,
}

#[derive(Clone, Debug)]
struct Decision {
    w: usize,
    point: YieldPoint,
    /// index of the chosen option and the cost of every option (dfs bookkeeping)
    chosen: usize,
    costs: Vec<u32>,
}

#[derive(Clone, Debug)]
enum Policy {
    Rand(Rng),
    Pct { prio: Vec<i64>, changes: Vec<usize>, low: i64 },
    Fixed { seq: Vec<usize> },
    /// option indices to follow, then always option 0 (the default non-pre-emptive round-robin choice)
    Dfs { prefix: Vec<usize> },
}

struct Inner {
    n: usize,
    parked: Vec<Option<Arrive>>,
    granted: Vec<bool>,
    finished: Vec<bool>,
    running: Option<usize>,
    last: Option<usize>,
    decisions: Vec<Decision>,
    posts: Vec<Option<Arrive>>,
    visits: Vec<(usize, usize, PathBuf)>,
    error_visits: Vec<String>,
    policy: Policy,
    abort: Option<String>,
    max_steps: usize,
    init_lens: Option<Vec<usize>>,
    quit_at: Vec<usize>,
    skip_paths: BTreeSet<PathBuf>,
    /// per worker: number of consecutive idle-loop transitions (Pop->Steal, Steal->Sleep, Sleep->Pop) it made
    /// while every deque was empty; reset for everybody as soon as anything else happens
    idle_streak: Vec<usize>,
    /// wall-clock time of the last scheduling decision / arrival (watchdog: a worker that dies without reaching a
    /// yield point would otherwise leave everybody parked for ever)
    last_progress: std::time::Instant,
    done: bool,
    worker_panicked: bool,
    watchdog_expired: bool,
}

struct Sched {
    m: Mutex<Inner>,
    cv: Condvar,
    main: ThreadId,
}

const ABORT: &str = "verif-abort";

/// The scheduler of the run in progress, for the panic hook: a worker that panics (anywhere: in the walker, in the
/// visitor) will never reach a yield point again; the hook tells the scheduler at once, so that this is decided
/// logically and not by a wall-clock limit.
static CURRENT: Mutex<Option<Arc<Sched>>> = Mutex::new(None);

fn note_worker_panic(msg: &str) {
    let cur = CURRENT.lock().unwrap_or_else(|e| e.into_inner()).clone();
    if let Some(s) = cur {
        if std::thread::current().id() == s.main {
            return;
        }
        // try_lock: should the panic have happened while this thread held the scheduler lock, the watchdog decides
        let guard = match s.m.try_lock() {
            Ok(g) => Some(g),
            Err(std::sync::TryLockError::Poisoned(e)) => Some(e.into_inner()),
            Err(std::sync::TryLockError::WouldBlock) => {
                // another thread holds it right now: wait for it (it is never held across a yield)
                Some(s.lock())
            }
        };
        if let Some(mut g) = guard {
            if g.abort.is_none() {
                g.abort =
                    Some(format!("a worker thread panicked ({}): it can never reach a yield point again", msg));
                g.worker_panicked = true;
                s.cv.notify_all();
            }
        }
    }
}
const VISITOR_PANIC: &str = "verif-visitor-panic";

impl Sched {
    fn lock(&self) -> MutexGuard<'_, Inner> {
        self.m.lock().unwrap_or_else(|e| e.into_inner())
    }

    fn on_yield(&self, info: &YieldInfo) {
        if std::thread::current().id() == self.main {
            return; // initial pushes of Stack::new_for_each_thread
        }
        let w = info.worker;
        let mut g = self.lock();
        if g.abort.is_some() {
            drop(g);
            std::panic::panic_any(ABORT);
        }
        g.last_progress = std::time::Instant::now();
        let arr = Arrive {
            point: info.point,
            lens: info.deque_lens.clone(),
            active: info.active_workers,
            quit: info.quit_now,
        };
        if g.running == Some(w) {
            let i = g.decisions.len() - 1;
            let from = g.decisions[i].point;
            let idle_move = matches!(
                (from, arr.point),
                (YieldPoint::Pop, YieldPoint::Steal)
                    | (YieldPoint::Steal, YieldPoint::Sleep)
                    | (YieldPoint::Sleep, YieldPoint::Pop)
            ) && arr.lens.iter().all(|l| *l == 0);
            if idle_move {
                g.idle_streak[w] += 1;
            } else {
                for x in g.idle_streak.iter_mut() {
                    *x = 0;
                }
            }
            g.posts[i] = Some(arr.clone());
            g.running = None;
        } else if g.init_lens.is_none() {
            g.init_lens = Some(arr.lens.clone());
        }
        g.parked[w] = Some(arr);
        self.maybe_decide(&mut g);
        loop {
            if g.abort.is_some() {
                drop(g);
                std::panic::panic_any(ABORT);
            }
            if g.granted[w] {
                break;
            }
            g = self.cv.wait(g).unwrap_or_else(|e| e.into_inner());
        }
        g.granted[w] = false;
        let arr = g.parked[w].take().unwrap();
        if arr.point == YieldPoint::Exit {
            for x in g.idle_streak.iter_mut() {
                *x = 0;
            }
            g.finished[w] = true;
            g.running = None;
            self.maybe_decide(&mut g);
        }
    }

    fn maybe_decide(&self, g: &mut Inner) {
        if g.running.is_some() || g.abort.is_some() {
            return;
        }
        let live: Vec<usize> = (0..g.n).filter(|w| !g.finished[*w]).collect();
        if live.is_empty() || live.iter().any(|w| g.parked[*w].is_none()) {
            return;
        }
        if g.decisions.len() >= g.max_steps {
            g.abort = Some("step bound exceeded (hang)".to_string());
            self.cv.notify_all();
            return;
        }
        // Sound livelock detection: every live worker has gone round the idle loop of get_work (>= 4 consecutive
        // idle-loop transitions each, i.e. at least one full Pop -> Steal -> Sleep -> Pop cycle) while every deque
        // was empty and nothing else happened: no worker can ever receive anything again.
        if live.iter().all(|w| g.idle_streak[*w] >= 4) {
            g.abort = Some("livelock: every live worker spins in the idle loop and every deque is empty".to_string());
            self.cv.notify_all();
            return;
        }
        let step = g.decisions.len();
        let points: Vec<YieldPoint> = live.iter().map(|w| g.parked[*w].as_ref().unwrap().point).collect();
        // default order: continue the last worker unless it is at the idle sleep or gone, then round-robin
        let n = g.n;
        let start = match g.last {
            Some(l) if !g.finished[l] && g.parked[l].as_ref().unwrap().point != YieldPoint::Sleep => l,
            Some(l) => (l + 1) % n,
            None => 0,
        };
        let mut order: Vec<usize> = (0..n).map(|i| (start + i) % n).filter(|w| !g.finished[*w]).collect();
        // a worker at the idle sleep yields to the others when there are others
        let free_switch = match g.last {
            Some(l) => g.finished[l] || g.parked[l].as_ref().unwrap().point == YieldPoint::Sleep,
            None => true,
        };
        if let Some(l) = g.last {
            if !g.finished[l] && free_switch && order.len() > 1 {
                order.retain(|w| *w != l);
                order.push(l);
            }
        }
        // every deviation from the default (non-pre-emptive round-robin) scheduler costs 1: a pre-emption of a
        // running worker, or picking another than the next worker when the current one sleeps / has exited
        // (free choices there would allow unboundedly long unfair schedules)
        let costs: Vec<u32> = (0..order.len()).map(|i| if i == 0 { 0 } else { 1 }).collect();
        let chosen = match &mut g.policy {
            Policy::Rand(rng) => {
                let c = live[rng.below(live.len())];
                order.iter().position(|w| *w == c).unwrap()
            }
            Policy::Pct { prio, changes, low } => {
                let best = |prio: &Vec<i64>| *live.iter().max_by_key(|w| prio[**w]).unwrap();
                if changes.contains(&step) {
                    let b = best(prio);
                    *low -= 1;
                    prio[b] = *low;
                }
                let c = best(prio);
                let pi = live.iter().position(|w| *w == c).unwrap();
                if points[pi] == YieldPoint::Sleep {
                    *low -= 1;
                    prio[c] = *low;
                }
                order.iter().position(|w| *w == c).unwrap()
            }
            Policy::Fixed { seq } => match seq.get(step) {
                Some(c) if order.contains(c) => order.iter().position(|w| w == c).unwrap(),
                _ => 0,
            },
            Policy::Dfs { prefix } => match prefix.get(step) {
                Some(i) if *i < order.len() => *i,
                _ => 0,
            },
        };
        let w = order[chosen];
        let point = g.parked[w].as_ref().unwrap().point;
        g.decisions.push(Decision { w, point, chosen, costs });
        g.posts.push(None);
        g.granted[w] = true;
        g.running = Some(w);
        g.last = Some(w);
        self.cv.notify_all();
    }
}

// ------------------------------------------------------------------ one run

struct RunOut {
    decisions: Vec<Decision>,
    posts: Vec<Option<Arrive>>,
    visits: Vec<(usize, usize, PathBuf)>,
    init_lens: Vec<usize>,
    abort: Option<String>,
    panicked: bool,
    watchdog_expired: bool,
    worker_panicked: bool,
    error_visits: usize,
}

fn real_run(
    roots: &[PathBuf],
    n: usize,
    quit_at: Vec<usize>,
    skip_paths: BTreeSet<PathBuf>,
    panic_at: Option<usize>,
    policy: Policy,
    max_steps: usize,
    watchdog_secs: u64,
) -> RunOut {
    let sched = Arc::new(Sched {
        m: Mutex::new(Inner {
            n,
            parked: vec![None; n],
            granted: vec![false; n],
            finished: vec![false; n],
            running: None,
            last: None,
            decisions: vec![],
            posts: vec![],
            visits: vec![],
            error_visits: vec![],
            policy,
            abort: None,
            max_steps,
            init_lens: None,
            quit_at,
            skip_paths,
            idle_streak: vec![0; n],
            last_progress: std::time::Instant::now(),
            done: false,
            worker_panicked: false,
            watchdog_expired: false,
        }),
        cv: Condvar::new(),
        main: std::thread::current().id(),
    });
    *CURRENT.lock().unwrap_or_else(|e| e.into_inner()) = Some(sched.clone());
    let s2 = sched.clone();
    set_yield_hook(Some(Arc::new(move |info: &YieldInfo| s2.on_yield(info))));
    let mut b = WalkBuilder::new(&roots[0]);
    for r in &roots[1..] {
        b.add(r);
    }
    b.standard_filters(false).threads(n);
    let walker = b.build_parallel();
    // Last resort only (hangs are decided by the step bound / livelock detector, dead workers by the panic hook):
    // no yield-point arrival for `watchdog_secs` of wall-clock time means a worker is blocked outside the hook.
    let s4 = sched.clone();
    let done = Arc::new((Mutex::new(false), Condvar::new()));
    let done2 = done.clone();
    let watchdog = std::thread::spawn(move || {
        let (m, cv) = &*done2;
        let mut fin = m.lock().unwrap();
        loop {
            if *fin {
                return;
            }
            let (f, _) = cv.wait_timeout(fin, std::time::Duration::from_millis(500)).unwrap();
            fin = f;
            if *fin {
                return;
            }
            let mut g = s4.lock();
            if g.abort.is_none() && g.last_progress.elapsed() > std::time::Duration::from_secs(watchdog_secs) {
                g.abort = Some(format!(
                    "no worker reached a yield point for {} s (a worker is blocked outside the hook)",
                    watchdog_secs
                ));
                g.watchdog_expired = true;
                s4.cv.notify_all();
            }
        }
    });
    let s3 = sched.clone();
    let res = std::panic::catch_unwind(std::panic::AssertUnwindSafe(|| {
        walker.run(|| {
            let s = s3.clone();
            Box::new(move |entry| {
                let mut g = s.lock();
                let idx = g.visits.len();
                let step = g.decisions.len().saturating_sub(1);
                let w = g.running.unwrap_or(usize::MAX);
                let p = match entry {
                    Ok(e) => e.path().to_path_buf(),
                    Err(e) => {
                        // error visits (unreadable directory) are not entries: counted apart, never quit / skip on them
                        g.error_visits.push(format!("{}", e));
                        return WalkState::Continue;
                    }
                };
                g.visits.push((step, w, p));
                if panic_at == Some(idx) {
                    drop(g);
                    std::panic::panic_any(VISITOR_PANIC);
                }
                if g.quit_at.contains(&idx) {
                    WalkState::Quit
                } else if g.skip_paths.contains(&g.visits[idx].2) {
                    WalkState::Skip
                } else {
                    WalkState::Continue
                }
            })
        })
    }));
    set_yield_hook(None);
    *CURRENT.lock().unwrap_or_else(|e| e.into_inner()) = None;
    sched.lock().done = true;
    {
        let (m, cv) = &*done;
        *m.lock().unwrap() = true;
        cv.notify_all();
    }
    let _ = watchdog.join();
    let g = sched.lock();
    RunOut {
        decisions: g.decisions.clone(),
        posts: g.posts.clone(),
        visits: g.visits.clone(),
        init_lens: g.init_lens.clone().unwrap_or_default(),
        abort: g.abort.clone(),
        panicked: res.is_err(),
        watchdog_expired: g.watchdog_expired,
        worker_panicked: g.worker_panicked,
        error_visits: g.error_visits.len(),
    }
}

fn point_name(p: YieldPoint) -> &'static str {
    match p {
        YieldPoint::Push => "push",
        YieldPoint::Pop => "pop",
        YieldPoint::Steal => "steal",
        YieldPoint::Deactivate => "deact",
        YieldPoint::Activate => "act",
        YieldPoint::IsQuitNow => "isq",
        YieldPoint::QuitNow => "setq",
        YieldPoint::Sleep => "sleep",
        YieldPoint::Exit => "exit",
    }
}

// ------------------------------------------------------------------ a case

#[derive(Clone, Debug)]
struct Case {
    n: usize,
    quit: Option<usize>,
    /// further visit indices at which the visitor answers Quit (several visitors / threads asking to quit)
    quit_more: Vec<usize>,
    /// labels of the entries for which the visitor answers Skip (their children are then not generated)
    skip: Vec<usize>,
    /// self-test only (`quit=P<k>`): the visitor PANICS at visit k — outside the property's quantifier
    panic_at: Option<usize>,
    forest: Vec<Node>,
    sched: String, // rand:SEED | pct:SEED:D | fixed:a.b.c | dfs:a.b.c
}

fn show_case(c: &Case) -> String {
    format!(
        "n={} quit={} skip={} forest={} sched={}",
        c.n,
        match (c.panic_at, c.quit) {
            (Some(k), _) => format!("P{}", k),
            (None, Some(q)) => {
                let mut v = vec![q];
                v.extend(c.quit_more.iter().copied());
                dotted(&v)
            }
            (None, None) => "-".to_string(),
        },
        if c.skip.is_empty() { "-".to_string() } else { dotted(&c.skip) },
        show_forest(&c.forest),
        c.sched
    )
}

fn parse_case(s: &str) -> Option<Case> {
    let mut n = None;
    let mut quit = None;
    let mut panic_at = None;
    let mut quit_more = vec![];
    let mut skip = vec![];
    let mut forest = None;
    let mut sched = None;
    for tok in s.split_whitespace() {
        let (k, v) = tok.split_once('=')?;
        match k {
            "n" => n = Some(v.parse().ok()?),
            "quit" if v.starts_with('P') => {
                panic_at = Some(v[1..].parse().ok()?);
                quit = Some(None);
            }
            "quit" if v == "-" => quit = Some(None),
            "quit" => {
                let qs = parse_dotted(v)?;
                quit = Some(Some(*qs.first()?));
                quit_more = qs[1..].to_vec();
            }
            "skip" => skip = if v == "-" { vec![] } else { parse_dotted(v)? },
            "forest" => forest = Some(parse_forest(v)?),
            "sched" => sched = Some(v.to_string()),
            _ => return None,
        }
    }
    let c = Case { n: n?, quit: quit?, quit_more, skip, panic_at, forest: forest?, sched: sched? };
    if c.n == 0 || c.n > 16 || c.forest.is_empty() {
        return None;
    }
    Some(c)
}

fn dotted(xs: &[usize]) -> String {
    let v: Vec<String> = xs.iter().map(|x| x.to_string()).collect();
    v.join(".")
}

fn parse_dotted(s: &str) -> Option<Vec<usize>> {
    if s.is_empty() {
        return Some(vec![]);
    }
    s.split('.').map(|x| x.parse().ok()).collect()
}

fn make_policy(spec: &str, n: usize, est_len: usize) -> Option<Policy> {
    let (kind, rest) = spec.split_once(':').unwrap_or((spec, ""));
    match kind {
        "rand" => Some(Policy::Rand(Rng::new(rest.parse().ok()?))),
        "pct" => {
            let (seed, d) = rest.split_once(':')?;
            let mut rng = Rng::new(seed.parse().ok()?);
            let d: usize = d.parse().ok()?;
            let mut prio: Vec<i64> = (0..n as i64).map(|i| 1000 + i).collect();
            for i in (1..n).rev() {
                let j = rng.below(i + 1);
                prio.swap(i, j);
            }
            let changes: Vec<usize> = (1..d).map(|_| rng.below(est_len.max(1))).collect();
            Some(Policy::Pct { prio, changes, low: 0 })
        }
        "fixed" => Some(Policy::Fixed { seq: parse_dotted(rest)? }),
        "dfs" => Some(Policy::Dfs { prefix: parse_dotted(rest)? }),
        _ => None,
    }
}

struct Scratch {
    dir: PathBuf,
    current: Option<(String, Vec<PathBuf>, Vec<Listed>)>,
    counter: usize,
}

impl Scratch {
    /// Materialise the forest (reused while the forest stays the same).
    fn ensure(&mut self, forest: &[Node]) -> (Vec<PathBuf>, Vec<Listed>) {
        let key = show_forest(forest);
        if let Some((k, r, l)) = &self.current {
            if *k == key {
                return (r.clone(), l.clone());
            }
        }
        if let Some(_) = self.current.take() {
            let _ = std::fs::remove_dir_all(self.dir.join(format!("t{}", self.counter)));
        }
        self.counter += 1;
        let base = self.dir.join(format!("t{}", self.counter));
        std::fs::create_dir_all(&base).unwrap();
        let mut roots = vec![];
        for (i, n) in forest.iter().enumerate() {
            let p = base.join(format!("r{}", i));
            materialise(&p, n);
            roots.push(p);
        }
        let mut next = 0;
        let locked = forest.iter().any(has_locked);
        if locked {
            unsafe {
                setfsuid(65534);
            }
        }
        let listed: Vec<Listed> = roots.iter().map(|r| list(r, &mut next)).collect();
        if locked {
            unsafe {
                setfsuid(0);
            }
        }
        self.current = Some((key, roots.clone(), listed.clone()));
        (roots, listed)
    }
}

#[derive(Default)]
struct Outcome {
    decisions: Vec<Decision>,
    violated: bool,
}

fn run_case(c: &Case, case_text: &str, sc: &mut Scratch, drv: &mut Driver, rep: &mut Report) -> Outcome {
    rep.eval();
    let (roots, listed) = sc.ensure(&c.forest);
    let nodes: usize = c.forest.iter().map(count_nodes).sum();
    let mut labels = BTreeMap::new();
    for l in &listed {
        collect_labels(l, &mut labels);
    }
    let max_steps = 40 * (nodes * (c.n + 12) + c.n * (c.n + 9)) + 400;
    let est_len = 20 + 14 * nodes + 8 * c.n;
    let policy = match make_policy(&c.sched, c.n, est_len) {
        Some(p) => p,
        None => {
            rep.notes.push(format!("unparsable schedule in case: {}", case_text));
            return Outcome::default();
        }
    };
    let kind = c.sched.split(':').next().unwrap_or("").to_string();
    rep.branch(&format!("policy:{}", kind));
    rep.branch(&format!("threads:{}", c.n));
    // Wall-clock policy: the only wall-clock based verdict is the watchdog (60 s without any yield-point arrival).
    // On expiry the same case is run once more with the limit doubled; it is reported only if it expires again.
    let mut quits: Vec<usize> = c.quit.into_iter().collect();
    quits.extend(c.quit_more.iter().copied());
    let skip_paths: BTreeSet<PathBuf> =
        labels.iter().filter(|(_, l)| c.skip.contains(l)).map(|(p, _)| p.clone()).collect();
    // with Skip answers the walker's tree is the listing without the children of the skipped entries
    let listed: Vec<Listed> = listed.iter().map(|l| prune(l, &c.skip)).collect();
    let mut expected_labels: Vec<usize> = vec![];
    for l in &listed {
        labels_of(l, &mut expected_labels);
    }
    expected_labels.sort();
    if !c.skip.is_empty() {
        rep.branch("visitor-skip-answers");
    }
    if quits.len() > 1 {
        rep.branch("several-quit-requests");
    }
    let locked = c.forest.iter().any(has_locked);
    if locked {
        rep.branch("forest-with-unreadable-dir");
        // the worker threads inherit the file-system uid of the thread that spawns them
        unsafe {
            setfsuid(65534);
        }
    }
    let mut out = real_run(&roots, c.n, quits.clone(), skip_paths.clone(), c.panic_at, policy, max_steps, 60);
    if out.watchdog_expired {
        rep.branch("watchdog-expired:rerun-with-doubled-limit");
        let policy2 = make_policy(&c.sched, c.n, est_len).unwrap();
        out = real_run(&roots, c.n, quits.clone(), skip_paths.clone(), c.panic_at, policy2, max_steps, 120);
        if !out.watchdog_expired {
            rep.branch("watchdog-expired:second-run-fine");
            rep.notes.push(format!("watchdog expired once (machine load?), second run fine: {}", case_text));
        }
    }
    if locked {
        unsafe {
            setfsuid(0);
        }
        if out.error_visits > 0 {
            rep.branch("error-visit-for-unreadable-dir");
        }
    }
    if let Some(k) = c.panic_at {
        // Outside the property (a visitor that unwinds): only make sure the harness survives it.  The worker dies
        // while counted in active_workers, nobody can ever see the counter reach 0: the others spin until the
        // watchdog tears the run down.
        let reached = out.visits.len() > k;
        rep.branch(if !reached {
            "visitor-panic:not-reached"
        } else if out.worker_panicked {
            "visitor-panic:detected-by-panic-hook"
        } else if out.abort.is_some() {
            "visitor-panic:others-spin-until-watchdog"
        } else {
            "visitor-panic:run-ended"
        });
        rep.notes.push(format!(
            "visitor panic at visit {} (outside the property): reached={} outcome={} after {} steps",
            k,
            reached,
            out.abort.clone().unwrap_or_else(|| "run ended".into()),
            out.decisions.len()
        ));
        return Outcome::default();
    }
    let workers: Vec<usize> = out.decisions.iter().map(|d| d.w).collect();
    let fixed_case = show_case(&Case { sched: format!("fixed:{}", dotted(&workers)), ..c.clone() });
    let mut violated = false;

    // ---------------- F: implementation vs specification
    let visited: Vec<usize> =
        out.visits.iter().map(|(_, _, p)| *labels.get(p).unwrap_or(&usize::MAX)).collect();
    let quit_hit = quits.iter().any(|q| *q < visited.len());
    if quit_hit {
        rep.branch("visitor-quit-injected");
    }
    if out.abort.is_some() || out.panicked {
        violated = true;
        rep.violation(Violation {
            kind: "impl_vs_spec".into(),
            class: "".into(),
            tie: "WalkParallel::run under the yield-hook scheduler vs termination (C07_term)".into(),
            case: fixed_case.clone(),
            detail: format!(
                "the walk did not finish: {} after {} steps (panicked={})",
                out.abort.clone().unwrap_or_else(|| "worker panic".into()),
                out.decisions.len(),
                out.panicked
            ),
        });
    } else {
        let mut sorted = visited.clone();
        sorted.sort();
        let dup = sorted.windows(2).any(|w| w[0] == w[1]);
        let unknown = sorted.iter().any(|l| *l == usize::MAX);
        let all: Vec<usize> = expected_labels.clone();
        let bad = if dup {
            Some("an entry was handed to the visitor twice")
        } else if unknown {
            Some("the visitor got an entry (or error) that is not in the tree")
        } else if !quit_hit && sorted != all {
            Some("entries were lost: visited set differs from the recursive listing")
        } else {
            None
        };
        if let Some(b) = bad {
            violated = true;
            rep.violation(Violation {
                kind: "impl_vs_spec".into(),
                class: "".into(),
                tie: "visitor calls of WalkParallel::run vs independent recursive listing (C07_safe / C07_quit)".into(),
                case: fixed_case.clone(),
                detail: format!("{}; visited labels {:?}, tree has {} entries", b, visited, nodes),
            });
        }
    }

    // ---------------- C: implementation vs model
    let mut sched_sx = String::new();
    let mut lens_before = out.init_lens.clone();
    let mut steals = 0;
    let mut big_batches = 0;
    let mut expected: Vec<String> = vec![];
    let mut visit_iter = out.visits.iter().peekable();
    for (i, d) in out.decisions.iter().enumerate() {
        let post = out.posts[i].as_ref();
        let lens_after: Vec<usize> = post.map_or(lens_before.clone(), |p| p.lens.clone());
        let mut obs = None;
        if d.point == YieldPoint::Steal {
            for v in 0..c.n {
                if v != d.w && lens_after[v] < lens_before[v] {
                    obs = Some((v, lens_before[v] - lens_after[v]));
                }
            }
        }
        match obs {
            Some((v, k)) => {
                steals += 1;
                if k > 1 {
                    big_batches += 1;
                }
                sched_sx.push_str(&format!(" ({} {} {})", d.w, v, k));
            }
            None => sched_sx.push_str(&format!(" ({})", d.w)),
        }
        let mut vs = vec![];
        while let Some((step, _, p)) = visit_iter.peek() {
            if *step == i {
                vs.push(labels.get(p).map_or("?".to_string(), |l| l.to_string()));
                visit_iter.next();
            } else {
                break;
            }
        }
        let next = match post {
            Some(p) => point_name(p.point),
            None if d.point == YieldPoint::Exit => "done",
            None => "?",
        };
        let lens_s: Vec<String> = lens_after.iter().map(|l| l.to_string()).collect();
        // active_workers / quit_now are only visible at worker-level yield points (`*` = not observed)
        expected.push(format!(
            "{}/{}/{}/{}/{}",
            next,
            lens_s.join(","),
            if vs.is_empty() { "-".to_string() } else { vs.join(",") },
            post.and_then(|p| p.active).map_or("*".to_string(), |a| a.to_string()),
            post.and_then(|p| p.quit).map_or("*".to_string(), |q| (q as u8).to_string())
        ));
        lens_before = lens_after;
    }
    let mut roots_sx = String::new();
    for l in &listed {
        roots_sx.push(' ');
        listed_sx(l, &mut roots_sx);
    }
    let req = format!(
        "c07.run (threads {}) (quit {}) (roots{}) (sched{})",
        c.n,
        if quits.is_empty() { "-".to_string() } else { quits.iter().map(|q| q.to_string()).collect::<Vec<_>>().join(" ") },
        roots_sx,
        sched_sx
    );
    let reply = drv.ask(&req);
    let parts: Vec<&str> = reply.split(" | ").collect();
    let tie = "WalkParallel workers (yield-hook trace) vs Model.ParWalk.stepFn (c07.run)";
    if parts.len() < 9 {
        violated = true;
        rep.violation(Violation {
            kind: "impl_vs_model".into(),
            class: "".into(),
            tie: tie.into(),
            case: fixed_case.clone(),
            detail: format!("driver answered: {}", reply),
        });
        return Outcome { decisions: out.decisions, violated };
    }
    let got: Vec<&str> = parts[0].split_whitespace().collect();
    let field = |name: &str| -> String {
        parts.iter().find_map(|p| p.strip_prefix(name).map(|x| x.trim().to_string())).unwrap_or_default()
    };
    let mut mismatch = None;
    for i in 0..expected.len().max(got.len()) {
        let e = expected.get(i).map(|s| s.as_str()).unwrap_or("<none>");
        let g = got.get(i).copied().unwrap_or("<none>");
        let same = {
            let ef: Vec<&str> = e.split('/').collect();
            let gf: Vec<&str> = g.split('/').collect();
            ef.len() == gf.len() && ef.iter().zip(gf.iter()).all(|(a, b)| *a == "*" || a == b)
        };
        if !same {
            mismatch = Some(format!(
                "step {} (worker {} at {}): real {} model {}",
                i,
                out.decisions.get(i).map_or(0, |d| d.w),
                out.decisions.get(i).map_or("?", |d| point_name(d.point)),
                e,
                g
            ));
            break;
        }
    }
    let init_real: Vec<String> = out.init_lens.iter().map(|l| l.to_string()).collect();
    if mismatch.is_none() && !out.init_lens.is_empty() && field("init") != init_real.join(",") {
        mismatch = Some(format!("initial distribution: real {} model {}", init_real.join(","), field("init")));
    }
    if mismatch.is_none() && parts[1].trim() != "ok" {
        mismatch = Some(format!("model {}", parts[1]));
    }
    let finished = out.abort.is_none() && !out.panicked;
    if mismatch.is_none() && finished && field("exited") != "1" {
        mismatch = Some("real run finished but the model has workers left".to_string());
    }
    // active_workers / quit_now as seen by the real workers at worker-level yield points
    if let Some(m) = mismatch {
        violated = true;
        rep.violation(Violation {
            kind: "impl_vs_model".into(),
            class: "".into(),
            tie: tie.into(),
            case: fixed_case.clone(),
            detail: m,
        });
    } else if finished {
        // model vs spec on the replayed trace (what C07_safe / C07_quit state)
        let mv: Vec<usize> = if field("visited") == "-" {
            vec![]
        } else {
            field("visited").split(',').filter_map(|x| x.parse().ok()).collect()
        };
        let mut ms = mv.clone();
        ms.sort();
        let all: Vec<usize> = expected_labels.clone();
        let dup = ms.windows(2).any(|w| w[0] == w[1]);
        if dup || (!quit_hit && ms != all) {
            violated = true;
            rep.violation(Violation {
                kind: "model_vs_spec".into(),
                class: "".into(),
                tie: "Model.ParWalk trace vs C07_safe / C07_quit".into(),
                case: fixed_case.clone(),
                detail: format!("model visited {:?}", mv),
            });
        }
    }

    // ---------------- evidence
    if steals > 0 {
        rep.branch("steal-success");
    }
    if big_batches > 0 {
        rep.branch("steal-batch>1");
    }
    let mut zero_at: Vec<usize> = vec![];
    for (i, d) in out.decisions.iter().enumerate() {
        let post = out.posts[i].as_ref().map(|p| p.point);
        match (d.point, post) {
            (YieldPoint::Deactivate, Some(YieldPoint::Push)) => {
                rep.branch("deactivate-returned-0");
                zero_at.push(i);
            }
            (YieldPoint::Deactivate, Some(YieldPoint::Pop)) => rep.branch("deactivate-then-idle"),
            (YieldPoint::Sleep, _) => rep.branch("idle-sleep"),
            (YieldPoint::Steal, Some(YieldPoint::Activate)) => rep.branch("steal-while-idle"),
            (YieldPoint::QuitNow, _) => rep.branch("quit_now-set"),
            _ => {}
        }
    }
    // the non-obvious scenario: Quit is broadcast (counter hit 0) while an idle thief holds stolen work
    for (i, d) in out.decisions.iter().enumerate() {
        if d.point == YieldPoint::Steal && out.posts[i].as_ref().map(|p| p.point) == Some(YieldPoint::Activate) {
            let act = (i + 1..out.decisions.len()).find(|j| out.decisions[*j].w == d.w);
            if let Some(a) = act {
                let isq = (a + 1..out.decisions.len()).find(|j| out.decisions[*j].w == d.w);
                let held_work = isq.map_or(false, |q| out.visits.iter().any(|(s, _, _)| *s == q));
                if held_work && zero_at.iter().any(|z| *z > i && *z < a) {
                    rep.branch("counter-hit-0-while-idle-thief-holds-work");
                }
            }
        }
    }
    if let Ok(b) = std::env::var("C07_FIND") {
        // developer aid: print replayable cases that reach a given evidence branch
        if (b == "counter0" && rep.branches.get("counter-hit-0-while-idle-thief-holds-work").copied().unwrap_or(0) > 0
            && !rep.notes.iter().any(|n| n.starts_with("found counter0")))
            || (b == "batch" && big_batches > 0 && !rep.notes.iter().any(|n| n.starts_with("found batch")))
        {
            eprintln!("FOUND {} case {}", b, fixed_case);
            rep.notes.push(format!("found {}", b));
        }
    }
    if c.n >= 2 && (steals > 0 || quit_hit) {
        rep.nontrivial(&format!("{} {}", show_forest(&c.forest), dotted(&workers)));
    }
    let _ = BTreeSet::<usize>::new();
    Outcome { decisions: out.decisions, violated }
}

// ------------------------------------------------------------------ generators

fn lock_some(rng: &mut Rng, n: &mut Node, is_root: bool) {
    if let Node::D(ks) = n {
        for k in ks.iter_mut() {
            lock_some(rng, k, false);
        }
        if !is_root && rng.chance(1, 3) {
            *n = Node::X(std::mem::take(ks));
        }
    }
}

fn gen_node(rng: &mut Rng, budget: &mut usize, depth: usize) -> Node {
    if *budget == 0 || depth >= 4 || rng.chance(1, 3) {
        return Node::F;
    }
    let want = rng.range(0, 4);
    let mut ks = vec![];
    for _ in 0..want {
        if *budget == 0 {
            break;
        }
        *budget -= 1;
        ks.push(gen_node(rng, budget, depth + 1));
    }
    Node::D(ks)
}

fn gen_forest(rng: &mut Rng, max_nodes: usize) -> Vec<Node> {
    let roots = if rng.chance(1, 4) { rng.range(2, 4) } else { 1 };
    let mut budget = max_nodes.saturating_sub(roots);
    let mut f = vec![];
    for _ in 0..roots {
        // roots are mostly directories
        let mut n = gen_node(rng, &mut budget, 0);
        if n == Node::F && rng.chance(3, 4) {
            let mut ks = vec![];
            for _ in 0..rng.range(0, 3) {
                if budget > 0 {
                    budget -= 1;
                    ks.push(gen_node(rng, &mut budget, 1));
                }
            }
            n = Node::D(ks);
        }
        f.push(n);
    }
    f
}

/// All schedules of one configuration within the deviation bound (stateless depth-first search).
fn explore(
    base: &Case,
    bound: u32,
    cap: usize,
    sc: &mut Scratch,
    drv: &mut Driver,
    rep: &mut Report,
) -> (usize, bool) {
    let mut prefix: Vec<usize> = vec![];
    let mut runs = 0;
    loop {
        let c = Case { sched: format!("dfs:{}", dotted(&prefix)), ..base.clone() };
        let text = show_case(&c);
        let t0 = std::time::Instant::now();
        let out = run_case(&c, &text, sc, drv, rep);
        runs += 1;
        if std::env::var("C07_DEBUG").is_ok() {
            eprintln!("dfs run {} steps {} {:?} prefix-len {} {}", runs, out.decisions.len(), t0.elapsed(), prefix.len(), text.chars().take(100).collect::<String>());
        }
        if out.violated || runs >= cap {
            return (runs, !out.violated && runs < cap);
        }
        // backtrack: deepest decision with an untried alternative within the bound
        let ds = &out.decisions;
        let mut cum: Vec<u32> = Vec::with_capacity(ds.len() + 1);
        cum.push(0);
        for d in ds {
            cum.push(cum.last().unwrap() + d.costs[d.chosen]);
        }
        let mut next: Option<Vec<usize>> = None;
        for i in (0..ds.len()).rev() {
            let d = &ds[i];
            if let Some(alt) = (d.chosen + 1..d.costs.len()).find(|a| cum[i] + d.costs[*a] <= bound) {
                let mut p: Vec<usize> = ds[..i].iter().map(|d| d.chosen).collect();
                p.push(alt);
                next = Some(p);
                break;
            }
        }
        match next {
            Some(p) => prefix = p,
            None => return (runs, true),
        }
    }
}

fn main() {
    let args = parse_args();
    let mut drv = Driver::spawn(&args.driver);
    let mut rep = Report::new(
        "C07",
        "Real WalkParallel (threads 1..4) on generated forests (<= 9 entries; files, empty dirs, chains, fan-out, \
         several roots, a file root), every worker parked at each verif-hooks yield point and released one at a time \
         by a uniform-random, a PCT-style priority or an exhaustive deviation-bounded (dfs: all schedules with <= b \
         pre-emptions / non-default picks relative to non-pre-emptive round-robin, b = 1..3) scheduler; visitor Quit \
         injected at every visit index (also several quit requests in one run, and Skip answers, whose children are \
         then not generated); up to 8 workers on forests of 1..9 entries (more workers than entries, a single file \
         root); directories that cannot be listed (entry visit + error visit). Each observed schedule is replayed in the Lean model. Non-trivial: >= 2 workers \
         and (a successful steal or an injected quit that was reached). Distinct by forest + worker sequence.",
    );
    // silence the panics used to tear down an aborted (hung) run
    let default_hook = std::panic::take_hook();
    std::panic::set_hook(Box::new(move |info| {
        if info.payload().downcast_ref::<&str>().map_or(false, |s| *s == ABORT) {
            return;
        }
        let msg = if let Some(s) = info.payload().downcast_ref::<&str>() {
            s.to_string()
        } else if let Some(s) = info.payload().downcast_ref::<String>() {
            s.clone()
        } else {
            "?".to_string()
        };
        note_worker_panic(&msg);
        if msg == VISITOR_PANIC {
            return;
        }
        if let Some(s) = info.payload().downcast_ref::<String>() {
            if s.contains("called `Result::unwrap()` on an `Err` value: Any") {
                return;
            }
        }
        default_hook(info);
    }));
    let mut sc = Scratch { dir: args.scratch.join("c07"), current: None, counter: 0 };
    std::fs::create_dir_all(&sc.dir).unwrap();

    for line in corpus_cases(&args) {
        match parse_case(&line) {
            Some(c) => {
                run_case(&c, &line, &mut sc, &mut drv, &mut rep);
            }
            None => rep.notes.push(format!("unparsable corpus case: {}", line)),
        }
    }
    if args.replay.is_none() {
        let mut rng = Rng::new(args.seed);
        // ---- exhaustive small scope
        let small: Vec<(&str, usize, u32)> = if args.thorough {
            vec![
                ("d(f)", 2, 3),
                ("d(f,f)", 2, 3),
                ("d(d(f))", 2, 3),
                ("d(f,d(f))", 2, 2),
                ("d(f,f,f)", 2, 2),
                ("d(d(f),d(f))", 2, 2),
                ("d(f,d(f,f))", 2, 2),
                ("d(f)+d(f)", 2, 2),
                ("d(f,f)+f", 2, 2),
                ("d(f)", 3, 2),
                ("d(f,f)", 3, 2),
                ("d(d(f),f)", 3, 2),
                ("d(f)+d(f)", 3, 2),
                ("d(f,d(f),d(f))", 3, 1),
            ]
        } else {
            vec![("d(f)", 2, 2), ("d(f,d(f))", 2, 1), ("d(f,f)", 3, 1)]
        };
        let cap = if args.thorough { 60000 } else { 1500 };
        let mut all_complete = true;
        let mut total_runs = 0;
        for (spec, n, bound) in small {
            let forest = parse_forest(spec).unwrap();
            let nodes: usize = forest.iter().map(count_nodes).sum();
            let mut quits: Vec<Option<usize>> = vec![None];
            for q in 0..nodes {
                quits.push(Some(q));
            }
            for q in quits {
                if rep.violations.len() >= 6 {
                    break;
                }
                let base = Case { n, quit: q, quit_more: vec![], skip: vec![], panic_at: None, forest: forest.clone(), sched: String::new() };
                let (runs, complete) = explore(&base, bound, cap, &mut sc, &mut drv, &mut rep);
                total_runs += runs;
                all_complete &= complete;
                rep.branch(&format!("dfs-config-{}", if complete { "complete" } else { "capped" }));
            }
        }
        rep.notes.push(format!(
            "dfs: {} runs; every schedule within the deviation bound enumerated for every (tree, workers, quit index) configuration: {}",
            total_runs, all_complete
        ));
        // ---- self-test: a visitor that panics (outside the property; the harness must survive it)
        {
            let c = Case {
                n: 2,
                quit: None,
                quit_more: vec![],
                skip: vec![],
                panic_at: Some(1),
                forest: parse_forest("d(f,f)").unwrap(),
                sched: "rand:1".to_string(),
            };
            let text = show_case(&c);
            run_case(&c, &text, &mut sc, &mut drv, &mut rep);
        }
        // ---- random / PCT
        let total = args.cases.unwrap_or(if args.thorough { 30000 } else { 2500 });
        let mut forest = gen_forest(&mut rng, 6);
        for i in 0..total {
            if rep.violations.len() >= 6 {
                rep.notes.push(format!("stopped after {} random cases: enough violations to report", i));
                break;
            }
            if i % 8 == 0 {
                let max_nodes = if i % 64 == 0 { 9 } else { rng.range(2, 7) };
                forest = gen_forest(&mut rng, max_nodes);
                if rng.chance(1, 6) {
                    for r in forest.iter_mut() {
                        let keep_root = rng.chance(1, 2);
                        lock_some(&mut rng, r, keep_root);
                    }
                }
            }
            let nodes: usize = forest.iter().map(count_nodes).sum();
            let n = if rng.chance(1, 10) { 1 } else { rng.range(2, 4) };
            let quit = if rng.chance(1, 3) { Some(rng.below(nodes + 1)) } else { None };
            let quit_more: Vec<usize> = if quit.is_some() && rng.chance(1, 3) {
                (0..rng.range(1, 3)).map(|_| rng.below(nodes + 1)).collect()
            } else {
                vec![]
            };
            let skip: Vec<usize> =
                if rng.chance(1, 4) { (0..rng.range(1, 2)).map(|_| rng.below(nodes)).collect() } else { vec![] };
            // now and then many more workers than entries
            let n = if rng.chance(1, 12) { rng.range(5, 8) } else { n };
            let sched = if i % 2 == 0 {
                format!("rand:{}", rng.next() % 1_000_000_007)
            } else {
                format!("pct:{}:{}", rng.next() % 1_000_000_007, rng.range(1, 4))
            };
            let c = Case { n, quit, quit_more, skip, panic_at: None, forest: forest.clone(), sched };
            let text = show_case(&c);
            if i < 8 {
                rep.sample(text.clone());
            }
            run_case(&c, &text, &mut sc, &mut drv, &mut rep);
        }
    }
    let _ = std::fs::remove_dir_all(&sc.dir);
    rep.write(&args);
}
