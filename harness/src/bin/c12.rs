//! C12 — a glob set answers exactly like its member globs; a glob matches exactly when the
//! documented syntax says so.
//!
//! Per case (a set of 1–8 globs, each with its own four option flags, and a list of paths):
//!   impl_vs_spec  `GlobSet::matches(p)` / `GlobSet::is_match(p)`  vs  `{ i | globs[i].compile_matcher().is_match(p) }`
//!                 (the first sentence of the property, on the real code)
//!   impl_vs_spec  `compile_matcher().is_match(p)`  vs  `docMatch` (Lean, Spec/GlobDoc) for globs in the documented grammar
//!   impl_vs_model `Glob::regex()` text, build errors, single-glob answers, set answers  vs  the Lean model
//!   model_vs_spec model set vs model single answers outside the `lastCompDots` class (theorem `C12_set`)
use globset::{Candidate, Glob, GlobBuilder, GlobSet, GlobSetBuilder};
use rgverif_harness::*;
use std::ffi::OsStr;
use std::os::unix::ffi::OsStrExt;

const TIE_SET: &str = "GlobSet::matches vs Glob::compile_matcher().is_match (property, sentence 1)";
const TIE_INTO: &str = "GlobSet::matches_into / matches_candidate_into with ONE reused Vec across a history of calls (empty sets included) vs GlobSet::matches of a fresh call (documented: `into` is cleared before matching begins) and vs Model.GlobSet.matchesCandidateInto with the model's own buffer threaded (theorem C12_into_history)";
const TIE_DOC: &str = "Glob::compile_matcher().is_match vs Spec.GlobDoc.docMatch (documented syntax)";
const TIE_M: &str = "globset (Glob::regex, compile_matcher, GlobSet::matches) vs Model.Glob.{parse,toRegex,tokMatch} / Model.GlobSet.setMatches (theorems C12_set, strategy_eq_regex)";

#[derive(Clone, Debug, PartialEq, Eq)]
struct G {
    ci: bool,
    ls: bool,
    be: bool,
    ea: bool,
    text: String,
}

impl G {
    fn bits(&self) -> String {
        format!("{}{}{}{}", self.ci as u8, self.ls as u8, self.be as u8, self.ea as u8)
    }
    fn sx(&self) -> String {
        let cps: Vec<String> = self.text.chars().map(|c| (c as u32).to_string()).collect();
        format!("(g {} {})", self.bits(), cps.join(" ")).replace(" )", ")")
    }
    fn build(&self) -> Result<Glob, globset::Error> {
        GlobBuilder::new(&self.text)
            .case_insensitive(self.ci)
            .literal_separator(self.ls)
            .backslash_escape(self.be)
            .empty_alternates(self.ea)
            .build()
    }
    fn enc(&self) -> String {
        format!("{}:{}", self.bits(), hex(self.text.as_bytes()))
    }
    fn dec(s: &str) -> Option<G> {
        let (b, h) = s.split_once(':')?;
        let b = b.as_bytes();
        if b.len() != 4 {
            return None;
        }
        let text = String::from_utf8(unhex(h)?).ok()?;
        Some(G { ci: b[0] == b'1', ls: b[1] == b'1', be: b[2] == b'1', ea: b[3] == b'1', text })
    }
}

fn err_name(k: &globset::ErrorKind) -> &'static str {
    use globset::ErrorKind::*;
    match k {
        UnclosedClass => "UnclosedClass",
        InvalidRange(_, _) => "InvalidRange",
        UnopenedAlternates => "UnopenedAlternates",
        UnclosedAlternates => "UnclosedAlternates",
        NestedAlternates => "NestedAlternates",
        DanglingEscape => "DanglingEscape",
        Regex(_) => "Regex",
        _ => "Other",
    }
}

// ---------------------------------------------------------------- generators

const ALPHA: &[u8] = b"ab./-A";

fn lit(rng: &mut Rng) -> String {
    let n = rng.range(1, 3);
    (0..n).map(|_| *rng.pick(b"aab.-A") as char).collect()
}

fn class(rng: &mut Rng) -> String {
    let neg = ["", "", "!", "^"][rng.below(4)];
    let body = match rng.below(12) {
        0 => "a".to_string(),
        1 => "ab".to_string(),
        2 => "a-b".to_string(),
        3 => ".".to_string(),
        4 => "]".to_string(),
        5 => "-a".to_string(),
        6 => "a-".to_string(),
        7 => "A-b".to_string(),
        8 => "*?".to_string(),
        9 => "a.-".to_string(),
        10 => "]a".to_string(),
        _ => "/".to_string(),
    };
    format!("[{}{}]", neg, body)
}

/// one piece of a plain (alternate-free) glob
fn piece(rng: &mut Rng, odd: bool) -> String {
    match rng.below(if odd { 16 } else { 12 }) {
        0 | 1 | 2 => lit(rng),
        3 => "?".into(),
        4 | 5 => "*".into(),
        6 => "/".into(),
        7 => class(rng),
        8 => format!("\\{}", *rng.pick(b"*?[a\\{.") as char),
        9 => ".".into(),
        10 => format!("*.{}", *rng.pick(b"ab") as char),
        11 => "/**/".into(),
        // odd pieces: outside the documented grammar, still compared with the model and set-vs-glob
        12 => "**".into(),
        13 => ["[a-b-]", "[a-b-e]", "[--a]", "[\\]]", "[!]a]", "[a-é]", "[é-日]", "[!é]", "{a,{b,c}}", "{{a,b},c}", "***", "{}", "{,}"][rng.below(13)].into(),
        14 => "}".into(),
        _ => ",".into(),
    }
}

fn plain(rng: &mut Rng, max: usize, odd: bool) -> String {
    let n = rng.range(0, max);
    (0..n).map(|_| piece(rng, odd)).collect()
}

fn alternates(rng: &mut Rng, odd: bool) -> String {
    let n = rng.range(1, 3);
    let bs: Vec<String> = (0..n)
        .map(|_| {
            if rng.chance(1, 5) {
                String::new()
            } else if odd && rng.chance(1, 6) {
                ["**/a", "a/**", "**", "/**/"][rng.below(4)].to_string()
            } else {
                plain(rng, 2, false).replace("/**/", "/")
            }
        })
        .collect();
    format!("{{{}}}", bs.join(","))
}

/// globs shaped so that every strategy of `MatchStrategy::new` is reached
fn shaped(rng: &mut Rng) -> String {
    let l = lit(rng);
    let l2 = lit(rng);
    let e: String = (0..rng.range(0, 2)).map(|_| *rng.pick(b"abA-") as char).collect();
    // a piece that makes a recogniser *reject* when it shows up inside the would-be literal
    let spoil = ["/", ".", "?", "*", "[ab]", "{a,b}", "/b", ".b", "a/", "\\*"][rng.below(10)];
    match rng.below(28) {
        0 => l,
        1 => format!("{}/{}", l, l2),
        2 => format!("**/{}", l),
        3 => format!("*.{}", e),
        4 => format!("**/*.{}", e),
        5 => format!("{}*", l),
        6 => format!("{}/**", l),
        7 => format!("*{}", l),
        8 => format!("**/*{}", l),
        9 => format!("**/{}/{}", l, l2),
        10 => format!("{}*.{}", l, e),
        11 => format!("?{}.{}", l, e),
        12 => format!("**/{}", ["..", ".", "a.", ".a", "a..", "-"][rng.below(6)]),
        13 => format!("*{}", [".", "..", "/.", "/..", "a."][rng.below(5)]),
        14 => "/**".into(),
        15 => format!("{}/**/{}", l, l2),
        // rejection conditions of the six recognisers: separator / dot / wildcard / class / alternates
        // inside the would-be extension, basename, literal, prefix or suffix
        16 => format!("*.{}{}{}", e, spoil, e),                // ext: `*.a/b`, `*.a.b`, `*.a?`
        17 => format!("**/*.{}{}{}", e, spoil, l),             // ext behind `**/`
        18 => format!("**/{}{}{}", l, spoil, l2),              // basename literal
        19 => format!("{}{}{}", l, spoil, l2),                 // literal
        20 => format!("{}{}*", l, spoil),                      // prefix
        21 => format!("{}{}/**", l, spoil),                    // prefix with `/**`
        22 => format!("*{}{}{}", l, spoil, l2),                // suffix
        23 => format!("**/*{}{}{}", l, spoil, l2),             // suffix behind `**/`
        24 => format!("{}*.{}{}{}", l, e, spoil, e),           // required extension
        25 => format!("{}{}.{}", l, spoil, e),                 // required extension, odd front
        26 => format!("**/{}{}", spoil, l),                    // `**/` followed by a non-literal
        _ => format!("{}.{}/{}", l, e, l2),                    // dot in a non-final component
    }
}

fn gen_glob(rng: &mut Rng) -> G {
    let odd = rng.chance(1, 5);
    let mut text = match rng.below(10) {
        0 | 1 | 2 => shaped(rng),
        3 | 4 | 5 => plain(rng, 5, odd),
        6 | 7 => format!("{}{}{}", plain(rng, 2, odd), alternates(rng, odd), plain(rng, 2, odd)),
        8 => {
            let p = plain(rng, 4, odd);
            match rng.below(4) {
                0 => format!("**/{}", p),
                1 => format!("{}/**", p),
                2 => format!("{}/**/{}", p, plain(rng, 2, odd)),
                _ => "**".to_string(),
            }
        }
        _ => format!("{}{}", alternates(rng, odd), alternates(rng, odd)),
    };
    // low-rate malformed / non-ASCII streams
    if rng.chance(1, 40) {
        text.push_str(["[", "[a", "{", "{a", "{{a}}", "\\", "[b-a]", "[!"][rng.below(8)]);
    }
    if rng.chance(1, 40) {
        text.push_str(["é", "[é]", "日", "[aé]", "é*"][rng.below(5)]);
    }
    if rng.chance(1, 80) {
        // a long glob (literal / class units: the Lean model backtracks on wildcards)
        let unit = ["ab", "a/", "[ab]"][rng.below(3)];
        text = format!("{}{}", unit.repeat(rng.range(40, 120)), text);
    }
    G {
        ci: rng.chance(1, 4),
        ls: rng.chance(1, 2),
        be: rng.chance(3, 4),
        ea: rng.chance(1, 3),
        text,
    }
}

fn rand_small_path(rng: &mut Rng, max: usize) -> Vec<u8> {
    let n = rng.range(0, max);
    (0..n).map(|_| *rng.pick(ALPHA)).collect()
}

/// a path derived from the glob text so that matches actually happen
fn instantiate(rng: &mut Rng, g: &str) -> Vec<u8> {
    let mut out = vec![];
    let cs: Vec<char> = g.chars().collect();
    let mut i = 0;
    let mut in_alt = false;
    let mut skip_branch = false;
    while i < cs.len() {
        let c = cs[i];
        i += 1;
        if skip_branch {
            if c == '}' {
                skip_branch = false;
                in_alt = false;
            }
            continue;
        }
        match c {
            '*' => {
                if i < cs.len() && cs[i] == '*' {
                    i += 1;
                    if i < cs.len() && cs[i] == '/' {
                        i += 1;
                        for _ in 0..rng.below(3) {
                            out.extend(rand_small_path(rng, 2));
                            out.push(b'/');
                        }
                    } else {
                        out.extend(rand_small_path(rng, 4));
                    }
                } else {
                    let n = rng.below(3);
                    for _ in 0..n {
                        out.push(*rng.pick(b"ab.-A/"));
                    }
                }
            }
            '?' => out.push(*rng.pick(ALPHA)),
            '[' => {
                // take the first plausible member
                let mut j = i;
                if j < cs.len() && (cs[j] == '!' || cs[j] == '^') {
                    j += 1;
                }
                let first = j;
                while j < cs.len() && (cs[j] != ']' || j == first) {
                    j += 1;
                }
                if first < cs.len() {
                    let mut b = [0u8; 4];
                    out.extend(cs[first].encode_utf8(&mut b).as_bytes());
                }
                i = (j + 1).min(cs.len());
            }
            '{' => in_alt = true,
            ',' if in_alt => skip_branch = true,
            '}' => in_alt = false,
            '\\' => {
                if i < cs.len() {
                    let mut b = [0u8; 4];
                    out.extend(cs[i].encode_utf8(&mut b).as_bytes());
                    i += 1;
                }
            }
            c => {
                let mut b = [0u8; 4];
                out.extend(c.encode_utf8(&mut b).as_bytes());
            }
        }
    }
    out
}

fn mutate(rng: &mut Rng, p: &[u8]) -> Vec<u8> {
    let mut p = p.to_vec();
    match rng.below(8) {
        0 if !p.is_empty() => {
            let i = rng.below(p.len());
            p.remove(i);
        }
        1 => {
            let i = rng.below(p.len() + 1);
            p.insert(i, *rng.pick(ALPHA));
        }
        2 => p.push(b'.'),
        3 => p.push(b'/'),
        4 => {
            let mut q = rand_small_path(rng, 2);
            q.push(b'/');
            q.extend(&p);
            p = q;
        }
        5 if !p.is_empty() => {
            let i = rng.below(p.len());
            p[i] = if p[i].is_ascii_lowercase() { p[i].to_ascii_uppercase() } else { p[i].to_ascii_lowercase() };
        }
        6 => p.extend(b"/.."),
        _ => {}
    }
    p
}

fn gen_paths(rng: &mut Rng, globs: &[G], n: usize) -> Vec<Vec<u8>> {
    let mut ps: Vec<Vec<u8>> = vec![];
    for g in globs {
        for _ in 0..3 {
            let p = instantiate(rng, &g.text);
            if rng.chance(1, 2) {
                ps.push(mutate(rng, &p));
            }
            ps.push(p);
        }
    }
    while ps.len() < n {
        match rng.below(10) {
            0..=5 => ps.push(rand_small_path(rng, 5)),
            6 => {
                // longer, now and then very long
                let n = if rng.chance(1, 40) { rng.range(100, 300) } else { rng.range(6, 14) };
                ps.push((0..n).map(|_| *rng.pick(ALPHA)).collect());
            }
            7 => {
                // not UTF-8 / odd bytes
                let mut p = rand_small_path(rng, 4);
                let i = rng.below(p.len() + 1);
                p.insert(i, *rng.pick(&[0xffu8, 0x80, 0xc3, b'\n', 0, b'*', b'[', b'\\']));
                ps.push(p);
            }
            8 => ps.push([&b"."[..], b"..", b"a/.", b"a/..", b"a.", b".a", b"a/", b"/", b"", b"/a", b"a//b", b"a./", b"..a", b"a..", b"x.a/b", b"a.b/a.b", b".a/a", b"b/x.a/a"][rng.below(18)].to_vec()),
            _ => {
                let g = rng.pick(globs);
                let p = instantiate(rng, &g.text);
                ps.push(mutate(rng, &p));
            }
        }
    }
    ps.sort();
    ps.dedup();
    ps
}

fn all_paths(max: usize) -> Vec<Vec<u8>> {
    let mut out: Vec<Vec<u8>> = vec![vec![]];
    let mut layer: Vec<Vec<u8>> = vec![vec![]];
    for _ in 0..max {
        let mut next = vec![];
        for p in &layer {
            for &c in ALPHA {
                let mut q = p.clone();
                q.push(c);
                next.push(q);
            }
        }
        out.extend(next.iter().cloned());
        layer = next;
    }
    out
}

// ---------------------------------------------------------------- one case

fn case_line(globs: &[G], paths: &[Vec<u8>]) -> String {
    let g: Vec<String> = globs.iter().map(|g| g.enc()).collect();
    let p: Vec<String> = paths.iter().map(|p| hex(p)).collect();
    format!("set G={} P={}", g.join(","), p.join(","))
}

fn parse_case(line: &str) -> Option<(Vec<G>, Vec<Vec<u8>>)> {
    let parts: Vec<&str> = line.split_whitespace().collect();
    if parts.len() != 3 || parts[0] != "set" {
        return None;
    }
    let g = parts[1].strip_prefix("G=")?;
    let p = parts[2].strip_prefix("P=")?;
    let globs: Option<Vec<G>> = g.split(',').filter(|s| !s.is_empty()).map(G::dec).collect();
    let paths: Option<Vec<Vec<u8>>> = p.split(',').filter(|s| !s.is_empty()).map(unhex).collect();
    Some((globs?, paths?))
}

fn idx_list(v: &[usize]) -> String {
    if v.is_empty() {
        "-".into()
    } else {
        v.iter().map(|i| i.to_string()).collect::<Vec<_>>().join(",")
    }
}

fn dots_class(p: &[u8]) -> bool {
    let last = match p.iter().rposition(|&b| b == b'/') {
        Some(i) => &p[i + 1..],
        None => p,
    };
    last == b"." || last == b".."
}

struct Outcome {
    violations: Vec<Violation>,
}

/// Runs one case; `quiet` suppresses statistics (used while shrinking).
fn run_case(globs_in: &[G], paths: &[Vec<u8>], drv: &mut Driver, rep: &mut Report, quiet: bool) -> Outcome {
    let mut out = Outcome { violations: vec![] };
    let mk = |kind: &str, class: &str, tie: &str, gs: &[G], ps: &[Vec<u8>], detail: String| Violation {
        kind: kind.into(),
        class: class.into(),
        tie: tie.into(),
        case: case_line(gs, ps),
        detail,
    };
    // 1. build every glob; compare errors / regex text with the model
    let mut globs: Vec<G> = vec![];
    let mut built: Vec<Glob> = vec![];
    let mut doc_ok: Vec<bool> = vec![];
    let mut strat_names: Vec<String> = vec![];
    for g in globs_in {
        let m = drv.ask(&format!("c12.parse {}", g.sx()));
        match g.build() {
            Err(e) => {
                let want = format!("err {}", err_name(e.kind()));
                if !quiet {
                    rep.branch(&format!("parse:{}", err_name(e.kind())));
                }
                if m != want {
                    out.violations.push(mk("impl_vs_model", "", TIE_M, &[g.clone()], &[], format!("glob {:?} opts {}: impl {} model {}", g.text, g.bits(), want, m)));
                }
            }
            Ok(b) => {
                let f: Vec<&str> = m.split(' ').collect();
                if f.len() != 7 || f[0] != "ok" {
                    out.violations.push(mk("impl_vs_model", "", TIE_M, &[g.clone()], &[], format!("glob {:?} opts {}: impl builds, model says {}", g.text, g.bits(), m)));
                    continue;
                }
                if f[2] != hex(b.regex().as_bytes()) {
                    out.violations.push(mk("impl_vs_model", "", TIE_M, &[g.clone()], &[], format!("glob {:?} opts {}: Glob::regex() = {:?}, model prints {:?}", g.text, g.bits(), b.regex(), unhex(f[2]).map(|b| show(&b)))));
                    continue;
                }
                if f[6] == "1" {
                    // documented: "Using `**` anywhere else is illegal" — the glob builds nevertheless (it is read as `*`s).
                    // Mechanism = the predicate itself: Spec.GlobDoc.illegalDstar holds for this text and Glob::new is Ok.
                    if !quiet {
                        rep.branch("class:double-star-elsewhere-accepted:attributed");
                    }
                    out.violations.push(mk("impl_vs_spec", "double-star-elsewhere-accepted", TIE_DOC, &[g.clone()], &[], format!("glob {:?} opts {}: the documentation calls this use of `**` illegal, Glob::new accepts it (regex {:?})", g.text, g.bits(), b.regex())));
                }
                if f[4] != "1" {
                    // the printed class is not a valid regex class: compile_matcher would panic, GlobSet::new errors
                    if !quiet {
                        rep.branch("parse:invalid-regex-class");
                    }
                    continue;
                }
                if !quiet {
                    let strat = f[1].split(':').next().unwrap_or("");
                    rep.branch(&format!("strategy:{}", strat));
                    rep.branch(if f[3] == "1" { "glob:documented-grammar" } else { "glob:outside-documented-grammar" });
                    if f[5] == "1" {
                        rep.branch("glob:docGuard(C12_doc_partial proved)");
                    }
                    if g.text.contains('{') {
                        rep.branch("glob:alternates");
                    }
                    if g.text.contains("**") {
                        rep.branch("glob:double-star");
                    }
                    if g.text.contains('[') {
                        rep.branch("glob:class");
                    }
                }
                doc_ok.push(f[3] == "1");
                strat_names.push(f[1].split(':').next().unwrap_or("").to_string());
                globs.push(g.clone());
                built.push(b);
            }
        }
    }
    if globs.is_empty() || paths.is_empty() {
        return out;
    }
    // 2. the set and the single matchers on every path
    let mut sb = GlobSetBuilder::new();
    for b in &built {
        sb.add(b.clone());
    }
    let set = match sb.build() {
        Ok(s) => s,
        Err(e) => {
            out.violations.push(mk("impl_vs_model", "", TIE_M, &globs, &[], format!("GlobSet::build failed: {}", e)));
            return out;
        }
    };
    let matchers: Vec<_> = built.iter().map(|b| b.compile_matcher()).collect();
    let gsx: Vec<String> = globs.iter().map(|g| g.sx()).collect();
    let psx: Vec<String> = paths.iter().map(|p| hex(p)).collect();
    let reply = drv.ask(&format!("c12.set (globs {}) (paths {})", gsx.join(" "), psx.join(" ")));
    let (_oks, body) = match reply.split_once(' ') {
        Some(x) => x,
        None => {
            out.violations.push(mk("impl_vs_model", "", TIE_M, &globs, paths, format!("model reply {:?}", reply)));
            return out;
        }
    };
    let per: Vec<&str> = body.split(';').collect();
    if per.len() != paths.len() {
        out.violations.push(mk("impl_vs_model", "", TIE_M, &globs, paths, format!("model reply {:?}", reply)));
        return out;
    }
    for (pi, p) in paths.iter().enumerate() {
        if !quiet {
            rep.eval();
        }
        let os = OsStr::from_bytes(p);
        let iset = set.matches(os);
        let ione: Vec<bool> = matchers.iter().map(|m| m.is_match(os)).collect();
        let iany = set.is_match(os);
        // the Candidate API (one prepared path reused for the set and for every matcher) must say the same
        let cand = Candidate::new(os);
        let cset = set.matches_candidate(&cand);
        let cany = set.is_match_candidate(&cand);
        let cone: Vec<bool> = matchers.iter().map(|m| m.is_match_candidate(&cand)).collect();
        let want: Vec<usize> = (0..ione.len()).filter(|&i| ione[i]).collect();
        if cset != iset || cany != iany || cone != ione {
            out.violations.push(mk("impl_vs_spec", "", "Candidate API (matches_candidate / is_match_candidate with one reused Candidate) vs the path API", &globs, &[p.clone()], format!("path {:?}: matches_candidate [{}] vs matches [{}], is_match_candidate {} vs {}, per glob {:?} vs {:?}", show(p), idx_list(&cset), idx_list(&iset), cany, iany, cone, ione)));
        }
        let f: Vec<&str> = per[pi].split('|').collect();
        if f.len() != 5 {
            out.violations.push(mk("impl_vs_model", "", TIE_M, &globs, &[p.clone()], format!("model reply {:?}", per[pi])));
            continue;
        }
        let (mset, mone, mstrat, mdoc, mdots) = (f[0], f[1], f[2], f[3], f[4] == "1");
        debug_assert_eq!(mdots, dots_class(p));
        let ibits: String = ione.iter().map(|&b| if b { '1' } else { '0' }).collect();
        if !quiet {
            if !want.is_empty() {
                rep.branch("path:some-glob-matches");
                if want.len() < globs.len() {
                    rep.nontrivial(&format!("{}|{}", case_line(&globs, &[]), hex(p)));
                }
            }
            if mdots {
                rep.branch("path:last-component-dots");
            }
            if p.last() == Some(&b'.') {
                rep.branch("path:ends-in-dot");
            }
            if std::str::from_utf8(p).is_err() {
                rep.branch("path:not-utf8");
            }
        }
        // the property, sentence 1, on the real code
        if iset != want || iany != !want.is_empty() {
            // `last-component-dot-or-dotdot` is attributed only when its mechanism is at work for THIS path and set:
            // the last component is '.' or '..' (file_name() is None), the set answers with a SUBSET of the
            // individually matching globs, every missing glob sits in one of the three strategies that look at the
            // basename / extension (BasenameLiteral, Extension, RequiredExtension), is_match is consistent with the
            // set's own answer, and the model (which mirrors file_name) predicts exactly the set's answer
            let missing_ok = iset.iter().all(|i| want.contains(i))
                && want.iter().filter(|i| !iset.contains(i)).all(|&i| matches!(strat_names.get(i).map(|s| s.as_str()), Some("BasenameLiteral") | Some("Extension") | Some("RequiredExtension")));
            let class = if dots_class(p) && missing_ok && iany == !iset.is_empty() && idx_list(&iset) == mset { "last-component-dot-or-dotdot" } else { "" };
            if !quiet {
                if class.is_empty() {
                    rep.branch("class:none:unclassified-deviation");
                } else {
                    rep.branch(&format!("class:{}:attributed", class));
                }
            }
            out.violations.push(mk(
                "impl_vs_spec",
                class,
                TIE_SET,
                &globs,
                &[p.clone()],
                format!(
                    "path {:?}: GlobSet::matches = [{}], is_match = {}, but the globs matching individually are [{}] ({})",
                    show(p),
                    idx_list(&iset),
                    iany,
                    idx_list(&want),
                    globs.iter().map(|g| format!("{:?}/{}", g.text, g.bits())).collect::<Vec<_>>().join(" ")
                ),
            ));
        }
        // correspondence
        if ibits != mone {
            out.violations.push(mk("impl_vs_model", "", TIE_M, &globs, &[p.clone()], format!("path {:?}: is_match per glob impl {} model {}", show(p), ibits, mone)));
        }
        if idx_list(&iset) != mset {
            out.violations.push(mk("impl_vs_model", "", TIE_M, &globs, &[p.clone()], format!("path {:?}: GlobSet::matches impl [{}] model [{}]", show(p), idx_list(&iset), mset)));
        }
        // documented syntax
        for i in 0..globs.len() {
            if !doc_ok[i] {
                continue;
            }
            let d = mdoc.as_bytes()[i] == b'1';
            if d != ione[i] {
                out.violations.push(mk(
                    "impl_vs_spec",
                    "",
                    TIE_DOC,
                    &[globs[i].clone()],
                    &[p.clone()],
                    format!("glob {:?} opts(ci,ls,be,ea)={} path {:?}: is_match = {}, documented syntax says {}", globs[i].text, globs[i].bits(), show(p), ione[i], d),
                ));
            }
            if d != (mone.as_bytes()[i] == b'1') {
                out.violations.push(mk("model_vs_spec", "", "theorem C12_doc contradicted", &[globs[i].clone()], &[p.clone()], format!("glob {:?} path {:?}: model {} doc {}", globs[i].text, show(p), mone, mdoc)));
            }
        }
        // theorems about the model (never expected to fire)
        if !mdots {
            let mwant: Vec<usize> = (0..mone.len()).filter(|&i| mone.as_bytes()[i] == b'1').collect();
            if idx_list(&mwant) != mset || mstrat != mone {
                out.violations.push(mk("model_vs_spec", "", "theorem C12_set / strategy_eq_regex contradicted", &globs, &[p.clone()], format!("path {:?}: model set [{}] single {} strat {}", show(p), mset, mone, mstrat)));
            }
        }
    }
    out
}

/// One step of an API history: which `*_into` entry point, how the set is made, its globs, the path.
#[derive(Clone)]
struct Step {
    api: char,  // 'i' = matches_into, 'c' = matches_candidate_into
    ctor: char, // 'b' = GlobSetBuilder (also with no glob), 'e' = GlobSet::empty(), 'd' = GlobSet::default()
    globs: Vec<G>,
    path: Vec<u8>,
}

fn hist_line(steps: &[Step]) -> String {
    let v: Vec<String> = steps
        .iter()
        .map(|s| {
            let g: Vec<String> = s.globs.iter().map(|g| g.enc()).collect();
            format!("{}|{}|{}|{}", s.api, s.ctor, if g.is_empty() { "-".to_string() } else { g.join(",") }, if s.path.is_empty() { "-".to_string() } else { hex(&s.path) })
        })
        .collect();
    format!("hist {}", v.join(" "))
}

fn parse_hist(line: &str) -> Option<Vec<Step>> {
    let mut it = line.split_whitespace();
    if it.next()? != "hist" {
        return None;
    }
    let mut steps = vec![];
    for w in it {
        let f: Vec<&str> = w.split('|').collect();
        if f.len() != 4 || f[0].len() != 1 || f[1].len() != 1 {
            return None;
        }
        let globs: Option<Vec<G>> = if f[2] == "-" { Some(vec![]) } else { f[2].split(',').map(G::dec).collect() };
        let path = if f[3] == "-" { vec![] } else { unhex(f[3])? };
        steps.push(Step { api: f[0].chars().next()?, ctor: f[1].chars().next()?, globs: globs?, path });
    }
    Some(steps)
}

/// Runs a history with ONE `Vec<usize>` handed to every call (the documented way to use the `*_into` API) and,
/// in parallel, the model with its own buffer threaded through `matchesCandidateInto`.
fn run_hist(steps: &[Step], drv: &mut Driver, rep: &mut Report, quiet: bool) -> Vec<Violation> {
    let mut out = vec![];
    let mut buf: Vec<usize> = vec![];
    let mut mbuf: String = String::new(); // the model's buffer, as the driver printed it ("" = empty)
    for (k, st) in steps.iter().enumerate() {
        let case = hist_line(&steps[..=k]);
        let mk = |kind: &str, class: &str, tie: &str, detail: String| Violation { kind: kind.into(), class: class.into(), tie: tie.into(), case: case.clone(), detail };
        // only globs that build and whose printed regex is valid take part (the others are the business of run_case)
        let mut globs: Vec<G> = vec![];
        let mut built: Vec<Glob> = vec![];
        if st.ctor == 'b' {
            for g in &st.globs {
                if let Ok(b) = g.build() {
                    let m = drv.ask(&format!("c12.parse {}", g.sx()));
                    let f: Vec<&str> = m.split(' ').collect();
                    if f.len() == 7 && f[0] == "ok" && f[4] == "1" {
                        globs.push(g.clone());
                        built.push(b);
                    }
                }
            }
        }
        let set = match st.ctor {
            'e' => GlobSet::empty(),
            'd' => GlobSet::default(),
            _ => {
                let mut sb = GlobSetBuilder::new();
                for b in &built {
                    sb.add(b.clone());
                }
                match sb.build() {
                    Ok(s) => s,
                    Err(_) => continue,
                }
            }
        };
        let os = OsStr::from_bytes(&st.path);
        let before = buf.clone();
        if st.api == 'c' {
            set.matches_candidate_into(&Candidate::new(os), &mut buf);
        } else {
            set.matches_into(os, &mut buf);
        }
        let fresh = set.matches(os);
        let want: Vec<usize> = built.iter().enumerate().filter(|(_, b)| b.compile_matcher().is_match(os)).map(|(i, _)| i).collect();
        let gsx: Vec<String> = globs.iter().map(|g| g.sx()).collect();
        let bsx = if mbuf.is_empty() { String::new() } else { format!(" {}", mbuf.replace(',', " ")) };
        let m = drv.ask(&format!("c12.into (buf{}) (globs {}) {}", bsx, gsx.join(" "), hex(&st.path)).replace("(globs )", "(globs)"));
        if !quiet {
            rep.eval();
            rep.branch(&format!("history:step:{}:{}", if st.api == 'c' { "matches_candidate_into" } else { "matches_into" }, match st.ctor { 'e' => "GlobSet::empty", 'd' => "Default", _ => if globs.is_empty() { "builder-without-globs" } else { "builder" } }));
            if set.is_empty() && !before.is_empty() {
                rep.branch("history:empty-set-after-non-empty-answer");
            }
            if !before.is_empty() && buf != before {
                rep.branch("history:buffer-replaced");
            }
        }
        let class = if dots_class(&st.path) { "last-component-dot-or-dotdot" } else { "" };
        if buf != fresh {
            out.push(mk("impl_vs_spec", "", TIE_INTO, format!("step {} ({} globs, path {:?}): the reused Vec holds [{}] after the call (it held [{}] before), a fresh matches() gives [{}]", k, built.len(), show(&st.path), idx_list(&buf), idx_list(&before), idx_list(&fresh))));
        }
        if buf != want && fresh == want {
            // a stale buffer is never the dots class's doing
            let _ = class;
            out.push(mk("impl_vs_spec", "", TIE_SET, format!("step {} path {:?}: the reused Vec holds [{}], the globs matching individually are [{}]", k, show(&st.path), idx_list(&buf), idx_list(&want))));
        }
        match m.strip_prefix("ok ") {
            Some(mb) => {
                if mb != idx_list(&buf) {
                    out.push(mk("impl_vs_model", "", TIE_INTO, format!("step {} path {:?}: the reused Vec holds [{}] (before: [{}]), the model's buffer holds [{}]", k, show(&st.path), idx_list(&buf), idx_list(&before), mb)));
                }
                mbuf = if mb == "-" { String::new() } else { mb.to_string() };
            }
            None => out.push(mk("impl_vs_model", "", TIE_INTO, format!("model reply {:?}", m))),
        }
        if !out.is_empty() {
            break;
        }
    }
    out
}

fn run_hist_and_report(steps: &[Step], drv: &mut Driver, rep: &mut Report) {
    let vs = run_hist(steps, drv, rep, false);
    let mut seen: Vec<(String, String)> = vec![];
    for v in vs {
        let key = (v.kind.clone(), v.class.clone());
        if seen.contains(&key) {
            continue;
        }
        seen.push(key);
        // shrink: drop steps from the front while the same kind of violation remains
        let mut best = v.clone();
        if let Some(mut cur) = parse_hist(&v.case) {
            loop {
                if cur.len() <= 1 {
                    break;
                }
                let cand: Vec<Step> = cur[1..].to_vec();
                match run_hist(&cand, drv, rep, true).into_iter().find(|x| x.kind == v.kind && x.class == v.class) {
                    Some(b) => {
                        best = b;
                        cur = cand;
                    }
                    None => break,
                }
            }
        }
        rep.violation(best);
    }
}

fn gen_hist(rng: &mut Rng) -> Vec<Step> {
    let n = rng.range(2, 7);
    let mut steps = vec![];
    // a common pool of paths so that consecutive sets tend to answer non-trivially
    let pool_globs: Vec<G> = (0..4).map(|_| gen_glob(rng)).collect();
    let pool = gen_paths(rng, &pool_globs, 8);
    for _ in 0..n {
        let api = if rng.chance(1, 2) { 'i' } else { 'c' };
        let (ctor, globs) = match rng.below(8) {
            0 => ('e', vec![]),
            1 => ('d', vec![]),
            2 => ('b', vec![]),
            _ => {
                let k = rng.range(1, 4);
                ('b', (0..k).map(|_| if rng.chance(1, 2) { rng.pick(&pool_globs).clone() } else { gen_glob(rng) }).collect())
            }
        };
        let path = if pool.is_empty() { b"a".to_vec() } else { rng.pick(&pool).clone() };
        steps.push(Step { api, ctor, globs, path });
    }
    steps
}

/// The documentation's sentences about characters — "`?` matches any single character", "`[ab]` matches `a` or `b`
/// where `a` and `b` are characters" — on characters beyond ASCII (Spec.GlobDoc.docOneChar): globs `?` and `[…]`
/// listing characters from a small pool, paths that are one character.
fn run_uchar(rng: &mut Rng, drv: &mut Driver, rep: &mut Report) {
    const POOL: &[char] = &['a', 'b', 'é', 'ß', '日', '😀', '/'];
    let ls = rng.chance(1, 2);
    let ci = false;
    let any = rng.chance(1, 4);
    let members: Vec<char> = if any { vec![] } else { (0..rng.range(1, 3)).map(|_| *rng.pick(&POOL[..6])).collect() };
    let text: String = if any { "?".into() } else { format!("[{}]", members.iter().collect::<String>()) };
    let g = G { ci, ls, be: true, ea: false, text: text.clone() };
    let b = match g.build() {
        Ok(b) => b,
        Err(_) => return,
    };
    let m = b.compile_matcher();
    for &ch in POOL {
        let p = ch.to_string().into_bytes();
        rep.eval();
        let imp = m.is_match(OsStr::from_bytes(&p));
        let req = if any {
            format!("c12.uchar {} any {}", ls as u8, hex(&p))
        } else {
            format!("c12.uchar {} (members {}) {}", ls as u8, members.iter().map(|c| (*c as u32).to_string()).collect::<Vec<_>>().join(" "), hex(&p))
        };
        let doc = drv.ask(&req) == "1";
        if imp != doc {
            // `non-ascii-char-handled-as-bytes`: attributed only when the mechanism is at work — the character in
            // question (the path's, or a listed one) is beyond ASCII, and the model (which prints class members and `?`
            // byte-wise, like glob.rs) predicts the real answer
            let nonascii = !ch.is_ascii() || members.iter().any(|c| !c.is_ascii());
            let reply = drv.ask(&format!("c12.set (globs {}) (paths {})", g.sx(), hex(&p)));
            let model_one = reply.split_once(' ').map(|x| x.1.split('|').nth(1).unwrap_or("").to_string()).unwrap_or_default();
            let model_pred = model_one == if imp { "1" } else { "0" };
            let class = if nonascii && model_pred { "non-ascii-char-handled-as-bytes" } else { "" };
            rep.branch(&if class.is_empty() { "class:none:unclassified-deviation".to_string() } else { format!("class:{}:attributed", class) });
            rep.violation(Violation {
                kind: "impl_vs_spec".into(),
                class: class.into(),
                tie: TIE_DOC.into(),
                case: case_line(&[g.clone()], &[p.clone()]),
                detail: format!("glob {:?} path {:?}: is_match = {}, the documentation's reading (characters) says {}", text, show(&p), imp, doc),
            });
            return;
        }
    }
}

/// run, shrink the first violation of each kind a little, report
fn run_and_report(globs: &[G], paths: &[Vec<u8>], drv: &mut Driver, rep: &mut Report) {
    let o = run_case(globs, paths, drv, rep, false);
    let mut seen: Vec<(String, String)> = vec![];
    for v in o.violations {
        let key = (v.kind.clone(), v.class.clone());
        if seen.contains(&key) {
            rep.branch(&format!("violation:{}:{}", v.kind, v.class));
            continue;
        }
        seen.push(key);
        // shrink: the violation's case holds the globs and one path; drop globs, then shorten the path
        let v = match parse_case(&v.case) {
            Some((gs, ps)) if gs.len() > 1 || ps.iter().any(|p| p.len() > 1) => {
                let same = |o: &Outcome, v: &Violation| o.violations.iter().find(|x| x.kind == v.kind && x.class == v.class && x.tie == v.tie).cloned();
                let gs2 = shrink_list(&gs, &mut |cand: &[G]| !cand.is_empty() && same(&run_case(cand, &ps, drv, rep, true), &v).is_some());
                let mut best = same(&run_case(&gs2, &ps, drv, rep, true), &v).unwrap_or(v.clone());
                if ps.len() == 1 {
                    let p2 = shrink_bytes(&ps[0], &mut |cand: &[u8]| same(&run_case(&gs2, &[cand.to_vec()], drv, rep, true), &v).is_some());
                    if let Some(b) = same(&run_case(&gs2, &[p2], drv, rep, true), &v) {
                        best = b;
                    }
                }
                best
            }
            _ => v,
        };
        rep.violation(v);
    }
}

fn main() {
    let args = parse_args();
    let mut drv = Driver::spawn(&args.driver);
    let mut rep = Report::new(
        "C12",
        "one evaluation = one (glob set, path) pair; non-trivial = the path is matched by at least one but not all globs of its set (distinct by set text and path). \
         Globs: token grammar (literals over {a,b,.,/,-,A}, ?, *, **, classes incl. negated/ranges, one level of alternates, escapes), shapes steering all seven strategies, \
         the four option flags per glob; paths: instantiations of the globs and their mutations, strings over {a,b,.,/,-,A} (all of them up to the stated length in the exhaustive stream), longer ones, non-UTF-8 bytes, names ending in '.'. \
         The documented-syntax comparison is made only for globs inside the documented grammar (Spec.GlobDoc.okGlob): ** only as a whole component outside braces, balanced one-level braces with at least one kept branch, \
         no '-' directly after a class range, no '\\' inside a class, ASCII only, the glob is not just '**/'; everything else is still compared set-vs-glob and against the model. \
         API histories: sequences of 2-6 calls of matches_into / matches_candidate_into that all receive the same Vec, over sets built by GlobSetBuilder (also with no glob), GlobSet::empty() and Default; after every call the Vec is compared with a fresh matches(), with the individually matching globs and with the model's threaded buffer.",
    );
    for line in corpus_cases(&args) {
        if let Some(steps) = parse_hist(&line) {
            run_hist_and_report(&steps, &mut drv, &mut rep);
            continue;
        }
        match parse_case(&line) {
            Some((gs, ps)) => run_and_report(&gs, &ps, &mut drv, &mut rep),
            None => rep.notes.push(format!("unparsable corpus case: {}", line)),
        }
    }
    if args.replay.is_none() {
        let mut rng = Rng::new(args.seed);
        let n = args.cases.unwrap_or(if args.thorough { 12000 } else { 900 });
        for i in 0..n {
            let k = rng.range(1, 8);
            let globs: Vec<G> = (0..k).map(|_| gen_glob(&mut rng)).collect();
            let paths = gen_paths(&mut rng, &globs, if args.thorough { 60 } else { 40 });
            if i < 6 {
                rep.sample(case_line(&globs, &paths[..paths.len().min(6)]));
            }
            run_and_report(&globs, &paths, &mut drv, &mut rep);
        }
        // API histories: one Vec reused across matches_into / matches_candidate_into calls, empty sets included
        let nh = if args.thorough { 4000 } else { 400 };
        for i in 0..nh {
            let steps = gen_hist(&mut rng);
            if i < 2 {
                rep.sample(hist_line(&steps));
            }
            run_hist_and_report(&steps, &mut drv, &mut rep);
        }
        // characters beyond ASCII against the documentation's sentences
        for _ in 0..(if args.thorough { 2000 } else { 200 }) {
            run_uchar(&mut rng, &mut drv, &mut rep);
        }
        // exhaustive small scope: every glob of ≤ 3 pieces from a fixed piece alphabet, under the four
        // (literal_separator, case_insensitive) settings, against every path over {a,b,.,/,-,A} up to the bound
        let pieces: &[&str] = if args.thorough {
            &["a", ".", "/", "?", "*", "*.a", "**/", "/**", "[a]", "[!a]", "{a,b}", "A", "\\*"]
        } else {
            &["a", ".", "/", "*", "*.a", "**/", "/**", "[!a]", "{a,.}"]
        };
        let maxlen = if args.thorough { 5 } else { 4 };
        let paths = all_paths(maxlen);
        let mut texts: Vec<String> = vec![String::new()];
        let mut layer: Vec<String> = vec![String::new()];
        for _ in 0..3 {
            let mut next = vec![];
            for t in &layer {
                for p in pieces {
                    next.push(format!("{}{}", t, p));
                }
            }
            texts.extend(next.iter().cloned());
            layer = next;
        }
        let optsets: &[(bool, bool)] = if args.thorough { &[(false, false), (false, true), (true, false), (true, true)] } else { &[(false, true), (true, false)] };
        let mut all: Vec<G> = vec![];
        for t in &texts {
            for &(ci, ls) in optsets {
                all.push(G { ci, ls, be: true, ea: false, text: t.clone() });
            }
        }
        rep.notes.push(format!(
            "exhaustive stream: {} globs (all concatenations of ≤3 pieces from {:?} × {} option settings) × all {} paths over {{a,b,.,/,-,A}} of length ≤ {}",
            all.len(),
            pieces,
            optsets.len(),
            paths.len(),
            maxlen
        ));
        for chunk in all.chunks(8) {
            for pchunk in paths.chunks(800) {
                run_and_report(chunk, pchunk, &mut drv, &mut rep);
            }
        }
        rep.exhaustive = true;
    }
    rep.write(&args);
}
