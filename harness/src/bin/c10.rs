//! C10 — all reporting modes agree with each other.
//!
//! lib : one (pattern, options, file) is searched in-process with every real sink of `grep_printer`
//!       (Standard, Standard -o, JSON, Summary x {Count, CountMatches, PathWithMatch, PathWithoutMatch, Quiet},
//!       with and without stats). The complete event stream is recorded once with a sink that never stops; every
//!       model sink (`Model.Summary.sumSearch`, `Model.Printer.{stdSearch, jsonSearch}`) is run on that stream with
//!       the real matcher's answers and must produce the same bytes / stats / has_match and stop at the same event.
//!       The relations of the property are then checked on the implementation's own outputs.
//! cli : a small tree in the scratch directory searched by the `rg` binary under -c, --count-matches, -o, default,
//!       -l, --files-without-match, -q, --json, --stats (with -i/-w/-x/-v/-U/-m N/--crlf); per-file relations, exit
//!       statuses, stats totals = sums, and the mode normalisations (`-v --count-matches` = `-v -c`, `-o -c` =
//!       `--count-matches`) against `Model.Summary.{normalizeMode, printerFor, exitCode, searchAll}`.
#[path = "../printer_common.rs"]
mod printer_common;
use grep_printer::{JSONBuilder, StandardBuilder, SummaryBuilder, SummaryKind};
use grep_regex::RegexMatcher;
use grep_searcher::{Searcher, Sink, SinkContext, SinkFinish, SinkMatch};
use printer_common::*;
use rgverif_harness::*;
use serde_json::Value;
use std::collections::{BTreeMap, BTreeSet};
use std::io;
use std::panic::{catch_unwind, AssertUnwindSafe};

const ML_COUNT: &str = "multiline-count-counts-matches";
const ML_ONLY: &str = "multiline-only-matching-records";
const ML_PANIC: &str = "multiline-lookahead-cut-match-beyond-block";

fn viol(rep: &mut Report, kind: &str, class: &str, tie: &str, case: &str, detail: String) {
    rep.violation(Violation { kind: kind.into(), class: class.into(), tie: tie.into(), case: case.to_string(), detail });
}

/// a sink that accepts everything (used to record the complete event stream)
struct AllSink;
impl Sink for AllSink {
    type Error = io::Error;
    fn matched(&mut self, _: &Searcher, _: &SinkMatch<'_>) -> Result<bool, io::Error> {
        Ok(true)
    }
    fn context(&mut self, _: &Searcher, _: &SinkContext<'_>) -> Result<bool, io::Error> {
        Ok(true)
    }
    fn finish(&mut self, _: &Searcher, _: &SinkFinish) -> Result<(), io::Error> {
        Ok(())
    }
}

fn stats_str(s: &grep_printer::Stats, printed: Option<u64>) -> String {
    format!(
        "(searches {} with_match {} bytes_searched {} bytes_printed {} matched_lines {} matches {})",
        s.searches(),
        s.searches_with_match(),
        s.bytes_searched(),
        printed.unwrap_or(s.bytes_printed()),
        s.matched_lines(),
        s.matches()
    )
}

const KINDS: [(&str, SummaryKind); 5] = [
    ("count", SummaryKind::Count),
    ("countmatches", SummaryKind::CountMatches),
    ("l", SummaryKind::PathWithMatch),
    ("L", SummaryKind::PathWithoutMatch),
    ("quiet", SummaryKind::Quiet),
];

/// trailing decimal number of a summary line (`path:N\n` or `N\n`)
fn trailing_number(out: &[u8]) -> Option<u64> {
    // (the record terminator is NUL under --null-data)
    let s = std::str::from_utf8(out).ok()?.trim_end_matches(|c: char| c.is_whitespace() || c == '\0');
    let digits: String = s.chars().rev().take_while(|c| c.is_ascii_digit()).collect::<String>().chars().rev().collect();
    digits.parse().ok()
}

fn count_lines(out: &[u8], tb: u8) -> u64 {
    out.iter().filter(|&&b| b == tb).count() as u64
}

/// number of records of *matching* lines in a Standard printer's output: every line, or — when context lines are
/// printed too (then the case has line numbers and no path) — the lines whose line number is followed by `:`
fn count_match_records(out: &[u8], o: &Opts) -> u64 {
    if !o.has_context() {
        return count_lines(out, o.tb());
    }
    split_lines_t(out, o.tb())
        .iter()
        .filter(|(_, l)| {
            let d = l.iter().take_while(|b| b.is_ascii_digit()).count();
            d > 0 && l.get(d) == Some(&b':')
        })
        .count() as u64
}

/// What the JSON match messages of one file show about the mechanisms behind the known-finding classes.
#[derive(Default)]
struct Mech {
    /// a submatch whose text crosses a line terminator (a `\n` before its last byte)
    sub_spans_lines: bool,
    /// an empty submatch
    sub_empty: bool,
    /// `lines` of the match messages that carry no submatch at all
    no_sub_lines: Vec<Vec<u8>>,
    /// their absolute offsets
    no_sub_offs: Vec<usize>,
    /// number of records `-U -o` must print for these messages by its own rule (theorem
    /// `only_matching_multiline_records`): per line of a block, the non-empty intersections of the submatches with
    /// the line without its terminator
    o_pieces: u64,
    /// number of submatches
    subs: u64,
}

fn json_bytes(v: &Value) -> Vec<u8> {
    if let Some(t) = v.get("text").and_then(|t| t.as_str()) {
        return t.as_bytes().to_vec();
    }
    if let Some(b) = v.get("bytes").and_then(|t| t.as_str()) {
        return base64_decode(b.as_bytes()).unwrap_or_default();
    }
    vec![]
}

fn mech_of<'a>(msgs: impl Iterator<Item = &'a Value>, o: &Opts) -> Mech {
    let mut m = Mech::default();
    for v in msgs {
        let subs = v["data"]["submatches"].as_array().cloned().unwrap_or_default();
        let lines = json_bytes(&v["data"]["lines"]);
        m.subs += subs.len() as u64;
        for (ls, l) in split_lines_t(&lines, o.tb()) {
            let le = ls + content_o(o, l).len();
            for sm in &subs {
                let (a, b) = (sm["start"].as_u64().unwrap_or(0) as usize, sm["end"].as_u64().unwrap_or(0) as usize);
                if a.max(ls) < b.min(le) {
                    m.o_pieces += 1;
                }
            }
        }
        if subs.is_empty() {
            m.no_sub_lines.push(json_bytes(&v["data"]["lines"]));
            m.no_sub_offs.push(v["data"]["absolute_offset"].as_u64().unwrap_or(0) as usize);
        }
        for sm in subs {
            let t = json_bytes(&sm["match"]);
            if t.is_empty() {
                m.sub_empty = true;
            }
            if t.len() >= 2 && t[..t.len() - 1].contains(&o.tb()) {
                m.sub_spans_lines = true;
            }
        }
    }
    m
}

/// `multiline-count-counts-matches`, mechanism for "--count differs from the printed lines": effective multi-line,
/// not inverted, and --count really is the match count (it equals --count-matches).
fn class_count_vs_lines(rep: &mut Report, ml: bool, o: &Opts, count: u64, cm: u64) -> &'static str {
    if ml && !o.invert && count == cm {
        rep.branch(&format!("class:{}:attributed", ML_COUNT));
        ML_COUNT
    } else {
        ""
    }
}

/// `multiline-count-counts-matches`, mechanism for "--count-matches differs from what a line-counting sink reports
/// under -m N": effective multi-line and the Summary sink reached its limit by counting matches (`cm >= N`) while
/// the other sink counts blocks and therefore goes on (`other >= cm`).
fn class_limit_by_matches(rep: &mut Report, ml: bool, o: &Opts, cm: u64, other: u64) -> &'static str {
    match o.max {
        Some(n) if ml && !o.invert && n > 0 && cm >= n && other >= cm => {
            rep.branch(&format!("class:{}:attributed", ML_COUNT));
            ML_COUNT
        }
        _ => "",
    }
}

/// `multiline-only-matching-records` (a match spanning lines or an empty match really occurs in the file) /
/// (line-oriented searches: no recorded class any more) for "--count-matches differs from the number of -o records".
fn class_cm_vs_o(rep: &mut Report, ml: bool, o: &Opts, m: &RegexMatcher, input: &[u8], mech: &Mech, cm: u64, orec: u64) -> &'static str {
    if ml {
        // -o and --json stop at the same block under -m, so the JSON messages tell exactly how many records the
        // line-by-line rule of `-U -o` yields; the class is at work iff that rule explains the number printed and
        // it differs from the number of matches because a match spans lines, is empty, or lies in a terminator
        if orec == mech.o_pieces && mech.o_pieces != mech.subs {
            if cm == mech.subs {
                rep.branch(&format!("class:{}:attributed", ML_ONLY));
                return ML_ONLY;
            }
            return class_limit_by_matches(rep, ml, o, cm, mech.subs);
        }
        if orec == mech.o_pieces && cm != mech.subs {
            return class_limit_by_matches(rep, ml, o, cm, mech.subs);
        }
        return "";
    }
    // (line-oriented: the two "reported by the searcher, no match for the printers" classes — F1 and the buffer-context
    // one — were repaired by 4165f41; a line without submatch is a new violation now)
    let _ = (o, m, input, mech, cm, orec);
    ""
}

// ---------------------------------------------------------------- lib

fn run_lib(case: &str, o: &Opts, drv: &mut Driver, rep: &mut Report) {
    rep.eval();
    let matcher = match o.matcher() {
        Ok(m) => m,
        Err(_) => {
            rep.branch("pattern-rejected");
            return;
        }
    };
    let mut searcher = o.searcher();
    let ml = searcher.multi_line_with_matcher(&matcher);
    rep.branch(if ml { "lib:multi-line" } else { "lib:single-line" });
    if o.invert {
        rep.branch("lib:invert");
    }
    if o.max.is_some() {
        rep.branch("lib:max-count");
    }
    let mut nontrivial = false;
    for (i, input) in o.files.iter().enumerate() {
        let path = path_of(i);
        // ---- the complete event stream
        let mut full = Trace::default();
        if run_search(o, &mut searcher, &matcher, input, AllSink, &mut full).is_err() {
            rep.branch("search-error");
            return;
        }
        let n_matched = full.matched_count();
        if n_matched > 0 && n_matched < split_lines_t(input, o.tb()).len() {
            nontrivial = true;
        }
        if input.last().map_or(false, |&b| b != o.tb()) {
            rep.branch("lib:no-final-terminator");
        }
        let tables = match tables_for(drv, "c09.cuts", o, ml, &matcher, &full, true, o.invert) {
            Ok(t) => t,
            Err(e) => {
                viol(rep, "impl_vs_model", "", "driver c09.cuts", case, e);
                return;
            }
        };
        let sc = sc_sx(o, ml);
        let bufs = bufs_sx(&full);
        let evs = evs_sx(&full, &tables);
        let bc_full = full.byte_count.unwrap_or(0);
        // the spec's counts over the complete stream
        let counts = drv.ask(&format!("c10.counts {} {} {}", sc, bufs, evs));
        let s_matched: u64 = field_word(&counts, "matched").and_then(|x| x.parse().ok()).unwrap_or(u64::MAX);
        let s_sub: u64 = field_word(&counts, "submatches").and_then(|x| x.parse().ok()).unwrap_or(u64::MAX);
        let s_per: Vec<u64> = field(&counts, "per").unwrap_or("").split(' ').filter_map(|x| x.parse().ok()).collect();
        let s_guard: Vec<u64> = field(&counts, "guard")
            .and_then(|g| g.split(';').next())
            .unwrap_or("")
            .split(' ')
            .filter_map(|x| x.parse().ok())
            .collect();

        // ---- Summary sinks
        let mut sum_out: BTreeMap<String, Vec<u8>> = BTreeMap::new();
        let mut sum_has: BTreeMap<String, bool> = BTreeMap::new();
        let mut sum_stats: BTreeMap<String, Option<(u64, u64)>> = BTreeMap::new();
        // the model's own answers (for model-vs-spec)
        let mut model_count: Option<u64> = None;
        let mut model_cm: Option<u64> = None;
        for (kname, kind) in KINDS.iter() {
            for stats in [false, true] {
                let mut printer = SummaryBuilder::new()
                    .kind(*kind)
                    .stats(stats)
                    .path(o.with_path)
                    .max_matches(o.max)
                    .exclude_zero(true)
                    .path_terminator(if o.null { Some(0) } else { None })
                    .build_no_color(vec![]);
                let mut trace = Trace::default();
                let (has, st, st_pair);
                {
                    let mut sink = printer.sink_with_path(&matcher, &path);
                    if run_search(o, &mut searcher, &matcher, input, &mut sink, &mut trace).is_err() {
                        rep.branch("search-error");
                        return;
                    }
                    has = sink.has_match();
                    st = sink.stats().map(|s| stats_str(s, None));
                    st_pair = sink.stats().map(|s| (s.matches(), s.matched_lines()));
                }
                let out = printer.into_inner().into_inner();
                let key = format!("{}{}", kname, if stats { "+stats" } else { "" });
                // PathWith(out)Match always shows the path; Count kinds follow `path`
                let shows_path = o.with_path || *kname == "l" || *kname == "L";
                let req = format!(
                    "c10.summary {} (sum (kind {}) (stats {}) (path {}) (max {}) (exzero 1) (pterm {})) {} {} {}",
                    sc,
                    kname,
                    stats as u8,
                    opt_hex(if shows_path { Some(path.as_bytes()) } else { None }),
                    o.max.map_or("~".to_string(), |m| m.to_string()),
                    if o.null { "0" } else { "~" },
                    bufs,
                    evs,
                    trace.byte_count.unwrap_or(bc_full)
                );
                let reply = drv.ask(&req);
                let tie = "grep_printer::Summary (SummarySink::{begin,matched,finish}) vs Model.Summary.sumSearch";
                let m_out = field_word(&reply, "out").unwrap_or("?");
                let m_has = field_word(&reply, "hasmatch").unwrap_or("?");
                let m_consumed = field_word(&reply, "consumed").unwrap_or("?");
                let m_stats = field(&reply, "stats").unwrap_or("?");
                let i_stats = st.clone().unwrap_or_else(|| "~".into());
                if m_out != hex(&out) || m_has != if has { "1" } else { "0" } || m_stats != i_stats {
                    viol(
                        rep,
                        "impl_vs_model",
                        "",
                        tie,
                        case,
                        format!(
                            "file {} kind {}: impl out {:?} has_match {} stats {}; model {}",
                            i,
                            key,
                            show(&out),
                            has,
                            i_stats,
                            reply
                        ),
                    );
                } else if m_consumed != trace.evs.len().to_string() {
                    viol(
                        rep,
                        "impl_vs_model",
                        "",
                        tie,
                        case,
                        format!("file {} kind {}: implementation consumed {} events, model {}", i, key, trace.evs.len(), m_consumed),
                    );
                }
                if key == "count" {
                    model_count = field_word(&reply, "mc").and_then(|x| x.parse().ok());
                }
                if key == "countmatches" {
                    model_cm = m_stats.rsplit("matches ").next().and_then(|x| x.trim_end_matches(')').parse().ok());
                }
                rep.branch(&format!("sum:{}", key));
                sum_out.insert(key.clone(), out);
                sum_has.insert(key.clone(), has);
                sum_stats.insert(key, st_pair);
            }
        }

        // ---- Standard (plain, and -o), JSON
        let mut std_outs = vec![];
        let mut std_has = false;
        let mut std_stats: Option<(u64, u64)> = None;
        for only in [false, true] {
            let mut o2 = o.clone();
            o2.only = only;
            o2.stats = true;
            let mut b = StandardBuilder::new();
            b.path(o.with_path).only_matching(only).max_matches(o.max).stats(true).path_terminator(if o.null { Some(0) } else { None });
            let mut printer = b.build_no_color(vec![]);
            let mut trace = Trace::default();
            let st;
            {
                let mut sink = printer.sink_with_path(&matcher, &path);
                if run_search(o, &mut searcher, &matcher, input, &mut sink, &mut trace).is_err() {
                    rep.branch("search-error");
                    return;
                }
                if !only {
                    std_has = sink.has_match();
                    std_stats = sink.stats().map(|s| (s.matches(), s.matched_lines()));
                }
                st = sink.stats().map(|s| stats_str(s, None)).unwrap_or_else(|| "~".into());
            }
            let out = printer.into_inner().into_inner();
            let req = format!(
                "c09.standard {} {} (w 0 0) {} {} {}",
                sc,
                std_sx(&o2, Some(path.as_bytes())),
                bufs,
                evs,
                trace.byte_count.unwrap_or(bc_full)
            );
            let reply = drv.ask(&req);
            let m_out = field_word(&reply, "out").unwrap_or("?");
            let m_conts = field_word(&reply, "conts").unwrap_or("?");
            let m_stats = field(&reply, "stats").and_then(|r| r.split(" spec=").next()).unwrap_or("?");
            let tie = "grep_printer::Standard vs Model.Printer.stdSearch (same event stream as the Summary/JSON models)";
            if m_out != hex(&out) || m_stats != st {
                viol(
                    rep,
                    "impl_vs_model",
                    "",
                    tie,
                    case,
                    format!("file {} only_matching={}: impl {:?} {}; model {:?} {}", i, only, show(&out), st, show(&unhex(m_out).unwrap_or_default()), m_stats),
                );
            } else if trace.begin == Some(true) && m_conts != trace.conts() {
                viol(rep, "impl_vs_model", "", tie, case, format!("file {} only_matching={}: continue flags impl {} model {}", i, only, trace.conts(), m_conts));
            }
            std_outs.push(out);
        }
        let mut json_msgs: Vec<Value> = vec![];
        let mut json_panicked = false;
        {
            let mut printer = JSONBuilder::new().max_matches(o.max).build(vec![]);
            let mut trace = Trace::default();
            let res = catch_unwind(AssertUnwindSafe(|| {
                let mut sink = printer.sink_with_path(&matcher, &path);
                run_search(o, &mut searcher, &matcher, input, &mut sink, &mut trace)
            }));
            if res.is_err() {
                json_panicked = true;
                searcher = o.searcher();
                rep.branch("json:panic");
                viol(
                    rep,
                    "impl_vs_spec",
                    if ml { ML_PANIC } else { "" },
                    "JSON printer must report every delivered line",
                    case,
                    format!("file {}: JSONSink::matched panicked", i),
                );
            } else {
                let out = printer.into_inner();
                for l in out.split(|&b| b == b'\n').filter(|l| !l.is_empty()) {
                    if let Ok(v) = serde_json::from_slice::<Value>(l) {
                        json_msgs.push(v);
                    }
                }
            }
        }
        if json_panicked {
            continue;
        }

        // ---- the relations, on the implementation's own outputs
        let count = trailing_number(&sum_out["count"]).unwrap_or(0);
        let count_matches = trailing_number(&sum_out["countmatches"]).unwrap_or(0);
        let std_lines = count_match_records(&std_outs[0], o);
        let o_records = count_match_records(&std_outs[1], o);
        let json_matches: Vec<&Value> = json_msgs.iter().filter(|m| m["type"] == "match").collect();
        let json_subs: u64 = json_matches.iter().map(|m| m["data"]["submatches"].as_array().map_or(0, |a| a.len()) as u64).sum();
        let tie_rel = "relations between the outputs of the reporting modes (property C10)";
        let mech = mech_of(json_matches.iter().copied(), o);
        let fail = |rep: &mut Report, class: &str, d: String| {
            viol(rep, "impl_vs_spec", class, tie_rel, case, format!("file {} ({:?}): {}", i, show(input), d));
        };
        // R1: --count = number of matching lines standard mode prints
        if count != std_lines {
            let class = class_count_vs_lines(rep, ml, o, count, count_matches);
            fail(rep, class, format!("--count {} but standard mode prints {} matching lines", count, std_lines));
        }
        // R2: --count-matches = number of -o records = number of JSON submatches (not under -v: normalised to --count)
        if !o.invert {
            if count_matches != json_subs {
                let class = class_limit_by_matches(rep, ml, o, count_matches, json_subs);
                fail(rep, class, format!("--count-matches {} but JSON reports {} submatches", count_matches, json_subs));
            }
            if count_matches != o_records {
                let class = class_cm_vs_o(rep, ml, o, &matcher, input, &mech, count_matches, o_records);
                fail(rep, class, format!("--count-matches {} but -o prints {} records", count_matches, o_records));
            }
            // R3: every reported matching line has at least one submatch
            for (l, &off) in mech.no_sub_lines.iter().zip(&mech.no_sub_offs) {
                let _ = off;
                fail(rep, "", format!("JSON match message without submatch: {:?}", show(l)));
            }
        }
        // R4: -l iff count > 0; --files-without-match is the complement
        let l_listed = !sum_out["l"].is_empty();
        let big_l_listed = !sum_out["L"].is_empty();
        if l_listed != (count > 0) {
            fail(rep, "", format!("-l lists the file: {}, --count {}", l_listed, count));
        }
        if big_l_listed == l_listed {
            fail(rep, "", format!("-l lists: {}, --files-without-match lists: {}", l_listed, big_l_listed));
        }
        // R5: --quiet has the same "matched" status as standard mode
        if sum_has["quiet"] != std_has {
            fail(rep, "", format!("quiet has_match {} standard has_match {}", sum_has["quiet"], std_has));
        }
        // R6: stats agree between the sinks that compute them (matches, matched lines)
        let json_end = json_msgs.iter().find(|m| m["type"] == "end");
        let json_pair = json_end.map(|e| (e["data"]["stats"]["matches"].as_u64().unwrap_or(0), e["data"]["stats"]["matched_lines"].as_u64().unwrap_or(0)));
        if let (Some(a), Some(b)) = (std_stats, json_pair) {
            if a != b {
                fail(rep, "", format!("stats (matches, matched_lines): standard {:?} json {:?}", a, b));
            }
        }
        if let (Some(Some(a)), Some(b)) = (sum_stats.get("count+stats"), std_stats) {
            if *a != b && o.max.is_none() {
                fail(rep, "", format!("stats (matches, matched_lines): summary {:?} standard {:?}", a, b));
            }
        }
        // model vs spec: the counts the theorems speak about (no limit, single-line: every event is consumed)
        if !ml && o.max.is_none() {
            if model_count != Some(s_matched) {
                viol(rep, "model_vs_spec", "", "theorem count_eq_lines", case, format!("file {}: model count {:?} spec matchedCount {}", i, model_count, s_matched));
            }
            if !o.invert && model_cm != Some(s_sub) {
                viol(rep, "model_vs_spec", "", "theorem countmatches_eq_o_eq_json", case, format!("file {}: model count-matches {:?} spec subMatchTotal {}", i, model_cm, s_sub));
            }
            if !o.invert && s_per.iter().zip(s_guard.iter()).any(|(&n, &g)| n == 0 && g == 1) {
                viol(rep, "model_vs_spec", "", "theorem matched_has_submatch", case, format!("file {}: per-event submatch counts {:?}", i, s_per));
            }
        }
    }
    if nontrivial {
        rep.nontrivial(case);
    }
}

// ---------------------------------------------------------------- cli

fn base_args(o: &Opts) -> Vec<String> {
    let mut a: Vec<String> = vec!["--no-config".into(), "--color=never".into(), "--no-ignore".into(), "-Enone".into()];
    let mut f = |on: bool, s: &str| {
        if on {
            a.push(s.to_string())
        }
    };
    f(o.icase, "-i");
    f(o.word && !o.xline, "-w");
    f(o.xline, "-x");
    f(o.crlf, "--crlf");
    f(o.nulldata, "--null-data");
    f(o.text, "-a");
    f(o.multi, "-U");
    f(o.dotall, "--multiline-dotall");
    f(o.invert, "-v");
    if let Some(m) = o.max {
        a.push(format!("-m{}", m));
    }
    // context flags must not change what any mode reports about matches
    if o.passthru {
        a.push("--passthru".into());
    } else {
        if o.before > 0 {
            a.push(format!("-B{}", o.before));
        }
        if o.after > 0 {
            a.push(format!("-A{}", o.after));
        }
    }
    // a third of the cases each: single-threaded `search` via -j1, via --sort path, and `search_parallel`
    match fnv(o.pat.as_bytes()) % 3 {
        0 => a.push("-j1".into()),
        1 => a.push("--sort=path".into()),
        _ => {}
    }
    a
}

struct Run {
    stdout: Vec<u8>,
    code: i32,
    panicked: bool,
}

fn rg(rgbin: &std::path::Path, dir: &std::path::Path, o: &Opts, extra: &[&str]) -> Option<Run> {
    let mut cmd = std::process::Command::new(rgbin);
    cmd.current_dir(dir).args(base_args(o)).args(extra).arg("-e").arg(&o.pat).arg("d0").arg("d1");
    let out = run_with_timeout(&mut cmd, &dir.join(".out"), 20)?;
    let stderr = String::from_utf8_lossy(&out.stderr);
    Some(Run { stdout: out.stdout, code: out.code, panicked: stderr.contains("panicked") || out.timed_out })
}

/// `path\0rest\n` records -> rest per path (under --null-data the records end with NUL as well: `path\0rest\0`)
fn per_path_t(out: &[u8], tb: u8) -> BTreeMap<String, Vec<Vec<u8>>> {
    let mut m: BTreeMap<String, Vec<Vec<u8>>> = BTreeMap::new();
    if tb == 0 {
        let toks: Vec<&[u8]> = out.split(|&b| b == 0).collect();
        for pair in toks.chunks(2) {
            if pair.len() == 2 {
                m.entry(String::from_utf8_lossy(pair[0]).to_string()).or_default().push(pair[1].to_vec());
            }
        }
        return m;
    }
    for (_, l) in split_lines(out) {
        if let Some(z) = l.iter().position(|&b| b == 0) {
            let p = String::from_utf8_lossy(&l[..z]).to_string();
            m.entry(p).or_default().push(l[z + 1..].to_vec());
        }
    }
    m
}

fn nul_list(out: &[u8]) -> BTreeSet<String> {
    out.split(|&b| b == 0).filter(|p| !p.is_empty()).map(|p| String::from_utf8_lossy(p).to_string()).collect()
}

fn stats_block(out: &[u8]) -> BTreeMap<String, u64> {
    let mut m = BTreeMap::new();
    for l in String::from_utf8_lossy(out).lines() {
        for key in ["matches", "matched lines", "files contained matches", "files searched", "bytes searched"] {
            if let Some(n) = l.strip_suffix(&format!(" {}", key)) {
                if let Ok(n) = n.trim().parse::<u64>() {
                    m.insert(key.to_string(), n);
                }
            }
        }
    }
    m
}

fn run_cli(case: &str, o: &Opts, args: &Args, drv: &mut Driver, rep: &mut Report) {
    rep.eval();
    let rgbin = match &args.rg {
        Some(p) => p.clone(),
        None => {
            rep.branch("cli:no-rg");
            return;
        }
    };
    let matcher: RegexMatcher = match o.matcher() {
        Ok(m) => m,
        Err(_) => {
            rep.branch("pattern-rejected");
            return;
        }
    };
    let ml = o.searcher().multi_line_with_matcher(&matcher);
    let dir = args.scratch.join("c10");
    let _ = std::fs::remove_dir_all(&dir);
    std::fs::create_dir_all(dir.join("d0")).unwrap();
    std::fs::create_dir_all(dir.join("d1")).unwrap();
    let mut all: BTreeSet<String> = BTreeSet::new();
    let mut sizes: BTreeMap<String, usize> = BTreeMap::new();
    for (i, input) in o.files.iter().enumerate() {
        let p = path_of(i);
        std::fs::write(dir.join(&p), input).unwrap();
        all.insert(p.clone());
        sizes.insert(p, input.len());
    }
    rep.branch(if ml { "cli:multi-line" } else { "cli:single-line" });
    rep.branch(match fnv(o.pat.as_bytes()) % 3 {
        0 => "cli:single-threaded-j1",
        1 => "cli:single-threaded-sort",
        _ => "cli:parallel",
    });
    let run = |extra: &[&str]| rg(&rgbin, &dir, o, extra);
    // with context lines in the output the matching lines are told apart by their line number field (`N:` vs `N-`)
    let ctx_on = o.has_context();
    if ctx_on {
        rep.branch("cli:context");
    }
    let (std_r, o_r, c_r, cm_r, l_r, bl_r, q_r, j_r, st_r) = match (
        run(&["-H", "--no-heading", "--null", if ctx_on { "-n" } else { "-N" }]),
        run(&["-H", "--no-heading", "--null", if ctx_on { "-n" } else { "-N" }, "-o"]),
        run(&["-c", "-H", "--null"]),
        run(&["--count-matches", "-H", "--null"]),
        run(&["-l", "--null"]),
        run(&["--files-without-match", "--null"]),
        run(&["-q"]),
        run(&["--json"]),
        run(&["-H", "--no-heading", "--null", "-N", "--stats"]),
    ) {
        (Some(a), Some(b), Some(c), Some(d), Some(e), Some(f), Some(g), Some(h), Some(i)) => (a, b, c, d, e, f, g, h, i),
        _ => {
            rep.notes.push("cannot run rg".into());
            return;
        }
    };
    let tie_rel = "relations between rg's reporting modes on one tree (property C10)";
    if [&std_r, &o_r, &c_r, &cm_r, &l_r, &bl_r, &q_r, &j_r, &st_r].iter().any(|r| r.panicked) {
        viol(rep, "impl_vs_spec", if ml { ML_PANIC } else { "" }, tie_rel, case, "rg panicked in one of the modes".into());
        return;
    }
    if o.max == Some(0) {
        // `-m 0`: HiArgs::matches_possible() is false, nothing is searched in any mode
        rep.branch("cli:max-count-0");
        for (name, r) in [("standard", &std_r), ("-o", &o_r), ("-c", &c_r), ("--count-matches", &cm_r), ("-l", &l_r), ("--files-without-match", &bl_r), ("-q", &q_r), ("--json", &j_r)] {
            if !r.stdout.is_empty() || r.code != 1 {
                viol(rep, "impl_vs_spec", "", tie_rel, case, format!("-m 0 with {}: output {:?} exit {}", name, show(&r.stdout), r.code));
            }
        }
        return;
    }
    let only_matching_lines = |m: BTreeMap<String, Vec<Vec<u8>>>| -> BTreeMap<String, Vec<Vec<u8>>> {
        if !ctx_on {
            return m;
        }
        m.into_iter()
            .map(|(p, v)| {
                let v: Vec<Vec<u8>> = v
                    .into_iter()
                    .filter(|r| {
                        let d = r.iter().take_while(|b| b.is_ascii_digit()).count();
                        d > 0 && r.get(d) == Some(&b':')
                    })
                    .collect();
                (p, v)
            })
            .filter(|(_, v)| !v.is_empty())
            .collect()
    };
    let std_pp = only_matching_lines(per_path_t(&std_r.stdout, o.tb()));
    let o_pp = only_matching_lines(per_path_t(&o_r.stdout, o.tb()));
    let num = |m: &BTreeMap<String, Vec<Vec<u8>>>, p: &str| -> u64 {
        m.get(p).and_then(|v| v.first()).and_then(|x| std::str::from_utf8(x).ok()).and_then(|s| s.trim().parse().ok()).unwrap_or(0)
    };
    let c_pp = per_path_t(&c_r.stdout, o.tb());
    let cm_pp = per_path_t(&cm_r.stdout, o.tb());
    let l_set = nul_list(&l_r.stdout);
    let bl_set = nul_list(&bl_r.stdout);
    // JSON per file
    let mut j_subs: BTreeMap<String, u64> = BTreeMap::new();
    let mut j_msgs: BTreeMap<String, Vec<Value>> = BTreeMap::new();
    let mut j_sum = [0u64; 5];
    let mut j_total: Option<[u64; 5]> = None;
    let mut results_sx = vec![];
    let sfields = ["searches", "searches_with_match", "bytes_searched", "matched_lines", "matches"];
    for l in j_r.stdout.split(|&b| b == b'\n').filter(|l| !l.is_empty()) {
        let v: Value = match serde_json::from_slice(l) {
            Ok(v) => v,
            Err(_) => {
                viol(rep, "impl_vs_spec", "", tie_rel, case, "rg --json printed an unparsable line".into());
                return;
            }
        };
        let p = v["data"]["path"]["text"].as_str().unwrap_or("").to_string();
        match v["type"].as_str().unwrap_or("") {
            "match" => {
                let n = v["data"]["submatches"].as_array().map_or(0, |a| a.len()) as u64;
                *j_subs.entry(p.clone()).or_default() += n;
                j_msgs.entry(p).or_default().push(v.clone());
            }
            "end" => {
                let s = &v["data"]["stats"];
                let vals: Vec<u64> = sfields.iter().map(|f| s[*f].as_u64().unwrap_or(0)).collect();
                for k in 0..5 {
                    j_sum[k] += vals[k];
                }
                results_sx.push(format!(
                    "(r {} (stats {} {} {} 0 {} {}))",
                    (vals[1] > 0) as u8,
                    vals[0],
                    vals[1],
                    vals[2],
                    vals[3],
                    vals[4]
                ));
            }
            "summary" => {
                let s = &v["data"]["stats"];
                let mut t = [0u64; 5];
                for k in 0..5 {
                    t[k] = s[sfields[k]].as_u64().unwrap_or(0);
                }
                j_total = Some(t);
            }
            _ => {}
        }
    }
    let fail = |rep: &mut Report, class: &str, d: String| viol(rep, "impl_vs_spec", class, tie_rel, case, d);
    let inv_class = "";
    let file_of = |p: &str| -> &[u8] {
        o.files.iter().enumerate().find(|(i, _)| path_of(*i) == p).map_or(&[][..], |(_, f)| &f[..])
    };
    let mut any_count = false;
    for p in &all {
        let count = num(&c_pp, p);
        let cm = num(&cm_pp, p);
        let lines = std_pp.get(p).map_or(0, |v| v.len()) as u64;
        let orec = o_pp.get(p).map_or(0, |v| v.len()) as u64;
        let js = *j_subs.get(p).unwrap_or(&0);
        if count > 0 {
            any_count = true;
        }
        let mech = mech_of(j_msgs.get(p).map(|v| v.iter()).into_iter().flatten(), o);
        if count != lines {
            let class = class_count_vs_lines(rep, ml, o, count, cm);
            fail(rep, class, format!("{}: -c {} but {} matching lines printed", p, count, lines));
        }
        if !o.invert {
            if cm != js {
                let class = class_limit_by_matches(rep, ml, o, cm, js);
                fail(rep, class, format!("{}: --count-matches {} but --json has {} submatches", p, cm, js));
            }
            if cm != orec {
                let class = class_cm_vs_o(rep, ml, o, &matcher, file_of(p), &mech, cm, orec);
                fail(rep, class, format!("{}: --count-matches {} but -o prints {} records", p, cm, orec));
            }
            for (l, &off) in mech.no_sub_lines.iter().zip(&mech.no_sub_offs) {
                let _ = off;
                fail(rep, "", format!("{}: JSON match message without submatch: {:?}", p, show(l)));
            }
        }
        if l_set.contains(p) != (count > 0) {
            fail(rep, inv_class, format!("{}: -l lists it: {}, -c {}", p, l_set.contains(p), count));
        }
        if bl_set.contains(p) == l_set.contains(p) {
            fail(rep, inv_class, format!("{}: listed by -l: {}, by --files-without-match: {}", p, l_set.contains(p), bl_set.contains(p)));
        }
    }
    // exit statuses
    if q_r.code != std_r.code {
        fail(rep, inv_class, format!("exit status: -q {} standard {}", q_r.code, std_r.code));
    }
    let m_exit = drv.ask(&format!("c10.exit {} 0 0", (!std_pp.is_empty()) as u8));
    if m_exit != std_r.code.to_string() {
        viol(rep, "impl_vs_model", "", "rg exit status vs Model.Summary.exitCode", case, format!("standard mode exit {} model {}", std_r.code, m_exit));
    }
    if (c_r.code == 0) != any_count {
        fail(rep, "", format!("-c exit status {} with counts present: {}", c_r.code, any_count));
    }
    // stats totals are sums
    if let Some(t) = j_total {
        if t != j_sum {
            fail(rep, "", format!("--json summary totals {:?} but per-file end stats sum to {:?}", t, j_sum));
        }
        let m = drv.ask(&format!("c10.aggregate 0 1 {}", results_sx.join(" ")));
        let want = format!(
            "matched={} stats=(searches {} with_match {} bytes_searched {} bytes_printed 0 matched_lines {} matches {})",
            (t[1] > 0) as u8,
            t[0],
            t[1],
            t[2],
            t[3],
            t[4]
        );
        if m != want {
            viol(rep, "impl_vs_model", "", "main.rs stats aggregation vs Model.Summary.searchAll", case, format!("rg summary {} model {}", want, m));
        }
        // `--stats` in standard mode: the JSON sink only accounts for files that produced messages, so only the
        // match-related totals are comparable across the two modes; the file totals are checked against the tree
        let sb = stats_block(&st_r.stdout);
        let pairs = [("matches", 4), ("matched lines", 3), ("files contained matches", 1)];
        for (k, idx) in pairs {
            if sb.get(k).copied() != Some(t[idx]) {
                fail(rep, "", format!("--stats '{}' = {:?}, --json summary says {}", k, sb.get(k), t[idx]));
            }
        }
        if sb.get("files searched").copied() != Some(all.len() as u64) {
            fail(rep, "", format!("--stats 'files searched' = {:?}, the tree has {} files", sb.get("files searched"), all.len()));
        }
        let total: usize = sizes.values().sum();
        if o.max.is_none() && sb.get("bytes searched").copied() != Some(total as u64) {
            fail(rep, "", format!("--stats 'bytes searched' = {:?}, the files have {} bytes", sb.get("bytes searched"), total));
        }
        if !o.invert {
            let cm_total: u64 = all.iter().map(|p| num(&cm_pp, p)).sum();
            if sb.get("matches").copied() != Some(cm_total) {
                // mechanism: under -m N some file's Summary sink stopped after N *matches* while the Standard sink
                // behind --stats counts N *blocks* (so it sees at least as many matches)
                let stats_matches = sb.get("matches").copied().unwrap_or(0);
                let class = match o.max {
                    Some(n) if ml && n > 0 && all.iter().any(|p| num(&cm_pp, p) >= n) && stats_matches >= cm_total => {
                        rep.branch(&format!("class:{}:attributed", ML_COUNT));
                        ML_COUNT
                    }
                    _ => "",
                };
                fail(rep, class, format!("--stats 'matches' = {:?}, --count-matches sum to {}", sb.get("matches"), cm_total));
            }
        }
        rep.branch("cli:stats-compared");
        // --quiet must only suppress output: with --stats (or --json) the search may not stop at the first
        // matching file (quit_after_match = quiet AND no stats), so the totals are the same sums
        if let Some(qs) = run(&["-q", "--stats"]).filter(|r| {
            // (a run that was killed at the time limit has no output to compare; a panic is reported by the main runs)
            if r.panicked {
                rep.branch("cli:quiet-stats-run-failed");
            }
            !r.panicked
        }) {
            let qb = stats_block(&qs.stdout);
            // mechanism of the multi-line counting class here: under -U -m N the quiet Summary sink stops a file after
            // N *matches*, the Standard sink behind plain --stats after N *blocks*: some file reaches N matches, and
            // the quiet totals are never the larger ones
            let limit_by_matches = |rep: &mut Report| -> &'static str {
                match o.max {
                    Some(n)
                        if ml
                            && !o.invert
                            && n > 0
                            && all.iter().any(|p| num(&cm_pp, p) >= n)
                            && ["matches", "matched lines", "bytes searched"].iter().all(|k| qb.get(*k).copied().unwrap_or(0) <= sb.get(*k).copied().unwrap_or(0)) =>
                    {
                        rep.branch(&format!("class:{}:attributed", ML_COUNT));
                        ML_COUNT
                    }
                    _ => "",
                }
            };
            for k in ["matches", "matched lines", "files contained matches", "files searched", "bytes searched"] {
                if qb.get(k) != sb.get(k) {
                    let class = if k == "matches" || k == "matched lines" || k == "bytes searched" { limit_by_matches(rep) } else { "" };
                    fail(rep, class, format!("-q --stats '{}' = {:?}, --stats says {:?}", k, qb.get(k), sb.get(k)));
                }
            }
            if qs.code != std_r.code {
                fail(rep, "", format!("exit status: -q --stats {} standard {}", qs.code, std_r.code));
            }
            let m = drv.ask("c10.normalize standard 0 0 1 1");
            if !m.contains("quit_after_match=0") {
                viol(rep, "impl_vs_model", "", "hiargs quit_after_match vs Model.Summary (statsOn)", case, m);
            }
            rep.branch("cli:quiet-stats");
        }
        if let Some(qj) = run(&["--json", "-q"]) {
            // -q wins over --json (a quiet Summary printer); only the JSON `summary` line is printed
            let mut qt: Option<[u64; 5]> = None;
            for l in qj.stdout.split(|&b| b == b'\n').filter(|l| !l.is_empty()) {
                if let Ok(v) = serde_json::from_slice::<Value>(l) {
                    if v["type"] == "summary" {
                        let st = &v["data"]["stats"];
                        let mut x = [0u64; 5];
                        for k in 0..5 {
                            x[k] = st[sfields[k]].as_u64().unwrap_or(0);
                        }
                        qt = Some(x);
                    }
                }
            }
            match qt {
                Some(x) => {
                    // the quiet Summary sink accounts for every searched file, like text --stats
                    let want = [
                        sb.get("files searched").copied().unwrap_or(0),
                        sb.get("files contained matches").copied().unwrap_or(0),
                        sb.get("bytes searched").copied().unwrap_or(0),
                        sb.get("matched lines").copied().unwrap_or(0),
                        sb.get("matches").copied().unwrap_or(0),
                    ];
                    if x != want {
                        // same mechanism as for -q --stats above (the quiet sink's totals are never the larger ones)
                        let class = match o.max {
                            Some(n) if ml && !o.invert && n > 0 && all.iter().any(|p| num(&cm_pp, p) >= n) && x[0] == want[0] && x[1] == want[1] && (2..5).all(|k| x[k] <= want[k]) => {
                                rep.branch(&format!("class:{}:attributed", ML_COUNT));
                                ML_COUNT
                            }
                            _ => "",
                        };
                        fail(rep, class, format!("--json -q summary totals {:?}, --stats says {:?}", x, want));
                    }
                    rep.branch("cli:json-quiet");
                }
                None => fail(rep, "", "--json -q printed no summary message".into()),
            }
        }
    } else {
        fail(rep, "", "--json printed no summary message".into());
    }
    // mode normalisation
    if o.invert {
        // `-c -o -v` stays --count (F33, fixed 221fc03: it used to become --count-matches and print 0)
        if let Some(r) = run(&["-c", "-o", "-H", "--null"]) {
            if per_path_t(&r.stdout, o.tb()) != c_pp {
                fail(rep, "", "-v -c -o differs from -v -c".into());
            }
            let m = drv.ask("c10.normalize count 1 1 0 0");
            if !m.starts_with("printer=sum:count ") {
                viol(rep, "impl_vs_model", "", "hiargs mode normalisation vs Model.Summary.normalizeMode", case, m);
            }
        }
        if let Some(r) = run(&["--count-matches", "-H", "--null"]) {
            if per_path_t(&r.stdout, o.tb()) != c_pp {
                fail(rep, "", "-v --count-matches differs from -v -c".into());
            }
        }
        let m = drv.ask("c10.normalize countmatches 1 0 0 0");
        if !m.starts_with("printer=sum:count ") {
            viol(rep, "impl_vs_model", "", "hiargs mode normalisation vs Model.Summary.normalizeMode", case, m);
        }
    } else if let Some(r) = run(&["-o", "-c", "-H", "--null"]) {
        if per_path_t(&r.stdout, o.tb()) != cm_pp {
            fail(rep, "", "-o -c differs from --count-matches".into());
        }
        let m = drv.ask("c10.normalize count 0 1 0 0");
        if !m.starts_with("printer=sum:countmatches ") {
            viol(rep, "impl_vs_model", "", "hiargs mode normalisation vs Model.Summary.normalizeMode", case, m);
        }
    }
    // ---- output options of the summary modes: --include-zero, no --null, -I
    if o.tb() == b'\n' {
        let strip = |m: &BTreeMap<String, Vec<Vec<u8>>>| -> BTreeMap<String, Vec<Vec<u8>>> {
            m.iter()
                .map(|(p, v)| (p.clone(), v.iter().map(|x| String::from_utf8_lossy(x).trim_end().as_bytes().to_vec()).collect()))
                .collect()
        };
        let (c_s, cm_s) = (strip(&c_pp), strip(&cm_pp));
        for (flag, base) in [("-c", &c_s), ("--count-matches", &cm_s)] {
            if o.invert && flag == "--count-matches" {
                continue;
            }
            if let Some(r) = run(&[flag, "--include-zero", "-H", "--null"]) {
                let z = strip(&per_path_t(&r.stdout, o.tb()));
                let mut want = (*base).clone();
                for p in &all {
                    want.entry(p.clone()).or_insert_with(|| vec![b"0".to_vec()]);
                }
                rep.branch("cli:include-zero");
                if z != want {
                    fail(rep, "", format!("{} --include-zero prints {:?}, {} prints {:?}", flag, z, flag, base));
                }
            }
            // without --null: `path:count` lines
            if let Some(r) = run(&[flag, "-H"]) {
                let mut got: BTreeMap<String, Vec<Vec<u8>>> = BTreeMap::new();
                for (_, l) in split_lines(&r.stdout) {
                    let l = l.strip_suffix(b"\n").unwrap_or(l);
                    let l = if o.crlf { l.strip_suffix(b"\r").unwrap_or(l) } else { l };
                    if let Some(p) = all.iter().filter(|p| l.starts_with(p.as_bytes()) && l.get(p.len()) == Some(&b':')).max_by_key(|p| p.len()) {
                        got.entry(p.clone()).or_default().push(l[p.len() + 1..].to_vec());
                    } else {
                        fail(rep, "", format!("{} -H printed the line {:?}", flag, show(l)));
                    }
                }
                rep.branch("cli:count-with-filename");
                if &got != base {
                    fail(rep, "", format!("{} -H prints {:?}, with --null {:?}", flag, got, base));
                }
            }
            // -I: the bare counts (file order is fixed only on the single-threaded paths)
            if let Some(r) = run(&[flag, "-I"]) {
                let mut got: Vec<Vec<u8>> = split_lines(&r.stdout)
                    .into_iter()
                    .map(|(_, l)| {
                        let l = l.strip_suffix(b"\n").unwrap_or(l);
                        (if o.crlf { l.strip_suffix(b"\r").unwrap_or(l) } else { l }).to_vec()
                    })
                    .collect();
                let mut want: Vec<Vec<u8>> = base.values().flat_map(|v| v.iter().cloned()).collect();
                if fnv(o.pat.as_bytes()) % 3 == 2 {
                    got.sort();
                    want.sort();
                }
                rep.branch("cli:count-no-filename");
                if got != want {
                    fail(rep, "", format!("{} -I prints {:?}, with file names {:?}", flag, got, base));
                }
            }
        }
        // -l / --files-without-match without --null: one path per line
        for (flag, base) in [("-l", &l_set), ("--files-without-match", &bl_set)] {
            if let Some(r) = run(&[flag]) {
                let got: BTreeSet<String> = String::from_utf8_lossy(&r.stdout).lines().map(|l| l.trim_end_matches('\r').to_string()).collect();
                rep.branch("cli:list-lines");
                if &got != base {
                    fail(rep, "", format!("{} prints {:?}, with --null {:?}", flag, got, base));
                }
            }
        }
    }
    if any_count && l_set.len() < all.len() {
        rep.nontrivial(case);
    }
}

// ---------------------------------------------------------------- generation

fn gen_opts(rng: &mut Rng, multi: bool, tree: bool) -> Opts {
    let mut o = Opts::default();
    o.multi = multi;
    o.pat = gen_pattern(rng, multi);
    o.crlf = rng.chance(1, 5);
    let nf = if tree { rng.range(2, 4) } else { 1 };
    for _ in 0..nf {
        let mut f = gen_input(rng, o.crlf, false);
        if rng.chance(1, 4) {
            while f.last() == Some(&b'\n') || f.last() == Some(&b'\r') {
                f.pop();
            }
        }
        o.files.push(f);
    }
    o.icase = rng.chance(1, 6);
    o.word = rng.chance(1, 6);
    o.xline = rng.chance(1, 10);
    o.dotall = multi && rng.chance(1, 4);
    o.invert = rng.chance(1, 5);
    o.with_path = rng.chance(1, 2);
    o.null = rng.chance(1, 8);
    o.reader = rng.chance(1, 4);
    o.max = if rng.chance(1, 4) { Some(rng.range(0, 3) as u64) } else { None };
    o
}

fn run_case(case: &str, args: &Args, drv: &mut Driver, rep: &mut Report) {
    let parts: Vec<&str> = case.split(' ').collect();
    let tag = parts.first().copied().unwrap_or("");
    match (tag, Opts::parse(&parts[1.min(parts.len())..])) {
        ("lib", Some(o)) => run_lib(case, &o, drv, rep),
        ("cli", Some(o)) => run_cli(case, &o, args, drv, rep),
        _ => rep.notes.push(format!("unparsable case: {}", case)),
    }
}

fn main() {
    let args = parse_args();
    std::panic::set_hook(Box::new(|_| {}));
    let mut drv = Driver::spawn(&args.driver);
    let mut rep = Report::new(
        "C10",
        "lib: random patterns (pool biased to empty-matching patterns, anchors incl. \\A \\z (?-m)^ (?-m)$, word boundaries; \
         multi-line pool under -U; extra pools `pat`) x one file of 0-6 short lines (CRLF, invalid UTF-8, a quarter without \
         final terminator) x -i/-w/-x/-v/-U/-m N/--crlf, every real sink on the same search. cli: the same on trees of 2-4 \
         files through the rg binary in all eight modes, plus the output options of the counting modes (--include-zero, \
         with and without --null, -I) and -q --stats / --json -q. Further streams (lib and cli): z = --null-data; a = NUL \
         bytes in the input under -a; ctx = -A/-B/--passthru added to every mode (they must not change any count; -m N \
         together with after-context is left out, see assumptions). Non-trivial: some but not all lines match (lib); some \
         but not all files have a count (cli). Distinct by case text.",
    );
    for c in corpus_cases(&args) {
        run_case(&c, &args, &mut drv, &mut rep);
    }
    // probing aid: RGVERIF_STREAM=<tag> runs only the generated cases of one stream
    let only_stream = std::env::var("RGVERIF_STREAM").ok();
    if args.replay.is_none() {
        let mut rng = Rng::new(args.seed);
        let n = args.cases.unwrap_or(if args.thorough { 5000 } else { 600 });
        for i in 0..n {
            let multi = i % 4 == 3;
            let case = if i % 5 == 4 { gen_opts(&mut rng, multi, true).to_case("cli") } else { gen_opts(&mut rng, multi, false).to_case("lib") };
            if i < 8 {
                rep.sample(case.clone());
            }
            if only_stream.as_deref().map_or(true, |s| case.starts_with(s)) {
                run_case(&case, &args, &mut drv, &mut rep);
            }
        }
        // z: --null-data, both streams (own generator state: the cases above stay what they were)
        let mut rng = Rng::new(args.seed ^ 0x2e70_da7a);
        for i in 0..n / 6 {
            let cli = i % 4 == 3;
            let mut o = gen_opts(&mut rng, i % 3 == 2, cli);
            o.crlf = false;
            o.nulldata = true;
            o.null = false;
            o.files = o.files.iter().map(|f| to_nul_data(&mut rng, f)).collect();
            let case = o.to_case(if cli { "cli" } else { "lib" });
            if only_stream.as_deref().map_or(true, |s| s == "z") {
                run_case(&case, &args, &mut drv, &mut rep);
            }
        }
        // pat: the extra pattern pools
        let mut rng = Rng::new(args.seed ^ 0x9a77_e125);
        for i in 0..n / 6 {
            let multi = i % 2 == 1;
            let cli = i % 3 == 2;
            let mut o = gen_opts(&mut rng, multi, cli);
            o.pat = rng.pick(if multi { EXTRA_MULTI } else { EXTRA_SINGLE }).to_string();
            let case = o.to_case(if cli { "cli" } else { "lib" });
            if only_stream.as_deref().map_or(true, |s| s == "pat") {
                run_case(&case, &args, &mut drv, &mut rep);
            }
        }
        // a: NUL bytes in the input, binary detection off (-a/--text)
        let mut rng = Rng::new(args.seed ^ 0x7e87_0a11);
        for i in 0..n / 8 {
            let cli = i % 3 == 2;
            let mut o = gen_opts(&mut rng, i % 4 == 3, cli);
            o.text = true;
            o.null = false;
            o.files = o.files.iter().map(|f| with_nuls(&mut rng, f)).collect();
            let case = o.to_case(if cli { "cli" } else { "lib" });
            if only_stream.as_deref().map_or(true, |s| s == "a") {
                run_case(&case, &args, &mut drv, &mut rep);
            }
        }
        // ctx: context flags (-A/-B/--passthru) must not change what any mode reports about matches
        let mut rng = Rng::new(args.seed ^ 0x0c07_7e87);
        for i in 0..n / 6 {
            let cli = i % 3 == 2;
            let mut o = gen_opts(&mut rng, i % 4 == 3, cli);
            match rng.below(4) {
                0 => o.before = rng.range(1, 2),
                1 => o.after = rng.range(1, 2),
                2 => {
                    o.before = 1;
                    o.after = rng.range(1, 2)
                }
                _ => o.passthru = true,
            }
            // (-m N together with after-context is left out: a matching line inside the after-context window of the
            // N-th match is printed — and counted by --stats — as a matching line, which the counting modes never see;
            // context flags are not among the options C10 quantifies over)
            if o.max.is_some() {
                o.after = 0;
                o.passthru = false;
                o.before = o.before.max(1);
            }
            if !cli {
                // matching and context records are told apart by `N:` / `N-`
                o.lineno = true;
                o.with_path = false;
            }
            let case = o.to_case(if cli { "cli" } else { "lib" });
            if only_stream.as_deref().map_or(true, |s| s == "ctx") {
                run_case(&case, &args, &mut drv, &mut rep);
            }
        }
    }
    rep.write(&args);
}
