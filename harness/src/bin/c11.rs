//! C11 — line-mode matcher promises hold for every accepted pattern over all lines.
//!
//! Per case (patterns + builder options):
//!   unit level   : strip / non-matching bytes / ban / inner literals of the real code vs the Lean model
//!                  on the HIR obtained from the real parser + translator;
//!   certificates : `noByte` on the HIR the real matcher is compiled from, `covers` for the literal
//!                  sequence the real matcher uses (against the model's proven-sound sequence and across
//!                  the external `optimize_for_prefix_by_preference`);
//!   F            : the property itself on the real `RegexMatcher` over generated buffers (witness lines
//!                  sampled from the pattern's own HIR): no match contains the terminator, none contains a
//!                  declared non-matching byte, `find_candidate_line` never skips the line of a match;
//!   engine       : regex-automata vs the denotation `Matches` (`ends`) on (HIR, haystack).
use grep_matcher::{LineMatchKind, LineTerminator, Matcher};
use grep_regex::{verif, ErrorKind, RegexMatcher, RegexMatcherBuilder};
use regex_syntax::hir::literal::Seq;
use regex_syntax::hir::{Hir, Look};
use rgverif_harness::*;

#[path = "../rxhir.rs"]
mod rxhir;
use rxhir::*;

// ---------------------------------------------------------------- options

#[derive(Clone, Debug, PartialEq)]
struct Opts {
    ci: bool,
    cs: bool,
    word: bool,
    whole: bool,
    fixed: bool,
    crlf: bool,
    /// None = leave what `crlf()` set; Some(x) = call `line_terminator(x)` afterwards
    lt: Option<Option<u8>>,
    ml: bool,
    dot: bool,
    unicode: bool,
    ban: Option<u8>,
    /// swap_greed / ignore_whitespace / octal of the builder
    sg: bool,
    iw: bool,
    oc: bool,
    /// nest_limit of the builder (250 = default)
    nl: u32,
}

impl Opts {
    fn default_rg() -> Opts {
        Opts {
            ci: false,
            cs: false,
            word: false,
            whole: false,
            fixed: false,
            crlf: false,
            lt: Some(Some(b'\n')),
            ml: true,
            dot: false,
            unicode: true,
            ban: None,
            sg: false,
            iw: false,
            oc: false,
            nl: 250,
        }
    }
    fn show(&self) -> String {
        format!(
            "ci={} cs={} w={} x={} F={} crlf={} lt={} ml={} dot={} u={} ban={} sg={} iw={} oc={} nl={}",
            self.ci as u8,
            self.cs as u8,
            self.word as u8,
            self.whole as u8,
            self.fixed as u8,
            self.crlf as u8,
            match self.lt {
                None => "keep".to_string(),
                Some(None) => "none".to_string(),
                Some(Some(b)) => b.to_string(),
            },
            self.ml as u8,
            self.dot as u8,
            self.unicode as u8,
            self.ban.map_or("-".to_string(), |b| b.to_string()),
            self.sg as u8,
            self.iw as u8,
            self.oc as u8,
            self.nl
        )
    }
    fn parse(toks: &[&str]) -> Option<Opts> {
        let mut o = Opts::default_rg();
        for t in toks {
            let (k, v) = t.split_once('=')?;
            let b = || -> Option<bool> {
                match v {
                    "0" => Some(false),
                    "1" => Some(true),
                    _ => None,
                }
            };
            match k {
                "ci" => o.ci = b()?,
                "cs" => o.cs = b()?,
                "w" => o.word = b()?,
                "x" => o.whole = b()?,
                "F" => o.fixed = b()?,
                "crlf" => o.crlf = b()?,
                "lt" => {
                    o.lt = match v {
                        "keep" => None,
                        "none" => Some(None),
                        n => Some(Some(n.parse().ok()?)),
                    }
                }
                "ml" => o.ml = b()?,
                "dot" => o.dot = b()?,
                "u" => o.unicode = b()?,
                "ban" => o.ban = if v == "-" { None } else { Some(v.parse().ok()?) },
                "sg" => o.sg = b()?,
                "iw" => o.iw = b()?,
                "oc" => o.oc = b()?,
                "nl" => o.nl = v.parse().ok()?,
                _ => return None,
            }
        }
        Some(o)
    }
    fn builder(&self) -> RegexMatcherBuilder {
        let mut b = RegexMatcherBuilder::new();
        b.case_insensitive(self.ci)
            .case_smart(self.cs)
            .word(self.word)
            .whole_line(self.whole)
            .fixed_strings(self.fixed)
            .multi_line(self.ml)
            .dot_matches_new_line(self.dot)
            .unicode(self.unicode)
            .ban_byte(self.ban)
            .swap_greed(self.sg)
            .ignore_whitespace(self.iw)
            .octal(self.oc)
            .nest_limit(self.nl)
            .crlf(self.crlf);
        if let Some(lt) = self.lt {
            b.line_terminator(lt);
        }
        b
    }
    /// the configured terminator (`Config::line_terminator`)
    fn line_term(&self) -> Option<LineTerminator> {
        match self.lt {
            None => {
                if self.crlf {
                    Some(LineTerminator::crlf())
                } else {
                    None
                }
            }
            Some(None) => None,
            Some(Some(b)) => Some(LineTerminator::byte(b)),
        }
    }
    fn random(rng: &mut Rng) -> Opts {
        let mut o = Opts::default_rg();
        o.ci = rng.chance(1, 6);
        o.cs = rng.chance(1, 6);
        o.word = rng.chance(1, 6);
        o.whole = rng.chance(1, 8);
        o.fixed = rng.chance(1, 10);
        o.crlf = rng.chance(1, 4);
        o.lt = match rng.below(10) {
            0 => Some(None),
            1 | 2 => Some(Some(0)),
            3 => None,
            4 => Some(Some(*rng.pick(&[b'a', b';', 0x7f, 0x80, 0xff, b'\r']))),
            _ => {
                if o.crlf {
                    None
                } else {
                    Some(Some(b'\n'))
                }
            }
        };
        o.ml = !rng.chance(1, 6);
        o.dot = rng.chance(1, 6);
        o.unicode = !rng.chance(1, 5);
        o.ban = if rng.chance(1, 6) { Some(*rng.pick(&[0u8, b'a', b'\n'])) } else { None };
        o.sg = rng.chance(1, 8);
        o.iw = rng.chance(1, 8);
        o.oc = rng.chance(1, 10);
        o.nl = if rng.chance(1, 10) { *rng.pick(&[0u32, 1, 3, 6]) } else { 250 };
        o
    }
}

fn lt_bytes(lt: LineTerminator) -> Vec<u8> {
    if lt.is_crlf() {
        vec![b'\r', b'\n']
    } else {
        vec![lt.as_byte()]
    }
}

// ---------------------------------------------------------------- wire helpers

fn seq_sx(s: &Seq) -> String {
    match s.literals() {
        None => "inf".to_string(),
        Some(ls) => {
            let mut out = String::from("(seq");
            for l in ls {
                out.push(' ');
                out.push(if l.is_exact() { 'E' } else { 'I' });
                out.push_str(&hex(l.as_bytes()));
            }
            out.push(')');
            out
        }
    }
}

fn err_wire(e: &grep_regex::Error) -> String {
    match e.kind() {
        ErrorKind::NotAllowed(s) => format!("err notallowed {}", s.as_bytes().first().copied().unwrap_or(0)),
        ErrorKind::InvalidLineTerminator(b) => format!("err invalid {}", b),
        ErrorKind::Banned(b) => format!("err banned {}", b),
        ErrorKind::Regex(_) => "err regex".to_string(),
        _ => "err other".to_string(),
    }
}

/// The user's HIR as `ConfiguredHIR::new` obtains it on the non-fixed-strings route
/// (parse + translate with the configuration's flags; case folding decided by the caller).
fn translate(pats: &[String], o: &Opts, case_insensitive: bool) -> Option<Hir> {
    let alts: Vec<String> = pats
        .iter()
        .map(|p| if o.fixed { format!("(?:{})", regex_syntax::escape(p)) } else { format!("(?:{})", p) })
        .collect();
    let pattern = alts.join("|");
    let ast = regex_syntax::ast::parse::ParserBuilder::new().nest_limit(o.nl).octal(o.oc).ignore_whitespace(o.iw).build().parse(&pattern).ok()?;
    regex_syntax::hir::translate::TranslatorBuilder::new()
        .utf8(false)
        .case_insensitive(case_insensitive)
        .multi_line(o.ml)
        .dot_matches_new_line(o.dot)
        .crlf(o.crlf)
        .swap_greed(o.sg)
        .unicode(o.unicode)
        .build()
        .translate(&pattern, &ast)
        .ok()
}

struct Ctx<'a> {
    drv: &'a mut Driver,
    rep: &'a mut Report,
    case: &'a str,
}

impl<'a> Ctx<'a> {
    fn bad(&mut self, kind: &str, class: &str, tie: &str, detail: String) {
        self.rep.violation(Violation {
            kind: kind.into(),
            class: class.into(),
            tie: tie.into(),
            case: self.case.to_string(),
            detail,
        });
    }
}

/// Model of `strip_from_match`: one `stripAscii` per terminator byte, each result pushed through the
/// real smart constructors (what the Rust code does at every node).
fn model_strip(drv: &mut Driver, h: &Hir, bytes: &[u8]) -> Result<Hir, String> {
    let mut cur = h.clone();
    for &b in bytes {
        let reply = drv.ask(&format!("c11.stripascii {} {}", b, to_sx(&cur)));
        if let Some(rest) = reply.strip_prefix("ok ") {
            cur = rebuild_str(rest).ok_or_else(|| format!("unparsable model reply {}", reply))?;
        } else {
            return Err(reply);
        }
    }
    Ok(cur)
}

const TIE_STRIP: &str = "strip::strip_from_match vs Model.Strip.stripAscii (theorems strip_sound, strip_faithful, strip_rejects)";
const TIE_NOBYTE: &str = "HIR of the built matcher vs checker Model.Strip.noByte (theorem noByte_checker_sound)";
const TIE_NM: &str = "non_matching::non_matching_bytes vs Model.NonMatching.nonMatching (theorem nonmatching_sound)";
const TIE_LIT: &str = "literal::Extractor vs Model.Literal.extract + certificate covers (theorems extract_sound, covers_sound, candidate_never_skips)";
const TIE_ENGINE: &str = "regex-automata engine vs denotation Matches (Model.HirSem.ends) — validated, not proven";
const TIE_F: &str = "RegexMatcher::{find, non_matching_bytes, find_candidate_line} on generated buffers vs the property";

// ---------------------------------------------------------------- unit level

fn unit_checks(cx: &mut Ctx, h0: &Hir, o: &Opts, rng: &mut Rng) {
    let sx0 = to_sx(h0);
    // echo: the wire format round-trips through the model's parser/printer
    if cx.drv.ask(&format!("c11.echo {}", sx0)) != sx0 {
        cx.bad("impl_vs_model", "", "HIR wire format", format!("echo differs for {}", sx0));
        return;
    }
    // --- strip under the configured terminator and a few others
    let mut lts: Vec<LineTerminator> = vec![];
    if let Some(lt) = o.line_term() {
        lts.push(lt);
    }
    match rng.below(6) {
        0 => lts.push(LineTerminator::byte(b'\n')),
        1 => lts.push(LineTerminator::crlf()),
        2 => lts.push(LineTerminator::byte(0)),
        3 => lts.push(LineTerminator::byte(*rng.pick(&[b'a', b'b', b'.', 0x80, 0xff, b'\r', b' ']))),
        _ => {}
    }
    let mut stripped: Option<Hir> = None;
    for (i, lt) in lts.iter().enumerate() {
        let bytes = lt_bytes(*lt);
        let imp = verif::strip_from_match(h0.clone(), *lt);
        let mdl = model_strip(cx.drv, h0, &bytes);
        match (&imp, &mdl) {
            (Ok(a), Ok(b)) => {
                cx.rep.branch("strip:ok");
                if to_sx(a) != to_sx(b) {
                    cx.bad("impl_vs_model", "", TIE_STRIP, format!("strip {:?}: impl {} model {}", bytes, to_sx(a), to_sx(b)));
                } else if to_sx(a) != sx0 {
                    cx.rep.branch("strip:changed-class");
                }
                // the checker accepts what strip produced
                for &b in &bytes {
                    if cx.drv.ask(&format!("c11.nobyte {} {}", b, to_sx(a))) != "1" {
                        cx.bad("impl_vs_model", "", TIE_NOBYTE, format!("noByte {} fails on strip output {}", b, to_sx(a)));
                    }
                }
                if i == 0 && o.line_term().is_some() {
                    stripped = Some(a.clone());
                }
            }
            (Err(e), Err(m)) => {
                cx.rep.branch("strip:rejected");
                if &err_wire(e) != m {
                    cx.bad("impl_vs_model", "", TIE_STRIP, format!("strip {:?}: impl {} model {}", bytes, err_wire(e), m));
                }
            }
            (a, b) => {
                cx.bad(
                    "impl_vs_model",
                    "",
                    TIE_STRIP,
                    format!(
                        "strip {:?} of {}: impl {} model {}",
                        bytes,
                        sx0,
                        a.as_ref().map(to_sx).unwrap_or_else(|e| err_wire(e)),
                        b.as_ref().map(to_sx).unwrap_or_else(|e| e.clone())
                    ),
                );
            }
        }
        // strip_rejects: `needsByte` is the exact rejection criterion (single ASCII byte)
        if bytes.len() == 1 && bytes[0] < 128 {
            let needs = cx.drv.ask(&format!("c11.needs {} {}", bytes[0], sx0));
            if (needs == "1") != imp.is_err() {
                cx.bad("impl_vs_model", "", TIE_STRIP, format!("needsByte {} = {} but impl rejected = {}", bytes[0], needs, imp.is_err()));
            }
        }
        // one-shot model `strip` (no constructor pass in between): measured, not decided
        let lt_wire = if lt.is_crlf() { "crlf".to_string() } else { format!("b{}", lt.as_byte()) };
        let one = cx.drv.ask(&format!("c11.strip {} {}", lt_wire, sx0));
        let same = match (&imp, one.strip_prefix("ok ")) {
            (Ok(a), Some(r)) => rebuild_str(r).map_or(false, |h| to_sx(&h) == to_sx(a)),
            (Err(e), None) => err_wire(e) == one,
            _ => false,
        };
        cx.rep.branch(if same { "strip:oneshot-eq" } else { "strip:oneshot-differs" });
    }
    // --- non-matching bytes
    for h in std::iter::once(h0).chain(stripped.iter()) {
        let imp = verif::non_matching_bytes(h);
        let mdl = cx.drv.ask(&format!("c11.nonmatching {}", to_sx(h)));
        if hex(&imp) != mdl {
            cx.bad("impl_vs_model", "", TIE_NM, format!("non_matching_bytes of {}: impl {} model {}", to_sx(h), hex(&imp), mdl));
        }
        cx.rep.branch(if imp.is_empty() { "nm:empty" } else if imp.len() > 200 { "nm:large" } else { "nm:some" });
    }
    // --- ban
    for b in [0u8, b'a', b'\n'] {
        let imp = verif::ban_check(h0, b);
        let mdl = cx.drv.ask(&format!("c11.ban {} {}", b, sx0));
        if (mdl == "1") != imp {
            cx.bad("impl_vs_model", "", "ban::check vs Model.Strip.banned", format!("ban {} of {}: impl {} model {}", b, sx0, imp, mdl));
        }
        if imp {
            cx.rep.branch("ban:rejected");
        }
    }
    // --- inner literals
    let hs = stripped.as_ref().unwrap_or(h0);
    literal_checks(cx, hs, o);
}

/// impl vs model on `Extractor::extract`, the `is_good` tail, and the certificates.
fn literal_checks(cx: &mut Ctx, h: &Hir, o: &Opts) -> Option<String> {
    let sx = to_sx(h);
    let st = verif::inner_literal_stages(h);
    let reply = cx.drv.ask(&format!("c11.extract {}", sx));
    let (mpre_flag, mpre) = reply.split_once(' ')?;
    let ipre = seq_sx(&st.extracted);
    if mpre == ipre && (mpre_flag == "1") == st.prefix {
        cx.rep.branch("lits:pre-eq");
    } else {
        cx.rep.branch("lits:pre-differs");
        cx.rep.notes.push(format!("literal sequences differ (certificate decides): {} impl {} {} model {} {}", sx, st.prefix as u8, ipre, mpre_flag, mpre));
    }
    cx.rep.branch(match st.extracted.literals() {
        None => "lits:pre-infinite",
        Some(l) if l.is_empty() => "lits:pre-empty",
        Some(l) if l.iter().all(|x| x.is_exact()) => "lits:pre-exact",
        Some(l) if l.iter().all(|x| !x.is_exact()) => "lits:pre-inexact",
        Some(_) => "lits:pre-mixed",
    });
    if !st.prefix {
        cx.rep.branch("lits:not-prefix");
    }
    // is_good tail is modelled exactly
    let fin = cx.drv.ask(&format!("c11.finish {}", seq_sx(&st.optimized)));
    let iun = seq_sx(&st.untagged);
    if fin != iun {
        cx.bad("impl_vs_model", "", TIE_LIT, format!("extract_untagged tail: optimized {} impl {} model {}", seq_sx(&st.optimized), iun, fin));
    }
    cx.rep.branch(if st.untagged.is_finite() { "lits:final-finite" } else { "lits:final-infinite" });
    // OptimizeCert.inf: the optimiser keeps the infinite sequence infinite
    if !st.extracted.is_finite() && st.optimized.is_finite() {
        cx.bad("impl_vs_model", "", TIE_LIT, format!("optimize_for_prefix_by_preference made a finite sequence {} out of the infinite one", seq_sx(&st.optimized)));
    }
    // certificates: the external optimisation step, and model-pre covers what the implementation uses
    let c1 = cx.drv.ask(&format!("c11.covers {} {}", ipre, seq_sx(&st.optimized)));
    if c1 != "1" {
        cx.bad("impl_vs_model", "", TIE_LIT, format!("certificate: optimize_for_prefix_by_preference result {} does not cover {}", seq_sx(&st.optimized), ipre));
    }
    let c2 = cx.drv.ask(&format!("c11.covers {} {}", mpre, iun));
    if c2 != "1" {
        cx.bad("impl_vs_model", "", TIE_LIT, format!("certificate: literals used by the implementation {} are not covered by the model's sound sequence {} for {}", iun, mpre, sx));
    }
    // lits_no_term
    if let Some(lt) = o.line_term() {
        for b in lt_bytes(lt) {
            if b < 128 && cx.drv.ask(&format!("c11.nobyte {} {}", b, sx)) == "1" && cx.drv.ask(&format!("c11.litsnobyte {} {}", b, iun)) != "1" {
                cx.bad("impl_vs_model", "", TIE_LIT, format!("a literal of {} contains the terminator byte {}", iun, b));
            }
        }
    }
    Some(mpre.to_string())
}

// ---------------------------------------------------------------- haystacks

fn pickv(rng: &mut Rng, xs: &[Vec<u8>]) -> Vec<u8> {
    xs[rng.below(xs.len())].clone()
}

fn gen_hays(h_for_alphabet: &[&Hir], o: &Opts, rng: &mut Rng, thorough: bool) -> Vec<Vec<u8>> {
    let mut alpha: Vec<Vec<u8>> = vec![
        b"a".to_vec(),
        b"b".to_vec(),
        b" ".to_vec(),
        b"_".to_vec(),
        b"\n".to_vec(),
        b"\r".to_vec(),
        vec![0],
        vec![0xff],
        vec![0x80],
        vec![0xe2, 0x82],
        "é".as_bytes().to_vec(),
        b"A".to_vec(),
        b"-".to_vec(),
    ];
    for h in h_for_alphabet {
        alphabet(h, &mut alpha);
    }
    alpha.sort();
    alpha.dedup();
    let term: Vec<u8> = match o.line_term() {
        Some(lt) if lt.is_crlf() => b"\r\n".to_vec(),
        Some(lt) => vec![lt.as_byte()],
        None => b"\n".to_vec(),
    };
    let mut lines: Vec<Vec<u8>> = vec![vec![]];
    let n_wit = if thorough { 7 } else { 6 };
    for h in h_for_alphabet {
        for _ in 0..n_wit {
            let mut w = vec![];
            sample(h, rng, &mut w, 0);
            // bare witness, and one embedded in a context
            lines.push(w.clone());
            let mut l = vec![];
            for _ in 0..rng.below(3) {
                l.extend_from_slice(&pickv(rng, &alpha));
            }
            l.extend_from_slice(&w);
            for _ in 0..rng.below(3) {
                l.extend_from_slice(&pickv(rng, &alpha));
            }
            lines.push(l);
        }
    }
    for _ in 0..(if thorough { 6 } else { 5 }) {
        let mut l = vec![];
        for _ in 0..rng.below(7) {
            l.extend_from_slice(&pickv(rng, &alpha));
        }
        lines.push(l);
    }
    let mut hays: Vec<Vec<u8>> = lines.clone();
    // buffers of several lines
    for _ in 0..(if thorough { 5 } else { 4 }) {
        let mut buf = vec![];
        let n = rng.range(2, 4);
        for i in 0..n {
            buf.extend_from_slice(&pickv(rng, &lines));
            if i + 1 < n || rng.chance(2, 3) {
                if rng.chance(1, 8) {
                    buf.push(b'\n');
                } else {
                    buf.extend_from_slice(&term);
                }
            }
        }
        hays.push(buf);
    }
    // one long buffer (up to ~48 bytes): many lines, exercises leftmost search over several candidates
    let mut long = vec![];
    while long.len() < 36 {
        long.extend_from_slice(&pickv(rng, &lines));
        long.extend_from_slice(&term);
    }
    if long.len() <= 48 {
        hays.push(long);
    }
    hays.sort();
    hays.dedup();
    hays
}

// ---------------------------------------------------------------- the real matcher

fn first_match(m: &RegexMatcher, hay: &[u8]) -> Option<(usize, usize)> {
    m.find(hay).unwrap().map(|x| (x.start(), x.end()))
}

fn all_matches(m: &RegexMatcher, hay: &[u8]) -> Vec<(usize, usize)> {
    let mut v = vec![];
    m.find_iter(hay, |x| {
        v.push((x.start(), x.end()));
        true
    })
    .unwrap();
    v
}

struct Built {
    matcher: RegexMatcher,
    parts: verif::BuildParts,
}

fn matcher_checks(cx: &mut Ctx, b: &Built, o: &Opts, hays: &[Vec<u8>], extra_word: bool) -> (bool, bool) {
    let hir = &b.parts.hir;
    let sx = to_sx(hir);
    let cfg_lt = o.line_term();
    // (a) certificate on the HIR the regex is compiled from
    let mut term_bytes: Vec<u8> = vec![];
    if let Some(lt) = cfg_lt {
        term_bytes = lt_bytes(lt);
        for &t in &term_bytes {
            if cx.drv.ask(&format!("c11.nobyte {} {}", t, sx)) != "1" {
                cx.bad("impl_vs_model", "", TIE_NOBYTE, format!("the HIR of the built matcher may consume terminator byte {}: {}", t, sx));
            }
        }
        cx.rep.branch(if lt.is_crlf() { "lt:crlf" } else if lt.as_byte() == 0 { "lt:nul" } else if lt.as_byte() == b'\n' { "lt:lf" } else { "lt:other" });
    } else {
        cx.rep.branch("lt:none");
    }
    // line_terminator(): withheld iff the HIR has haystack anchors
    // withheld for haystack anchors, and for CRLF-aware line anchors when `crlf` is off
    let anchors = has_look(hir, &|l| matches!(l, Look::Start | Look::End))
        || (!o.crlf && has_look(hir, &|l| matches!(l, Look::StartCRLF | Look::EndCRLF)));
    let expect_lt = if anchors { None } else { cfg_lt };
    if b.matcher.line_terminator() != expect_lt || b.parts.line_terminator != expect_lt {
        cx.bad("impl_vs_model", "", "ConfiguredHIR::line_terminator", format!("line_terminator() = {:?}, expected {:?} for {}", b.matcher.line_terminator(), expect_lt, sx));
    }
    if anchors {
        cx.rep.branch("lt:withheld-anchor");
    }
    // (b) declared non-matching bytes = model
    let nm: Vec<u8> = {
        let set = b.matcher.non_matching_bytes().unwrap();
        (0..=255u8).filter(|&x| set.contains(x)).collect()
    };
    let mdl = cx.drv.ask(&format!("c11.nonmatching {}", sx));
    if hex(&nm) != mdl {
        cx.bad("impl_vs_model", "", TIE_NM, format!("RegexMatcher::non_matching_bytes {} model {} for {}", hex(&nm), mdl, sx));
    }
    // (c) literals: gating + certificate
    let gate = cx.drv.ask(&format!("c11.gate {} {} {}", cfg_lt.is_some() as u8, b.parts.accelerated as u8, sx));
    let inner = seq_sx(&b.parts.inner_literals);
    let mut lits: Option<Vec<Vec<u8>>> = None;
    if gate == "0" {
        cx.rep.branch("gate:declined");
        if inner != "inf" {
            cx.bad("impl_vs_model", "", TIE_LIT, format!("InnerLiterals::new gating: model declines, impl has {} for {}", inner, sx));
        }
    } else {
        cx.rep.branch("gate:extract");
        let st = verif::inner_literal_stages(hir);
        if seq_sx(&st.untagged) != inner {
            cx.bad("impl_vs_model", "", TIE_LIT, format!("InnerLiterals::new: {} but extract_untagged gives {}", inner, seq_sx(&st.untagged)));
        }
        if let Some(mpre) = literal_checks(cx, hir, o) {
            if cx.drv.ask(&format!("c11.covers {} {}", mpre, inner)) != "1" {
                cx.bad("impl_vs_model", "", TIE_LIT, format!("literals of the built matcher {} not covered by the model's {}", inner, mpre));
            }
        }
        if let Some(ls) = b.parts.inner_literals.literals() {
            if !ls.is_empty() {
                lits = Some(ls.iter().map(|l| l.as_bytes().to_vec()).collect());
                cx.rep.branch("fast-line-regex:present");
            }
        }
    }
    let model_vol = cx.drv.ask(&format!("c11.verify {} {}", cfg_sx(o), sx)) == "1";
    // --- F: the property on generated buffers
    let word = if extra_word { word_table_sx() } else { "(word)" };
    let (mut any_match, mut any_nonmatch) = (false, false);
    // engine vs denotation: one pipelined batch of requests for all short buffers
    let engine_ok = sx.len() < 30000;
    // short buffers always; buffers up to 48 bytes when the HIR is small (cost of `ends` grows with both)
    // (quadratic per repetition level), so long buffers only for shallow repetition nesting
    let max_hay = match (sx.len() < 600, rep_depth(hir)) {
        (true, 0) | (true, 1) => 48,
        (true, 2) => 24,
        _ => 14,
    };
    let span_reqs: Vec<String> = hays
        .iter()
        .filter(|h| engine_ok && h.len() <= max_hay)
        .map(|h| format!("c11.spans {} {} {}", sx, hex(h), word))
        .collect();
    let mut span_replies = cx.drv.ask_all(&span_reqs).into_iter();
    for hay in hays {
        cx.rep.eval();
        let ms = all_matches(&b.matcher, hay);
        if ms.is_empty() {
            any_nonmatch = true;
        } else {
            any_match = true;
        }
        for &(s, e) in &ms {
            for &t in &term_bytes {
                if hay[s..e].contains(&t) {
                    cx.bad("impl_vs_spec", "", TIE_F, format!("match {}..{} of {:?} contains line terminator byte {} (pattern HIR {})", s, e, show(hay), t, sx));
                }
            }
            if let Some(&x) = hay[s..e].iter().find(|x| nm.contains(x)) {
                cx.bad("impl_vs_spec", "", TIE_F, format!("match {}..{} of {:?} contains declared non-matching byte {} (pattern HIR {})", s, e, show(hay), x, sx));
            }
        }
        // candidate search never skips the line of the first match
        let cand = b.matcher.find_candidate_line(hay).unwrap();
        let first = first_match(&b.matcher, hay);
        let t = cfg_lt.map(|lt| lt.as_byte());
        let line_of = |pos: usize| -> usize {
            match t {
                Some(t) => hay[..pos].iter().filter(|&&x| x == t).count(),
                None => 0,
            }
        };
        if lits.is_none() {
            if let Some(k) = cand {
                let is_cand = matches!(k, LineMatchKind::Candidate(_));
                if is_cand != model_vol {
                    cx.bad("impl_vs_model", "", "build_many verify_on_line / find_candidate_line vs Model.RegexConfig.{verifyOnLine, findCandidateLine}", format!("no literal regex: find_candidate_line answered {:?}, model verify_on_line = {} (HIR {})", k, model_vol, sx));
                }
                cx.rep.branch(if is_cand { "cand:verify-on-line" } else { "cand:confirmed-own-anchors-only" });
            }
        }
        match (first, cand) {
            (Some((s, _)), None) => {
                cx.bad("impl_vs_spec", "", TIE_F, format!("find_candidate_line found nothing but {:?} has a match at {} (pattern HIR {}, literals {})", show(hay), s, sx, inner));
            }
            (Some((s, _)), Some(k)) => {
                let i = match k {
                    LineMatchKind::Candidate(i) => {
                        cx.rep.branch("cand:candidate");
                        i
                    }
                    LineMatchKind::Confirmed(i) => {
                        cx.rep.branch("cand:confirmed");
                        i
                    }
                };
                if i > hay.len() || line_of(i) > line_of(s) {
                    cx.bad("impl_vs_spec", "", TIE_F, format!("find_candidate_line skipped a matching line: offset {} but first match starts at {} in {:?} (pattern HIR {}, literals {})", i, s, show(hay), sx, inner));
                }
            }
            (None, Some(LineMatchKind::Confirmed(i))) => {
                cx.bad("impl_vs_spec", "", TIE_F, format!("Confirmed({}) without any match in {:?} (pattern HIR {})", i, show(hay), sx));
            }
            (None, Some(LineMatchKind::Candidate(_))) => cx.rep.branch("cand:false-positive"),
            (None, None) => cx.rep.branch("cand:none"),
        }
        // the model of the candidate search (leftmost literal occurrence): measured against the engine
        if let (Some(ls), Some(LineMatchKind::Candidate(i))) = (&lits, cand) {
            let mut best: Option<usize> = None;
            'outer: for p in 0..=hay.len() {
                for l in ls {
                    if hay[p..].starts_with(l) {
                        best = Some(p + l.len());
                        break 'outer;
                    }
                }
            }
            cx.rep.branch(if best == Some(i) { "cand:eq-leftmost-literal" } else { "cand:differs-from-leftmost-literal" });
        }
        // engine vs denotation
        if engine_ok && hay.len() <= max_hay {
            let reply = span_replies.next().unwrap();
            if hay.len() > 14 {
                cx.rep.branch("engine:long-buffer");
            }
            let spans: Vec<(usize, usize)> = if reply == "-" {
                vec![]
            } else {
                reply
                    .split(' ')
                    .filter_map(|p| p.split_once(':').and_then(|(a, b)| Some((a.parse().ok()?, b.parse().ok()?))))
                    .collect()
            };
            cx.rep.branch("engine:checked");
            // EngineSpec of theorem C11: the reported match is a match of the denotation and no match ends
            // strictly before it starts (the engine never jumps over a match).  "Leftmost" itself is measured
            // only: regex-automata 0.4.7 does not always return the leftmost match (inner-literal optimisation,
            // e.g. Sherlock|b[a-z]SherlockSherlock on baSherlockSherlock gives (2,10)).
            let no_jump = |s0: usize| spans.iter().all(|x| s0 <= x.1);
            let ok = match first {
                None => spans.is_empty(),
                Some((s, e)) => spans.contains(&(s, e)) && no_jump(s),
            };
            if let Some((s, _)) = first {
                if spans.iter().map(|x| x.0).min() != Some(s) {
                    cx.rep.branch("engine:not-leftmost(upstream regex-automata)");
                    if cx.rep.notes.len() < 40 {
                        cx.rep.notes.push(format!("engine returned a non-leftmost match {:?} on {:?} (spans {:?}) HIR {}", first, show(hay), spans, sx));
                    }
                }
            }
            // every reported match must be a span of the denotation
            let ok2 = ms.iter().all(|m| spans.contains(m));
            let sh = b.matcher.shortest_match(hay).unwrap();
            let ok3 = match sh {
                None => spans.is_empty(),
                Some(i) => spans.iter().any(|x| x.1 == i && no_jump(x.0)),
            };
            if !ok3 {
                cx.bad("impl_vs_model", "", TIE_ENGINE, format!("shortest_match {:?} on {:?} is not the end of a match that no other match precedes; Matches spans {:?} (HIR {})", sh, show(hay), spans, sx));
            }
            if !ok || !ok2 {
                cx.bad("impl_vs_model", "", TIE_ENGINE, format!("engine and denotation disagree on {:?}: engine first {:?} all {:?}, Matches spans {:?} (HIR {})", show(hay), first, ms, spans, sx));
            }
        }
    }
    (any_match, any_nonmatch)
}


// ---------------------------------------------------------------- configuration level (config.rs / ast.rs / build_many)

const TIE_CFG: &str = "config.rs ConfiguredHIR::new + ast.rs smart case + matcher.rs build_many vs Model.RegexConfig.Config.build (theorem C11)";

fn cfg_sx(o: &Opts) -> String {
    let lt = match o.line_term() {
        None => "none".to_string(),
        Some(lt) if lt.is_crlf() => "crlf".to_string(),
        Some(lt) => format!("b{}", lt.as_byte()),
    };
    format!(
        "(cfg {} {} {} {} {} {} {} {} {} {} {})",
        o.ci as u8,
        o.cs as u8,
        o.ml as u8,
        o.dot as u8,
        o.unicode as u8,
        o.crlf as u8,
        o.word as u8,
        o.whole as u8,
        o.fixed as u8,
        lt,
        o.ban.map_or("-".to_string(), |b| b.to_string())
    )
}

fn ast_sx(a: &regex_syntax::ast::Ast, up: &mut Vec<u32>, out: &mut String) {
    use regex_syntax::ast::Ast;
    match a {
        Ast::Empty(_) | Ast::Flags(_) | Ast::Dot(_) | Ast::Assertion(_) | Ast::ClassUnicode(_) | Ast::ClassPerl(_) => out.push_str("(o)"),
        Ast::Literal(l) => {
            if l.c.is_uppercase() {
                up.push(l.c as u32);
            }
            out.push_str(&format!("(l {})", l.c as u32));
        }
        Ast::ClassBracketed(b) => {
            out.push_str("(b ");
            set_sx(&b.kind, up, out);
            out.push(')');
        }
        Ast::Repetition(r) => {
            out.push_str("(r ");
            ast_sx(&r.ast, up, out);
            out.push(')');
        }
        Ast::Group(g) => {
            out.push_str("(g ");
            ast_sx(&g.ast, up, out);
            out.push(')');
        }
        Ast::Alternation(x) => {
            out.push_str("(a");
            for y in &x.asts {
                out.push(' ');
                ast_sx(y, up, out);
            }
            out.push(')');
        }
        Ast::Concat(x) => {
            out.push_str("(c");
            for y in &x.asts {
                out.push(' ');
                ast_sx(y, up, out);
            }
            out.push(')');
        }
    }
}

fn set_sx(s: &regex_syntax::ast::ClassSet, up: &mut Vec<u32>, out: &mut String) {
    use regex_syntax::ast::ClassSet;
    match s {
        ClassSet::Item(i) => item_sx(i, up, out),
        ClassSet::BinaryOp(op) => {
            out.push_str("(op ");
            set_sx(&op.lhs, up, out);
            out.push(' ');
            set_sx(&op.rhs, up, out);
            out.push(')');
        }
    }
}

fn item_sx(i: &regex_syntax::ast::ClassSetItem, up: &mut Vec<u32>, out: &mut String) {
    use regex_syntax::ast::ClassSetItem as I;
    let lit = |c: char, up: &mut Vec<u32>| {
        if c.is_uppercase() {
            up.push(c as u32);
        }
    };
    match i {
        I::Empty(_) | I::Ascii(_) | I::Unicode(_) | I::Perl(_) => out.push_str("(o)"),
        I::Literal(l) => {
            lit(l.c, up);
            out.push_str(&format!("(l {})", l.c as u32));
        }
        I::Range(r) => {
            lit(r.start.c, up);
            lit(r.end.c, up);
            out.push_str(&format!("(rg {} {})", r.start.c as u32, r.end.c as u32));
        }
        I::Bracketed(b) => {
            out.push_str("(b ");
            set_sx(&b.kind, up, out);
            out.push(')');
        }
        I::Union(u) => {
            out.push_str("(u");
            for x in &u.items {
                out.push(' ');
                item_sx(x, up, out);
            }
            out.push(')');
        }
    }
}

/// The whole of `build_many` in the model (route, smart case, ban, strip, wrapping, line terminator,
/// non-matching bytes, fast-path literals) against the real builder.
fn config_checks(cx: &mut Ctx, c: &Case, built: &Option<Built>, err: &Option<String>) {
    let o = &c.opts;
    let cfg = cfg_sx(o);
    let pats = format!("(pats {})", c.pats.iter().map(|p| hex(p.as_bytes())).collect::<Vec<_>>().join(" "));
    let route = cx.drv.ask(&format!("c11.route {} {}", cfg, pats));
    let Some((fx, pat)) = route.strip_prefix("fixed=").and_then(|r| r.split_once(" pattern=")) else {
        cx.bad("impl_vs_model", "", TIE_CFG, format!("bad route reply {}", route));
        return;
    };
    let fixed = fx == "1";
    if let Some(b) = built {
        if b.parts.fixed_strings != fixed {
            cx.bad("impl_vs_model", "", TIE_CFG, format!("is_fixed_strings: impl {} model {}", b.parts.fixed_strings, fixed));
            return;
        }
    }
    let mut tr_sx = "(empty)".to_string();
    if !fixed {
        let text = match unhex(pat).and_then(|b| String::from_utf8(b).ok()) {
            Some(t) => t,
            None => {
                cx.bad("impl_vs_model", "", TIE_CFG, format!("pattern text not UTF-8: {}", pat));
                return;
            }
        };
        let ast = match regex_syntax::ast::parse::ParserBuilder::new().nest_limit(o.nl).octal(o.oc).ignore_whitespace(o.iw).build().parse(&text) {
            Ok(a) => a,
            Err(_) => {
                cx.rep.branch("cfg:parse-error");
                if err.as_deref() != Some("err regex") {
                    cx.bad("impl_vs_model", "", TIE_CFG, format!("pattern text {:?} does not parse but build gave {:?}", text, err));
                }
                return;
            }
        };
        let (mut up, mut asx) = (vec![], String::new());
        ast_sx(&ast, &mut up, &mut asx);
        up.sort();
        up.dedup();
        let ups: Vec<String> = up.iter().map(|u| u.to_string()).collect();
        let case = cx.drv.ask(&format!("c11.case {} {} (upper {})", cfg, asx, ups.join(" ")));
        let ci = case.starts_with("ci=1");
        if o.cs && !o.ci {
            cx.rep.branch(if ci { "cfg:smart-case-insensitive" } else { "cfg:smart-case-sensitive" });
        }
        let tr = regex_syntax::hir::translate::TranslatorBuilder::new()
            .utf8(false)
            .case_insensitive(ci)
            .multi_line(o.ml)
            .dot_matches_new_line(o.dot)
            .crlf(o.crlf)
            .swap_greed(o.sg)
            .unicode(o.unicode)
            .build()
            .translate(&text, &ast);
        match tr {
            Ok(h) => tr_sx = to_sx(&h),
            Err(_) => {
                cx.rep.branch("cfg:translate-error");
                if err.as_deref() != Some("err regex") {
                    cx.bad("impl_vs_model", "", TIE_CFG, format!("pattern text {:?} does not translate but build gave {:?}", text, err));
                }
                return;
            }
        }
    }
    let (acc, opt) = match built {
        Some(b) => (b.parts.accelerated, seq_sx(&verif::inner_literal_stages(&b.parts.hir).optimized)),
        None => (false, "inf".to_string()),
    };
    // The model asks the external normaliser (regex-syntax's smart constructors) about at most two trees:
    // the result of the `\r` pass under CRLF, and the final wrapped tree.  Answer by rebuilding them with
    // the real constructors, and iterate until the table is complete.
    let mut table: Vec<(String, String)> = vec![];
    let mut reply = String::new();
    let mut ask2 = "-".to_string();
    for _round in 0..4 {
        let tab: Vec<String> = table.iter().map(|(a, b)| format!("({} {})", a, b)).collect();
        reply = cx.drv.ask(&format!("c11.build {} {} {} {} {} (norm {})", cfg, pats, tr_sx, acc as u8, opt, tab.join(" ")));
        let mut asked: Vec<String> = vec![];
        if let Some((_, r)) = reply.split_once(" ask1=") {
            let (a1, rest) = match r.split_once(" ask2=") {
                Some((a1, a2)) => (a1.to_string(), Some(a2.to_string())),
                None => (r.to_string(), None),
            };
            asked.push(a1);
            if let Some(a2) = rest {
                ask2 = a2.clone();
                asked.push(a2);
            }
        }
        let mut changed = false;
        for a in asked {
            if a != "-" && !table.iter().any(|(k, _)| *k == a) {
                match rebuild_str(&a) {
                    Some(h) => table.push((a, to_sx(&h))),
                    None => {
                        cx.bad("impl_vs_model", "", TIE_CFG, format!("unparsable tree from the model: {}", a));
                        return;
                    }
                }
                changed = true;
            }
        }
        if !changed {
            break;
        }
    }
    if table.iter().any(|(a, b)| a != b) {
        cx.rep.branch("cfg:normaliser-changed-tree");
    }
    if table.len() == 2 {
        cx.rep.branch("cfg:crlf-two-pass");
    }
    let mut hir_ok = true;
    if let (Some(b), true) = (built, reply.starts_with("ok ")) {
        let real_hir = to_sx(&b.parts.hir);
        let model_hir = table.iter().find(|(k, _)| *k == ask2).map(|(_, v)| v.clone()).unwrap_or_default();
        hir_ok = model_hir == real_hir;
        if !hir_ok {
            cx.bad("impl_vs_model", "", TIE_CFG, format!("final HIR: impl {} model {}", real_hir, model_hir));
        }
        // hypothesis `hnorm` of theorem C11 / C01_regex_faithful: the smart constructors preserve the
        // denotation — compare the spans of the model's raw trees and of their normalised forms
        for (raw, nrm) in table.iter().filter(|(a, b)| a != b && b.len() < 20000) {
            let mut rng = Rng::new(fnv(raw.as_bytes()));
            let srcs: Vec<&Hir> = vec![&b.parts.hir];
            let hays = gen_hays(&srcs, o, &mut rng, false);
            let uw = has_look(&b.parts.hir, &|l| is_unicode_word_look(l));
            let word = if uw { word_table_sx() } else { "(word)" };
            for hay in hays.iter().filter(|h| h.len() <= 10).take(4) {
                let x = cx.drv.ask(&format!("c11.spans {} {} {}", raw, hex(hay), word));
                let y = cx.drv.ask(&format!("c11.spans {} {} {}", nrm, hex(hay), word));
                if x != y {
                    cx.bad("impl_vs_model", "", "regex-syntax smart constructors preserve the denotation (hypothesis hnorm of C11)", format!("raw tree {} and normalised tree {} differ on {:?}: {} vs {}", raw, nrm, show(hay), x, y));
                }
                cx.rep.branch("norm:denotation-eq-checked");
            }
        }
    }
    // the error reply carries ` ask1=…`: cut it off for the comparison of error kinds
    let reply_core = reply.split(" ask1=").next().unwrap_or("").to_string();
    match (built, reply.strip_prefix("ok ")) {
        (Some(b), Some(rest)) => {
            // ok lt=… nm=… lits=… ask1=… ask2=…
            let parts: Option<(&str, &str, &str)> = (|| {
                let r = rest.strip_prefix("lt=")?;
                let (lt, r) = r.split_once(" vol=")?;
                let (_vol, r) = r.split_once(" nm=")?;
                let (nm, r) = r.split_once(" lits=")?;
                let (lits, _) = r.split_once(" ask1=")?;
                Some((lt, nm, lits))
            })();
            let Some((lt, nm, lits)) = parts else {
                cx.bad("impl_vs_model", "", TIE_CFG, format!("bad build reply {}", reply));
                return;
            };
            let real_lt = match b.matcher.line_terminator() {
                None => "none".to_string(),
                Some(l) if l.is_crlf() => "crlf".to_string(),
                Some(l) => format!("b{}", l.as_byte()),
            };
            let real_nm: Vec<u8> = {
                let set = b.matcher.non_matching_bytes().unwrap();
                (0..=255u8).filter(|&x| set.contains(x)).collect()
            };
            let real_lits = match b.parts.inner_literals.literals() {
                Some(l) if !l.is_empty() => seq_sx(&b.parts.inner_literals),
                _ => "inf".to_string(),
            };
            let real_hir = to_sx(&b.parts.hir);
            if lt != real_lt {
                cx.bad("impl_vs_model", "", TIE_CFG, format!("line_terminator(): impl {} model {}", real_lt, lt));
            }
            if hir_ok && nm != hex(&real_nm) {
                cx.bad("impl_vs_model", "", TIE_CFG, format!("non_matching_bytes: impl {} model {}", hex(&real_nm), nm));
            }
            if hir_ok && lits != real_lits {
                cx.bad("impl_vs_model", "", TIE_CFG, format!("fast-path literals: impl {} model {} (HIR {})", real_lits, lits, real_hir));
            }
            cx.rep.branch("cfg:build-ok-eq");
        }
        (None, None) => {
            if err.as_deref() != Some(reply_core.as_str()) {
                cx.bad("impl_vs_model", "", TIE_CFG, format!("build error: impl {:?} model {}", err, reply_core));
            }
            cx.rep.branch("cfg:build-err-eq");
        }
        (None, Some(_)) => {
            if err.as_deref() == Some("err regex") {
                // parse and translation succeeded: the engine refused to compile (size limits) — outside the model
                cx.rep.branch("cfg:engine-compile-error");
            } else {
                cx.bad("impl_vs_model", "", TIE_CFG, format!("impl rejects with {:?}, model accepts: {}", err, reply));
            }
        }
        (Some(_), None) => {
            cx.bad("impl_vs_model", "", TIE_CFG, format!("impl accepts, model rejects with {}", reply_core));
        }
    }
}

// ---------------------------------------------------------------- a case

struct Case {
    opts: Opts,
    pats: Vec<String>,
    hays: Vec<Vec<u8>>,
}

fn case_line(o: &Opts, pats: &[String], hays: &[Vec<u8>]) -> String {
    let ps: Vec<String> = if pats.is_empty() { vec!["~".to_string()] } else { pats.iter().map(|p| hex(p.as_bytes())).collect() };
    let hs: Vec<String> = hays.iter().map(|h| hex(h)).collect();
    format!("pat {} pats={} hays={}", o.show(), ps.join(","), if hs.is_empty() { "-".to_string() } else { hs.join(";") })
}

fn parse_case(line: &str) -> Option<Case> {
    let toks: Vec<&str> = line.split(' ').collect();
    if toks.first() != Some(&"pat") || toks.len() < 3 {
        return None;
    }
    let n = toks.len();
    let opts = Opts::parse(&toks[1..n - 2])?;
    let pats = toks[n - 2].strip_prefix("pats=")?;
    let hays = toks[n - 1].strip_prefix("hays=")?;
    let mut ps = vec![];
    if pats != "~" {
        for p in pats.split(',') {
            ps.push(String::from_utf8(unhex(p)?).ok()?);
        }
    }
    let mut hs = vec![];
    if hays != "-" {
        for h in hays.split(';') {
            hs.push(unhex(h)?);
        }
    }
    Some(Case { opts, pats: ps, hays: hs })
}

fn run_case(line: &str, drv: &mut Driver, rep: &mut Report, thorough: bool) {
    let r = std::panic::catch_unwind(std::panic::AssertUnwindSafe(|| run_case_inner(line, drv, rep, thorough)));
    if let Err(e) = r {
        let msg = e.downcast_ref::<String>().cloned().or_else(|| e.downcast_ref::<&str>().map(|s| s.to_string())).unwrap_or_default();
        if msg.contains("model driver") {
            panic!("{}", msg);
        }
        rep.violation(Violation {
            kind: "impl_vs_spec".into(),
            class: "".into(),
            tie: "the matcher builder must not panic".into(),
            case: line.to_string(),
            detail: format!("panic while building / running the matcher: {}", msg),
        });
    }
}

fn run_case_inner(line: &str, drv: &mut Driver, rep: &mut Report, thorough: bool) {
    let Some(c) = parse_case(line) else {
        rep.notes.push(format!("unparsable case: {}", line));
        return;
    };
    // all random choices of a case derive from its own text: a case line replays exactly
    let mut rng = Rng::new(fnv(line.as_bytes()));
    let mut cx = Ctx { drv, rep, case: line };
    let o = &c.opts;
    let builder = o.builder();
    let mut build_err: Option<String> = None;
    let built = match (builder.build_many(&c.pats), builder.verif_build_parts(&c.pats)) {
        (Ok(m), Ok(p)) => Some(Built { matcher: m, parts: p }),
        (Err(e), Err(_)) => {
            build_err = Some(err_wire(&e));
            cx.rep.branch(&format!("build:{}", err_wire(&e).split(' ').take(2).collect::<Vec<_>>().join("-")));
            None
        }
        _ => {
            cx.bad("impl_vs_model", "", "verif_build_parts hook vs build_many", "hook and build_many disagree on success".into());
            None
        }
    };
    // the user's HIR (non-fixed route); case folding as the real configuration decided is not needed for
    // the unit checks: both foldings are legitimate inputs of strip/non_matching/extract
    let ci = o.ci || (o.cs && rng.chance(1, 2));
    let h0 = translate(&c.pats, o, ci);
    cx.rep.eval();
    if let Some(h0) = &h0 {
        unit_checks(&mut cx, h0, o, &mut rng);
        let mut ks = vec![];
        look_kinds(h0, &mut ks);
        for k in ks {
            cx.rep.branch(&format!("look:{}", k));
        }
    } else {
        cx.rep.branch("parse:error");
    }
    // rejection at build time must be the model's rejection
    if let (None, Some(h0), Some(lt)) = (&built, &h0, o.line_term()) {
        if !o.ci && !o.cs {
            let e = builder.build_many(&c.pats).err().unwrap();
            if let ErrorKind::NotAllowed(_) = e.kind() {
                let mdl = model_strip(cx.drv, h0, &lt_bytes(lt));
                if mdl.is_ok() {
                    cx.bad("impl_vs_model", "", TIE_STRIP, format!("build rejected with {} but the model accepts {}", err_wire(&e), to_sx(h0)));
                }
            }
        }
    }
    config_checks(&mut cx, &c, &built, &build_err);
    if let Some(b) = &built {
        let mut srcs: Vec<&Hir> = vec![&b.parts.hir];
        if let Some(h0) = &h0 {
            srcs.push(h0);
        }
        let mut hays = gen_hays(&srcs, o, &mut rng, thorough);
        hays.extend(c.hays.iter().cloned());
        let uw = has_look(&b.parts.hir, &|l| is_unicode_word_look(l));
        let (any_m, any_n) = matcher_checks(&mut cx, b, o, &hays, uw);
        let (_, kinds) = shape(&b.parts.hir);
        if kinds >= 2 && any_m && any_n {
            cx.rep.nontrivial(line);
        }
        if b.parts.fixed_strings {
            cx.rep.branch("route:fixed-strings");
        } else {
            cx.rep.branch("route:parsed");
        }
        cx.rep.branch("build:ok");
    }
    if o.word {
        cx.rep.branch("opt:word");
    }
    if o.whole {
        cx.rep.branch("opt:whole-line");
    }
    if o.ci || o.cs {
        cx.rep.branch("opt:case");
    }
    if !o.unicode {
        cx.rep.branch("opt:no-unicode");
    }
    if c.pats.len() > 1 {
        cx.rep.branch("opt:multi-pattern");
    }
}

// ---------------------------------------------------------------- generators

const ATOMS: &[&str] = &[
    "a", "b", "ab", ".", r"\w", r"\s", "^", "$", r"\b", r"\B", "[a\\n]", "[^a]", r"\r", "é", r"\n", r"[\r\n]", r"\d", r"(?i:k)", r"\A", r"\z",
    "[a-c]", r"\pL", r"(?-u:\xff)", r"\x00", "foo",
    r"\b{start}", r"\b{end}", r"\b{start-half}", r"\b{end-half}", r"(?-u:\b)", r"(?-u:\B)", r"(?-m:^)", r"(?-m:$)", r"(?R:$)", r"(?R:^)",
    r"(?i:[a-zé])", r"(?-u:[^a])", r"(?-u:\W)", r"(?s:.)", r"(?U:a+)", "", r"((a)|b)",
];
const UNARY: &[&str] = &["*", "+", "?", "{2}", "{1,2}", "*?", "{2,}", "{0}", "{3,5}", "+?", "{12}"];

fn wrap(p: &str) -> String {
    format!("(?:{})", p)
}

/// all patterns of the small grammar with exactly `size` constructors
fn enumerate(size: usize, memo: &mut Vec<Vec<String>>) -> Vec<String> {
    if size < memo.len() {
        return memo[size].clone();
    }
    while memo.len() <= size {
        let n = memo.len();
        let mut v = vec![];
        if n == 0 {
        } else if n == 1 {
            v.extend(ATOMS.iter().map(|s| s.to_string()));
        } else {
            for sub in memo[n - 1].clone() {
                for u in UNARY {
                    v.push(format!("{}{}", wrap(&sub), u));
                }
                v.push(format!("({})", sub));
            }
            for k in 1..n - 1 {
                let (l, r) = (memo[k].clone(), memo[n - 1 - k].clone());
                for a in &l {
                    for b in &r {
                        v.push(format!("{}{}", wrap(a), wrap(b)));
                        v.push(format!("{}|{}", a, b));
                    }
                }
            }
        }
        memo.push(v);
    }
    memo[size].clone()
}

fn random_pattern(rng: &mut Rng, depth: usize) -> String {
    if depth == 0 || rng.chance(1, 4) {
        return match rng.below(12) {
            0 => "foo".into(),
            1 => "Sherlock".into(),
            2 => r"[A-Z]atso".into(),
            3 => r"\w+".into(),
            4 => r"[a-z]".into(),
            5 => r"\s".into(),
            6 => "quux".into(),
            7 => r"\d{1,3}".into(),
            8 => r"[^\n]".into(),
            9 => rng.pick(&[r"(a{2,3})", r"(\pL){1,2}", r"(?:(x)|y){2}", r"((a|b)c){1,3}", r"(?P<n>\d{2}){2}", r"(\p{Greek}{1,2}|é)+", r"([^\x00-\x7f]){2}", r"(a?){3}", r"(\w{2,4}?)\b", r"(?:a|(b))*c"]).to_string(),
            _ => rng.pick(ATOMS).to_string(),
        };
    }
    match rng.below(9) {
        0 | 1 | 2 => {
            let n = rng.range(2, 4);
            (0..n).map(|_| wrap(&random_pattern(rng, depth - 1))).collect::<Vec<_>>().join("")
        }
        3 | 4 => {
            let n = rng.range(2, 3);
            (0..n).map(|_| random_pattern(rng, depth - 1)).collect::<Vec<_>>().join("|")
        }
        5 | 6 => format!("{}{}", wrap(&random_pattern(rng, depth - 1)), rng.pick(UNARY)),
        7 => format!("({})", random_pattern(rng, depth - 1)),
        _ => format!("{}{}{}", rng.pick(&["foo", "bar", "x", "[a-z]+", r"\s+"]), wrap(&random_pattern(rng, depth - 1)), rng.pick(&["baz", "y", r"\w", r"\s+", ""])),
    }
}

fn main() {
    let args = parse_args();
    let mut drv = Driver::spawn(&args.driver);
    let mut rep = Report::new(
        "C11",
        "the final HIR has at least two node kinds and among the generated buffers (witness lines sampled from the pattern's own HIR, in random contexts, joined by the terminator) at least one has a match and one has none",
    );
    for c in corpus_cases(&args) {
        run_case(&c, &mut drv, &mut rep, args.thorough);
        rep.branch("stream:corpus");
    }
    if args.replay.is_none() {
        let mut rng = Rng::new(args.seed);
        let repo = std::env::var("VERIF_REPO").unwrap_or_else(|_| "/repo".to_string());
        // (a) harvested patterns under rg's default configuration and one random configuration each
        let harvested = harvest_patterns(&repo);
        rep.notes.push(format!("harvested {} patterns from {}", harvested.len(), repo));
        let cap = args.cases.unwrap_or(if args.thorough { usize::MAX } else { 300 });
        let step = (harvested.len() / cap.max(1)).max(1);
        for (i, p) in harvested.iter().enumerate() {
            if !args.thorough && i % step != 0 {
                continue;
            }
            let o = if i % 2 == 0 { Opts::default_rg() } else { Opts::random(&mut rng) };
            let line = case_line(&o, &[p.clone()], &[]);
            run_case(&line, &mut drv, &mut rep, args.thorough);
            rep.branch("stream:harvested");
            rep.sample(line);
        }
        // (b) the small grammar, exhaustively up to a size bound
        let mut memo = vec![];
        let max_size = if args.thorough { 4 } else { 3 };
        let mut count = 0usize;
        for size in 1..=max_size {
            let pats = enumerate(size, &mut memo);
            let total = pats.len();
            // quick tier: every pattern of size ≤ 2, a fixed stride of size 3
            let stride = if args.thorough { if size == 4 { 45 } else { 1 } } else if size == 3 { 15 } else { 1 };
            for (i, p) in pats.iter().enumerate() {
                if i % stride != 0 {
                    continue;
                }
                let mut o = Opts::default_rg();
                match (i / stride) % 8 {
                    0 => {}
                    1 => {
                        o.crlf = true;
                        o.lt = None;
                    }
                    2 => o.lt = Some(Some(0)),
                    3 => o.word = true,
                    4 => o.whole = true,
                    5 => o.unicode = false,
                    6 => o.lt = Some(None),
                    _ => o.ci = true,
                }
                let line = case_line(&o, &[p.clone()], &[]);
                run_case(&line, &mut drv, &mut rep, args.thorough);
                rep.branch(&format!("stream:grammar-size-{}", size));
                count += 1;
            }
            rep.notes.push(format!("grammar size {}: {} patterns, stride {}", size, total, stride));
        }
        rep.exhaustive = false;
        let _ = count;
        // (c) random larger patterns, random configurations, several patterns
        let n = args.cases.unwrap_or(if args.thorough { 8000 } else { 800 });
        for _ in 0..n {
            let np = if rng.chance(1, 5) { rng.range(2, 3) } else { 1 };
            let pats: Vec<String> = (0..np).map(|_| random_pattern(&mut rng, 3)).collect();
            let o = if rng.chance(1, 3) { Opts::default_rg() } else { Opts::random(&mut rng) };
            let line = case_line(&o, &pats, &[]);
            run_case(&line, &mut drv, &mut rep, args.thorough);
            rep.branch("stream:random");
        }
        // (c0) the `prefix` tag of the extractor (TSeq.prefix: "every literal is still a prefix of the match"): it is lost
        // where extract_concat restarts behind an unbounded part and must SURVIVE every operation applied to such a body
        // (each arm of extract_repetition incl. the swapped lazy forms, alternation, captures) so that a literal of
        // the left context is never glued onto an inner literal.  Template: PRE (?: BIG LIT ) REP POST and its
        // alternation twin, under rg's defaults, -w, and one random configuration (seeded change C11-1-1).
        {
            const PRE: &[&str] = &["x", "foo", r"x", "", "q?"];
            const BIG: &[&str] = &[r"\w+", "[A-Z]+", ".*", r"\pL{2,}", "[a-z]*?", r"\s+"];
            const LIT: &[&str] = &["foo", "ab", "k"];
            const REP: &[&str] = &["??", "*?", "?", "*", "+?", "+", "{0,2}?", "{1,2}?", "{2}", "{2,}?", "{0}", ""];
            const POST: &[&str] = &["baz", "y", "", r"\w"];
            let mut all: Vec<String> = vec![];
            for pre in PRE {
                for big in BIG {
                    for lit in LIT {
                        for rp in REP {
                            for post in POST {
                                all.push(format!("{}(?:{}{}){}{}", pre, big, lit, rp, post));
                            }
                        }
                    }
                }
            }
            for pre in PRE {
                for big in BIG {
                    for rp in REP {
                        all.push(format!("{}(?:{}foo|bar){}baz", pre, big, rp));
                        all.push(format!("{}({}k){}(y|)", pre, big, rp));
                    }
                }
            }
            let want = args.cases.unwrap_or(if args.thorough { all.len() } else { 260 });
            let stride = (all.len() / want.max(1)).max(1);
            let off = (args.seed as usize) % stride;
            for (i, p) in all.iter().enumerate() {
                if i % stride != off {
                    continue;
                }
                let o = match (i / stride) % 3 {
                    0 => Opts::default_rg(),
                    1 => Opts { word: true, ..Opts::default_rg() },
                    _ => Opts::random(&mut rng),
                };
                let line = case_line(&o, &[p.clone()], &[]);
                run_case(&line, &mut drv, &mut rep, args.thorough);
                rep.branch("stream:prefix-tag");
            }
            rep.notes.push(format!("prefix-tag templates: {} patterns, stride {}", all.len(), stride));
        }
        // (c') smart case: literals / ranges / nested classes with and without upper-case members
        for p in [
            "foo", "Foo", "fOo", "[0-Z]x", "[!-Z]", "[a-z]X", "x[A-Z]", "[0-9a-fA-F]+", r"\pL", r"\w+", "[[:upper:]]a", "f[A]o",
            "(?i)Foo", r"\Sx", r"[^\W]b", "ß", "ǅx", "É", "é", "[a-zÀ]", "[[a-z]&&[^aeiou]]k", "[[0-Z]--[A]]q", r"\x41b", r"\u0041",
            "a|B", "(a)(?:b|[c-D])", "x{2}Y?", r"[\x41-\x5A]z", "[a-é]",
        ] {
            for (ci, cs) in [(false, true), (true, true), (false, false)] {
                let o = Opts { ci, cs, ..Opts::default_rg() };
                let line = case_line(&o, &[p.to_string()], &[]);
                run_case(&line, &mut drv, &mut rep, args.thorough);
                rep.branch("stream:smart-case");
            }
        }
        // (c'') raw terminator bytes inside the pattern text itself (not escapes): the fixed-strings decision
        // (`is_fixed_strings` / `has_line_terminator`) must send such patterns to the parser so that they are
        // rejected; every terminator setting x -F on/off x -w/-x x pattern lists where only one has the byte
        {
            let lts: [(bool, Option<Option<u8>>); 4] = [(false, Some(Some(b'\n'))), (true, None), (false, Some(Some(0))), (true, Some(Some(0)))];
            let raw_pats: [&str; 8] = ["a\rb", "\r", "a\nb", "a\u{0}b", "a\r\nb", "x.y\r", "é\r", "ab"];
            for (crlf, lt) in lts {
                for fixed in [false, true] {
                    for (word, whole) in [(false, false), (true, false), (false, true)] {
                        for p in raw_pats {
                            let o = Opts { crlf, lt, fixed, word, whole, ..Opts::default_rg() };
                            for pats in [vec![p.to_string()], vec!["foo".to_string(), p.to_string()]] {
                                let hays = vec![b"a\rb\r\nfoo\n".to_vec(), b"a\r\n".to_vec(), b"a\0b\0".to_vec(), b"x.y\r\nab\n".to_vec()];
                                let line = case_line(&o, &pats, &hays);
                                run_case(&line, &mut drv, &mut rep, args.thorough);
                                rep.branch("stream:raw-terminator-in-pattern");
                            }
                        }
                    }
                }
            }
        }
        // (c3) every limit of the extractor at L-1, L, L+1, 2L with exact material on both sides, and a
        // matching witness line: limit_repeat (10), limit_class (10), limit_literal_len (100), limit_total (64)
        {
            let mut pats: Vec<(String, Vec<u8>)> = vec![];
            for n in [9usize, 10, 11, 12, 20] {
                // repetition counts (exact, bounded, open) of a two-byte sub-expression
                pats.push((format!("x(ab){{{}}}c", n), format!("x{}c", "ab".repeat(n)).into_bytes()));
                pats.push((format!("x(?:ab|cd){{{}}}c", n), format!("x{}c", "ab".repeat(n)).into_bytes()));
                pats.push((format!("x(ab){{{},}}c", n), format!("x{}c", "ab".repeat(n + 1)).into_bytes()));
                pats.push((format!("x(ab){{{},{}}}c", n, n + 2), format!("x{}c", "ab".repeat(n + 1)).into_bytes()));
                pats.push((format!("[a-z]+(ab){{{}}}c", n), format!("q{}c", "ab".repeat(n)).into_bytes()));
                // class sizes
                let cls: String = (0..n).map(|i| (b'a' + i as u8) as char).collect();
                pats.push((format!("x[{}]yz", cls), b"xayz".to_vec()));
                pats.push((format!("x[{}]yz", cls), format!("x{}yz", (b'a' + (n - 1) as u8) as char).into_bytes()));
            }
            for n in [99usize, 100, 101, 200] {
                pats.push((format!("{}[0-9]z", "k".repeat(n)), format!("{}7z", "k".repeat(n)).into_bytes()));
                pats.push((format!("(?:{})q", "mn".repeat(n / 2 + 1)), format!("{}q", "mn".repeat(n / 2 + 1)).into_bytes()));
            }
            for n in [63usize, 64, 65, 128] {
                // totals: an alternation of n literals, and a cross product of about n
                let alts: Vec<String> = (0..n).map(|i| format!("w{:03}", i)).collect();
                pats.push((format!("({})[a-z]", alts.join("|")), format!("w{:03}q", n - 1).into_bytes()));
                let k = (n as f64).sqrt().ceil() as usize;
                let a: Vec<String> = (0..k).map(|i| format!("a{}", i)).collect();
                let b2: Vec<String> = (0..(n + k - 1) / k).map(|i| format!("b{}", i)).collect();
                pats.push((format!("({})({})[0-9]", a.join("|"), b2.join("|")), format!("a{}b{}5", k - 1, 0).into_bytes()));
            }
            for (p, wit) in pats {
                for word in [false, true] {
                    let o = Opts { word, ..Opts::default_rg() };
                    let mut buf = b"zzz\n".to_vec();
                    buf.extend_from_slice(&wit);
                    buf.extend_from_slice(b"\nqqq\n");
                    let line = case_line(&o, &[p.clone()], &[wit.clone(), buf]);
                    run_case(&line, &mut drv, &mut rep, args.thorough);
                    rep.branch("stream:extractor-limits");
                }
            }
        }
        // (c4) constructs and option combinations the other streams reach rarely or never: every look-around
        // kind written explicitly (also non-multi-line anchors, CRLF-aware anchors, half boundaries), inline flags,
        // case-insensitive Unicode classes, (?-u) byte classes, large counted repetitions, empty alternation
        // branches, nested / named captures, non-UTF-8 bytes; builder options swap_greed / ignore_whitespace / octal
        {
            let pats: &[&str] = &[
                r"\Afoo", r"bar\z", r"\A\z", r"(?-m:^)a|b(?-m:$)", r"(?m:^)a(?m:$)", r"(?R)^a$", r"(?R)\r$", r"(?R:^$)",
                r"\bfoo\b", r"\Bo\B", r"(?-u)\bfoo\B", r"\b{start}foo\b{end}", r"\b{start-half}é\b{end-half}", r"(?-u:\b{start-half})a(?-u:\b{end-half})",
                r"(?-u:\b{start})x(?-u:\b{end})", r"a\b{end}|\b{start}b",
                r"(?i)straße", r"(?i)[k-s]", r"(?i:\p{Greek})+x", r"(?i)ǆ|ǅ", r"(?i-u)[a-f]\xE9",
                r"(?-u:[\x80-\xff])+", r"(?-u:[^\n])\xff", r"(?-u:\W\w)", r"(?-u)\xC3\xA9", r"(?-u:\S+)é",
                r"a{100}", r"[ab]{50,60}c", r"(?:ab){0,100}x", r"(?:a{30}){30}", r"\pL{200,}", r"x{0,1000}y", r"(?:a|bc){64}d",
                r"a|", r"|a", r"(|a)b", r"a||b", r"(?:|)", r"(a|)+c", r"x(?:|y|)z",
                r"((a)(b))", r"(?P<n>(x)|y)+", r"(((a)))", r"(a(b(c)?)?)d", r"(?P<first>\w+)\s(?P<last>\w+)",
                r"(?s).\n?x", r"(?s:a.b)", r"(?x) a b # c", r"(?x: [a b] \  c )", r"(?U)a+b", r"(?U:a*?)b", r"(?sm)^.$", r"(?ms)$.^", r"(?m)a$\s^b",
                r"(?-u:\xff)\x00", r"(?-u:\xfe|\xff)+", r"\x{10FFFF}\x{0}", r"a b", r"\101\60", r"a\ b",
            ];
            let grid: Vec<Opts> = vec![
                Opts::default_rg(),
                Opts { crlf: true, lt: None, ..Opts::default_rg() },
                Opts { crlf: true, lt: Some(Some(0)), ..Opts::default_rg() },
                Opts { lt: Some(Some(0)), ban: Some(0), ..Opts::default_rg() },
                Opts { lt: Some(None), dot: true, ..Opts::default_rg() },
                Opts { ml: false, ..Opts::default_rg() },
                Opts { word: true, crlf: true, lt: None, ..Opts::default_rg() },
                Opts { whole: true, unicode: false, ..Opts::default_rg() },
                Opts { ci: true, word: true, ..Opts::default_rg() },
                Opts { sg: true, ..Opts::default_rg() },
                Opts { iw: true, ..Opts::default_rg() },
                Opts { oc: true, iw: true, sg: true, unicode: false, ..Opts::default_rg() },
                Opts { fixed: true, iw: true, ..Opts::default_rg() },
                Opts { nl: 2, ..Opts::default_rg() },
            ];
            // no pattern at all: `build_many(&[])` is `Hir::fail()`
            for o in grid.iter().take(4) {
                let line = case_line(o, &[], &[b"a\n".to_vec()]);
                run_case(&line, &mut drv, &mut rep, args.thorough);
                rep.branch("stream:constructs-and-options");
            }
            for (i, p) in pats.iter().enumerate() {
                for (j, o) in grid.iter().enumerate() {
                    // quick tier: a diagonal slice of the grid plus the default; thorough: the full grid
                    if !args.thorough && j != 0 && (i + j) % 4 != 0 {
                        continue;
                    }
                    let pl = if (i + j) % 5 == 0 { vec![p.to_string(), "quux".to_string()] } else { vec![p.to_string()] };
                    let line = case_line(o, &pl, &[]);
                    run_case(&line, &mut drv, &mut rep, args.thorough);
                    rep.branch("stream:constructs-and-options");
                }
            }
        }
        // (d) boundary / malformed
        for p in ["", "(?:)", "a{0}", "[^\\x00-\\x{10FFFF}]", "\\n", "a\\nb", "(?s:.)", "\\x00", "(?-u:[\\x00-\\xff])", "\\r\\n", "(", "[a", "a**", "\\p{Greek}+", "\u{2028}"] {
            for o in [Opts::default_rg(), Opts { crlf: true, lt: None, ..Opts::default_rg() }, Opts { lt: Some(Some(0)), ban: Some(0), ..Opts::default_rg() }] {
                let line = case_line(&o, &[p.to_string()], &[]);
                run_case(&line, &mut drv, &mut rep, args.thorough);
                rep.branch("stream:boundary");
            }
        }
    }
    rep.write(&args);
}
