//! Shared by `c09.rs` and `c10.rs`: case options, the real matcher/searcher/printers of the working tree,
//! a recording tee `Sink` (so the Lean model consumes exactly the event stream the real printer consumed),
//! the wire encoding of configurations/events/matcher tables, and small independent readers (base64, lines).
#![allow(dead_code)]
use grep_matcher::{LineTerminator, Matcher};
use grep_regex::{RegexMatcher, RegexMatcherBuilder};
use grep_searcher::{
    Searcher, SearcherBuilder, Sink, SinkContext, SinkContextKind, SinkFinish, SinkMatch,
};
use rgverif_harness::*;
use std::io;

// ---------------------------------------------------------------- options

#[derive(Clone, Debug, Default)]
pub struct Opts {
    pub pat: String,
    pub files: Vec<Vec<u8>>,
    // matcher
    pub icase: bool,
    pub word: bool,
    pub xline: bool,
    pub crlf: bool,
    /// --null-data: NUL is the line terminator (ignored under --crlf, as in HiArgs::searcher)
    pub nulldata: bool,
    pub multi: bool,
    pub dotall: bool,
    // searcher
    pub invert: bool,
    pub before: usize,
    pub after: usize,
    pub passthru: bool,
    pub lineno: bool,
    pub reader: bool,
    // printer
    pub heading: bool,
    pub with_path: bool,
    pub only: bool,
    pub vimgrep: bool,
    pub column: bool,
    pub boff: bool,
    pub null: bool,
    pub stats: bool,
    pub max: Option<u64>,
    pub sepsearch: bool,
    /// file names that are not valid UTF-8 (and not ASCII)
    pub badpath: bool,
    /// -a/--text: binary detection off, NUL is an ordinary byte of the input
    pub text: bool,
}

impl Opts {
    pub fn flags(&self) -> String {
        let mut f: Vec<String> = vec![];
        let mut b = |on: bool, s: &str| {
            if on {
                f.push(s.to_string())
            }
        };
        b(self.icase, "i");
        b(self.word, "w");
        b(self.xline, "x");
        b(self.crlf, "crlf");
        b(self.nulldata, "z");
        b(self.multi, "U");
        b(self.dotall, "dotall");
        b(self.invert, "v");
        b(self.passthru, "pt");
        b(self.lineno, "n");
        b(self.reader, "rd");
        b(self.heading, "heading");
        b(self.with_path, "H");
        b(self.only, "o");
        b(self.vimgrep, "vim");
        b(self.column, "col");
        b(self.boff, "b");
        b(self.null, "null");
        b(self.stats, "stats");
        b(self.sepsearch, "ss");
        b(self.badpath, "bp");
        b(self.text, "a");
        if self.before > 0 {
            f.push(format!("B{}", self.before));
        }
        if self.after > 0 {
            f.push(format!("A{}", self.after));
        }
        if let Some(m) = self.max {
            f.push(format!("m{}", m));
        }
        if f.is_empty() {
            "-".into()
        } else {
            f.join(",")
        }
    }

    /// `<tag> p=HEX f=FLAGS in=HEX;HEX`
    pub fn to_case(&self, tag: &str) -> String {
        let files: Vec<String> = self.files.iter().map(|f| hex(f)).collect();
        format!("{} p={} f={} in={}", tag, hex(self.pat.as_bytes()), self.flags(), files.join(";"))
    }

    pub fn parse(parts: &[&str]) -> Option<Opts> {
        let mut o = Opts::default();
        for p in parts {
            let (k, v) = p.split_once('=')?;
            match k {
                "p" => o.pat = String::from_utf8(unhex(v)?).ok()?,
                "in" => {
                    for f in v.split(';') {
                        o.files.push(unhex(f)?);
                    }
                }
                "f" => {
                    for t in v.split(',') {
                        match t {
                            "-" | "" => {}
                            "i" => o.icase = true,
                            "w" => o.word = true,
                            "x" => o.xline = true,
                            "crlf" => o.crlf = true,
                            "z" => o.nulldata = true,
                            "U" => o.multi = true,
                            "dotall" => o.dotall = true,
                            "v" => o.invert = true,
                            "pt" => o.passthru = true,
                            "n" => o.lineno = true,
                            "rd" => o.reader = true,
                            "heading" => o.heading = true,
                            "H" => o.with_path = true,
                            "o" => o.only = true,
                            "vim" => o.vimgrep = true,
                            "col" => o.column = true,
                            "b" => o.boff = true,
                            "null" => o.null = true,
                            "stats" => o.stats = true,
                            "ss" => o.sepsearch = true,
                            "bp" => o.badpath = true,
                            "a" => o.text = true,
                            _ => {
                                let (h, n) = t.split_at(1);
                                let n: u64 = n.parse().ok()?;
                                match h {
                                    "B" => o.before = n as usize,
                                    "A" => o.after = n as usize,
                                    "m" => o.max = Some(n),
                                    _ => return None,
                                }
                            }
                        }
                    }
                }
                _ => return None,
            }
        }
        Some(o)
    }

    /// the matcher exactly as `HiArgs::matcher_rust` configures it
    pub fn matcher(&self) -> Result<RegexMatcher, String> {
        let mut b = RegexMatcherBuilder::new();
        b.multi_line(true).unicode(true).octal(false).case_insensitive(self.icase);
        if self.xline {
            b.whole_line(true);
        } else if self.word {
            b.word(true);
        }
        if self.multi {
            b.dot_matches_new_line(self.dotall);
            if self.crlf {
                b.crlf(true).line_terminator(None);
            }
        } else {
            b.line_terminator(Some(b'\n')).dot_matches_new_line(false);
            if self.crlf {
                b.crlf(true);
            }
            if self.nulldata {
                b.line_terminator(Some(0));
            }
        }
        // HiArgs bans NUL unless binary detection is off, and --null-data switches it off
        if !self.nulldata && !self.text {
            b.ban_byte(Some(0));
        }
        b.build(&self.pat).map_err(|e| e.to_string())
    }

    pub fn line_term(&self) -> LineTerminator {
        if self.crlf {
            LineTerminator::crlf()
        } else if self.nulldata {
            LineTerminator::byte(0)
        } else {
            LineTerminator::byte(b'\n')
        }
    }

    /// the byte that ends a line
    pub fn tb(&self) -> u8 {
        if !self.crlf && self.nulldata {
            0
        } else {
            b'\n'
        }
    }

    /// the searcher as `HiArgs::searcher` configures it
    pub fn searcher(&self) -> Searcher {
        let mut b = SearcherBuilder::new();
        b.line_terminator(self.line_term())
            .invert_match(self.invert)
            .line_number(self.lineno)
            .bom_sniffing(false)
            .multi_line(self.multi);
        if self.passthru {
            b.passthru(true);
        } else {
            b.before_context(self.before).after_context(self.after);
        }
        b.build()
    }

    pub fn term_bytes(&self) -> &'static [u8] {
        if self.crlf {
            b"\r\n"
        } else if self.nulldata {
            b"\0"
        } else {
            b"\n"
        }
    }

    /// the path of file `i` as bytes: `path_of(i)`, or with --bp a name with an invalid UTF-8 byte and a non-ASCII
    /// character
    pub fn path_bytes(&self, i: usize) -> Vec<u8> {
        if self.badpath {
            let mut p = format!("d{}/f", i % 2).into_bytes();
            p.push(0xff);
            p.extend_from_slice(format!("{}é.txt", i).as_bytes());
            p
        } else {
            path_of(i).into_bytes()
        }
    }

    pub fn has_context(&self) -> bool {
        self.passthru || self.before > 0 || self.after > 0
    }
}

pub fn path_of(i: usize) -> String {
    format!("d{}/f{}.txt", i % 2, i)
}

// ---------------------------------------------------------------- recording tee

#[derive(Clone, Debug)]
pub enum Ev {
    Matched { buf: usize, rs: usize, re: usize, off: u64, ln: Option<u64>, ret: bool },
    Context { kind: char, bytes: Vec<u8>, off: u64, ln: Option<u64>, ret: bool },
    Break { ret: bool },
}

#[derive(Default, Debug)]
pub struct Trace {
    pub bufs: Vec<Vec<u8>>,
    pub evs: Vec<Ev>,
    pub begin: Option<bool>,
    pub byte_count: Option<u64>,
    pub finished: bool,
}

impl Trace {
    fn buf_index(&mut self, b: &[u8]) -> usize {
        if let Some(last) = self.bufs.last() {
            if last.as_slice() == b {
                return self.bufs.len() - 1;
            }
        }
        self.bufs.push(b.to_vec());
        self.bufs.len() - 1
    }
    pub fn matched_count(&self) -> usize {
        self.evs.iter().filter(|e| matches!(e, Ev::Matched { .. })).count()
    }
    /// continue flags as the model prints them
    pub fn conts(&self) -> String {
        let mut s = String::new();
        for e in &self.evs {
            let r = match e {
                Ev::Matched { ret, .. } | Ev::Context { ret, .. } | Ev::Break { ret } => *ret,
            };
            s.push(if r { '1' } else { '0' });
        }
        s.push('-');
        s
    }
}

pub struct Tee<'t, S> {
    pub inner: S,
    pub trace: &'t mut Trace,
}

impl<'t, S: Sink<Error = io::Error>> Sink for Tee<'t, S> {
    type Error = io::Error;

    // every callback is recorded *before* the real sink runs (so that a panicking or failing callback is still
    // in the trace, with `ret == false`), and its answer is filled in afterwards
    fn matched(&mut self, searcher: &Searcher, mat: &SinkMatch<'_>) -> Result<bool, io::Error> {
        let buf = self.trace.buf_index(mat.buffer());
        let r = mat.bytes_range_in_buffer();
        self.trace.evs.push(Ev::Matched {
            buf,
            rs: r.start,
            re: r.end,
            off: mat.absolute_byte_offset(),
            ln: mat.line_number(),
            ret: false,
        });
        let ret = self.inner.matched(searcher, mat)?;
        if let Some(Ev::Matched { ret: r, .. }) = self.trace.evs.last_mut() {
            *r = ret;
        }
        Ok(ret)
    }

    fn context(&mut self, searcher: &Searcher, ctx: &SinkContext<'_>) -> Result<bool, io::Error> {
        let kind = match ctx.kind() {
            SinkContextKind::Before => 'b',
            SinkContextKind::After => 'a',
            SinkContextKind::Other => 'o',
        };
        self.trace.evs.push(Ev::Context {
            kind,
            bytes: ctx.bytes().to_vec(),
            off: ctx.absolute_byte_offset(),
            ln: ctx.line_number(),
            ret: false,
        });
        let ret = self.inner.context(searcher, ctx)?;
        if let Some(Ev::Context { ret: r, .. }) = self.trace.evs.last_mut() {
            *r = ret;
        }
        Ok(ret)
    }

    fn context_break(&mut self, searcher: &Searcher) -> Result<bool, io::Error> {
        self.trace.evs.push(Ev::Break { ret: false });
        let ret = self.inner.context_break(searcher)?;
        if let Some(Ev::Break { ret: r }) = self.trace.evs.last_mut() {
            *r = ret;
        }
        Ok(ret)
    }

    fn binary_data(&mut self, searcher: &Searcher, off: u64) -> Result<bool, io::Error> {
        self.inner.binary_data(searcher, off)
    }

    fn begin(&mut self, searcher: &Searcher) -> Result<bool, io::Error> {
        let r = self.inner.begin(searcher)?;
        self.trace.begin = Some(r);
        Ok(r)
    }

    fn finish(&mut self, searcher: &Searcher, fin: &SinkFinish) -> Result<(), io::Error> {
        self.trace.byte_count = Some(fin.byte_count());
        self.trace.finished = true;
        self.inner.finish(searcher, fin)
    }
}

/// Run one search (slice or reader) through a tee around `sink`.
pub fn run_search<S: Sink<Error = io::Error>>(
    o: &Opts,
    searcher: &mut Searcher,
    matcher: &RegexMatcher,
    input: &[u8],
    sink: S,
    trace: &mut Trace,
) -> Result<(), String> {
    let tee = Tee { inner: sink, trace };
    let r = if o.reader {
        searcher.search_reader(matcher, input, tee)
    } else {
        searcher.search_slice(matcher, input, tee)
    };
    r.map_err(|e| e.to_string())
}

// ---------------------------------------------------------------- wire encoding

pub fn opt_hex(b: Option<&[u8]>) -> String {
    match b {
        None => "~".into(),
        Some(b) => hex(b),
    }
}

pub fn sc_sx(o: &Opts, ml_eff: bool) -> String {
    format!(
        "(sc (lt {}) (ml {}) (inv {}) (after {}))",
        if o.crlf {
            "crlf"
        } else if o.nulldata {
            "nul"
        } else {
            "lf"
        },
        ml_eff as u8,
        o.invert as u8,
        if o.passthru { 0 } else { o.after }
    )
}

/// Standard printer configuration as the model's `StdCfg` (library defaults for the separators).
pub fn std_sx(o: &Opts, path: Option<&[u8]>) -> String {
    format!(
        "(std (stats {}) (heading {}) (path {}) (only {}) (pm {}) (pm1 {}) (max {}) (col {}) (boff {}) (ssearch {}) (sctx 2d2d) (sfm 3a) (sfc 2d) (pterm {}))",
        o.stats as u8,
        o.heading as u8,
        opt_hex(if o.with_path { path } else { None }),
        o.only as u8,
        o.vimgrep as u8,
        o.vimgrep as u8,
        o.max.map_or("~".to_string(), |m| m.to_string()),
        o.column as u8,
        o.boff as u8,
        if o.sepsearch { hex(b"==") } else { "~".to_string() },
        if o.null { "0" } else { "~" },
    )
}

fn ln_sx(ln: Option<u64>) -> String {
    ln.map_or("~".to_string(), |n| n.to_string())
}

/// Events with the given tables (one per event; `None` = empty table).
pub fn evs_sx(t: &Trace, tables: &[Option<String>]) -> String {
    let mut out = vec![];
    for (i, e) in t.evs.iter().enumerate() {
        let tab = tables.get(i).cloned().flatten().unwrap_or_else(|| "(t)".to_string());
        out.push(match e {
            Ev::Matched { buf, rs, re, off, ln, .. } => {
                format!("(m {} {} {} {} {} {})", buf, rs, re, off, ln_sx(*ln), tab)
            }
            Ev::Context { kind, bytes, off, ln, .. } => {
                format!("(c {} {} {} {} {})", kind, hex(bytes), off, ln_sx(*ln), tab)
            }
            Ev::Break { .. } => "(brk)".to_string(),
        });
    }
    format!("(evs {})", out.join(" "))
}

pub fn bufs_sx(t: &Trace) -> String {
    let v: Vec<String> = t.bufs.iter().map(|b| hex(b)).collect();
    format!("(bufs {})", v.join(" "))
}

/// Answers of the real `find_at(hay, pos)` for every position the iteration protocol can ask about:
/// `from`, and after an answer `m` the positions `m.end` and `m.end + 1`.
pub fn table_sx(m: &RegexMatcher, hay: &[u8], from: usize) -> String {
    let mut todo = vec![from];
    let mut seen = std::collections::BTreeMap::new();
    while let Some(p) = todo.pop() {
        if p > hay.len() || seen.contains_key(&p) {
            continue;
        }
        let a = m.find_at(hay, p).ok().flatten();
        if let Some(mm) = a {
            todo.push(mm.end());
            todo.push(mm.end() + 1);
        }
        seen.insert(p, a);
    }
    let v: Vec<String> = seen
        .iter()
        .map(|(p, a)| match a {
            None => format!("{}:~", p),
            Some(mm) => format!("{}:{}:{}", p, mm.start(), mm.end()),
        })
        .collect();
    format!("(t {})", v.join(" "))
}

/// Tables for all events of a trace. `need_ctx` says whether context events are re-searched (invert).
/// `op` is the driver's `cuts` operation (`c09.cuts` / `c10.cuts`).
pub fn tables_for(
    drv: &mut Driver,
    op: &str,
    o: &Opts,
    ml_eff: bool,
    m: &RegexMatcher,
    t: &Trace,
    need_matched: bool,
    need_ctx: bool,
) -> Result<Vec<Option<String>>, String> {
    if t.evs.is_empty() || (!need_matched && !need_ctx) {
        return Ok(vec![None; t.evs.len()]);
    }
    let reply = drv.ask(&format!("{} {} {} {}", op, sc_sx(o, ml_eff), bufs_sx(t), evs_sx(t, &[])));
    let cuts: Vec<&str> = reply.split(' ').collect();
    if cuts.len() != t.evs.len() {
        return Err(format!("driver cuts reply: {}", reply));
    }
    let mut out = vec![];
    // the driver answers `START:END:FROM` per event: the matcher is shown `bytes[START..END]`, asked from `FROM`
    // (line-oriented: the line's own content from 0; multi-line: the buffer cut after the look-ahead, from `rs`)
    fn cut3(c: &str) -> Result<(usize, usize, usize), String> {
        let v: Vec<&str> = c.split(':').collect();
        if v.len() != 3 {
            return Err(format!("bad cut {}", c));
        }
        let p = |x: &str| x.parse::<usize>().map_err(|_| format!("bad cut {}", c));
        Ok((p(v[0])?, p(v[1])?, p(v[2])?))
    }
    for (e, c) in t.evs.iter().zip(cuts) {
        out.push(match e {
            Ev::Matched { buf, .. } if need_matched => {
                let (s, e, from) = cut3(c)?;
                let b = &t.bufs[*buf];
                if s > e || e > b.len() {
                    return Err("cut beyond buffer".into());
                }
                Some(table_sx(m, &b[s..e], from))
            }
            Ev::Context { bytes, .. } if need_ctx => {
                let (s, e, from) = cut3(c)?;
                if s > e || e > bytes.len() {
                    return Err("cut beyond context bytes".into());
                }
                Some(table_sx(m, &bytes[s..e], from))
            }
            _ => None,
        });
    }
    Ok(out)
}

/// `key=value` fields of a driver reply
pub fn field<'a>(reply: &'a str, key: &str) -> Option<&'a str> {
    let k = format!("{}=", key);
    let i = reply.find(&k)?;
    let rest = &reply[i + k.len()..];
    // values never contain " <word>=" except `stats`/`msgs`, which are read to the next known key by callers
    Some(rest)
}

pub fn field_word<'a>(reply: &'a str, key: &str) -> Option<&'a str> {
    field(reply, key).map(|r| r.split(' ').next().unwrap_or(""))
}

// ---------------------------------------------------------------- child processes

pub struct ChildOut {
    pub stdout: Vec<u8>,
    pub stderr: Vec<u8>,
    pub code: i32,
    pub timed_out: bool,
}

/// Run a command with a wall-clock limit (a panicking worker thread can leave `rg` spinning forever);
/// stdout/stderr go through temporary files in `scratch` so that no pipe can fill up.
pub fn run_with_timeout(cmd: &mut std::process::Command, scratch: &std::path::Path, secs: u64) -> Option<ChildOut> {
    std::fs::create_dir_all(scratch).ok()?;
    let so = scratch.join(format!("stdout-{}", std::process::id()));
    let se = scratch.join(format!("stderr-{}", std::process::id()));
    let fo = std::fs::File::create(&so).ok()?;
    let fe = std::fs::File::create(&se).ok()?;
    let mut child = cmd.stdin(std::process::Stdio::null()).stdout(fo).stderr(fe).spawn().ok()?;
    let start = std::time::Instant::now();
    let mut timed_out = false;
    let code = loop {
        match child.try_wait() {
            Ok(Some(st)) => break st.code().unwrap_or(-1),
            Ok(None) => {
                if start.elapsed().as_secs() >= secs {
                    let _ = child.kill();
                    let _ = child.wait();
                    timed_out = true;
                    break -1;
                }
                std::thread::sleep(std::time::Duration::from_millis(2));
            }
            Err(_) => return None,
        }
    };
    let stdout = std::fs::read(&so).unwrap_or_default();
    let stderr = std::fs::read(&se).unwrap_or_default();
    Some(ChildOut { stdout, stderr, code, timed_out })
}

// ---------------------------------------------------------------- independent readers

/// lines with their terminators (`\n`)
pub fn split_lines(input: &[u8]) -> Vec<(usize, &[u8])> {
    split_lines_t(input, b'\n')
}

/// lines with their terminators (byte `t`)
pub fn split_lines_t(input: &[u8], t: u8) -> Vec<(usize, &[u8])> {
    let mut out = vec![];
    let mut s = 0;
    for (i, &b) in input.iter().enumerate() {
        if b == t {
            out.push((s, &input[s..=i]));
            s = i + 1;
        }
    }
    if s < input.len() {
        out.push((s, &input[s..]));
    }
    out
}

/// 1-based line number of the line starting at `off`
pub fn line_number_at(input: &[u8], off: usize) -> u64 {
    line_number_at_t(input, off, b'\n')
}

pub fn line_number_at_t(input: &[u8], off: usize, t: u8) -> u64 {
    1 + input[..off.min(input.len())].iter().filter(|&&b| b == t).count() as u64
}

/// content of a line without its terminator, for the terminator of `o`
pub fn content_o<'a>(o: &Opts, line: &'a [u8]) -> &'a [u8] {
    if o.tb() == b'\n' {
        content(line, o.crlf)
    } else if line.last() == Some(&0) {
        &line[..line.len() - 1]
    } else {
        line
    }
}

/// Independent RFC 4648 decoder (table built from the RFC's description, not from ripgrep's alphabet constant).
pub fn base64_decode(s: &[u8]) -> Option<Vec<u8>> {
    fn val(c: u8) -> Option<u32> {
        match c {
            b'A'..=b'Z' => Some((c - b'A') as u32),
            b'a'..=b'z' => Some((c - b'a') as u32 + 26),
            b'0'..=b'9' => Some((c - b'0') as u32 + 52),
            b'+' => Some(62),
            b'/' => Some(63),
            _ => None,
        }
    }
    if s.len() % 4 != 0 {
        return None;
    }
    let mut out = vec![];
    let n = s.len() / 4;
    for (i, q) in s.chunks(4).enumerate() {
        let pad = q.iter().rev().take_while(|&&c| c == b'=').count();
        if pad > 2 || (pad > 0 && i + 1 != n) {
            return None;
        }
        let mut acc: u32 = 0;
        for &c in &q[..4 - pad] {
            acc = (acc << 6) | val(c)?;
        }
        acc <<= 6 * pad as u32;
        out.push((acc >> 16) as u8);
        if pad < 2 {
            out.push((acc >> 8) as u8);
        }
        if pad < 1 {
            out.push(acc as u8);
        }
    }
    Some(out)
}

/// content of a line without its terminator (`\n`, and `\r\n` under --crlf)
pub fn content(line: &[u8], crlf: bool) -> &[u8] {
    let mut c = line;
    if c.last() == Some(&b'\n') {
        c = &c[..c.len() - 1];
        if crlf && c.last() == Some(&b'\r') {
            c = &c[..c.len() - 1];
        }
    }
    c
}

// ---------------------------------------------------------------- generators

/// sprinkle NUL bytes over an input (searched with -a/--text they are ordinary bytes)
pub fn with_nuls(rng: &mut Rng, input: &[u8]) -> Vec<u8> {
    input.iter().map(|&b| if b != b'\n' && b != b'\r' && rng.chance(1, 8) { 0 } else { b }).collect()
}

/// an input for --null-data made from a `\n`-terminated one: NUL ends the lines, some tabs become `\n` (an
/// ordinary byte now)
pub fn to_nul_data(rng: &mut Rng, input: &[u8]) -> Vec<u8> {
    input
        .iter()
        .map(|&b| match b {
            b'\n' => 0,
            b'\t' if rng.chance(1, 2) => b'\n',
            b' ' if rng.chance(1, 6) => b'\n',
            b => b,
        })
        .collect()
}

pub const SINGLE_PATTERNS: &[&str] = &[
    "a", "b", "ab", "[ab]", "a*", "b*", "^", "$", "^$", r"\b", r"\B", "a|", "|b", "(a|b)+", ".", ".*", "a.c",
    r"\w+", r"\s", r"\bab\b", "a$", "^a", "c$", r"\w*", "x*", "(?:)", "a?", r"[^a]", r"\x{e9}", r"(?-u:\xff)",
    r"(?-u:[\x80-\xff])", r"\p{L}+", "é", "€", r"-", r" +", r"\d+", r"[a-c]{2}", r"a{0}", r"$^",
    // anchors that tell "the line on its own" from "the line inside its buffer" (0cdcce3)
    r"\Aa", r"a\z", r"\A", r"\z", r"(?-m)^a", r"(?-m)b$", r"(?-m)^", r"(?-m)$", r"\A[ab]+\z",
];

pub const MULTI_PATTERNS: &[&str] = &[
    r"a\nb", r"\n", r"a\n?", r"(?s)a.b", r"[^x]", r"\s+", r"b\n\n", r"(?:a\n)?", r"\s*", r"a\n*$", r"(?s).",
    r"\n\n", r"[ab\n]+", r"^\n", r"c\n^a", r"\w+\n\w+", r"a\z", r"\A", r"(?s)a.{3}\z|a", r"(?s)^.*$", r"b$\n",
];

/// patterns outside the two pools above (own stream `pat`, so that the main streams keep their cases): half word
/// boundaries, ASCII word boundaries, flags inside the pattern, look-around at the edges of multi-line blocks
pub const EXTRA_SINGLE: &[&str] = &[
    r"\b{start-half}a", r"a\b{end-half}", r"\b{start}\w", r"\w\b{end}", r"\b{start-half}", r"\b{end-half}", r"(?-u:\b)a",
    r"(?-u:\B)", r"\b{start-half}(?:a|)\b{end-half}", r"(?i)É", r"[[:^alpha:]]+", r"(?x) a b ", r"(?-u:\w)+", r"a\r?$",
    r"(?R)a$", r"\B\z", r"\A\B", r"(?-m)^\B", r"\b{end-half}\z",
];

pub const EXTRA_MULTI: &[&str] = &[
    r"\b{start-half}a\n", r"a$\n^b", r"\n\b", r"$\n^", r"(?-m)^a", r"a(?-m)$", r"\Aa\n", r"\n\z", r"(?s:.)\z", r"\bb\n\n",
    r"\n+\z", r"^$\n", r"\n\B", r"\B\n\B", r"(?R)a$\r?\n", r"\b{end-half}\n\b{start-half}", r"\n(?-m)$", r"(?s).\b",
];

fn gen_regex(rng: &mut Rng, depth: usize) -> String {
    let k = rng.below(if depth == 0 { 7 } else { 13 });
    match k {
        0 => "a".into(),
        1 => "b".into(),
        2 => "[ab]".into(),
        3 => [r"\b", "^", "$", "", "c", r"\B", " "][rng.below(7)].into(),
        4 => ".".into(),
        5 => r"\w".into(),
        6 => "é".into(),
        7 => format!("({})", gen_regex(rng, depth - 1)),
        8 => format!("{}{}", gen_regex(rng, depth - 1), gen_regex(rng, depth - 1)),
        9 => format!("(?:{}|{})", gen_regex(rng, depth - 1), gen_regex(rng, depth - 1)),
        10 => format!("(?:{})*", gen_regex(rng, depth - 1)),
        11 => format!("(?:{})?", gen_regex(rng, depth - 1)),
        _ => format!("(?:{})+", gen_regex(rng, depth - 1)),
    }
}

pub fn gen_pattern(rng: &mut Rng, multi: bool) -> String {
    if multi && rng.chance(2, 3) {
        return rng.pick(MULTI_PATTERNS).to_string();
    }
    if rng.chance(1, 2) {
        rng.pick(SINGLE_PATTERNS).to_string()
    } else {
        gen_regex(rng, 3)
    }
}

/// One input file: a few lines over a tiny alphabet; CRLF / invalid UTF-8 / non-ASCII / long lines at low rates;
/// the final terminator is missing in about a third of the files. Never contains NUL.
pub fn gen_input(rng: &mut Rng, crlf_bias: bool, long: bool) -> Vec<u8> {
    let mut input = vec![];
    let nl = if rng.chance(1, 12) { 0 } else { rng.range(1, 6) };
    let bad = rng.chance(1, 6);
    let uni = rng.chance(1, 5);
    for i in 0..nl {
        let len = if long && rng.chance(1, 3) {
            rng.range(300, 3000)
        } else if rng.chance(1, 8) {
            0
        } else {
            rng.range(1, 9)
        };
        for _ in 0..len {
            if bad && rng.chance(1, 6) {
                input.extend_from_slice(*rng.pick(&[&b"\xff"[..], b"\xc3", b"\xe2\x82", b"\xf0\x9f", b"\x80", b"\xed\xa0\x80"]));
            } else if uni && rng.chance(1, 5) {
                input.extend_from_slice(*rng.pick(&["é".as_bytes(), "€".as_bytes(), "😀".as_bytes(), "ß".as_bytes()]));
            } else {
                input.push(*rng.pick(b"aabbc a-\tx"));
            }
        }
        if i + 1 < nl || rng.chance(2, 3) {
            if (crlf_bias && rng.chance(3, 4)) || rng.chance(1, 20) {
                input.push(b'\r');
            }
            input.push(b'\n');
        } else if rng.chance(1, 10) {
            input.push(b'\r');
        }
    }
    input
}
