use std::collections::{BTreeMap, BTreeSet};
use std::io::{BufRead, BufReader, Write};
use std::path::{Path, PathBuf};
use std::process::{Child, ChildStdin, ChildStdout, Command, Stdio};

// ---------------------------------------------------------------- PRNG

/// splitmix64: every random choice of a run derives from one seed.
#[derive(Clone, Debug)]
pub struct Rng(pub u64);

impl Rng {
    pub fn new(seed: u64) -> Rng {
        Rng(seed ^ 0x9E37_79B9_7F4A_7C15)
    }
    pub fn next(&mut self) -> u64 {
        self.0 = self.0.wrapping_add(0x9E37_79B9_7F4A_7C15);
        let mut z = self.0;
        z = (z ^ (z >> 30)).wrapping_mul(0xBF58_476D_1CE4_E5B9);
        z = (z ^ (z >> 27)).wrapping_mul(0x94D0_49BB_1331_11EB);
        z ^ (z >> 31)
    }
    /// uniform in 0..n (n > 0)
    pub fn below(&mut self, n: usize) -> usize {
        (self.next() % (n as u64)) as usize
    }
    pub fn range(&mut self, lo: usize, hi_incl: usize) -> usize {
        lo + self.below(hi_incl - lo + 1)
    }
    pub fn chance(&mut self, num: usize, den: usize) -> bool {
        self.below(den) < num
    }
    pub fn pick<'a, T>(&mut self, xs: &'a [T]) -> &'a T {
        &xs[self.below(xs.len())]
    }
    pub fn fork(&mut self) -> Rng {
        Rng::new(self.next())
    }
}

// ---------------------------------------------------------------- hex

pub fn hex(bs: &[u8]) -> String {
    if bs.is_empty() {
        return "-".to_string();
    }
    let mut s = String::with_capacity(bs.len() * 2);
    for b in bs {
        s.push_str(&format!("{:02x}", b));
    }
    s
}

pub fn unhex(s: &str) -> Option<Vec<u8>> {
    if s == "-" {
        return Some(vec![]);
    }
    if s.len() % 2 != 0 {
        return None;
    }
    let mut out = Vec::with_capacity(s.len() / 2);
    let b = s.as_bytes();
    for i in (0..b.len()).step_by(2) {
        let h = (b[i] as char).to_digit(16)?;
        let l = (b[i + 1] as char).to_digit(16)?;
        out.push((h * 16 + l) as u8);
    }
    Some(out)
}

/// Human-readable rendering of bytes for samples / replay files.
pub fn show(bs: &[u8]) -> String {
    let mut s = String::new();
    for &b in bs {
        match b {
            b'\n' => s.push_str("\\n"),
            b'\r' => s.push_str("\\r"),
            b'\t' => s.push_str("\\t"),
            b'\\' => s.push_str("\\\\"),
            0x20..=0x7e => s.push(b as char),
            _ => s.push_str(&format!("\\x{:02x}", b)),
        }
    }
    s
}

// ---------------------------------------------------------------- driver

/// Client of the Lean model driver (one request line → one reply line).
pub struct Driver {
    child: Child,
    stdin: ChildStdin,
    stdout: BufReader<ChildStdout>,
    pub requests: u64,
}

impl Driver {
    pub fn spawn(path: &Path) -> Driver {
        let mut child = Command::new(path)
            .stdin(Stdio::piped())
            .stdout(Stdio::piped())
            .spawn()
            .unwrap_or_else(|e| panic!("cannot start model driver {}: {}", path.display(), e));
        let stdin = child.stdin.take().unwrap();
        let stdout = BufReader::new(child.stdout.take().unwrap());
        let mut d = Driver { child, stdin, stdout, requests: 0 };
        assert_eq!(d.ask("ping"), "pong", "model driver does not answer");
        d
    }
    pub fn ask(&mut self, req: &str) -> String {
        debug_assert!(!req.contains('\n'));
        self.stdin.write_all(req.as_bytes()).unwrap();
        self.stdin.write_all(b"\n").unwrap();
        self.stdin.flush().unwrap();
        let mut line = String::new();
        let n = self.stdout.read_line(&mut line).unwrap();
        if n == 0 {
            panic!("model driver died on request: {}", req);
        }
        self.requests += 1;
        line.trim_end().to_string()
    }
    /// Pipelined batch (writer thread + reader) for throughput.
    pub fn ask_all(&mut self, reqs: &[String]) -> Vec<String> {
        let mut out = Vec::with_capacity(reqs.len());
        // chunk to keep the pipes from filling both ways
        for chunk in reqs.chunks(64) {
            let mut buf = String::new();
            for r in chunk {
                buf.push_str(r);
                buf.push('\n');
            }
            let stdin = &mut self.stdin;
            let stdout = &mut self.stdout;
            std::thread::scope(|s| {
                s.spawn(|| {
                    stdin.write_all(buf.as_bytes()).unwrap();
                    stdin.flush().unwrap();
                });
                for r in chunk {
                    let mut line = String::new();
                    let n = stdout.read_line(&mut line).unwrap();
                    if n == 0 {
                        panic!("model driver died on request: {}", r);
                    }
                    out.push(line.trim_end().to_string());
                }
            });
        }
        self.requests += reqs.len() as u64;
        out
    }
}

impl Drop for Driver {
    fn drop(&mut self) {
        let _ = self.child.kill();
        let _ = self.child.wait();
    }
}

// ---------------------------------------------------------------- args

#[derive(Clone, Debug)]
pub struct Args {
    pub seed: u64,
    pub thorough: bool,
    pub driver: PathBuf,
    pub out: PathBuf,
    pub replay_dir: PathBuf,
    pub corpus: Option<PathBuf>,
    pub replay: Option<PathBuf>,
    pub rg: Option<PathBuf>,
    pub scratch: PathBuf,
    pub cases: Option<usize>,
}

pub fn parse_args() -> Args {
    let mut a = Args {
        seed: 1,
        thorough: false,
        driver: PathBuf::from("/verif/lean/.lake/build/bin/rgmodel"),
        out: PathBuf::from("/dev/stdout"),
        replay_dir: PathBuf::from("/verif/replays"),
        corpus: None,
        replay: None,
        rg: None,
        scratch: std::env::temp_dir().join(format!("rgverif-{}", std::process::id())),
        cases: None,
    };
    let mut it = std::env::args().skip(1);
    while let Some(k) = it.next() {
        let mut v = || it.next().unwrap_or_else(|| panic!("missing value for {}", k));
        match k.as_str() {
            "--seed" => a.seed = v().parse().expect("seed"),
            "--tier" => a.thorough = v() == "thorough",
            "--driver" => a.driver = PathBuf::from(v()),
            "--out" => a.out = PathBuf::from(v()),
            "--replay-dir" => a.replay_dir = PathBuf::from(v()),
            "--corpus" => a.corpus = Some(PathBuf::from(v())),
            "--replay" => a.replay = Some(PathBuf::from(v())),
            "--rg" => a.rg = Some(PathBuf::from(v())),
            "--scratch" => a.scratch = PathBuf::from(v()),
            "--cases" => a.cases = Some(v().parse().expect("cases")),
            other => panic!("unknown argument {}", other),
        }
    }
    a
}

/// Lines of every `*.case` file in the corpus directory (sorted by name), then of the replay file.
pub fn corpus_cases(a: &Args) -> Vec<String> {
    let mut out = vec![];
    let mut files: Vec<PathBuf> = vec![];
    if let Some(dir) = &a.corpus {
        if let Ok(rd) = std::fs::read_dir(dir) {
            for e in rd.flatten() {
                let p = e.path();
                if p.extension().map_or(false, |x| x == "case") {
                    files.push(p);
                }
            }
        }
    }
    files.sort();
    if let Some(r) = &a.replay {
        files.push(r.clone());
    }
    for f in files {
        if let Ok(s) = std::fs::read_to_string(&f) {
            for l in s.lines() {
                let l = l.trim();
                if l.starts_with("case ") {
                    out.push(l["case ".len()..].to_string());
                }
            }
        }
    }
    out
}

// ---------------------------------------------------------------- report

#[derive(Clone, Debug)]
pub struct Violation {
    /// "impl_vs_spec" (a concrete input on which the implementation breaks the property),
    /// "impl_vs_model" (correspondence broken), "model_vs_spec" (theorem contradicted — never expected).
    pub kind: String,
    /// class used to match known findings (guard predicate name), "" if none
    pub class: String,
    /// which correspondence / theorem this touches
    pub tie: String,
    /// machine-readable case line (replayable with --replay)
    pub case: String,
    pub detail: String,
}

pub struct Report {
    pub property: String,
    pub evaluations: u64,
    pub nontrivial: BTreeSet<u64>,
    pub rule: String,
    pub samples: Vec<String>,
    pub branches: BTreeMap<String, u64>,
    pub violations: Vec<Violation>,
    pub notes: Vec<String>,
    pub exhaustive: bool,
    started: std::time::Instant,
}

pub fn fnv(s: &[u8]) -> u64 {
    let mut h: u64 = 0xcbf29ce484222325;
    for b in s {
        h ^= *b as u64;
        h = h.wrapping_mul(0x100000001b3);
    }
    h
}

fn jstr(s: &str) -> String {
    serde_json::to_string(s).unwrap()
}

impl Report {
    pub fn new(property: &str, rule: &str) -> Report {
        Report {
            property: property.to_string(),
            evaluations: 0,
            nontrivial: BTreeSet::new(),
            rule: rule.to_string(),
            samples: vec![],
            branches: BTreeMap::new(),
            violations: vec![],
            notes: vec![],
            exhaustive: false,
            started: std::time::Instant::now(),
        }
    }
    pub fn eval(&mut self) {
        self.evaluations += 1;
    }
    /// Count a case as non-trivial; distinctness is by hash of its canonical text.
    pub fn nontrivial(&mut self, case: &str) {
        self.nontrivial.insert(fnv(case.as_bytes()));
    }
    pub fn branch(&mut self, b: &str) {
        *self.branches.entry(b.to_string()).or_insert(0) += 1;
    }
    pub fn sample(&mut self, s: String) {
        if self.samples.len() < 12 {
            self.samples.push(s);
        }
    }
    pub fn violation(&mut self, v: Violation) {
        // keep the list small: at most 5 per (kind, class)
        let n = self.violations.iter().filter(|x| x.kind == v.kind && x.class == v.class).count();
        self.branch(&format!("violation:{}:{}", v.kind, v.class));
        if n < 5 {
            self.violations.push(v);
        }
    }
    pub fn write(&self, a: &Args) {
        std::fs::create_dir_all(&a.replay_dir).ok();
        let mut vs = vec![];
        for (i, v) in self.violations.iter().enumerate() {
            let path = a.replay_dir.join(format!("{}-{}-{}.case", self.property, v.kind, i));
            let body = format!(
                "# property {}\n# kind {}\n# class {}\n# tie {}\n# detail {}\n# replay: /verif/bin/check {} --replay {}\ncase {}\n",
                self.property,
                v.kind,
                v.class,
                v.tie,
                v.detail.replace('\n', " "),
                self.property,
                path.display(),
                v.case
            );
            std::fs::write(&path, body).ok();
            vs.push(format!(
                "{{\"kind\":{},\"class\":{},\"tie\":{},\"case\":{},\"detail\":{},\"replay\":{}}}",
                jstr(&v.kind),
                jstr(&v.class),
                jstr(&v.tie),
                jstr(&v.case),
                jstr(&v.detail),
                jstr(&path.display().to_string())
            ));
        }
        let branches: Vec<String> =
            self.branches.iter().map(|(k, v)| format!("{}:{}", jstr(k), v)).collect();
        let samples: Vec<String> = self.samples.iter().map(|s| jstr(s)).collect();
        let notes: Vec<String> = self.notes.iter().map(|s| jstr(s)).collect();
        let s = format!(
            "{{\"property\":{},\"evaluations\":{},\"distinct_nontrivial\":{},\"rule\":{},\"exhaustive\":{},\"samples\":[{}],\"branches\":{{{}}},\"notes\":[{}],\"violations\":[{}],\"harness_wall_s\":{:.2}}}\n",
            jstr(&self.property),
            self.evaluations,
            self.nontrivial.len(),
            jstr(&self.rule),
            self.exhaustive,
            samples.join(","),
            branches.join(","),
            notes.join(","),
            vs.join(","),
            self.started.elapsed().as_secs_f64()
        );
        std::fs::write(&a.out, s).expect("write report");
    }
}

// ---------------------------------------------------------------- shrinking

/// Greedy delta-debugging on a byte vector: remove chunks, then simplify bytes, while `bad` holds.
pub fn shrink_bytes(input: &[u8], bad: &mut dyn FnMut(&[u8]) -> bool) -> Vec<u8> {
    let mut cur = input.to_vec();
    let mut budget = 400;
    let mut chunk = (cur.len() / 2).max(1);
    while chunk >= 1 && budget > 0 {
        let mut i = 0;
        let mut progressed = false;
        while i < cur.len() && budget > 0 {
            let end = (i + chunk).min(cur.len());
            let mut cand = cur[..i].to_vec();
            cand.extend_from_slice(&cur[end..]);
            budget -= 1;
            if bad(&cand) {
                cur = cand;
                progressed = true;
            } else {
                i += chunk;
            }
        }
        if !progressed {
            if chunk == 1 {
                break;
            }
            chunk /= 2;
        }
    }
    cur
}

/// Shrink a list of items by removing elements while `bad` holds.
pub fn shrink_list<T: Clone>(input: &[T], bad: &mut dyn FnMut(&[T]) -> bool) -> Vec<T> {
    let mut cur = input.to_vec();
    let mut budget = 300;
    let mut i = 0;
    while i < cur.len() && budget > 0 {
        let mut cand = cur.clone();
        cand.remove(i);
        budget -= 1;
        if bad(&cand) {
            cur = cand;
        } else {
            i += 1;
        }
    }
    cur
}
