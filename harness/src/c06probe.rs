//! C06 — probes of what the modelled stream of c06.rs does not generate (restrictions of the generators / oracles
//! that the property's quantifier does not have).  Each probe runs the REAL walkers at the excluded point and
//! compares them with each other and — where the independent listing applies — with the listing:
//!   roots     roots given as `.`, `./x`, `x/`, `x/.`, relative, nested inside another root, given twice
//!   sort      sort_by_file_name / sort_by_file_path on the serial walker (the parallel walker has no sorter)
//!   attrs     depth(), file type and path_is_symlink() of every entry, serial vs parallel
//!   stdf      standard_filters(true): hidden files, .gitignore / .ignore with richer patterns, .git, parents, case
//!   perm      directories with mode r-- (listable, children cannot be stat-ed) and unreadable files
//!   stdout    skip_stdout(true) with stdout redirected into a file of the tree
//! A probe case is `probe kind=<k> seed=<n>`; everything is derived from the seed.
use super::*;
use std::os::unix::ffi::OsStrExt;

fn norm(p: &Path) -> String {
    let q: PathBuf = p.components().collect();
    String::from_utf8_lossy(q.as_os_str().as_bytes()).to_string()
}

fn sorted(items: &[(char, PathBuf)]) -> Vec<String> {
    let mut v: Vec<String> = items.iter().map(|(k, p)| format!("{}:{}", k, norm(p))).collect();
    v.sort();
    v
}

fn diff2(a: &[String], b: &[String]) -> String {
    let only_a: Vec<&String> = a.iter().filter(|x| !b.contains(x)).collect();
    let only_b: Vec<&String> = b.iter().filter(|x| !a.contains(x)).collect();
    format!("only-left {:?} only-right {:?} (sizes {} / {})", only_a, only_b, a.len(), b.len())
}

struct Cwd(PathBuf);
impl Cwd {
    fn enter(p: &Path) -> Cwd {
        let old = std::env::current_dir().unwrap();
        std::env::set_current_dir(p).unwrap();
        Cwd(old)
    }
}
impl Drop for Cwd {
    fn drop(&mut self) {
        let _ = std::env::set_current_dir(&self.0);
    }
}

fn dirs_of(ts: &[T], prefix: &str, out: &mut Vec<String>) {
    for t in ts {
        if let T::Dir { name, kids, locked, .. } = t {
            let p = if prefix.is_empty() { name.clone() } else { format!("{}/{}", prefix, name) };
            if !*locked {
                out.push(p.clone());
                dirs_of(kids, &p, out);
            }
        }
    }
}

fn violation(rep: &mut Report, text: &str, tie: &str, detail: String) {
    rep.violation(Violation {
        kind: "impl_vs_spec".into(),
        class: "".into(),
        tie: tie.into(),
        case: text.into(),
        detail,
    });
}

#[derive(Clone, Debug)]
struct Attr {
    path: String,
    depth: usize,
    is_dir: bool,
    is_symlink: bool,
    path_is_symlink: bool,
}

fn attr_of(e: &ignore::DirEntry) -> Attr {
    let ft = e.file_type();
    Attr {
        path: norm(e.path()),
        depth: e.depth(),
        is_dir: ft.map_or(false, |f| f.is_dir()),
        is_symlink: ft.map_or(false, |f| f.is_symlink()),
        path_is_symlink: e.path_is_symlink(),
    }
}

extern "C" {
    fn dup(fd: i32) -> i32;
    fn dup2(old: i32, new: i32) -> i32;
    fn close(fd: i32) -> i32;
}

pub fn run_probe(kind: &str, seed: u64, scratch: &Path, rep: &mut Report) {
    rep.eval();
    rep.branch(&format!("probe:{}", kind));
    let text = format!("probe kind={} seed={}", kind, seed);
    let mut rng = Rng::new(seed ^ 0x5eed);
    // no second device here: (historical: the then-open finding F25 was not to blur the probes)
    let (mut main, _alt, mut roots) = gen_case(&mut rng, false);
    let mut cfg = gen_cfg(&mut rng);
    // fixed witnesses of the two known findings of the `perm` probe (independent of the random generator)
    let witness = match kind {
        "f26" => Some(("(r0(sub(a:1),f:1,g:2))", "r0", 0o444, "r0")),
        "f27" => Some(("(d(a:1),l>main/d,r0(b:1))", "l.r0", 0o111, "d")),
        _ => None,
    };
    if let Some((tree, rs, _, _)) = witness {
        main = parse_ts(tree).unwrap();
        roots = rs.split('.').map(|x| x.to_string()).collect();
        cfg = Cfg { depth: None, size: None, follow: kind == "f27", samefs: kind == "f26", filter: None, fkind: 'a', sort: None };
    }
    let kind = if witness.is_some() { "perm" } else { kind };
    let threads = rng.range(0, 8);
    let base = scratch.join(format!("probe-{}-{}", kind, seed));
    let _ = std::fs::remove_dir_all(&base);
    let areas = Areas { main: base.join("main"), alt: base.join("alt") };
    if kind == "perm" {
        // unreadable FILES are added to the description below (mode set after materialising)
        strip_locked(&mut main);
    }
    materialise(&areas, &areas.alt, &[]);
    materialise(&areas, &areas.main, &main);
    let abs_roots: Vec<PathBuf> = roots.iter().map(|r| areas.main.join(r)).collect();
    let locked = has_locked(&main);

    match kind {
        "roots" => {
            let _cwd = Cwd::enter(&areas.main);
            let mut given: Vec<PathBuf> = vec![];
            let mut inner = vec![];
            dirs_of(&main, "", &mut inner);
            for r in &roots {
                let is_real_dir = main.iter().any(|t| matches!(t, T::Dir { name, .. } if name == r));
                let form = rng.below(7);
                let s = match form {
                    0 => areas.main.join(r).to_string_lossy().to_string(),
                    1 => r.clone(),
                    2 => format!("./{}", r),
                    3 if is_real_dir => format!("{}/", r),
                    4 if is_real_dir => format!("{}/.", r),
                    5 if is_real_dir => format!("./{}/../{}", r, r),
                    _ => format!("./{}", r),
                };
                given.push(PathBuf::from(s));
            }
            match rng.below(5) {
                0 => given.push(PathBuf::from(".")),
                1 if !inner.is_empty() => given.push(PathBuf::from(rng.pick(&inner).clone())), // a root inside a root
                2 => given.push(given[0].clone()),                                         // the same root twice
                3 if !inner.is_empty() => given.insert(0, PathBuf::from(format!("./{}", rng.pick(&inner)))),
                _ => {}
            }
            rep.branch("probe:roots:run");
            let _uid = FsUid::drop_if(locked);
            let mut l = Lister::new(&cfg);
            for g in &given {
                l.root(g);
            }
            let limit = 20 * l.out.len() + 1000;
            let drop_io = |v: Vec<String>| -> Vec<String> {
                if locked {
                    v.into_iter().filter(|x| !x.starts_with("B:") && !x.starts_with("D:")).collect()
                } else {
                    v
                }
            };
            let ser = drop_io(sorted(&real_serial(&cfg, &given, limit)));
            let par = drop_io(sorted(&real_parallel(&cfg, &given, threads, limit)));
            let lst = drop_io(sorted(&l.out));
            if ser != par {
                violation(rep, &text, "roots in unusual forms: build() vs build_parallel()", format!("roots {:?} cfg {:?}: {}", given, cfg, diff2(&ser, &par)));
            } else if ser != lst {
                violation(rep, &text, "roots in unusual forms: walkers vs listing", format!("roots {:?} cfg {:?}: {}", given, cfg, diff2(&ser, &lst)));
            }
        }
        "sort" => {
            let _uid = FsUid::drop_if(locked);
            let mut l = Lister::new(&cfg);
            for g in &abs_roots {
                l.root(g);
            }
            let limit = 20 * l.out.len() + 1000;
            let by_path = rng.chance(1, 2);
            let rev = rng.chance(1, 2);
            let mut b = builder(&cfg, &abs_roots, 1);
            if by_path {
                b.sort_by_file_path(move |a, b| if rev { b.cmp(a) } else { a.cmp(b) });
            } else {
                b.sort_by_file_name(move |a, b| if rev { b.cmp(a) } else { a.cmp(b) });
            }
            let mut ser = vec![];
            for r in b.build() {
                match r {
                    Ok(e) => ser.push(('e', e.path().to_path_buf())),
                    Err(err) => ser.push(classify(&err, None)),
                }
                if ser.len() > limit {
                    break;
                }
            }
            let f = |v: Vec<String>| -> Vec<String> {
                if locked {
                    v.into_iter().filter(|x| !x.starts_with("B:") && !x.starts_with("D:")).collect()
                } else {
                    v
                }
            };
            let ser = f(sorted(&ser));
            let par = f(sorted(&real_parallel(&cfg, &abs_roots, threads, limit)));
            let lst = f(sorted(&l.out));
            if ser != par || ser != lst {
                violation(rep, &text, "sorted serial walker vs parallel walker vs listing", format!("cfg {:?} by_path={} rev={}: ser/par {} ; ser/lst {}", cfg, by_path, rev, diff2(&ser, &par), diff2(&ser, &lst)));
            }
        }
        "attrs" => {
            let _uid = FsUid::drop_if(locked);
            let mut ser: Vec<Attr> = vec![];
            for r in builder(&cfg, &abs_roots, 1).build().take(20000) {
                if let Ok(e) = r {
                    ser.push(attr_of(&e));
                }
            }
            let out = Arc::new(Mutex::new(vec![]));
            let o2 = out.clone();
            builder(&cfg, &abs_roots, threads).build_parallel().run(|| {
                let o = o2.clone();
                Box::new(move |r| {
                    if let Ok(e) = r {
                        o.lock().unwrap().push(attr_of(&e));
                    }
                    WalkState::Continue
                })
            });
            let mut par = out.lock().unwrap().clone();
            ser.sort_by(|a, b| a.path.cmp(&b.path));
            par.sort_by(|a, b| a.path.cmp(&b.path));
            let show = |v: &Vec<Attr>| -> Vec<String> {
                v.iter()
                    .map(|a| format!("{} depth={} dir={} symlink={} path_is_symlink={}", a.path.trim_start_matches(&*areas.main.to_string_lossy()), a.depth, a.is_dir, a.is_symlink, a.path_is_symlink))
                    .collect()
            };
            let (s, p) = (show(&ser), show(&par));
            if s != p {
                let root_only = s.iter().zip(p.iter()).filter(|(a, b)| a != b).all(|(a, _)| a.contains("depth=0"));
                rep.branch(if root_only { "probe:attrs:differ-at-roots-only" } else { "probe:attrs:differ-below-roots" });
                if !root_only || s.len() != p.len() {
                    violation(rep, &text, "DirEntry attributes (depth, file type, path_is_symlink): build() vs build_parallel()", format!("cfg {:?}: {}", cfg, diff2(&s, &p)));
                } else if rep.notes.iter().filter(|n| n.starts_with("attrs:")).count() < 2 {
                    rep.notes.push(format!("attrs: serial and parallel report different file types for a ROOT that is a symbolic link (paths agree): {}", diff2(&s, &p)));
                }
            }
        }
        "stdf" => {
            // ignore files with richer patterns, hidden entries, a .git directory
            let pats = ["a", "*.x", "b/", "/c", "**/d", "!a", "!*.x", "m*", "x/y", "*", "!keep", "e/**", "[ab]", "\\!n"];
            let mut dirs = vec![String::new()];
            for r in &roots {
                if main.iter().any(|t| matches!(t, T::Dir { name, .. } if name == r)) {
                    dirs.push(r.clone());
                }
            }
            let mut inner = vec![];
            dirs_of(&main, "", &mut inner);
            dirs.extend(inner);
            for d in &dirs {
                let dp = if d.is_empty() { areas.main.clone() } else { areas.main.join(d) };
                if !dp.is_dir() || std::fs::symlink_metadata(&dp).map_or(true, |m| m.file_type().is_symlink()) {
                    continue;
                }
                for fname in [".gitignore", ".ignore", ".rgignore"] {
                    if rng.chance(1, 4) {
                        let n = rng.range(1, 3);
                        let lines: Vec<String> = (0..n).map(|_| rng.pick(&pats).to_string()).collect();
                        let _ = std::fs::write(dp.join(fname), lines.join("\n") + "\n");
                    }
                }
                if rng.chance(1, 6) {
                    let _ = std::fs::write(dp.join(".hidden"), b"h");
                }
                if rng.chance(1, 8) {
                    let _ = std::fs::create_dir_all(dp.join(".git/info"));
                    let _ = std::fs::write(dp.join(".git/info/exclude"), format!("{}\n", rng.pick(&pats)));
                }
                for extra in ["k.x", "keep", "A"] {
                    if rng.chance(1, 5) {
                        let _ = std::fs::write(dp.join(extra), b"1");
                    }
                }
            }
            let (hidden, parents, req_git, icase) = (rng.chance(1, 2), rng.chance(1, 2), rng.chance(1, 2), rng.chance(1, 3));
            let mk = |threads: usize| {
                let mut b = builder(&cfg, &abs_roots, threads);
                b.standard_filters(true).hidden(hidden).parents(parents).require_git(req_git).ignore_case_insensitive(icase);
                b.add_custom_ignore_filename(".rgignore");
                b
            };
            let mut ser = vec![];
            for r in mk(1).build().take(20000) {
                if let Ok(e) = r {
                    ser.push(('e', e.path().to_path_buf()));
                }
            }
            let out = Arc::new(Mutex::new(vec![]));
            let o2 = out.clone();
            mk(threads).build_parallel().run(|| {
                let o = o2.clone();
                Box::new(move |r| {
                    if let Ok(e) = r {
                        o.lock().unwrap().push(('e', e.path().to_path_buf()));
                    }
                    WalkState::Continue
                })
            });
            let par = sorted(&out.lock().unwrap());
            let ser = sorted(&ser);
            if ser != par {
                violation(rep, &text, "standard filters (hidden, .gitignore, .ignore, .git/info/exclude, parents): build() vs build_parallel()", format!("cfg {:?} hidden={} parents={} require_git={} icase={}: {}", cfg, hidden, parents, req_git, icase, diff2(&ser, &par)));
            }
        }
        "perm" => {
            use std::os::unix::fs::PermissionsExt;
            // some directories r-- (names can be listed, nothing in them can be stat-ed), some files unreadable
            let mut inner = vec![];
            dirs_of(&main, "", &mut inner);
            let mut changed = vec![];
            for d in &inner {
                let dp = areas.main.join(d);
                if std::fs::symlink_metadata(&dp).map_or(false, |m| m.is_dir()) && rng.chance(1, 3) {
                    changed.push(dp);
                }
            }
            fn files(dir: &Path, out: &mut Vec<PathBuf>) {
                if let Ok(rd) = std::fs::read_dir(dir) {
                    for e in rd.flatten() {
                        let p = e.path();
                        match std::fs::symlink_metadata(&p) {
                            Ok(m) if m.is_dir() => files(&p, out),
                            Ok(m) if m.is_file() => out.push(p),
                            _ => {}
                        }
                    }
                }
            }
            let mut fs = vec![];
            files(&areas.main, &mut fs);
            for f in &fs {
                if witness.is_none() && rng.chance(1, 4) {
                    let _ = std::fs::set_permissions(f, std::fs::Permissions::from_mode(0o000));
                }
            }
            let mut mode = if rng.chance(1, 2) { 0o444 } else { 0o111 };
            if let Some((_, _, m, which)) = witness {
                mode = m;
                changed = vec![areas.main.join(which)];
            }
            for d in changed.iter().rev() {
                let _ = std::fs::set_permissions(d, std::fs::Permissions::from_mode(mode));
            }
            let uid = FsUid::drop_if(true);
            let keep = |v: Vec<(char, PathBuf)>| -> Vec<String> {
                sorted(&v).into_iter().filter(|x| x.starts_with("e:") || x.starts_with("L:")).collect()
            };
            let ser = keep(real_serial(&cfg, &abs_roots, 50000));
            let par = keep(real_parallel(&cfg, &abs_roots, threads, 50000));
            // Known finding F26 (class unstatable-dir-under-same-file-system): with same_file_system walkdir stats every
            // directory it is handed (device check) and yields the stat error INSTEAD of the entry; the parallel walker
            // reports the entry and the error.  Attributed only if that mechanism is demonstrably at work: the option is
            // on, nothing is extra in the serial result, and every entry missing from it cannot be stat-ed (EACCES).
            let missing: Vec<&String> = par.iter().filter(|x| !ser.contains(x)).collect();
            let extra = ser.iter().any(|x| !par.contains(x));
            let mechanism = cfg.samefs
                && !extra
                && !missing.is_empty()
                && missing.iter().all(|m| {
                    m.strip_prefix("e:").map_or(false, |p| {
                        matches!(std::fs::metadata(p), Err(e) if e.kind() == std::io::ErrorKind::PermissionDenied)
                    })
                });
            // Known finding F27 (class unopenable-root-link-with-follow-links): a ROOT that is a symbolic link to a
            // directory which cannot be opened: with follow_links walkdir's loop check opens it and yields the error
            // instead of the root entry; the parallel walker only stats its roots and reports the entry.
            let mechanism27 = cfg.follow
                && !extra
                && !missing.is_empty()
                && missing.iter().all(|m| {
                    m.strip_prefix("e:").map_or(false, |p| {
                        abs_roots.iter().any(|r| norm(r) == p)
                            && std::fs::symlink_metadata(p).map_or(false, |md| md.file_type().is_symlink())
                            && std::fs::metadata(p).map_or(false, |md| md.is_dir())
                            && std::fs::File::open(p).is_err()
                    })
                });
            drop(uid);
            for d in &changed {
                let _ = std::fs::set_permissions(d, std::fs::Permissions::from_mode(0o755));
            }
            if ser != par {
                if mechanism {
                    rep.branch("class:unstatable-dir-under-same-file-system:attributed");
                } else if mechanism27 {
                    rep.branch("class:unopenable-root-link-with-follow-links:attributed");
                }
                rep.violation(Violation {
                    kind: "impl_vs_spec".into(),
                    class: if mechanism {
                        "unstatable-dir-under-same-file-system".into()
                    } else if mechanism27 {
                        "unopenable-root-link-with-follow-links".into()
                    } else {
                        "".into()
                    },
                    tie: "directories with mode r-- / --x and unreadable files: entries of build() vs build_parallel()".into(),
                    case: text.clone(),
                    detail: format!("cfg {:?} mode {:o}: {}", cfg, mode, diff2(&ser, &par)),
                });
            }
        }
        "stdout" => {
            // stdout redirected into a file of the tree: with skip_stdout(true) that file is skipped by both walkers
            let target = areas.main.join("stdout.txt");
            let extra_root = rng.chance(1, 2);
            let f = std::fs::File::create(&target).unwrap();
            use std::os::unix::io::AsRawFd;
            let saved = unsafe { dup(1) };
            unsafe { dup2(f.as_raw_fd(), 1) };
            let mut rs = abs_roots.clone();
            if extra_root {
                rs.push(target.clone());
            } else {
                rs = vec![areas.main.clone()];
            }
            let mk = |threads: usize| {
                let mut b = builder(&cfg, &rs, threads);
                b.skip_stdout(true);
                b
            };
            let mut ser = vec![];
            for r in mk(1).build().take(20000) {
                if let Ok(e) = r {
                    ser.push(('e', e.path().to_path_buf()));
                }
            }
            let out = Arc::new(Mutex::new(vec![]));
            let o2 = out.clone();
            mk(threads).build_parallel().run(|| {
                let o = o2.clone();
                Box::new(move |r| {
                    if let Ok(e) = r {
                        o.lock().unwrap().push(('e', e.path().to_path_buf()));
                    }
                    WalkState::Continue
                })
            });
            unsafe {
                dup2(saved, 1);
                close(saved);
            }
            let par = sorted(&out.lock().unwrap());
            let ser = sorted(&ser);
            let shown = |v: &Vec<String>| v.iter().any(|x| x.ends_with("/stdout.txt"));
            if ser != par {
                violation(rep, &text, "skip_stdout: build() vs build_parallel()", format!("cfg {:?} extra_root={}: {}", cfg, extra_root, diff2(&ser, &par)));
            } else if !extra_root && shown(&ser) && cfg.depth.map_or(true, |d| d >= 1) && cfg.size.is_none() && cfg.filter.is_none() {
                violation(rep, &text, "skip_stdout: the file stdout points to is reported", format!("cfg {:?}", cfg));
            }
        }
        _ => rep.notes.push(format!("unknown probe kind {}", kind)),
    }
    // unreadable things must not survive for the clean-up
    fn unlock(dir: &Path) {
        use std::os::unix::fs::PermissionsExt;
        if let Ok(m) = std::fs::symlink_metadata(dir) {
            if m.is_dir() {
                let _ = std::fs::set_permissions(dir, std::fs::Permissions::from_mode(0o755));
                if let Ok(rd) = std::fs::read_dir(dir) {
                    for e in rd.flatten() {
                        unlock(&e.path());
                    }
                }
            }
        }
    }
    unlock(&base);
    let _ = std::fs::remove_dir_all(&base);
}

fn strip_locked(ts: &mut [T]) {
    for t in ts.iter_mut() {
        if let T::Dir { locked, kids, .. } = t {
            *locked = false;
            strip_locked(kids);
        }
    }
}
