//! Helpers shared by the checks that drive the real `rg` binary (C15, C18, C08, C17):
//! running a command with captured output and a generous watchdog, closing stdout after k bytes,
//! dropping privileges (the sandbox runs as root, which ignores mode bits), scripts, small utilities.
#![allow(dead_code)]
use std::io::Read;
use std::os::unix::fs::PermissionsExt;
use std::os::unix::process::{CommandExt, ExitStatusExt};
use std::path::{Path, PathBuf};
use std::process::{Command, Stdio};
use std::time::{Duration, Instant};

/// Watchdog for one child process: far above anything a healthy run needs even on a loaded machine (a run
/// takes milliseconds). Policy: when it expires the same command is run once more with twice the limit, and
/// only a second expiry is reported as a hang (`timed_out`); every retry is counted (`watchdog_retries`).
pub const WATCHDOG: Duration = Duration::from_secs(120);

static RETRIES: std::sync::atomic::AtomicU64 = std::sync::atomic::AtomicU64::new(0);

/// Number of watchdog expiries that were followed by a retry in this process.
pub fn watchdog_retries() -> u64 {
    RETRIES.load(std::sync::atomic::Ordering::SeqCst)
}

#[derive(Clone, Debug, Default)]
pub struct RunOut {
    pub code: Option<i32>,
    pub signal: Option<i32>,
    pub stdout: Vec<u8>,
    pub stderr: Vec<u8>,
    pub timed_out: bool,
    pub wall: Duration,
}

impl RunOut {
    pub fn exit(&self) -> i32 {
        match (self.code, self.signal) {
            (Some(c), _) => c,
            (None, Some(s)) => 128 + s,
            _ => -1,
        }
    }
    pub fn stderr_str(&self) -> String {
        String::from_utf8_lossy(&self.stderr).into_owned()
    }
    pub fn stdout_str(&self) -> String {
        String::from_utf8_lossy(&self.stdout).into_owned()
    }
}

fn wait_child(mut child: std::process::Child, started: Instant, limit: Duration) -> (Option<i32>, Option<i32>, bool) {
    // Polling for process exit (not a synchronisation between test actors): the poll interval only
    // bounds how late we notice the exit.
    let mut nap = Duration::from_micros(200);
    loop {
        match child.try_wait() {
            Ok(Some(st)) => return (st.code(), st.signal(), false),
            Ok(None) => {}
            Err(_) => return (None, None, false),
        }
        if started.elapsed() > limit {
            let _ = child.kill();
            let st = child.wait().ok();
            return (st.and_then(|s| s.code()), st.and_then(|s| s.signal()), true);
        }
        std::thread::sleep(nap);
        if nap < Duration::from_millis(20) {
            nap *= 2;
        }
    }
}

/// Run to completion, stdin = /dev/null (or the given bytes), stdout and stderr captured concurrently.
pub fn run_cmd(cmd: &mut Command, stdin: Option<&[u8]>) -> RunOut {
    let first = run_cmd_limit(cmd, stdin, WATCHDOG);
    if !first.timed_out {
        return first;
    }
    RETRIES.fetch_add(1, std::sync::atomic::Ordering::SeqCst);
    run_cmd_limit(cmd, stdin, WATCHDOG * 2)
}

fn run_cmd_limit(cmd: &mut Command, stdin: Option<&[u8]>, limit: Duration) -> RunOut {
    let started = Instant::now();
    cmd.stdout(Stdio::piped()).stderr(Stdio::piped());
    cmd.stdin(if stdin.is_some() { Stdio::piped() } else { Stdio::null() });
    let mut child = match cmd.spawn() {
        Ok(c) => c,
        Err(e) => {
            return RunOut { stderr: format!("spawn failed: {}", e).into_bytes(), ..Default::default() };
        }
    };
    let mut so = child.stdout.take().unwrap();
    let mut se = child.stderr.take().unwrap();
    let si = child.stdin.take();
    let input: Option<Vec<u8>> = stdin.map(|b| b.to_vec());
    let (stdout, stderr, (code, signal, timed_out)) = std::thread::scope(|s| {
        let t1 = s.spawn(move || {
            let mut v = vec![];
            let _ = so.read_to_end(&mut v);
            v
        });
        let t2 = s.spawn(move || {
            let mut v = vec![];
            let _ = se.read_to_end(&mut v);
            v
        });
        let t3 = s.spawn(move || {
            if let (Some(mut si), Some(input)) = (si, input) {
                use std::io::Write;
                let _ = si.write_all(&input);
            }
        });
        let w = wait_child(child, started, limit);
        let _ = t3.join();
        (t1.join().unwrap(), t2.join().unwrap(), w)
    });
    RunOut { code, signal, stdout, stderr, timed_out, wall: started.elapsed() }
}

/// Like `run_cmd`, but stdout goes to the file / device `to` (e.g. `/dev/full`) and stdin is `stdin_from`
/// (a file or directory opened read-only; `None` = /dev/null).  `stdout` of the result stays empty.
pub fn run_cmd_redirected(cmd: &mut Command, to: Option<&Path>, stdin_from: Option<&Path>) -> RunOut {
    let mut limit = WATCHDOG;
    for attempt in 0..2 {
        let started = Instant::now();
        match to {
            Some(p) => match std::fs::OpenOptions::new().write(true).open(p) {
                Ok(f) => { cmd.stdout(f); }
                Err(e) => return RunOut { stderr: format!("cannot open {}: {}", p.display(), e).into_bytes(), ..Default::default() },
            },
            None => { cmd.stdout(Stdio::piped()); }
        }
        match stdin_from {
            Some(p) => match std::fs::File::open(p) {
                Ok(f) => { cmd.stdin(f); }
                Err(e) => return RunOut { stderr: format!("cannot open {}: {}", p.display(), e).into_bytes(), ..Default::default() },
            },
            None => { cmd.stdin(Stdio::null()); }
        }
        cmd.stderr(Stdio::piped());
        let mut child = match cmd.spawn() {
            Ok(c) => c,
            Err(e) => return RunOut { stderr: format!("spawn failed: {}", e).into_bytes(), ..Default::default() },
        };
        let so = child.stdout.take();
        let mut se = child.stderr.take().unwrap();
        let (stdout, stderr, (code, signal, timed_out)) = std::thread::scope(|s| {
            let t1 = s.spawn(move || {
                let mut v = vec![];
                if let Some(mut so) = so { let _ = so.read_to_end(&mut v); }
                v
            });
            let t2 = s.spawn(move || {
                let mut v = vec![];
                let _ = se.read_to_end(&mut v);
                v
            });
            let w = wait_child(child, started, limit);
            (t1.join().unwrap(), t2.join().unwrap(), w)
        });
        // release our copies of the redirected descriptors
        cmd.stdout(Stdio::null()).stdin(Stdio::null());
        let out = RunOut { code, signal, stdout, stderr, timed_out, wall: started.elapsed() };
        if !out.timed_out || attempt == 1 {
            return out;
        }
        RETRIES.fetch_add(1, std::sync::atomic::Ordering::SeqCst);
        limit = WATCHDOG * 2;
    }
    unreachable!()
}

extern "C" {
    fn fcntl(fd: i32, cmd: i32, ...) -> i32;
}
const F_SETPIPE_SZ: i32 = 1031;
const F_GETPIPE_SZ: i32 = 1032;

/// Run with stdout connected to a pipe whose read end is closed by the "consumer" after it has read
/// `k` bytes (k = 0: closed before the process starts, so every write fails with EPIPE).
/// Returns the run (stdout = the bytes the consumer read) and the pipe capacity in bytes.
pub fn run_cmd_close_after(cmd: &mut Command, k: usize) -> (RunOut, usize) {
    let first = run_cmd_close_after_limit(cmd, k, WATCHDOG);
    if !first.0.timed_out {
        return first;
    }
    RETRIES.fetch_add(1, std::sync::atomic::Ordering::SeqCst);
    run_cmd_close_after_limit(cmd, k, WATCHDOG * 2)
}

fn run_cmd_close_after_limit(cmd: &mut Command, k: usize, limit: Duration) -> (RunOut, usize) {
    use std::os::fd::AsRawFd;
    let started = Instant::now();
    let (reader, writer) = std::io::pipe().expect("pipe");
    // the smallest capacity the kernel grants (one page): the process must overrun it to notice
    let cap = unsafe {
        fcntl(writer.as_raw_fd(), F_SETPIPE_SZ, 4096i32);
        let c = fcntl(writer.as_raw_fd(), F_GETPIPE_SZ);
        if c <= 0 { 65536 } else { c as usize }
    };
    cmd.stdin(Stdio::null()).stdout(writer).stderr(Stdio::piped());
    let mut reader_opt = if k == 0 {
        drop(reader);
        None
    } else {
        Some(reader)
    };
    let spawned = cmd.spawn();
    // the Command owns our copy of the write end: release it so that only the child holds it
    cmd.stdout(Stdio::null());
    let mut child = match spawned {
        Ok(c) => c,
        Err(e) => {
            return (RunOut { stderr: format!("spawn failed: {}", e).into_bytes(), ..Default::default() }, cap);
        }
    };
    let mut se = child.stderr.take().unwrap();
    let (stdout, stderr, (code, signal, timed_out)) = std::thread::scope(|s| {
        let t2 = s.spawn(move || {
            let mut v = vec![];
            let _ = se.read_to_end(&mut v);
            v
        });
        let mut got = vec![];
        if let Some(r) = reader_opt.as_mut() {
            let mut buf = vec![0u8; k];
            let mut n = 0;
            while n < k {
                match r.read(&mut buf[n..]) {
                    Ok(0) => break,
                    Ok(m) => n += m,
                    Err(_) => break,
                }
            }
            buf.truncate(n);
            got = buf;
        }
        drop(reader_opt.take()); // the consumer goes away
        let w = wait_child(child, started, limit);
        (got, t2.join().unwrap(), w)
    });
    (RunOut { code, signal, stdout, stderr, timed_out, wall: started.elapsed() }, cap)
}

/// Count a watchdog expiry that is followed by a retry (for callers that run their own watchdog).
pub fn note_retry() {
    RETRIES.fetch_add(1, std::sync::atomic::Ordering::SeqCst);
}

/// Kill the descendants of this process whose command name is one of `names` (children of an in-process
/// reader that hangs: they cannot be reached through the reader's API).
pub fn kill_descendants(names: &[&str]) {
    let me = std::process::id();
    let mut procs: Vec<(u32, u32, String)> = vec![]; // pid, ppid, comm
    if let Ok(rd) = std::fs::read_dir("/proc") {
        for e in rd.flatten() {
            let Some(pid) = e.file_name().to_str().and_then(|s| s.parse::<u32>().ok()) else { continue };
            let Ok(stat) = std::fs::read_to_string(e.path().join("stat")) else { continue };
            let (Some(l), Some(r)) = (stat.find('('), stat.rfind(')')) else { continue };
            let comm = stat[l + 1..r].to_string();
            let ppid = stat[r + 1..].split_whitespace().nth(1).and_then(|s| s.parse::<u32>().ok()).unwrap_or(0);
            procs.push((pid, ppid, comm));
        }
    }
    let mut family: Vec<u32> = vec![me];
    for _ in 0..4 {
        for (pid, ppid, _) in &procs {
            if family.contains(ppid) && !family.contains(pid) {
                family.push(*pid);
            }
        }
    }
    for (pid, _, comm) in &procs {
        if *pid != me && family.contains(pid) && names.contains(&comm.as_str()) {
            let _ = Command::new("kill").arg("-9").arg(pid.to_string()).status();
        }
    }
}

pub fn is_root() -> bool {
    std::fs::read_to_string("/proc/self/status")
        .ok()
        .and_then(|s| {
            s.lines().find(|l| l.starts_with("Uid:")).map(|l| l.split_whitespace().nth(2) == Some("0"))
        })
        .unwrap_or(false)
}

pub const NOBODY: u32 = 65534;

/// Make the command run as `nobody` (only meaningful when we are root).
pub fn drop_privs(cmd: &mut Command) {
    cmd.uid(NOBODY).gid(NOBODY);
}

/// True when an unprivileged child can be started and is really denied access to a mode-000 file.
pub fn privs_droppable(scratch: &Path) -> bool {
    if !is_root() {
        // not root: mode bits already apply to us
        return true;
    }
    let f = scratch.join("privtest");
    if std::fs::write(&f, b"x").is_err() {
        return false;
    }
    let _ = std::fs::set_permissions(&f, std::fs::Permissions::from_mode(0o000));
    let mut c = Command::new("cat");
    c.arg(&f);
    drop_privs(&mut c);
    let out = run_cmd(&mut c, None);
    let _ = std::fs::remove_file(&f);
    out.code == Some(1)
}

pub fn chmod(p: &Path, mode: u32) {
    let _ = std::fs::set_permissions(p, std::fs::Permissions::from_mode(mode));
}

/// Write an executable `sh` script.
pub fn write_script(p: &Path, body: &str) {
    std::fs::write(p, format!("#!/bin/sh\n{}\n", body)).expect("write script");
    chmod(p, 0o755);
}

pub fn sh_quote(s: &str) -> String {
    format!("'{}'", s.replace('\'', "'\\''"))
}

/// Remove a scratch tree even if it contains mode-000 entries.
pub fn remove_tree(p: &Path) {
    fn fix(p: &Path) {
        if let Ok(md) = std::fs::symlink_metadata(p) {
            if md.is_dir() {
                chmod(p, 0o755);
                if let Ok(rd) = std::fs::read_dir(p) {
                    for e in rd.flatten() {
                        fix(&e.path());
                    }
                }
            }
        }
    }
    if !is_root() {
        fix(p);
    }
    let _ = std::fs::remove_dir_all(p);
}

pub fn fresh_dir(scratch: &Path, name: &str) -> PathBuf {
    let d = scratch.join(name);
    remove_tree(&d);
    std::fs::create_dir_all(&d).expect("create scratch dir");
    chmod(scratch, 0o755);
    d
}

/// `key=value` fields of a case line (after the first token).
pub fn fields(case: &str) -> std::collections::BTreeMap<String, String> {
    let mut m = std::collections::BTreeMap::new();
    for tok in case.split(' ').skip(1) {
        if let Some((k, v)) = tok.split_once('=') {
            m.insert(k.to_string(), v.to_string());
        }
    }
    m
}

pub fn sorted_lines(bs: &[u8]) -> Vec<Vec<u8>> {
    let mut v: Vec<Vec<u8>> = bs.split(|&b| b == b'\n').filter(|l| !l.is_empty()).map(|l| l.to_vec()).collect();
    v.sort();
    v
}
