import RgVerif.Model.Sx
