import RgVerif.Model.Sx
import RgVerif.Model.Utf8
import RgVerif.Model.Interpolate
import RgVerif.Spec.ReplaceAll
import RgVerif.Driver.C19
