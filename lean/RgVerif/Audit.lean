import Lean
/-
`#audit_module M` lists every theorem declared in module `M` together with the axioms it
depends on (transitively).  `bin/check` parses the output: a property theorem is counted as
discharged only if its axioms are among `propext`, `Classical.choice`, `Quot.sound`.
-/
open Lean Elab Command

elab "#audit_module " id:ident : command => do
  let env ← getEnv
  let modName := id.getId
  let some modIdx := env.getModuleIdx? modName
    | throwError "unknown module {modName}"
  let mut names : Array Name := #[]
  for (n, ci) in env.constants.map₁.toList do
    if env.getModuleIdxFor? n == some modIdx then
      match ci with
      | .thmInfo _ =>
        if !n.isInternal then names := names.push n
      | _ => pure ()
  let sorted := names.qsort (fun a b => a.toString < b.toString)
  for n in sorted do
    let axs ← liftCoreM (collectAxioms n)
    let axs := axs.qsort (fun a b => a.toString < b.toString)
    logInfo m!"AUDIT {n} :: {axs.toList}"
