import RgVerif.Model.Walk
/-
C06 — the serial walker once more, this time as the state machines the code consists of:

* `Wd…`       walkdir 2.5.0 `IntoIter`: `start`, `stack_list` (one frame of remaining `read_dir` items per
               open directory), `stack_path` (ancestor handles, only with `follow_links`), `next()` with its
               pop loop (`depth > max_depth`, exhausted frame), `handle_entry`, `push`, `pop`,
               `skip_current_dir`;
* `Ev…`       `WalkEventIter`: the one-item look-ahead and the `depth` counter that turns walkdir's
               pre-order stream into Dir / File / Exit events;
* `walkLoop`  `Walk::next`: the `ig` stack pushed on every Dir event (also for skipped directories) and
               popped on Exit, `skip_entry`, `skip_current_dir`.

The theorems of C06 are stated for the recursive model `Model/Walk.lean`; this operational model is
kept in the correspondence loop (the harness compares it with the real walker and with the recursive
model on every case).
-/
namespace RgVerif.Walk

/-- A `walkdir::DirEntry` as far as the walker looks at it. `dir` = the directory behind the entry when
`walkdir_is_dir` holds (its file type is a directory, or it is a root symlink pointing to one). -/
structure Dent where
  path : Path
  depth : Nat
  view : View
  dir : Option DirView

inductive WdItem where
  | ok (d : Dent)
  | err (o : Out) (depth : Nat)

/-- One `DirList` of walkdir's `stack_list`: the directory's path and the items not yet read. -/
structure Frame where
  parent : Path
  rest : List Node

/-- The mutable part of walkdir's `IntoIter`: `stack_list` and `stack_path`. -/
structure WdS where
  stack : List Frame
  sp : List Nat

structure Wd where
  start : Option Node
  s : WdS
  rootDev : Option Nat
  /-- `opts.follow_links` of this `WalkDir` (`follow_links || p.is_file()`) -/
  follow : Bool

def View.isFile : View → Bool
  | .file _ => true
  | _ => false

/-- `IntoIter::pop` (also `skip_current_dir`, which pops unless the stack is empty). -/
def WdS.pop (fl : Bool) (s : WdS) : WdS :=
  match s.stack with
  | [] => s
  | _ :: rest => { stack := rest, sp := if fl then s.sp.tail else s.sp }

/-- `IntoIter::push` for the directory `d` at `path`. -/
def WdS.push (fl : Bool) (s : WdS) (path : Path) (d : DirView) : WdS :=
  { stack := ⟨path, d.kids⟩ :: s.stack, sp := if fl then d.ino :: s.sp else s.sp }

/-- `IntoIter::handle_entry` for the item `k` found at `depth` below `parent`
(`rd` = `root_device`, `fl` = `opts.follow_links`). -/
def handleEntry (cfg : Cfg) (forest : List Node) (rd : Option Nat) (fl : Bool) (s : WdS) (depth : Nat)
    (parent : Path) (k : Node) : WdItem × WdS :=
  let p := parent ++ [k.name]
  -- if self.opts.follow_links && dent.file_type().is_symlink() { dent = itry!(self.follow(dent)) }
  -- (`follow` = from_path(.., true) + check_loop against stack_path: the same step as in Model/Walk.lean,
  -- with this WalkDir's own follow_links flag)
  let followed := followEntry { cfg with followLinks := fl } forest s.sp p k
  match followed with
  | .error e => (.err e depth, s)
  | .ok dent =>
    match dent with
    | .dir d _ =>
      -- is_normal_dir
      let s' := if cfg.sameFs && decide (0 < depth) then
          (if devOk rd d.dev then s.push fl p d else s)
        else s.push fl p d
      (.ok ⟨p, depth, dent, some d⟩, s')
    | .symlink _ =>
      if depth = 0 then
        -- follow_root_links: fs::metadata(dent.path())
        match stat forest k with
        | .broken => (.err (.broken p) depth, s)
        | .dir d _ => (.ok ⟨p, depth, dent, some d⟩, s.push fl p d)
        | _ => (.ok ⟨p, depth, dent, none⟩, s)
      else (.ok ⟨p, depth, dent, none⟩, s)
    | _ => (.ok ⟨p, depth, dent, none⟩, s)

/-- The `while !self.stack_list.is_empty()` loop of `IntoIter::next`. -/
def wdLoop (cfg : Cfg) (forest : List Node) (rd : Option Nat) (fl : Bool) :
    List Frame → List Nat → Option WdItem × WdS
  | [], sp => (none, { stack := [], sp := sp })
  | fr :: rest, sp =>
    let depth := rest.length + 1
    let over := match cfg.maxDepth with
      | some m => decide (m < depth)
      | none => false
    if over then wdLoop cfg forest rd fl rest (if fl then sp.tail else sp)
    else
      match fr.rest with
      | [] => wdLoop cfg forest rd fl rest (if fl then sp.tail else sp)
      | k :: ks =>
        let (item, s') := handleEntry cfg forest rd fl { stack := ⟨fr.parent, ks⟩ :: rest, sp := sp }
          depth fr.parent k
        (some item, s')

/-- `IntoIter::next`. -/
def wdNext (cfg : Cfg) (forest : List Node) (w : Wd) : Option WdItem × Wd :=
  match w.start with
  | some r =>
    -- device_num(&start) when same_file_system
    match stat forest r with
    | .broken => (some (.err (.broken [r.name]) 0), { w with start := none })
    | v =>
      let rd := if cfg.sameFs then (match v with
          | .dir d _ => some d.dev
          | _ => some 0) else none
      let (item, s') := handleEntry cfg forest rd w.follow w.s 0 [] r
      (some item, { w with start := none, rootDev := rd, s := s' })
  | none =>
    let (item, s') := wdLoop cfg forest w.rootDev w.follow w.s.stack w.s.sp
    (item, { w with s := s' })

/-- `WalkEventIter`. -/
structure EvIter where
  wd : Wd
  depth : Nat
  next : Option WdItem

inductive Event where
  | dir (d : Dent) (info : DirView)
  | file (d : Dent)
  | exit
  | err (o : Out)

/-- `WalkEventIter::next`. -/
def evNext (cfg : Cfg) (forest : List Node) (it : EvIter) : Option Event × EvIter :=
  -- let dent = self.next.take().or_else(|| self.it.next());
  let (dent, wd) := match it.next with
    | some x => (some x, it.wd)
    | none => wdNext cfg forest it.wd
  let depth := match dent with
    | none => 0
    | some (.ok d) => d.depth
    | some (.err _ dp) => dp
  if depth < it.depth then
    (some .exit, { wd := wd, depth := it.depth - 1, next := dent })
  else
    match dent with
    | none => (none, { wd := wd, depth := depth, next := none })
    | some (.err o _) => (some (.err o), { wd := wd, depth := depth, next := none })
    | some (.ok d) =>
      match d.dir with
      | some info => (some (.dir d info), { wd := wd, depth := depth + 1, next := none })
      | none => (some (.file d), { wd := wd, depth := depth, next := none })

/-- The loop of `Walk::next` over one root's iterator, collecting everything it yields.
`none` = fuel exhausted. -/
def walkLoop (cfg : Cfg) (forest : List Node) : Nat → EvIter → List Anc → List Out → Option (List Out)
  | 0, _, _, _ => none
  | fuel + 1, it, ig, acc =>
    match evNext cfg forest it with
    | (none, _) => some acc.reverse
    | (some ev, it') =>
      match ev with
      | .err o => walkLoop cfg forest fuel it' ig (o :: acc)
      | .exit => walkLoop cfg forest fuel it' ig.tail acc
      | .dir d info =>
        if decide (d.depth ≠ rootDepth) && skipEntry cfg ig d.path (d.path.getLast?.getD 0) d.view then
          -- if descends { self.it.skip_current_dir() }; self.ig = self.ig.add_child(..); continue
          -- (`descends`: not a directory on another device than the root under same_file_system — for those
          -- walkdir pushed nothing and skip_current_dir would pop the parent's listing)
          let descends := !(cfg.sameFs && decide (d.depth ≠ rootDepth) && !devOk it'.wd.rootDev info.dev)
          walkLoop cfg forest fuel
            { it' with wd := { it'.wd with s := if descends then it'.wd.s.pop it'.wd.follow else it'.wd.s } }
            ((info.ino, info.ign) :: ig) acc
        else
          walkLoop cfg forest fuel it' ((info.ino, info.ign) :: ig) (.entry d.path :: acc)
      | .file d =>
        if decide (d.depth ≠ rootDepth) && skipEntry cfg ig d.path (d.path.getLast?.getD 0) d.view then
          walkLoop cfg forest fuel it' ig acc
        else walkLoop cfg forest fuel it' ig (.entry d.path :: acc)

def serialEventsRoot (cfg : Cfg) (forest : List Node) (fuel : Nat) (r : Node) : Option (List Out) :=
  let follow := cfg.followLinks || (stat forest r).isFile
  walkLoop cfg forest fuel
    { wd := { start := some r, s := { stack := [], sp := [] }, rootDev := none, follow := follow },
      depth := 0, next := none } [] []

/-- The serial walker as the composition of the three state machines. -/
def serialEvents (cfg : Cfg) (forest : List Node) (fuel : Nat) (roots : List Node) : Option (List Out) :=
  roots.foldl (fun acc r => do
    let a ← acc
    let b ← serialEventsRoot cfg forest fuel r
    pure (a ++ b)) (some [])

end RgVerif.Walk
