import RgVerif.Model.Core
/-
Model of `crates/searcher/src/searcher/glue.rs`: `SliceByLine::run` and `MultiLine` (the reader
strategy `ReadByLine` needs the line buffer and lives with C02).

`Run` is what the caller of `Searcher::search_slice` can observe: the sink's log and `Ok(())` / `Err(_)`.
-/
namespace RgVerif.Searcher
open RgVerif RgVerif.Matcher RgVerif.Lines

/-- Outcome of a search: final core (its `events` are the sink's log) and the `Result<(), S::Error>`. -/
structure Run where
  core : Core
  result : Res Unit
  deriving Repr, DecidableEq

def Run.events (r : Run) : List Event := r.core.events
def Run.isErr (r : Run) : Bool := r.result == .err

/-- `SliceByLine::byte_count` / `MultiLine::byte_count`. -/
def byteCount (cfg : Config) (st : Core) : Nat :=
  -- `Core::binary_quit_offset`: binary data that is merely converted does not end the search
  match (if cfg.binary.quitByte.isSome then st.binaryByteOffset else none) with
  | some offset => if offset < st.pos then offset else st.pos
  | none => st.pos

/-- `while !self.slice[self.core.pos()..].is_empty() && self.core.match_by_line(self.slice)? {}`.
`ok ()` = the loop ended (by either condition). -/
def sliceLoop (cfg : Config) (m : MatcherI) (σ : Script) (slice_ : Bytes) : Nat → Core → Core × Res Unit
  | 0, st => (st, .ok ())
  | fuel + 1, st =>
    if (slice_.drop st.pos).isEmpty then (st, .ok ())
    else
      match matchByLine cfg m σ slice_ st with
      | (st, .err) => (st, .err)
      | (st, .ok false) => (st, .ok ())
      | (st, .ok true) => sliceLoop cfg m σ slice_ fuel st

/-- `SliceByLine::run` (with `Core::new(searcher, matcher, write_to, true)`).
Fuel: every `match_by_line` call that returns `true` leaves `pos = len` (proved: `Lemmas/SearcherSlow`,
`SearcherFast`), so the loop body runs at most once; `len + 1` is ample. -/
def sliceByLine (cfg : Config) (m : MatcherI) (σ : Script) (slice_ : Bytes) : Run :=
  let st := Core.new cfg true
  match begin σ st with
  | (st, .err) => ⟨st, .err⟩
  | (st, .ok keepgoing) =>
    let body : Core × Res Unit :=
      if keepgoing then
        let binaryUpto := min slice_.length defaultBufferCapacity
        match detectBinary cfg σ slice_ ⟨0, binaryUpto⟩ st with
        | (st, .err) => (st, .err)
        | (st, .ok true) => (st, .ok ())
        | (st, .ok false) => sliceLoop cfg m σ slice_ (slice_.length + 1) st
      else (st, .ok ())
    match body with
    | (st, .err) => ⟨st, .err⟩
    | (st, .ok ()) =>
      let (st, r) := finish σ st (byteCount cfg st) st.binaryByteOffset
      ⟨st, r⟩

/-! ### `MultiLine` -/

/-- `MultiLine` state: the core plus `last_match`. -/
structure ML where
  core : Core
  lastMatch : Option Span := none
  deriving Repr, DecidableEq

/-- `MultiLine::find`: `find_at(slice, pos)` — look-around sees the whole slice (the pre-F7 code
searched `&slice[pos..]`). -/
def mlFind (m : MatcherI) (slice_ : Bytes) (st : Core) : Option Span := m.findAt slice_ st.pos

/-- `MultiLine::advance`. -/
def mlAdvance (slice_ : Bytes) (st : Core) (range : Span) : Core :=
  let st := { st with pos := range.e }
  if range.e - range.s == 0 && st.pos < slice_.length then { st with pos := st.pos + 1 } else st

/-- `MultiLine::sink_matched`. -/
def mlSinkMatched (cfg : Config) (σ : Script) (slice_ : Bytes) (st : Core) (range : Span) : Core × Res Bool :=
  if range.e - range.s == 0 then (st, .ok false)
  else matched cfg σ slice_ st range

/-- `MultiLine::sink_context`. -/
def mlSinkContext (cfg : Config) (σ : Script) (slice_ : Bytes) (st : Core) (range : Span) : Core × Res Bool :=
  if cfg.passthru then
    match otherContextByLine cfg σ slice_ st range.s with
    | (st, .ok true) => (st, .ok true)
    | (st, r) => (st, r)
  else
    match afterContextByLine cfg σ slice_ st range.s with
    | (st, .ok true) =>
      match beforeContextByLine cfg σ slice_ st range.s with
      | (st, .ok true) => (st, .ok true)
      | (st, r) => (st, r)
    | (st, r) => (st, r)

/-- The `while let` loop of `MultiLine::sink_matched_inverted`. -/
def mlMatchedLoop (cfg : Config) (σ : Script) (slice_ : Bytes) : List Span → Core → Core × Res Bool
  | [], st => (st, .ok true)
  | line :: rest, st =>
    match mlSinkMatched cfg σ slice_ st line with
    | (st, .ok true) => mlMatchedLoop cfg σ slice_ rest st
    | (st, r) => (st, r)

/-- `MultiLine::sink_matched_inverted`. -/
def mlSinkMatchedInverted (cfg : Config) (m : MatcherI) (σ : Script) (slice_ : Bytes) (s : ML) : ML × Res Bool :=
  let st := s.core
  let (invertMatch, st) : Span × Core :=
    match mlFind m slice_ st with
    | none => (⟨st.pos, slice_.length⟩, { st with pos := slice_.length })
    | some mat =>
      let line := locate slice_ cfg.lineTerm.asByte mat
      (⟨st.pos, line.s⟩, mlAdvance slice_ st line)
  if invertMatch.e - invertMatch.s == 0 then ({ s with core := st }, .ok true)
  else
    match mlSinkContext cfg σ slice_ st invertMatch with
    | (st, .ok true) =>
      let (st, r) :=
        mlMatchedLoop cfg σ slice_ (stepLines cfg.lineTerm.asByte slice_ invertMatch.s invertMatch.e) st
      ({ s with core := st }, r)
    | (st, r) => ({ s with core := st }, r)

/-- `MultiLine::sink`. -/
def mlSink (cfg : Config) (m : MatcherI) (σ : Script) (slice_ : Bytes) (s : ML) : ML × Res Bool :=
  if cfg.invertMatch then mlSinkMatchedInverted cfg m σ slice_ s
  else
    match mlFind m slice_ s.core with
    | none => ({ s with core := { s.core with pos := slice_.length } }, .ok true)
    | some mat =>
      let st := mlAdvance slice_ s.core mat
      let line := locate slice_ cfg.lineTerm.asByte mat
      match s.lastMatch with
      | none => ({ core := st, lastMatch := some line }, .ok true)
      | some lastMatch =>
        if lastMatch.e ≥ line.s then
          ({ core := st, lastMatch := some ⟨lastMatch.s, line.e⟩ }, .ok true)
        else
          match mlSinkContext cfg σ slice_ st lastMatch with
          | (st, .ok true) =>
            let (st, r) := mlSinkMatched cfg σ slice_ st lastMatch
            ({ core := st, lastMatch := some line }, r)
          | (st, r) => ({ core := st, lastMatch := some line }, r)

/-- `while !self.slice[self.core.pos()..].is_empty() && keepgoing { keepgoing = self.sink()?; }`. -/
def mlLoop (cfg : Config) (m : MatcherI) (σ : Script) (slice_ : Bytes) : Nat → ML → ML × Res Bool
  | 0, s => (s, .ok true)
  | fuel + 1, s =>
    if (slice_.drop s.core.pos).isEmpty then (s, .ok true)
    else
      match mlSink cfg m σ slice_ s with
      | (s, .ok true) => mlLoop cfg m σ slice_ fuel s
      | (s, r) => (s, r)

/-- `MultiLine::run`. Fuel: `sink` advances `pos` by at least one byte whenever the matcher's
spans start at or after the search position (`SpanSane`); `len + 1` iterations suffice. -/
def multiLine (cfg : Config) (m : MatcherI) (σ : Script) (slice_ : Bytes) : Run :=
  let st := Core.new cfg true
  match begin σ st with
  | (st, .err) => ⟨st, .err⟩
  | (st, .ok keepgoing) =>
    let body : Core × Res Unit :=
      if keepgoing then
        let binaryUpto := min slice_.length defaultBufferCapacity
        match detectBinary cfg σ slice_ ⟨0, binaryUpto⟩ st with
        | (st, .err) => (st, .err)
        | (st, .ok true) => (st, .ok ())
        | (st, .ok false) =>
          match mlLoop cfg m σ slice_ (slice_.length + 1) { core := st } with
          | (s, .err) => (s.core, .err)
          | (s, .ok keepgoing) =>
            -- `if keepgoing { keepgoing = match self.last_match.take() {…} }`
            let flush : Core × Res Bool :=
              if keepgoing then
                match s.lastMatch with
                | none => (s.core, .ok true)
                | some lastMatch =>
                  -- `Some(last_match) if last_match.is_empty() => true` (563f90b, finding F20/F27)
                  if lastMatch.e - lastMatch.s == 0 then (s.core, .ok true)
                  else
                    match mlSinkContext cfg σ slice_ s.core lastMatch with
                    | (st, .ok true) => mlSinkMatched cfg σ slice_ st lastMatch
                    | (st, r) => (st, r)
              else (s.core, .ok false)
            match flush with
            | (st, .err) => (st, .err)
            | (st, .ok false) => (st, .ok ())
            | (st, .ok true) =>
              -- trailing context: the boolean result is dropped (`…?;`), errors propagate
              if cfg.passthru then
                match otherContextByLine cfg σ slice_ st slice_.length with
                | (st, .err) => (st, .err)
                | (st, .ok _) => (st, .ok ())
              else
                match afterContextByLine cfg σ slice_ st slice_.length with
                | (st, .err) => (st, .err)
                | (st, .ok _) => (st, .ok ())
      else (st, .ok ())
    match body with
    | (st, .err) => ⟨st, .err⟩
    | (st, .ok ()) =>
      let (st, r) := finish σ st (byteCount cfg st) st.binaryByteOffset
      ⟨st, r⟩

/-- `Searcher::multi_line_with_matcher`. -/
def multiLineWithMatcher (cfg : Config) (m : MatcherI) : Bool :=
  if !cfg.multiLine then false
  else
    let sameTerm :=
      match m.lineTerminator with
      | some lineTerm => lineTerm == cfg.lineTerm
      | none => false
    if sameTerm then false
    else
      match m.nonMatchingBytes with
      | some nonMatching => if nonMatching cfg.lineTerm.asByte then false else true
      | none => true

/-- `Searcher::search_slice` without transcoding: choice of strategy. -/
def searchSlice (cfg : Config) (m : MatcherI) (σ : Script) (slice_ : Bytes) : Run :=
  if multiLineWithMatcher cfg m then multiLine cfg m σ slice_ else sliceByLine cfg m σ slice_

end RgVerif.Searcher
