import RgVerif.Model.HirSem
/-
Model of `crates/regex/src/strip.rs` (`strip_from_match`, `strip_from_match_ascii`) and of
`crates/regex/src/ban.rs` (`check`).

The Rust code rebuilds every node through regex-syntax's smart constructors (`Hir::class`,
`Hir::concat`, …).  Those are external and meaning-preserving; the model returns the plain tree
(`stripAscii`), the harness pushes it through the *real* constructors before comparing, and the
verified checker `noByte` is additionally run on the HIR the real matcher ends up with.
-/
namespace RgVerif.Rx
open RgVerif

inductive StripErr where
  | notAllowed (b : Nat)
  | invalidLineTerm (b : Nat)
  deriving Repr, DecidableEq

/-- `cls.difference({b})` on an interval set: every range containing `b` is split around it. -/
def removeByte (rs : Ranges) (b : Nat) : Ranges :=
  rs.flatMap fun r =>
    if r.1 ≤ b ∧ b ≤ r.2 then
      (if r.1 < b then [(r.1, b - 1)] else []) ++ (if b < r.2 then [(b + 1, r.2)] else [])
    else [r]

mutual
/-- `strip_from_match_ascii(expr, byte)` after the ASCII check. -/
def stripGo : Hir → Nat → Except StripErr Hir
  | .empty, _ => .ok .empty
  | .lit bs, b => if bs.contains b then .error (.notAllowed b) else .ok (.lit bs)
  | .classU rs, b =>
    if rs.isEmpty then .ok (.classU rs)
    else if (removeByte rs b).isEmpty then .error (.notAllowed b)
    else .ok (.classU (removeByte rs b))
  | .classB rs, b =>
    if rs.isEmpty then .ok (.classB rs)
    else if (removeByte rs b).isEmpty then .error (.notAllowed b)
    else .ok (.classB (removeByte rs b))
  | .look k, _ => .ok (.look k)
  | .rep min max g sub, b =>
    match stripGo sub b with
    | .ok sub' => .ok (.rep min max g sub')
    | .error e => .error e
  | .cap i sub, b =>
    match stripGo sub b with
    | .ok sub' => .ok (.cap i sub')
    | .error e => .error e
  | .concat xs, b =>
    match stripList xs b with
    | .ok xs' => .ok (.concat xs')
    | .error e => .error e
  | .alt xs, b =>
    match stripList xs b with
    | .ok xs' => .ok (.alt xs')
    | .error e => .error e
/-- `xs.into_iter().map(strip).collect::<Result<Vec<_>,_>>()`: the first error wins. -/
def stripList : HirList → Nat → Except StripErr HirList
  | .nil, _ => .ok .nil
  | .cons h t, b =>
    match stripGo h b with
    | .error e => .error e
    | .ok h' =>
      match stripList t b with
      | .ok t' => .ok (.cons h' t')
      | .error e => .error e
end

/-- `strip_from_match_ascii`. -/
def stripAscii (h : Hir) (b : Nat) : Except StripErr Hir :=
  if b ≥ 128 then .error (.invalidLineTerm b) else stripGo h b

/-- `grep_matcher::LineTerminator`. -/
inductive LineTerm where
  | byte (b : Nat)
  | crlf
  deriving Repr, DecidableEq

/-- `LineTerminator::as_byte` (`\n` for CRLF). -/
def LineTerm.asByte : LineTerm → Nat
  | .byte b => b
  | .crlf => 10

/-- The bytes a match must not contain under this terminator. -/
def LineTerm.bytes : LineTerm → List Nat
  | .byte b => [b]
  | .crlf => [13, 10]

/-- `strip_from_match`. -/
def strip (h : Hir) (lt : LineTerm) : Except StripErr Hir :=
  match lt with
  | .crlf =>
    match stripAscii h 13 with
    | .ok h1 => stripAscii h1 10
    | .error e => .error e
  | .byte b => stripAscii h b

mutual
/-- Verified checker: no literal contains `b` and no class admits `b`. -/
def noByte (b : Nat) : Hir → Bool
  | .empty => true
  | .lit bs => !bs.contains b
  | .classB rs => !inCls rs b
  | .classU rs => !inCls rs b
  | .look _ => true
  | .rep _ _ _ sub => noByte b sub
  | .cap _ sub => noByte b sub
  | .concat xs => noByteL b xs
  | .alt xs => noByteL b xs
def noByteL (b : Nat) : HirList → Bool
  | .nil => true
  | .cons h t => noByte b h && noByteL b t
end

mutual
/-- Some leaf can only consume text containing `b`: a literal with `b`, or a non-empty class that
becomes empty when `b` is removed.  Exactly the patterns `strip` rejects. -/
def needsByte (b : Nat) : Hir → Bool
  | .empty => false
  | .lit bs => bs.contains b
  | .classB rs => !rs.isEmpty && (removeByte rs b).isEmpty
  | .classU rs => !rs.isEmpty && (removeByte rs b).isEmpty
  | .look _ => false
  | .rep _ _ _ sub => needsByte b sub
  | .cap _ sub => needsByte b sub
  | .concat xs => needsByteL b xs
  | .alt xs => needsByteL b xs
def needsByteL (b : Nat) : HirList → Bool
  | .nil => false
  | .cons h t => needsByte b h || needsByteL b t
end

/-! ### `ban.rs` -/

/-- Number of elements of a class (`ranges.iter().map(|r| r.len()).sum()`). -/
def clsLen (rs : Ranges) : Nat := (rs.map fun r => r.2 + 1 - r.1).sum

mutual
/-- `ban::check(expr, byte)`: `true` = `Err(Banned)`. -/
def banned (b : Nat) : Hir → Bool
  | .empty => false
  | .lit bs => bs.contains b
  | .classB rs => clsLen rs == 1 && inCls rs b
  | .classU rs => clsLen rs == 1 && inCls rs b
  | .look _ => false
  | .rep _ _ _ sub => banned b sub
  | .cap _ sub => banned b sub
  | .concat xs => bannedL b xs
  | .alt xs => bannedL b xs
def bannedL (b : Nat) : HirList → Bool
  | .nil => false
  | .cons h t => banned b h || bannedL b t
end

end RgVerif.Rx
