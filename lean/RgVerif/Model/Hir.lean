import RgVerif.Model.Sx
/-
The regex HIR (`regex_syntax::hir::Hir`, 0.8.4) as the boundary between the external
parser/translator and the code of `crates/regex` that is modelled here.

* classes are lists of inclusive ranges (`ClassBytes`: bytes, `ClassUnicode`: scalar values);
* a capture keeps its index only (names play no role in any modelled function);
* `Hir`/`HirList` are a mutual pair so that every function over the tree is plain
  structural recursion.
-/
namespace RgVerif.Rx
open RgVerif

/-- `regex_syntax::hir::Look` (18 kinds, same order as the Rust enum). -/
inductive Look where
  | Start | End | StartLF | EndLF | StartCRLF | EndCRLF
  | WordAscii | WordAsciiNegate | WordUnicode | WordUnicodeNegate
  | WordStartAscii | WordEndAscii | WordStartUnicode | WordEndUnicode
  | WordStartHalfAscii | WordEndHalfAscii | WordStartHalfUnicode | WordEndHalfUnicode
  deriving Repr, DecidableEq, Inhabited

/-- An inclusive range `[lo, hi]`. -/
abbrev Range := Nat × Nat
abbrev Ranges := List Range

mutual
inductive Hir where
  | empty
  | lit (bs : Bytes)
  | classB (rs : Ranges)
  | classU (rs : Ranges)
  | look (k : Look)
  | rep (min : Nat) (max : Option Nat) (greedy : Bool) (sub : Hir)
  | cap (idx : Nat) (sub : Hir)
  | concat (xs : HirList)
  | alt (xs : HirList)
inductive HirList where
  | nil
  | cons (h : Hir) (t : HirList)
end

instance : Inhabited Hir := ⟨.empty⟩

def HirList.ofList : List Hir → HirList
  | [] => .nil
  | h :: t => .cons h (HirList.ofList t)

def HirList.toList : HirList → List Hir
  | .nil => []
  | .cons h t => h :: t.toList

/-! ### Class membership -/

/-- `c` lies in one of the ranges. -/
def inCls (rs : Ranges) (c : Nat) : Bool := rs.any fun r => r.1 ≤ c && c ≤ r.2

/-! ### UTF-8 encoding of a scalar value -/

/-- Unicode scalar value: `char` in Rust. -/
def isScalar (c : Nat) : Bool := c < 0xD800 || (0xE000 ≤ c && c < 0x110000)

/-- `char::encode_utf8`. (Total on `Nat`; only used on scalar values.) -/
def utf8Enc (c : Nat) : Bytes :=
  if c < 0x80 then [c]
  else if c < 0x800 then [0xC0 + c / 64, 0x80 + c % 64]
  else if c < 0x10000 then [0xE0 + c / 4096, 0x80 + c / 64 % 64, 0x80 + c % 64]
  else [0xF0 + c / 262144, 0x80 + c / 4096 % 64, 0x80 + c / 64 % 64, 0x80 + c % 64]

/-- Decode one UTF-8 sequence of exactly `bs` (strict: shortest form, no surrogates, ≤ U+10FFFF). -/
def utf8Dec (bs : Bytes) : Option Nat :=
  match bs with
  | [b0] => if b0 < 0x80 then some b0 else none
  | [b0, b1] =>
    if 0xC2 ≤ b0 && b0 ≤ 0xDF && 0x80 ≤ b1 && b1 ≤ 0xBF then some ((b0 - 0xC0) * 64 + (b1 - 0x80)) else none
  | [b0, b1, b2] =>
    if 0xE0 ≤ b0 && b0 ≤ 0xEF && 0x80 ≤ b1 && b1 ≤ 0xBF && 0x80 ≤ b2 && b2 ≤ 0xBF then
      let c := (b0 - 0xE0) * 4096 + (b1 - 0x80) * 64 + (b2 - 0x80)
      if 0x800 ≤ c && isScalar c then some c else none
    else none
  | [b0, b1, b2, b3] =>
    if 0xF0 ≤ b0 && b0 ≤ 0xF4 && 0x80 ≤ b1 && b1 ≤ 0xBF && 0x80 ≤ b2 && b2 ≤ 0xBF && 0x80 ≤ b3 && b3 ≤ 0xBF then
      let c := (b0 - 0xF0) * 262144 + (b1 - 0x80) * 4096 + (b2 - 0x80) * 64 + (b3 - 0x80)
      if 0x10000 ≤ c && c < 0x110000 then some c else none
    else none
  | _ => none

/-- The sub-list `hay[s, e)` (empty when `e ≤ s`). -/
def slice (hay : Bytes) (s e : Nat) : Bytes := (hay.drop s).take (e - s)

end RgVerif.Rx
