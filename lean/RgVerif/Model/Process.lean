import RgVerif.Model.Sx
/-
C18 — model of `crates/cli/src/process.rs` (`CommandReader::{read, close}`, `StderrReader`),
`crates/cli/src/decompress.rs` (`DecompressionReaderBuilder::build`, `DecompressionReader::{read, close}`),
`crates/core/search.rs` (`search`, `should_preprocess`, `should_decompress`, `search_preprocessor`,
`search_decompress`) and of the override matcher behind `--pre-glob`
(`ignore::overrides::Override::matched`, files only).

Part 1: the reader as a state machine over what the OS reports (bytes per `read`, exit status, stderr).
Part 2: the decision which strategy searches a path.
Part 3: a two-pipe bounded-buffer model of a child that interleaves writes to stdout and stderr,
        with and without a concurrent stderr drainer (`async_stderr`).
-/
namespace RgVerif.Process

/-! ### Part 1 — `CommandReader` -/

/-- What `child.wait()` returns. -/
inductive Wait where
  | failed                      -- `wait()` itself returned an `io::Error`
  | exited (success : Bool)     -- `ExitStatus::success()`
  deriving Repr, DecidableEq, Inhabited

/-- What `StderrReader::read_to_end` yields: the bytes, or an I/O error while reading them. -/
inductive Stderr where
  | bytes (bs : Bytes)
  | ioError
  deriving Repr, DecidableEq, Inhabited

/-- `CommandError::is_empty`: only `Stderr(bytes)` with no bytes. -/
def Stderr.isEmpty : Stderr → Bool
  | .bytes bs => bs.isEmpty
  | .ioError => false

/-- Everything the OS will report about the child. -/
structure Child where
  wait : Wait
  stderr : Stderr
  deriving Repr, DecidableEq, Inhabited

/-- `CommandReader`'s own fields. -/
structure Reader where
  stdoutOpen : Bool := true     -- `self.child.stdout.is_some()`
  eof : Bool := false
  deriving Repr, DecidableEq, Inhabited

inductive CloseRes where
  | ok
  | err
  deriving Repr, DecidableEq, Inhabited

/-- `CommandReader::close`. -/
def close (r : Reader) (ch : Child) : Reader × CloseRes :=
  if !r.stdoutOpen then (r, .ok) else         -- `None => return Ok(())`
  let r := { r with stdoutOpen := false }      -- `take()`, `drop(stdout)`
  match ch.wait with
  | .failed => (r, .err)                       -- `self.child.wait()?`
  | .exited true => (r, .ok)
  | .exited false =>
    let err := ch.stderr                       -- `self.stderr.read_to_end()`
    if !r.eof && err.isEmpty then (r, .ok) else (r, .err)

inductive ReadRes where
  | bytes (n : Nat)     -- `Ok(n)`
  | err
  deriving Repr, DecidableEq, Inhabited

/-- `impl Read for CommandReader`: `os` is what the pipe read returns (`none` = I/O error). -/
def read (r : Reader) (ch : Child) (os : Option Nat) : Reader × ReadRes :=
  if !r.stdoutOpen then (r, .bytes 0) else
  match os with
  | none => (r, .err)                           -- `stdout.read(buf)?`
  | some 0 =>
    let r := { r with eof := true }
    match close r ch with
    | (r, .ok) => (r, .bytes 0)
    | (r, .err) => (r, .err)
  | some n => (r, .bytes n)

/-- A consumer that reads the whole script of pipe reads `reads` (each `some n` with n > 0 delivers data,
the script ends with the pipe's EOF) unless it stops after `stopAfter` successful reads; then `close`.
Returns the number of bytes delivered, whether a read failed, and the result of the final `close`. -/
def consume (ch : Child) : (reads : List Nat) → (stopAfter : Option Nat) → Reader → Nat → Reader × Nat × Bool × CloseRes
  | _, some 0, r, got => let (r, c) := close r ch; (r, got, false, c)
  | [], _, r, got =>
    -- the pipe reports EOF
    match read r ch (some 0) with
    | (r, .err) => let (r, c) := close r ch; (r, got, true, c)
    | (r, _) => let (r, c) := close r ch; (r, got, false, c)
  | n :: rest, stop, r, got =>
    match read r ch (some (n + 1)) with
    | (r, .bytes k) => consume ch rest (stop.map (· - 1)) r (got + k)
    | (r, .err) => let (r, c) := close r ch; (r, got, true, c)

/-! ### `search_preprocessor` / `search_decompress`: `result?; close_result?; Ok(result)` -/

inductive Outcome (α : Type) where
  | ok (a : α)
  | err
  deriving Repr, DecidableEq, Inhabited

/-- `search_preprocessor`: open the file (stdin of the command), spawn, search, close, combine. -/
def searchPreprocessor {α : Type} (openOk spawnOk : Bool) (search : Outcome α) (closeRes : CloseRes) : Outcome α :=
  if !openOk then .err else          -- `File::open(path)?`
  if !spawnOk then .err else         -- `build(&mut cmd).map_err(..)?`
  match search with
  | .err => .err                     -- `let search_result = result?;`
  | .ok a =>
    match closeRes with
    | .err => .err                   -- `close_result?;`
    | .ok => .ok a

/-- Which reader `DecompressionReaderBuilder::build` hands out. -/
inductive DecompReader where
  | command        -- `Ok(cmd_reader)`
  | passthru       -- the file itself, no process
  | openError      -- `File::open(path)?` of the pass-through failed
  deriving Repr, DecidableEq, Inhabited

/-- `DecompressionReaderBuilder::build`: no rule ⇒ pass-through; spawn failure ⇒ *also* pass-through
(logged at debug level only). -/
def decompBuild (hasCommand spawnOk openOk : Bool) : DecompReader :=
  if !hasCommand then (if openOk then .passthru else .openError)
  else if spawnOk then .command
  else (if openOk then .passthru else .openError)

/-- `search_decompress`. `closeRes` is only consulted for a command reader (`Err(_) => Ok(())`). -/
def searchDecompress {α : Type} (rd : DecompReader) (search : Outcome α) (closeRes : CloseRes) : Outcome α :=
  match rd with
  | .openError => .err
  | .passthru => search
  | .command =>
    match search with
    | .err => .err
    | .ok a => match closeRes with
      | .err => .err
      | .ok => .ok a

/-! ### Part 2 — which strategy searches a path -/

/-- One `--pre-glob`: `neg` = written with a leading `!`; `hit` = the glob matches the path. -/
structure PreGlob where
  neg : Bool
  hit : Bool
  deriving Repr, DecidableEq, Inhabited

/-- `Override::matched(path, is_dir = false).is_ignore()` for a non-empty override set:
the last matching glob decides (a plain glob whitelists, a `!glob` ignores); when nothing matches,
the path is ignored iff the set contains at least one plain (whitelist) glob. -/
def overrideIgnored (globs : List PreGlob) : Bool :=
  match (globs.reverse.find? (·.hit)) with
  | some g => g.neg
  | none => globs.any (fun g => !g.neg)

structure SelCfg where
  isStdin : Bool := false
  pre : Bool                   -- `config.preprocessor.is_some()`
  preGlobs : List PreGlob      -- `config.preprocessor_globs`
  searchZip : Bool             -- `config.search_zip`
  recognised : Bool            -- `decomp_builder.get_matcher().has_command(path)`
  deriving Repr, DecidableEq, Inhabited

inductive Strategy where
  | stdin | preprocessor | decompress | direct
  deriving Repr, DecidableEq, Inhabited

def shouldPreprocess (c : SelCfg) : Bool :=
  if !c.pre then false
  else if c.preGlobs.isEmpty then true
  else !overrideIgnored c.preGlobs

def shouldDecompress (c : SelCfg) : Bool :=
  if !c.searchZip then false else c.recognised

/-- `SearchWorker::search`. -/
def select (c : SelCfg) : Strategy :=
  if c.isStdin then .stdin
  else if shouldPreprocess c then .preprocessor
  else if shouldDecompress c then .decompress
  else .direct

/-- `search.rs`: `cmd_builder.async_stderr(true)` / `decomp_builder.async_stderr(true)` (source-anchored):
ripgrep always runs the concurrent stderr drainer. -/
abbrev ripgrepAsyncStderr : Bool := true

/-! `decompress.rs::default_decompression_commands` (every constant and every rule is source-anchored):
the programs with their arguments, and the glob `*.<suffix>` ↦ program table.  All rules are registered
whether or not the program exists (`resolve_binary` is a no-op off Windows). -/
def ARGS_GZIP : List String := ["gzip", "-d", "-c"]
def ARGS_BZIP : List String := ["bzip2", "-d", "-c"]
def ARGS_XZ : List String := ["xz", "-d", "-c"]
def ARGS_LZ4 : List String := ["lz4", "-d", "-c"]
def ARGS_LZMA : List String := ["xz", "--format=lzma", "-d", "-c"]
def ARGS_BROTLI : List String := ["brotli", "-d", "-c"]
def ARGS_ZSTD : List String := ["zstd", "-q", "-d", "-c"]
def ARGS_UNCOMPRESS : List String := ["uncompress", "-c"]

def decompRules : List (String × List String) :=
  [("gz", ARGS_GZIP),
   ("tgz", ARGS_GZIP),
   ("bz2", ARGS_BZIP),
   ("tbz2", ARGS_BZIP),
   ("xz", ARGS_XZ),
   ("txz", ARGS_XZ),
   ("lz4", ARGS_LZ4),
   ("lzma", ARGS_LZMA),
   ("br", ARGS_BROTLI),
   ("zst", ARGS_ZSTD),
   ("zstd", ARGS_ZSTD),
   ("Z", ARGS_UNCOMPRESS)]

/-- the rule `*.<suffix>` matches the file name -/
def ruleMatches (suffix name : String) : Bool :=
  name.toList.length ≥ suffix.length + 1 ∧
    (String.ofList (name.toList.drop (name.toList.length - suffix.length - 1))) == "." ++ suffix

/-- `DecompressionMatcher::command`: the command of the last matching rule (program :: arguments). -/
def decompCommand (name : String) : Option (List String) :=
  (decompRules.reverse.find? fun r => ruleMatches r.1 name).map (·.2)

/-- `has_command(path)` for a file name: some rule matches. -/
def recognisedName (name : String) : Bool := (decompCommand name).isSome

/-! ### Part 3 — two pipes of capacity `K`

The child's program is the sequence of its one-byte writes: `false` = to stdout, `true` = to stderr;
afterwards it exits (closing both pipe ends).  A write blocks while its pipe holds `K` bytes.
The parent reads stdout (`read n`), may stop reading early (`close`: drops its end of stdout, after
which the child's writes to stdout fail — it is killed by SIGPIPE or ignores the error and goes on),
and, only with `async_stderr`, a helper thread drains stderr concurrently (`drain n`); without it stderr is
read only after the child has been waited for (`drainAfterWait`).  The scheduler is arbitrary. -/

structure PState where
  prog : List Bool
  out : Nat            -- bytes buffered in the stdout pipe
  err : Nat            -- bytes buffered in the stderr pipe
  closed : Bool        -- the parent dropped its end of stdout
  deriving Repr, DecidableEq, Inhabited

def initState (prog : List Bool) : PState := ⟨prog, 0, 0, false⟩

inductive Step (K : Nat) (async : Bool) : PState → PState → Prop where
  | childOut {rest out err} : out < K → Step K async ⟨false :: rest, out, err, false⟩ ⟨rest, out + 1, err, false⟩
  | childOutIgnored {rest out err} : Step K async ⟨false :: rest, out, err, true⟩ ⟨rest, out, err, true⟩
  | childOutKilled {rest out err} : Step K async ⟨false :: rest, out, err, true⟩ ⟨[], out, err, true⟩
  | childErr {rest out err closed} : err < K → Step K async ⟨true :: rest, out, err, closed⟩ ⟨rest, out, err + 1, closed⟩
  | read {prog out err} (n : Nat) : 0 < n → n ≤ out → Step K async ⟨prog, out, err, false⟩ ⟨prog, out - n, err, false⟩
  | close {prog out err} : Step K async ⟨prog, out, err, false⟩ ⟨prog, 0, err, true⟩
  | drain {prog out err closed} (n : Nat) : async = true → 0 < n → n ≤ err →
      Step K async ⟨prog, out, err, closed⟩ ⟨prog, out, err - n, closed⟩
  /-- `StderrReader::Sync`: stderr is read only by `close`, and there only **after** `self.child.wait()` has
  returned (`if self.child.wait()?.success() … else { let err = self.stderr.read_to_end(); … }`), i.e.
  once the child has exited. -/
  | drainAfterWait {out err closed} (n : Nat) : async = false → 0 < n → n ≤ err →
      Step K async ⟨[], out, err, closed⟩ ⟨[], out, err - n, closed⟩

/-- The reader is through: the child has exited (`wait()` returns) and stdout is at EOF or was closed. -/
def Done (s : PState) : Prop := s.prog = [] ∧ (s.closed = true ∨ s.out = 0)

inductive Reach (K : Nat) (async : Bool) : PState → PState → Prop where
  | refl (s) : Reach K async s s
  | step {s t u} : Reach K async s t → Step K async t u → Reach K async s u

/-- stderr writes still to come -/
def errOps (prog : List Bool) : Nat := prog.countP (· == true)

/-- Progress measure: strictly decreases along every step. -/
def measure (s : PState) : Nat := 2 * s.prog.length + s.out + s.err + (if s.closed then 0 else 1)

/-! An executable scheduler for the driver: replays a schedule of choices on a state. -/

inductive Choice where
  | child | childKill | read (n : Nat) | close | drain (n : Nat)
  deriving Repr, DecidableEq, Inhabited

/-- One scheduled step; `none` when the chosen actor is blocked / disabled. -/
def stepFn (K : Nat) (async : Bool) (s : PState) : Choice → Option PState
  | .child =>
    match s.prog with
    | false :: rest => if s.closed then some ⟨rest, s.out, s.err, true⟩
                       else if s.out < K then some ⟨rest, s.out + 1, s.err, false⟩ else none
    | true :: rest => if s.err < K then some ⟨rest, s.out, s.err + 1, s.closed⟩ else none
    | [] => none
  | .childKill =>
    match s.prog with
    | false :: _ => if s.closed then some ⟨[], s.out, s.err, true⟩ else none
    | _ => none
  | .read n => if !s.closed && 0 < n && n ≤ s.out then some ⟨s.prog, s.out - n, s.err, false⟩ else none
  | .close => if !s.closed then some ⟨s.prog, 0, s.err, true⟩ else none
  | .drain n => if (async || s.prog.isEmpty) && 0 < n && n ≤ s.err then some ⟨s.prog, s.out, s.err - n, s.closed⟩ else none

def isDone (s : PState) : Bool := s.prog.isEmpty && (s.closed || s.out == 0)

/-- Some actor can move. -/
def canStep (K : Nat) (async : Bool) (s : PState) : Bool :=
  (stepFn K async s .child).isSome || (stepFn K async s .childKill).isSome ||
  (stepFn K async s (.read 1)).isSome || (stepFn K async s .close).isSome ||
  (stepFn K async s (.drain 1)).isSome

/-- Replay a schedule, skipping choices that are disabled; returns the final state. -/
def replay (K : Nat) (async : Bool) : PState → List Choice → PState
  | s, [] => s
  | s, c :: cs =>
    match stepFn K async s c with
    | some t => replay K async t cs
    | none => replay K async s cs

end RgVerif.Process
