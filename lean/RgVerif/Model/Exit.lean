import RgVerif.Model.Sx
/-
C15 — model of `crates/core/main.rs::{main, run, search, search_parallel, files, files_parallel}`,
`messages.rs` (`ERRORED`, `err_message!`, `message!`) and `haystack.rs::build_from_result`.

The run is a fold over the entries the directory walker yields.  What happens to one entry is an
*input* of the model (`Item`): whether the walker reported an error, whether `HaystackBuilder::build`
dropped it, what `SearchWorker::search` returned and what the write to stdout returned.  The
theorems quantify over all lists of such items, so every combination of "some file matched" x
"some error happened" x mode x thread mode x "where the pipe closes" is covered.

Parallel drivers: the argument list is the sequence of callback invocations that actually ran, in
the order of their (atomic, SeqCst) effects.  Which entries run after a `WalkState::Quit` is decided
by the walker; the theorems hold for every such sequence (`ParSched`).
-/
namespace RgVerif.Exit

/-- `io::Result<SearchResult>` of `SearchWorker::search`, split by what the caller looks at. -/
inductive SearchRes where
  | ok (hasMatch : Bool)
  | err            -- any `io::Error` whose kind is not `BrokenPipe` (open/read/preprocessor failure …)
  | pipe           -- `io::ErrorKind::BrokenPipe` (the printer writes straight to stdout when single-threaded)
  deriving Repr, DecidableEq, Inhabited

/-- Result of a write to stdout (`BufferWriter::print`, `PathPrinter::write`). -/
inductive WriteRes where
  | ok | pipe | err
  deriving Repr, DecidableEq, Inhabited

/-- One `Result<DirEntry, ignore::Error>` yielded by the walker and everything that happens to it. -/
inductive Item where
  | walkErr                                            -- `Err(err)`: `build_from_result` reports it, `None`
  | skip                                               -- `Ok(dent)` dropped by `HaystackBuilder::build`
  | file (id : Nat) (sr : SearchRes) (wr : WriteRes)   -- a haystack; `wr` is unused by `search`
  deriving Repr, DecidableEq, Inhabited

/-- Lines on stderr, by cause. -/
inductive Diag where
  | walk                     -- `err_message!("{err}")` in `build_from_result`
  | file (id : Nat)          -- `err_message!("{path}: {err}")` after a failed search
  | write (id : Nat)         -- `err_message!` after a failed (non-pipe) `bufwtr.print`
  | nothingSearched          -- `eprint_nothing_searched`
  | config                   -- `err_message!` in `flags/config.rs::args` (the file cannot be read / a line cannot be parsed)
  | fatal                    -- `eprintln_locked!("{:#}", err)` in `main`
  deriving Repr, DecidableEq, Inhabited

inductive Mode where
  | search | files
  deriving Repr, DecidableEq, Inhabited

/-- `flags::ParseResult<HiArgs>`. -/
inductive Parse where
  | err | special | ok
  deriving Repr, DecidableEq, Inhabited

structure Cfg where
  mode : Mode := .search
  parallel : Bool := false          -- `args.threads() != 1`
  quiet : Bool := false
  stats : Bool := false
  messages : Bool := true           -- `messages::messages()` (`--no-messages` clears it)
  implicitPath : Bool := false      -- `args.has_implicit_path()`
  matchesPossible : Bool := true    -- `args.matches_possible()`
  setupOk : Bool := true            -- `walk_builder()?`, `matcher()?`, `searcher()?`, `search_worker()?`
  configErr : Bool := false         -- `flags::config::args()` reported that the configuration file cannot be read / parsed
  flush : WriteRes := .ok           -- result of the explicit `flush()` of stdout that ends `search`, `files`, the print
                                    -- thread of `files_parallel` and `types` (since f052aea)
  deriving Repr, DecidableEq, Inhabited

/-- `hiargs.rs`: `quit_after_match = stats.is_none() && low.quiet`. -/
def Cfg.qam (c : Cfg) : Bool := !c.stats && c.quiet

structure St where
  matched : Bool := false
  searched : Bool := false
  errored : Bool := false           -- `messages::ERRORED`
  brokenPipe : Bool := false        -- `search_parallel`'s `broken_pipe`
  diags : List Diag := []
  out : List Nat := []              -- files whose results / paths were written to stdout, in order
  deriving Repr, DecidableEq, Inhabited

/-- `err_message!`: set the flag, print unless messages are disabled. -/
def errMessage (c : Cfg) (st : St) (d : Diag) : St :=
  { st with errored := true, diags := if c.messages then st.diags ++ [d] else st.diags }

/-- `anyhow::Result<bool>` of the four drivers, by what `main` looks at. -/
inductive RunRes where
  | ok (matched : Bool)
  | errPipe          -- an error whose chain contains an `io::Error` of kind `BrokenPipe`
  | errOther
  deriving Repr, DecidableEq, Inhabited

/-- The state `run` starts from.  `parse_low` reads the configuration file after the command line has been
parsed (so `--no-messages` given there already applies) and after the special modes have returned; what
`config::args()` cannot read or parse is reported through `err_message!` (since 379b616; `message!` before,
which left the error flag alone). -/
def initSt (c : Cfg) : St :=
  if c.configErr then errMessage c {} .config else {}

/-- `stdout.flush()?` as the last statement of a driver that returns `Ok(matched)` (since f052aea; before, the
last buffered bytes were written when the writer was dropped and an error at that point was lost).  The `?`
turns an error into the driver's `Err`: `main` exits quietly for a broken pipe and with a diagnostic and
status 2 for anything else. -/
def finalFlush (c : Cfg) (st : St) (matched : Bool) : St × RunRes :=
  match c.flush with
  | .ok => (st, .ok matched)
  | .pipe => (st, .errPipe)
  | .err => (st, .errOther)

/-! ### `search.rs`: what `SearchWorker::search` returns to the driver loop -/

/-- `search_preprocessor`: `self.search_reader(path, &mut rdr).map_err(|err| io::Error::new(err.kind(), ..))`
— the message is extended, the kind is kept (since ea0b57f; before, every kind became `Other`, which hid
a `BrokenPipe` of the printer from `search`).  `search_decompress` and `search_path` return the error
unchanged. -/
def viaPreprocessor : SearchRes → SearchRes
  | r => r

/-- The entry as the driver loop sees it; `pre` = the file goes through `--pre`. -/
def seen : Bool × Item → Item
  | (true, .file id sr wr) => .file id (viaPreprocessor sr) wr
  | (_, it) => it

/-! ### `search` (single-threaded) -/

/-- The `for haystack in haystacks` loop of `search`; `true` in the result = the loop left through
`return Err(err.into())`. -/
def searchLoop (c : Cfg) : List Item → St → St × Bool
  | [], st => (st, false)
  | .walkErr :: rest, st => searchLoop c rest (errMessage c st .walk)
  | .skip :: rest, st => searchLoop c rest st
  | .file id sr _ :: rest, st =>
    let st := { st with searched := true }
    match sr with
    | .pipe => (st, true)
    | .err => searchLoop c rest (errMessage c st (.file id))
    | .ok m =>
      let st := { st with matched := st.matched || m, out := st.out ++ [id] }
      if st.matched && c.qam then (st, false) else searchLoop c rest st

def search (c : Cfg) (items : List Item) (st : St) : St × RunRes :=
  if !c.setupOk then (st, .errOther) else
  let (st, piped) := searchLoop c items st
  if piped then (st, .errPipe) else
  let st := if c.implicitPath && !st.searched then errMessage c st .nothingSearched else st
  finalFlush c st st.matched

/-! ### `search_parallel` -/

/-- One invocation of the closure given to `build_parallel().run`. The `Bool` is `WalkState::Quit`. -/
def parSearchStep (c : Cfg) (st : St) : Item → St × Bool
  | .walkErr => (errMessage c st .walk, false)
  | .skip => (st, false)
  | .file id sr wr =>
    let st := { st with searched := true }
    match sr with
    | .ok m =>
      let st := { st with matched := st.matched || m }
      match wr with
      | .pipe => ({ st with brokenPipe := true }, true)
      | .err =>
        let st := errMessage c st (.write id)
        (st, st.matched && c.qam)
      | .ok =>
        let st := { st with out := st.out ++ [id] }
        (st, st.matched && c.qam)
    | _ =>
      -- every `Err`, BrokenPipe included. Since 1ed0364 the worker's buffer (what the file yielded before
      -- the failure) is printed first; a broken pipe there quits quietly, any other write error is ignored.
      match wr with
      | .pipe => ({ st with brokenPipe := true }, true)
      | _ => (errMessage c st (.file id), false)

/-- Fold over the invocations that ran; second component: some invocation returned `Quit`. -/
def parSearchLoop (c : Cfg) : List Item → St → St × Bool
  | [], st => (st, false)
  | it :: rest, st =>
    let (st, q) := parSearchStep c st it
    let (st, q') := parSearchLoop c rest st
    (st, q || q')

def searchParallel (c : Cfg) (ran : List Item) (st : St) : St × RunRes :=
  if !c.setupOk then (st, .errOther) else
  let (st, _) := parSearchLoop c ran st
  if st.brokenPipe then (st, .errPipe) else
  let st := if c.implicitPath && !st.searched then errMessage c st .nothingSearched else st
  -- `let _ = print_stats(.., &mut args.stdout()); let _ = wtr.flush();`: whatever happens to the trailer is discarded
  (st, .ok st.matched)

/-! ### `files` (single-threaded) -/

/-- Loop of `files`: `none` = fell out of the loop (end or quit-after-match `break`),
`some w` = `return Err(err.into())` for the failed write `w` (broken pipe or any other error). -/
def filesLoop (c : Cfg) : List Item → St → St × Option WriteRes
  | [], st => (st, none)
  | .walkErr :: rest, st => filesLoop c rest (errMessage c st .walk)
  | .skip :: rest, st => filesLoop c rest st
  | .file id _ wr :: rest, st =>
    let st := { st with matched := true }
    if c.qam then (st, none) else
    match wr with
    | .ok => filesLoop c rest { st with out := st.out ++ [id] }
    | w => (st, some w)              -- `return Err(err.into())`, BrokenPipe included (since 6599e1f)

def files (c : Cfg) (items : List Item) (st : St) : St × RunRes :=
  if !c.setupOk then (st, .errOther) else
  match filesLoop c items st with
  | (st, none) => finalFlush c st st.matched
  | (st, some .pipe) => (st, .errPipe)
  | (st, some _) => (st, .errOther)

/-! ### `files_parallel` -/

/-- Walker side: every invocation that ran sets `matched` and (unless quitting) sends the haystack.
Returns the haystacks sent, in order. -/
def filesParWalk (c : Cfg) : List Item → St → St × List (Nat × WriteRes)
  | [], st => (st, [])
  | .walkErr :: rest, st => filesParWalk c rest (errMessage c st .walk)
  | .skip :: rest, st => filesParWalk c rest st
  | .file id _ wr :: rest, st =>
    let st := { st with matched := true }
    let (st, sent) := filesParWalk c rest st
    (st, if c.qam then sent else (id, wr) :: sent)

/-- The printing thread: `for haystack in rx.iter() { path_printer.write(..)?; }`. -/
def printThread : List (Nat × WriteRes) → List Nat × WriteRes
  | [] => ([], .ok)
  | (id, .ok) :: rest => let (o, r) := printThread rest; (id :: o, r)
  | (_, r) :: _ => ([], r)

def filesParallel (c : Cfg) (ran : List Item) (st : St) : St × RunRes :=
  if !c.setupOk then (st, .errOther) else
  let (st, sent) := filesParWalk c ran st
  let (o, r) := printThread sent
  let st := { st with out := st.out ++ o }
  match r with
  | .ok => finalFlush c st st.matched   -- the print thread ends with `stdout.flush()`
  | .pipe => (st, .errPipe)         -- `return Err(err.into())` for every error of the print thread (since 6599e1f)
  | .err => (st, .errOther)

/-! ### `run` and `main` -/

structure Final where
  exit : Nat
  diags : List Diag
  out : List Nat
  deriving Repr, DecidableEq, Inhabited

/-! exit statuses, as written in `main.rs` (source-anchored: `checks/C15.json` → `constants`) -/
abbrev exitMatched : Nat := 0
abbrev exitErrored : Nat := 2
abbrev exitNoMatch : Nat := 1
abbrev exitBrokenPipe : Nat := 0
abbrev exitFatal : Nat := 2

/-- `run`'s last expression. -/
def exitCode (matched quiet errored : Bool) : Nat :=
  if matched && (quiet || !errored) then exitMatched else if errored then exitErrored else exitNoMatch

/-- `run`: dispatch on the mode and thread count. -/
def run (c : Cfg) (p : Parse) (items : List Item) : St × Option RunRes :=
  match p with
  | .err => (initSt c, some .errOther)           -- (a command line error is found before the configuration file is read: `configErr = false` then)
  | .special => ({}, none)                       -- help / version / type list, before any configuration file is read
  | .ok =>
    let st := initSt c
    let (st, r) :=
      match c.mode with
      | .search =>
        if !c.matchesPossible then (st, .ok false)
        else if !c.parallel then search c items st else searchParallel c items st
      | .files => if !c.parallel then files c items st else filesParallel c items st
    (st, some r)

/-- `main`. -/
def main (c : Cfg) (p : Parse) (items : List Item) : Final :=
  match run c p items with
  | (st, none) =>
    -- a special mode: exit 0 (a PCRE2-less `--pcre2-version`: 1; not modelled); every write and the final flush
    -- are `?`-propagated, a broken pipe ends quietly
    match c.flush with
    | .err => ⟨exitFatal, st.diags ++ [.fatal], st.out⟩
    | _ => ⟨0, st.diags, st.out⟩
  | (st, some (.ok matched)) => ⟨exitCode matched c.quiet st.errored, st.diags, st.out⟩
  | (st, some .errPipe) => ⟨exitBrokenPipe, st.diags, st.out⟩
  | (st, some .errOther) => ⟨exitFatal, st.diags ++ [.fatal], st.out⟩

/-! ### `--stats` (also implied by `--json`): `stats += search_result.stats()` and `print_stats`

Only the two file counters are modelled: "files searched" (`searches`) and "files contained matches"
(`searches_with_match`).  A search that returns `Err` contributes nothing.  The summary is printed after
the loop iff the driver returns `Ok` (a broken pipe returns early; errors of `print_stats` itself are
ignored). -/

structure Stats where
  searches : Nat := 0
  withMatch : Nat := 0
  deriving Repr, DecidableEq, Inhabited

def Stats.add (s : Stats) (m : Bool) : Stats := ⟨s.searches + 1, s.withMatch + (if m then 1 else 0)⟩

/-- `search`: the loop of `searchLoop`, tracking the counters; `none` = left through `return Err(..)`. -/
def searchStats (c : Cfg) : List Item → Bool → Stats → Option Stats
  | [], _, s => some s
  | .walkErr :: rest, matched, s => searchStats c rest matched s
  | .skip :: rest, matched, s => searchStats c rest matched s
  | .file _ sr _ :: rest, matched, s =>
    match sr with
    | .pipe => none
    | .err => searchStats c rest matched s
    | .ok m =>
      let matched := matched || m
      let s := s.add m
      if matched && c.qam then some s else searchStats c rest matched s

/-- `search_parallel`: every callback whose search returned `Ok` adds its counters under the mutex. -/
def parStats : List Item → Stats → Stats
  | [], s => s
  | .file _ (.ok m) _ :: rest, s => parStats rest (s.add m)
  | _ :: rest, s => parStats rest s

/-- The summary `run` prints, if any. -/
def statsPrinted (c : Cfg) (ran : List Item) : Option Stats :=
  if !c.stats || c.mode != .search || !c.matchesPossible || !c.setupOk then none
  else if !c.parallel then searchStats c ran false {}
  else if (parSearchLoop c ran (initSt c)).1.brokenPipe then none
  else some (parStats ran {})

end RgVerif.Exit
