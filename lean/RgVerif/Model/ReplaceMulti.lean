import RgVerif.Model.Replace
import RgVerif.Model.Printer
/-
Model of the multi-line branch of `Replacer::replace_all` (crates/printer/src/util.rs) and of what
`StandardSink::matched` prints for a block when a replacement is configured and the search is effectively
multi-line (crates/printer/src/standard.rs: `record_matches`, `replace`, `Sunk::from_sink_match`,
`StandardImpl::sink` → `sink_fast_multi_line` / `sink_slow_multi_line` on the REPLACED bytes).

  * haystack cut at `range.end + MAX_LOOK_AHEAD` (`Replace.maxLookAhead`), no terminator trimming;
  * `is_at_unterminated_end` computed on the cut haystack (`Replace.isAtUnterminatedEnd`);
  * `replace_with_captures_in_context` (`Replace.replaceWithCapturesInContext`, the coordinator's model), which
    since 55c3d7e clamps `last_match` to `range.end`, so that a kept match reaching beyond the block (possible
    through the look-ahead cut) no longer makes `&bytes[last_match..end]` an invalid slice;
  * `Replacer::replacement()` is `None` when no expansion was recorded: the original bytes and the original
    matches are printed then;
  * the printing itself is the C09 model (`Printer.sinkBody`), applied to the replaced bytes with the expansion
    offsets as matches.
-/
namespace RgVerif.ReplaceMulti
open RgVerif RgVerif.Matcher RgVerif.Interp RgVerif.Replace RgVerif.Printer

/-- overall match of a capture set (`caps.get(0).unwrap()`) -/
def sp0 (c : Caps) : Span := (c.get 0).getD ⟨0, 0⟩

/-- `find_at` seen through `captures_at`: the overall match -/
def findOf (capsAtOf : Bytes → Nat → Option Caps) : Oracle := fun hay p => (capsAtOf hay p).map sp0

/-- `Replacer::replace_all`, multi-line branch. -/
def replaceAllMulti (sc : SCfg) (capsAtOf : Bytes → Nat → Option Caps) (names : List (Bytes × Nat))
    (haystack : Bytes) (rs re : Nat) (tmpl : Bytes) : RState :=
  let hay := cutHaystack sc haystack re
  replaceWithCapturesInContext (capsAtOf hay) names hay rs re (isAtUnterminatedEnd sc.lt hay rs re) tmpl

/-- `Sunk::from_sink_match(mat, &matches, replacer.replacement())` -/
def sunkOf (buf : Bytes) (rs re absOff : Nat) (ln : Option Nat) (orig : List Span) (st : RState) : Sunk :=
  if st.spans.isEmpty then { bytes := slice buf rs re, absOff, lineNo := ln, ctx := none, ms := orig }
  else { bytes := st.dst, absOff, lineNo := ln, ctx := none, ms := st.spans }

/-- What `StandardSink::matched` writes for the block `[rs, re)` of `buf` (after the search prelude) when a
replacement is configured. `sc.multiLine` is `true` in this branch. -/
def printReplacedBlock (sc : SCfg) (c : StdCfg) (capsAtOf : Bytes → Nat → Option Caps) (names : List (Bytes × Nat))
    (buf : Bytes) (rs re absOff : Nat) (ln : Option Nat) (tmpl : Bytes) : Bytes :=
  -- `record_matches` (a replacement demands match granularity), then `replace`
  let orig := shiftSpans rs (findIterInContext sc (findOf capsAtOf) buf rs re)
  let st := replaceAllMulti sc capsAtOf names buf rs re tmpl
  sinkBody sc c (sunkOf buf rs re absOff ln orig st)

end RgVerif.ReplaceMulti
