import RgVerif.Model.Look
/-
Denotation of the HIR: `Matches lk h hay s e` — the expression `h` matches the span `[s, e)`
of the haystack `hay`.  Look-around assertions are evaluated on the haystack through
`lk : Look → Bytes → Nat → Bool` (instantiated with `lookAt isWord`); every theorem of C11 holds
for an arbitrary `lk`.

`ends` is the executable counterpart used by the driver (all `e` with `Matches … s e`).
-/
namespace RgVerif.Rx
open RgVerif

abbrev LookFn := Look → Bytes → Nat → Bool

mutual
inductive Matches (lk : LookFn) : Hir → Bytes → Nat → Nat → Prop where
  | empty {hay s} : s ≤ hay.length → Matches lk .empty hay s s
  | lit {bs hay s} : s + bs.length ≤ hay.length → slice hay s (s + bs.length) = bs →
      Matches lk (.lit bs) hay s (s + bs.length)
  | classB {rs hay s b} : hay[s]? = some b → inCls rs b = true → Matches lk (.classB rs) hay s (s + 1)
  | classU {rs hay s c} : inCls rs c = true → isScalar c = true →
      s + (utf8Enc c).length ≤ hay.length → slice hay s (s + (utf8Enc c).length) = utf8Enc c →
      Matches lk (.classU rs) hay s (s + (utf8Enc c).length)
  | look {k hay s} : s ≤ hay.length → lk k hay s = true → Matches lk (.look k) hay s s
  | rep {min max greedy sub hay s e} (n : Nat) : min ≤ n → (∀ m, max = some m → n ≤ m) →
      MatchesRep lk sub hay n s e → Matches lk (.rep min max greedy sub) hay s e
  | cap {idx sub hay s e} : Matches lk sub hay s e → Matches lk (.cap idx sub) hay s e
  | concat {xs hay s e} : MatchesSeq lk xs hay s e → Matches lk (.concat xs) hay s e
  | alt {xs hay s e} : MatchesAny lk xs hay s e → Matches lk (.alt xs) hay s e
/-- The elements match consecutive spans. -/
inductive MatchesSeq (lk : LookFn) : HirList → Bytes → Nat → Nat → Prop where
  | nil {hay s} : s ≤ hay.length → MatchesSeq lk .nil hay s s
  | cons {h t hay s m e} : Matches lk h hay s m → MatchesSeq lk t hay m e → MatchesSeq lk (.cons h t) hay s e
/-- Some element matches the span. -/
inductive MatchesAny (lk : LookFn) : HirList → Bytes → Nat → Nat → Prop where
  | head {h t hay s e} : Matches lk h hay s e → MatchesAny lk (.cons h t) hay s e
  | tail {h t hay s e} : MatchesAny lk t hay s e → MatchesAny lk (.cons h t) hay s e
/-- Exactly `n` consecutive matches of `sub`. -/
inductive MatchesRep (lk : LookFn) : Hir → Bytes → Nat → Nat → Nat → Prop where
  | zero {sub hay s} : s ≤ hay.length → MatchesRep lk sub hay 0 s s
  | succ {sub hay n s m e} : Matches lk sub hay s m → MatchesRep lk sub hay n m e → MatchesRep lk sub hay (n + 1) s e
end

/-! ### Executable semantics -/

def dedupNat (xs : List Nat) : List Nat := xs.foldr (fun x acc => if acc.contains x then acc else x :: acc) []

/-- Ends of a Unicode-class match at `s`: try the four encoding lengths. -/
def endsClassU (rs : Ranges) (hay : Bytes) (s : Nat) : List Nat :=
  [1, 2, 3, 4].filterMap fun n =>
    if s + n ≤ hay.length then
      match utf8Dec (slice hay s (s + n)) with
      | some c => if inCls rs c && isScalar c && utf8Enc c == slice hay s (s + n) then some (s + n) else none
      | none => none
    else none

/-- One more iteration of a repetition: from every position in `cur`. -/
def stepEnds (f : Nat → List Nat) (cur : List Nat) : List Nat := dedupNat (cur.flatMap f)

/-- Positions reachable by `k` iterations, for `k = lo, lo+1, …, lo+extra` — all collected.
`cur` is the set for `k = lo`. -/
def repCollect (f : Nat → List Nat) : Nat → List Nat → List Nat
  | 0, cur => cur
  | extra + 1, cur => cur ++ repCollect f extra (stepEnds f cur)

def iterEnds (f : Nat → List Nat) : Nat → List Nat → List Nat
  | 0, cur => cur
  | k + 1, cur => iterEnds f k (stepEnds f cur)

/-- Ends of a repetition: positions reached by `k` iterations for `min ≤ k ≤ max`; for an unbounded
repetition `len + 1` further iterations reach everything (iterations that do not advance add nothing). -/
def repEnds (f : Nat → List Nat) (min : Nat) (max : Option Nat) (len s : Nat) : List Nat :=
  match max with
  | some m => if min ≤ m then dedupNat (repCollect f (m - min) (iterEnds f min [s])) else []
  | none => dedupNat (repCollect f (len + 1) (iterEnds f min [s]))

mutual
/-- All `e` such that `Matches lk h hay s e` (for `s ≤ hay.length`). -/
def ends (lk : LookFn) : Hir → Bytes → Nat → List Nat
  | .empty, hay, s => if s ≤ hay.length then [s] else []
  | .lit bs, hay, s => if s + bs.length ≤ hay.length && slice hay s (s + bs.length) == bs then [s + bs.length] else []
  | .classB rs, hay, s =>
    match hay[s]? with
    | some b => if inCls rs b then [s + 1] else []
    | none => []
  | .classU rs, hay, s => endsClassU rs hay s
  | .look k, hay, s => if s ≤ hay.length && lk k hay s then [s] else []
  | .rep min max _ sub, hay, s =>
    if s ≤ hay.length then repEnds (fun p => ends lk sub hay p) min max hay.length s else []
  | .cap _ sub, hay, s => ends lk sub hay s
  | .concat xs, hay, s => endsSeq lk xs hay [s]
  | .alt xs, hay, s => dedupNat (endsAny lk xs hay s)
def endsSeq (lk : LookFn) : HirList → Bytes → List Nat → List Nat
  | .nil, hay, cur => cur.filter (· ≤ hay.length)
  | .cons h t, hay, cur => endsSeq lk t hay (dedupNat (cur.flatMap fun p => ends lk h hay p))
def endsAny (lk : LookFn) : HirList → Bytes → Nat → List Nat
  | .nil, _, _ => []
  | .cons h t, hay, s => ends lk h hay s ++ endsAny lk t hay s
end

/-- Is there a match anywhere in the haystack? (`Matcher::is_match`) -/
def isMatch (lk : LookFn) (h : Hir) (hay : Bytes) : Bool :=
  (List.range (hay.length + 1)).any fun s => !(ends lk h hay s).isEmpty

/-- All match spans `(s, e)`, ordered by start. -/
def allSpans (lk : LookFn) (h : Hir) (hay : Bytes) : List (Nat × Nat) :=
  (List.range (hay.length + 1)).flatMap fun s => (ends lk h hay s).map fun e => (s, e)

end RgVerif.Rx
