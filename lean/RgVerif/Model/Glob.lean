import RgVerif.Model.Sx
/-
Model of `crates/globset/src/glob.rs`:

* `Tok` / `Token`      — `enum Token`.  The parser rejects nested alternates (`NestedAlternates`), so the
                          branches of an `Alternates` token hold only non-alternate tokens; the type says so.
* `parse`              — `Parser::{parse, parse_star, parse_class, parse_comma, parse_backslash,
                          push_alternate, pop_alternate}` and the final stack check of `GlobBuilder::build`.
* `toRegex`            — `Tokens::to_regex_with` (the text, byte for byte; compared with `Glob::regex()`).
* `tokMatch`           — the meaning of that regex as a direct backtracking matcher over the tokens
                          (`(?-u)`, `dot_matches_new_line`, ASCII-only `(?i)`); the regex engine is external.
* `literal`, `basenameLiteral`, `ext`, `prefix`, `suffix`, `requiredExt`, `strategyOf` — the six recognisers
                          and `MatchStrategy::new` (same order of tests).

A glob is a list of Unicode scalar values (`char`s), a path is a list of bytes.
-/
namespace RgVerif.Glob

/-- `GlobOptions`. -/
structure Opts where
  ci : Bool   -- case_insensitive
  ls : Bool   -- literal_separator
  be : Bool   -- backslash_escape
  ea : Bool   -- empty_alternates
  deriving DecidableEq, Repr, Inhabited

/-- `Token` without `Alternates`. -/
inductive Tok where
  | lit (c : Nat)
  | any
  | star            -- ZeroOrMore
  | recPrefix       -- RecursivePrefix
  | recSuffix       -- RecursiveSuffix
  | recZero         -- RecursiveZeroOrMore
  | cls (neg : Bool) (ranges : List (Nat × Nat))
  deriving DecidableEq, Repr, Inhabited

inductive Token where
  | s (t : Tok)
  | alts (bs : List (List Tok))
  deriving DecidableEq, Repr, Inhabited

structure Glob where
  opts : Opts
  tokens : List Token
  deriving DecidableEq, Repr, Inhabited

/-! ### UTF-8 of one scalar value (`char::encode_utf8`) -/

def utf8Enc (c : Nat) : Bytes :=
  if c < 0x80 then [c]
  else if c < 0x800 then [0xC0 + c / 64, 0x80 + c % 64]
  else if c < 0x10000 then [0xE0 + c / 4096, 0x80 + c / 64 % 64, 0x80 + c % 64]
  else [0xF0 + c / 262144, 0x80 + c / 4096 % 64, 0x80 + c / 64 % 64, 0x80 + c % 64]

def utf8Str (cs : List Nat) : Bytes := cs.flatMap utf8Enc

/-! ### Byte-level primitives of the regex fragment that `to_regex_with` prints -/

def lower (b : Nat) : Nat := if 65 ≤ b ∧ b ≤ 90 then b + 32 else b

/-- ASCII case swap (identity outside letters). -/
def swapCase (b : Nat) : Nat :=
  if 65 ≤ b ∧ b ≤ 90 then b + 32 else if 97 ≤ b ∧ b ≤ 122 then b - 32 else b

/-- one literal byte of the regex against one haystack byte, under `(?i)` when `ci`. -/
def eqB (ci : Bool) (x b : Nat) : Bool := if ci then lower x == lower b else x == b

def inRanges (items : List (Nat × Nat)) (b : Nat) : Bool := items.any fun r => r.1 ≤ b && b ≤ r.2

/-- The byte items a class range prints to: `char_to_escaped_literal(lo)` `-` `char_to_escaped_literal(hi)`
inside `[...]` of a `(?-u)` regex.  For ASCII this is the range itself; for multi-byte characters the
escaped bytes become separate items (that is what the code prints). -/
def rangeItems (r : Nat × Nat) : List (Nat × Nat) :=
  if r.1 == r.2 then (utf8Enc r.1).map fun b => (b, b)
  else
    let a := utf8Enc r.1
    let b := utf8Enc r.2
    (a.dropLast.map fun x => (x, x)) ++ [(a.getLast?.getD 0, b.headD 0)] ++ (b.drop 1).map fun x => (x, x)

def clsItems (ranges : List (Nat × Nat)) : List (Nat × Nat) := ranges.flatMap rangeItems

/-- the printed class is a valid regex class (every item has lo ≤ hi, and it is not empty) -/
def clsValid (ranges : List (Nat × Nat)) : Bool :=
  !ranges.isEmpty && (clsItems ranges).all fun r => r.1 ≤ r.2

/-- byte `b` is in the printed class: case folding is applied to the positive set, then negation. -/
def inCls (ci : Bool) (neg : Bool) (ranges : List (Nat × Nat)) (b : Nat) : Bool :=
  let items := clsItems ranges
  let pos := inRanges items b || (ci && inRanges items (swapCase b))
  if neg then !pos else pos

/-- strip a literal byte string from the front of the path -/
def litRest (ci : Bool) : Bytes → Bytes → Option Bytes
  | [], p => some p
  | _ :: _, [] => none
  | x :: xs, b :: p => if eqB ci x b then litRest ci xs p else none

/-- every suffix of `p` that remains after consuming zero or more bytes satisfying `ok` -/
def starRests (ok : Nat → Bool) : Bytes → List Bytes
  | [] => [[]]
  | b :: p => (b :: p) :: (if ok b then starRests ok p else [])

/-- every suffix of `p` that remains after consuming a non-empty prefix ending in `/` -/
def afterSlashes : Bytes → List Bytes
  | [] => []
  | b :: p => (if b == 47 then [p] else []) ++ afterSlashes p

def anyOk (o : Opts) (b : Nat) : Bool := !(o.ls && b == 47)

/-- The suffixes of `p` that can remain after token `t` consumed a prefix of `p`:
the meaning of the regex piece printed by `tokens_to_regex` for `t`. -/
def tokRests (o : Opts) : Tok → Bytes → List Bytes
  | .lit c, p => (litRest o.ci (utf8Enc c) p).toList
  | .any, [] => []
  | .any, b :: p => if anyOk o b then [p] else []                    -- `.` or `[^/]`
  | .star, p => starRests (anyOk o) p                                 -- `.*` or `[^/]*`
  | .recPrefix, p => p :: afterSlashes p                              -- `(?:/?|.*/)`
  | .recSuffix, [] => []
  | .recSuffix, b :: p => if b == 47 then starRests (fun _ => true) p else []   -- `/.*`
  | .recZero, [] => []
  | .recZero, b :: p => if b == 47 then p :: afterSlashes p else []   -- `(?:/|/.*/)`
  | .cls _ _, [] => []
  | .cls neg rs, b :: p => if inCls o.ci neg rs b then [p] else []

/-- match a run of plain tokens, then continue with `k` on what is left -/
def seqK (o : Opts) : List Tok → (Bytes → Bool) → Bytes → Bool
  | [], k, p => k p
  | t :: ts, k, p => (tokRests o t p).any (seqK o ts k)

/-- the branches of an alternation that `tokens_to_regex` keeps (`!altre.is_empty() || empty_alternates`) -/
def keptBranches (o : Opts) (bs : List (List Tok)) : List (List Tok) :=
  bs.filter fun b => !b.isEmpty || o.ea

def tokensK (o : Opts) : List Token → (Bytes → Bool) → Bytes → Bool
  | [], k, p => k p
  | .s t :: ts, k, p => (tokRests o t p).any (tokensK o ts k)
  | .alts bs :: ts, k, p =>
    -- `if !parts.is_empty() { (?:p1|p2|…) }` else nothing is printed
    if (keptBranches o bs).isEmpty then tokensK o ts k p
    else (keptBranches o bs).any fun b => seqK o b (tokensK o ts k) p

/-- `Glob::compile_matcher().is_match(path)`: the regex `^…$` printed by `to_regex_with`
(with its special case for a lone `**`). -/
def tokMatch (o : Opts) (toks : List Token) (p : Bytes) : Bool :=
  match toks with
  | [.s .recPrefix] => true                        -- `^.*$`
  | _ => tokensK o toks (fun r => r.isEmpty) p

def Glob.isMatch (g : Glob) (p : Bytes) : Bool := tokMatch g.opts g.tokens p

/-! ### `to_regex_with`: the printed text -/

def isMeta (b : Nat) : Bool :=
  -- regex_syntax::is_meta_character
  [92, 46, 43, 42, 63, 40, 41, 124, 91, 93, 123, 125, 94, 36, 35, 38, 45, 126].contains b

def hexLow (n : Nat) : Nat := if n < 10 then 48 + n else 87 + n

/-- `bytes_to_escaped_literal` -/
def escBytes (bs : Bytes) : Bytes :=
  bs.flatMap fun b =>
    if b ≤ 0x7F then (if isMeta b then [92, b] else [b])
    else [92, 120, hexLow (b / 16), hexLow (b % 16)]

def escChar (c : Nat) : Bytes := escBytes (utf8Enc c)

def str (s : String) : Bytes := s.toList.map Char.toNat

def tokRegex (o : Opts) : Tok → Bytes
  | .lit c => escChar c
  | .any => if o.ls then str "[^/]" else str "."
  | .star => if o.ls then str "[^/]*" else str ".*"
  | .recPrefix => str "(?:/?|.*/)"
  | .recSuffix => str "/.*"
  | .recZero => str "(?:/|/.*/)"
  | .cls neg rs =>
    [91] ++ (if neg then [94] else []) ++
      rs.flatMap (fun r => if r.1 == r.2 then escChar r.1 else escChar r.1 ++ [45] ++ escChar r.2) ++ [93]

def seqRegex (o : Opts) (ts : List Tok) : Bytes := ts.flatMap (tokRegex o)

def joinBar : List Bytes → Bytes
  | [] => []
  | [x] => x
  | x :: xs => x ++ [124] ++ joinBar xs

def tokenRegex (o : Opts) : Token → Bytes
  | .s t => tokRegex o t
  | .alts bs =>
    let parts := (bs.map (seqRegex o)).filter fun re => !re.isEmpty || o.ea
    if parts.isEmpty then [] else str "(?:" ++ joinBar parts ++ [41]

def toRegex (o : Opts) (toks : List Token) : Bytes :=
  str "(?-u)" ++ (if o.ci then str "(?i)" else []) ++ [94] ++
    (match toks with
     | [.s .recPrefix] => str ".*"
     | _ => toks.flatMap (tokenRegex o)) ++ [36]

/-- every class in the token list prints to a class the regex parser accepts
(always true for ASCII globs that the parser produced) -/
def tokValid : Tok → Bool
  | .cls _ rs => clsValid rs
  | _ => true

def tokensValid (toks : List Token) : Bool :=
  toks.all fun
    | .s t => tokValid t
    | .alts bs => bs.all fun b => b.all tokValid

/-! ### The parser -/

inductive PErr where
  | unclosedClass | invalidRange | unopenedAlternates | unclosedAlternates | nestedAlternates
  | danglingEscape | fuel
  deriving DecidableEq, Repr

/-- `Parser` state: `stack = outer :: branches.reverse` (`branches` holds the open alternation's
branches, innermost/top first; empty when no `{` is open), `cur` the last bumped character. -/
structure PState where
  outer : List Token
  branches : List (List Tok)
  cur : Option Nat
  deriving Repr

def isSep (c : Nat) : Bool := c == 47

/-- `stack.len()` -/
def PState.depth (st : PState) : Nat := 1 + st.branches.length

/-- `push_token` for a non-alternate token -/
def PState.push (st : PState) (t : Tok) : PState :=
  match st.branches with
  | [] => { st with outer := st.outer ++ [.s t] }
  | b :: bs => { st with branches := (b ++ [t]) :: bs }

/-- `have_tokens` -/
def PState.haveTokens (st : PState) : Bool :=
  match st.branches with
  | [] => !st.outer.isEmpty
  | b :: _ => !b.isEmpty

/-- `pop_token`: drops the last token of the top of the stack and tells whether it was a
`RecursivePrefix` / `RecursiveSuffix` (`some`) or anything else (`none`). -/
def PState.pop (st : PState) : PState × Option Tok :=
  match st.branches with
  | [] =>
    let k := match st.outer.getLast? with
      | some (.s .recPrefix) => some Tok.recPrefix
      | some (.s .recSuffix) => some Tok.recSuffix
      | _ => none
    ({ st with outer := st.outer.dropLast }, k)
  | b :: bs =>
    let k := match b.getLast? with
      | some .recPrefix => some Tok.recPrefix
      | some .recSuffix => some Tok.recSuffix
      | _ => none
    ({ st with branches := b.dropLast :: bs }, k)

/-- `parse_star`, entered after the first `*` was bumped (`prev` is the character before it).
Returns the new state and the unread input. -/
def parseStar (st : PState) (prev : Option Nat) (rest : List Nat) : PState × List Nat :=
  match rest with
  | 42 :: rest1 =>
    let st := { st with cur := some 42 }                       -- bump the second `*`
    if !st.haveTokens then
      match rest1 with
      | [] => ({ st.push .recPrefix with cur := none }, [])   -- bump() = None
      | c :: rest2 =>
        if isSep c then ({ st.push .recPrefix with cur := some c }, rest2)
        else ((st.push .star).push .star, rest1)
    else if !(prev.map isSep).getD false
            && (st.depth ≤ 1 || (prev != some 44 && prev != some 123)) then
      ((st.push .star).push .star, rest1)
    else
      -- is_suffix, or bail out with two stars
      let cont (st : PState) (isSuffix : Bool) (rest' : List Nat) : PState × List Nat :=
        match st.pop with
        | (st, some .recPrefix) => (st.push .recPrefix, rest')
        | (st, some .recSuffix) => (st.push .recSuffix, rest')
        | (st, _) => (st.push (if isSuffix then .recSuffix else .recZero), rest')
      match rest1 with
      | [] => cont { st with cur := none } true []
      | c :: rest2 =>
        if (c == 44 || c == 125) && st.depth ≥ 2 then cont st true rest1
        else if isSep c then cont { st with cur := some c } false rest2
        else ((st.push .star).push .star, rest1)
  | _ => (st.push .star, rest)

/-- `add_to_last_range` -/
def setLastHi (ranges : List (Nat × Nat)) (add : Nat) : Except PErr (List (Nat × Nat)) :=
  match ranges.getLast? with
  | none => .error .invalidRange          -- unreachable (`ranges.last_mut().unwrap()`)
  | some r => if add < r.1 then .error .invalidRange else .ok (ranges.dropLast ++ [(r.1, add)])

/-- the `loop` of `parse_class`; returns the ranges, the unread input -/
def classLoop : List Nat → List (Nat × Nat) → Bool → Bool → Except PErr (List (Nat × Nat) × List Nat)
  | [], _, _, _ => .error .unclosedClass
  | c :: rest, ranges, first, inRange =>
    if c == 93 then
      if first then classLoop rest (ranges ++ [(93, 93)]) false inRange
      else .ok (if inRange then ranges ++ [(45, 45)] else ranges, rest)
    else if c == 45 then
      if first then classLoop rest (ranges ++ [(45, 45)]) false inRange
      else if inRange then
        match setLastHi ranges 45 with
        | .error e => .error e
        | .ok r => classLoop rest r false false
      else classLoop rest ranges false true
    else
      if inRange then
        match setLastHi ranges c with
        | .error e => .error e
        | .ok r => classLoop rest r false false
      else classLoop rest (ranges ++ [(c, c)]) false false

/-- the negation test at the start of `parse_class`: `Some('!') | Some('^')` is bumped -/
def classNeg (rest : List Nat) : Bool × List Nat :=
  match rest with
  | 33 :: r => (true, r)
  | 94 :: r => (true, r)
  | r => (false, r)

/-- `parse_class`, entered after `[` was bumped -/
def parseClass (rest : List Nat) : Except PErr (Tok × List Nat) :=
  match classLoop (classNeg rest).2 [] true false with
  | .error e => .error e
  | .ok (ranges, rest') => .ok (.cls (classNeg rest).1 ranges, rest')

/-- the `while let Some(c) = self.bump()` loop of `Parser::parse` -/
def parseLoop (o : Opts) : Nat → PState → List Nat → Except PErr PState
  | 0, _, _ => .error .fuel
  | _ + 1, st, [] => .ok { st with cur := none }
  | fuel + 1, st, c :: rest =>
    let prev := st.cur
    let st := { st with cur := some c }
    if c == 63 then parseLoop o fuel (st.push .any) rest
    else if c == 42 then
      let (st, rest) := parseStar st prev rest
      parseLoop o fuel st rest
    else if c == 91 then
      match parseClass rest with
      | .error e => .error e
      | .ok (t, rest') => parseLoop o fuel ({ st with cur := some 93 }.push t) rest'
    else if c == 123 then
      -- push_alternate
      if st.depth > 1 then .error .nestedAlternates
      else parseLoop o fuel { st with branches := [[]] } rest
    else if c == 125 then
      -- pop_alternate: pops every branch (top first) and pushes Alternates onto the outer tokens
      parseLoop o fuel { st with outer := st.outer ++ [.alts st.branches], branches := [] } rest
    else if c == 44 then
      -- parse_comma
      if st.depth ≤ 1 then parseLoop o fuel (st.push (.lit 44)) rest
      else parseLoop o fuel { st with branches := [] :: st.branches } rest
    else if c == 92 then
      -- parse_backslash (on Unix `is_separator('\\')` is false)
      if o.be then
        match rest with
        | [] => .error .danglingEscape
        | e :: rest' => parseLoop o fuel ({ st with cur := some e }.push (.lit e)) rest'
      else parseLoop o fuel (st.push (.lit 92)) rest
    else parseLoop o fuel (st.push (.lit c)) rest

/-- `GlobBuilder::build` (the parse and the stack check; the stack is never empty) -/
def parse (o : Opts) (glob : List Nat) : Except PErr (List Token) :=
  match parseLoop o (glob.length + 1) { outer := [], branches := [], cur := none } glob with
  | .error e => .error e
  | .ok st => if st.depth > 1 then .error .unclosedAlternates else .ok st.outer

/-! ### The recognisers of `impl Glob` and `MatchStrategy::new` -/

inductive Strat where
  | literal (l : List Nat)
  | basenameLiteral (l : List Nat)
  | extension (e : List Nat)
  | pfx (l : List Nat)
  | sfx (l : List Nat) (component : Bool)
  | requiredExt (e : List Nat)
  | regex
  deriving DecidableEq, Repr

/-- `for t in tokens { let Token::Literal(c) = *t else { return None }; lit.push(c) }` -/
def allLits : List Token → Option (List Nat)
  | [] => some []
  | .s (.lit c) :: ts => (allLits ts).map (c :: ·)
  | _ :: _ => none

/-- `Glob::literal` -/
def literal (g : Glob) : Option (List Nat) :=
  if g.opts.ci then none else
  match allLits g.tokens with
  | none => none
  | some lit => if lit.isEmpty then none else some lit

/-- the `for` loop of `Glob::ext` over `tokens[start+2..]` -/
def extLits : List Token → Option (List Nat)
  | [] => some []
  | .s (.lit c) :: ts => if c == 46 || c == 47 then none else (extLits ts).map (c :: ·)
  | _ :: _ => none

/-- `Glob::ext` -/
def ext (g : Glob) : Option (List Nat) :=
  if g.opts.ci then none else
  match g.tokens with
  | [] => none
  | t0 :: _ =>
    let start : Nat := if t0 == Token.s .recPrefix then 1 else 0
    match (g.tokens[start]? : Option Token) with
    | some (.s .star) =>
      if start == 0 && g.opts.ls then none else
      match (g.tokens[start + 1]? : Option Token) with
      | some (.s (.lit 46)) =>
        match extLits (g.tokens.drop (start + 2)) with
        | none => none
        | some l => some (46 :: l)            -- never empty
      | _ => none
    | _ => none

/-- the reverse scan of `Glob::required_ext` (`ext` is built in reverse) -/
def reqExtScan : List Token → List Nat → Option (List Nat)
  | [], acc => some acc
  | .s (.lit c) :: ts, acc =>
    if c == 47 then none
    else if c == 46 then some (acc ++ [c])          -- push then break
    else reqExtScan ts (acc ++ [c])
  | _ :: _, _ => none

/-- `Glob::required_ext` -/
def requiredExt (g : Glob) : Option (List Nat) :=
  if g.opts.ci then none else
  match reqExtScan g.tokens.reverse [] with
  | none => none
  | some e => if e.getLast? != some 46 then none else some e.reverse

/-- `Glob::prefix` -/
def pfx (g : Glob) : Option (List Nat) :=
  if g.opts.ci then none else
  match g.tokens.getLast? with
  | none => none
  | some last =>
    let r : Option (Nat × Bool) :=
      if last == Token.s .star then (if g.opts.ls then none else some (g.tokens.length - 1, false))
      else if last == Token.s .recSuffix then some (g.tokens.length - 1, true)
      else some (g.tokens.length, false)
    match r with
    | none => none
    | some (e, needSep) =>
      match allLits (g.tokens.take e) with
      | none => none
      | some lit =>
        let lit := if needSep then lit ++ [47] else lit
        if lit.isEmpty then none else some lit

/-- `Glob::suffix` -/
def sfx (g : Glob) : Option (List Nat × Bool) :=
  if g.opts.ci then none else
  match g.tokens with
  | [] => none
  | t0 :: _ =>
    let (lit0, start, entire) : List Nat × Nat × Bool :=
      if t0 == Token.s .recPrefix then
        match (g.tokens[1]? : Option Token) with
        | some (.s (.lit _)) => ([47], 1, true)
        | _ => ([], 1, false)
      else ([], 0, false)
    match (g.tokens[start]? : Option Token) with
    | none => none
    | some t =>
      let start' : Option Nat :=
        if t == Token.s .star then (if g.opts.ls then none else some (start + 1)) else some start
      match start' with
      | none => none
      | some start' =>
        match allLits (g.tokens.drop start') with
        | none => none
        | some l =>
          let lit := lit0 ++ l
          if lit.isEmpty || lit == [47] then none else some (lit, entire)

/-- the `for` loop of `Glob::basename_tokens` over `tokens[start..]` -/
def basenameOk (o : Opts) : List Token → Bool
  | [] => true
  | .s (.lit c) :: ts => if c == 47 then false else basenameOk o ts
  | .s .any :: ts => if !o.ls then false else basenameOk o ts
  | .s .star :: ts => if !o.ls then false else basenameOk o ts
  | _ :: _ => false

/-- `Glob::basename_tokens` -/
def basenameTokens (g : Glob) : Option (List Token) :=
  if g.opts.ci then none else
  match g.tokens with
  | .s .recPrefix :: rest =>
    if rest.isEmpty then none
    else if basenameOk g.opts rest then some rest else none
  | _ => none

/-- `Glob::basename_literal` -/
def basenameLiteral (g : Glob) : Option (List Nat) :=
  match basenameTokens g with
  | none => none
  | some toks => allLits toks

/-- the order in which `MatchStrategy::new` asks the recognisers (source names; anchored to the source by
`checks/C12.json` → `constants`; `strategyOf` below asks in this order) -/
def recogniserOrder : List String :=
  ["basename_literal", "literal", "ext", "prefix", "suffix", "required_ext"]

/-- `MatchStrategy::new` -/
def strategyOf (g : Glob) : Strat :=
  match basenameLiteral g with
  | some l => .basenameLiteral l
  | none =>
  match literal g with
  | some l => .literal l
  | none =>
  match ext g with
  | some e => .extension e
  | none =>
  match pfx g with
  | some l => .pfx l
  | none =>
  match sfx g with
  | some (l, c) => .sfx l c
  | none =>
  match requiredExt g with
  | some e => .requiredExt e
  | none => .regex

end RgVerif.Glob
