import RgVerif.Model.Utf8
/-
Model of `crates/printer/src/jsont.rs`: `base64_standard`, `Data::from_bytes` (+ its
`Serialize` impl: `{"text": …}` for valid UTF-8, `{"bytes": base64}` otherwise) and the message
shapes `Begin / Match / Context / End / SubMatch`.  serde_json's string escaping is external:
messages are modelled as structures, not as JSON text.

`u8` arithmetic: the Rust code builds `group24 = b0 << 16 | b1 << 8 | b2` from three `u8`s.
For operands below 256 the disjoint `|` is `+` and the shifts/masks are `*`, `/`, `%` by powers
of two; the model uses the arithmetic form (theorems carry the hypothesis `∀ x ∈ b, x < 256`).
-/
namespace RgVerif.Json
open RgVerif

/-- `ALPHABET` of `base64_standard` as ASCII codes. -/
def alphabet : List Nat :=
  [65, 66, 67, 68, 69, 70, 71, 72, 73, 74, 75, 76, 77, 78, 79, 80, 81, 82, 83, 84, 85, 86, 87, 88, 89, 90,
   97, 98, 99, 100, 101, 102, 103, 104, 105, 106, 107, 108, 109, 110, 111, 112, 113, 114, 115, 116, 117,
   118, 119, 120, 121, 122,
   48, 49, 50, 51, 52, 53, 54, 55, 56, 57, 43, 47]

/-- The same constant as text (bin/check compares this string with the one in jsont.rs on every run):
ALPHABET = b"ABCDEFGHIJKLMNOPQRSTUVWXYZabcdefghijklmnopqrstuvwxyz0123456789+/" -/
theorem alphabet_eq_source :
    alphabet = "ABCDEFGHIJKLMNOPQRSTUVWXYZabcdefghijklmnopqrstuvwxyz0123456789+/".toList.map Char.toNat := by
  decide

/-- `ALPHABET[i]` -/
def b64char (i : Nat) : Nat := alphabet.getD i 0

/-- `base64_standard(bytes)`: `chunks_exact(3)` then the remainder of length 0, 1 or 2. -/
def base64 : Bytes → Bytes
  | [] => []
  | [b0] =>
    -- group8 = b0; index1 = (group8 >> 2) & 63; index2 = (group8 << 4) & 63
    [b64char (b0 / 4 % 64), b64char (b0 * 16 % 64), 61, 61]
  | [b0, b1] =>
    -- group16 = b0 << 8 | b1; (>> 10) & 63, (>> 4) & 63, (<< 2) & 63
    let g := b0 * 256 + b1
    [b64char (g / 1024 % 64), b64char (g / 16 % 64), b64char (g * 4 % 64), 61]
  | b0 :: b1 :: b2 :: rest =>
    let g := b0 * 65536 + b1 * 256 + b2
    b64char (g / 262144 % 64) :: b64char (g / 4096 % 64) :: b64char (g / 64 % 64) :: b64char (g % 64)
      :: base64 rest

/-- Inverse alphabet lookup (the decoder is not part of ripgrep; it is the reference reader used to state
losslessness). -/
def b64val (c : Nat) : Option Nat :=
  let i := alphabet.idxOf c
  if i < 64 then some i else none

/-- RFC 4648 decoder for padded base64. -/
def unbase64 : Bytes → Option Bytes
  | [] => some []
  | c0 :: c1 :: c2 :: c3 :: rest =>
    if rest.isEmpty && c3 == 61 then
      if c2 == 61 then
        match b64val c0, b64val c1 with
        | some v0, some v1 => some [v0 * 4 + v1 / 16]
        | _, _ => none
      else
        match b64val c0, b64val c1, b64val c2 with
        | some v0, some v1, some v2 => some [v0 * 4 + v1 / 16, v1 % 16 * 16 + v2 / 4]
        | _, _, _ => none
    else
      match b64val c0, b64val c1, b64val c2, b64val c3, unbase64 rest with
      | some v0, some v1, some v2, some v3, some r =>
        some ((v0 * 4 + v1 / 16) :: (v1 % 16 * 16 + v2 / 4) :: (v2 % 4 * 64 + v3) :: r)
      | _, _, _, _, _ => none
  | _ => none

/-- `jsont::Data` after serialisation: `{"text": s}` or `{"bytes": base64}`. -/
inductive Data where
  | text (b : Bytes)
  | bytes (b64 : Bytes)
  deriving Repr, DecidableEq, Inhabited

def Data.isText : Data → Bool
  | .text _ => true
  | .bytes _ => false

/-- `Data::from_bytes` followed by `Serialize for Data`. -/
def encodeData (b : Bytes) : Data :=
  if validUtf8 b then .text b else .bytes (base64 b)

/-- A consumer's reading of a `Data` object. -/
def decodeData : Data → Option Bytes
  | .text b => some b
  | .bytes s => unbase64 s

structure SubMatch where
  m : Data
  s : Nat
  e : Nat
  deriving Repr, DecidableEq

structure Stats where
  searches : Nat := 0
  searchesWithMatch : Nat := 0
  bytesSearched : Nat := 0
  bytesPrinted : Nat := 0
  matchedLines : Nat := 0
  matchCount : Nat := 0
  deriving Repr, DecidableEq, Inhabited

/-- `Stats::add` / `AddAssign` (elapsed time is not modelled). -/
def Stats.add (a b : Stats) : Stats :=
  { searches := a.searches + b.searches
  , searchesWithMatch := a.searchesWithMatch + b.searchesWithMatch
  , bytesSearched := a.bytesSearched + b.bytesSearched
  , bytesPrinted := a.bytesPrinted + b.bytesPrinted
  , matchedLines := a.matchedLines + b.matchedLines
  , matchCount := a.matchCount + b.matchCount }

/-- `jsont::Message`. `path` is `None` or the path's `Data`. -/
inductive Msg where
  | begin (path : Option Data)
  | matched (path : Option Data) (lines : Data) (lineNo : Option Nat) (absOff : Nat) (subs : List SubMatch)
  | context (path : Option Data) (lines : Data) (lineNo : Option Nat) (absOff : Nat) (subs : List SubMatch)
  | «end» (path : Option Data) (binaryOffset : Option Nat) (stats : Stats)
  deriving Repr, DecidableEq

end RgVerif.Json
