import RgVerif.Model.Sx
/-
UTF-8 validity as decided by Rust's `str::from_utf8` (RFC 3629: no overlong
forms, no surrogates, nothing above U+10FFFF).
-/
namespace RgVerif

def isCont (b : Nat) : Bool := 0x80 ≤ b && b ≤ 0xBF

def validUtf8 : Bytes → Bool
  | [] => true
  | b0 :: rest =>
    if b0 < 0x80 then validUtf8 rest
    else if 0xC2 ≤ b0 && b0 ≤ 0xDF then
      match rest with
      | b1 :: r => isCont b1 && validUtf8 r
      | _ => false
    else if 0xE0 ≤ b0 && b0 ≤ 0xEF then
      match rest with
      | b1 :: b2 :: r =>
        (if b0 == 0xE0 then 0xA0 ≤ b1 && b1 ≤ 0xBF
         else if b0 == 0xED then 0x80 ≤ b1 && b1 ≤ 0x9F
         else isCont b1) && isCont b2 && validUtf8 r
      | _ => false
    else if 0xF0 ≤ b0 && b0 ≤ 0xF4 then
      match rest with
      | b1 :: b2 :: b3 :: r =>
        (if b0 == 0xF0 then 0x90 ≤ b1 && b1 ≤ 0xBF
         else if b0 == 0xF4 then 0x80 ≤ b1 && b1 ≤ 0x8F
         else isCont b1) && isCont b2 && isCont b3 && validUtf8 r
      | _ => false
    else false

end RgVerif
