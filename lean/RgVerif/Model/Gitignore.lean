import RgVerif.Model.GlobSet
/-
Model of `crates/ignore/src/gitignore.rs` (`GitignoreBuilder::add_line` with every rewrite,
`Gitignore::{matched, matched_stripped, strip, matched_path_or_any_parents}`), of the one-source
nearest-first scan of `dir.rs::matched_ignore`, and of the walker's pruning
(`walk.rs::should_skip_entry`: an ignored directory is not descended).

Lines are lists of `char`s (code points), paths are bytes; relative paths inside the tree are lists of
components.
-/
namespace RgVerif.Gitignore
open RgVerif RgVerif.Glob

/-- what `add_line` trims from the end of a line: `line.trim_end_matches(' ')`, the space only (since
5031338; before that `str::trim_right`, i.e. every `char::is_whitespace`, so that `a<TAB>` meant `a`) -/
def isWs (c : Nat) : Bool := c == 32

/-- `str::trim_end_matches(' ')` -/
def trimRight (l : List Nat) : List Nat := (l.reverse.dropWhile isWs).reverse

def startsWith (l pre : List Nat) : Bool := pre.isPrefixOf l
def endsWith (l suf : List Nat) : Bool := suf.isSuffixOf l

/-- `gitignore::Glob` plus the compiled `globset::Glob` (`None` when `GlobBuilder::build` failed) -/
structure GiGlob where
  original : List Nat
  actual : List Nat
  isWhitelist : Bool
  isOnlyDir : Bool
  glob : Glob
  deriving Repr, DecidableEq

inductive LineResult where
  | skip                    -- comment or blank: `return Ok(self)`
  | err (e : PErr)          -- `Error::Glob`: the line is dropped, later lines are still added
  | glob (g : GiGlob)
  deriving Repr

/-- `if !line.ends_with("\\ ") { line = line.trim_right(); }` -/
def trimLine (line0 : List Nat) : List Nat :=
  if !endsWith line0 [92, 32] then trimRight line0 else line0

/-- the `\!` / `\#`, `!`, leading `/` stage: (is_whitelist, is_absolute, rest of the line) -/
def splitPrefix (line1 : List Nat) : Bool × Bool × List Nat :=
  if startsWith line1 [92, 33] || startsWith line1 [92, 35] then
    let l := line1.drop 1
    (false, l.head? == some 47, l)
  else
    let wl : Bool × List Nat := if startsWith line1 [33] then (true, line1.drop 1) else (false, line1)
    if startsWith wl.2 [47] then (wl.1, true, wl.2.drop 1) else (wl.1, false, wl.2)

/-- trailing slash: directories only (and an escaping backslash before it is dropped) -/
def splitDirSlash (line2 : List Nat) : Bool × List Nat :=
  if line2.getLast? == some 47 then
    let l := line2.dropLast
    (true, if l.getLast? == some 92 then l.dropLast else l)
  else (false, line2)

/-- `glob.actual`: `**/` in front of a pattern without a literal slash, `/*` after a trailing `/**` -/
def actualOf (isAbsolute : Bool) (line3 : List Nat) : List Nat :=
  let actual1 :=
    if !isAbsolute && !line3.contains 47 then
      if startsWith line3 [42, 42, 47] || line3 == [42, 42] then line3
      else [42, 42, 47] ++ line3
    else line3
  if endsWith actual1 [47, 42, 42] then actual1 ++ [47, 42] else actual1

def giOpts (ci : Bool) : Opts := { ci := ci, ls := true, be := true, ea := false }

/-- `GitignoreBuilder::add_line` -/
def addLine (ci : Bool) (line0 : List Nat) : LineResult :=
  if startsWith line0 [35] then .skip else
  let line1 := trimLine line0
  if line1.isEmpty then .skip else
  let p := splitPrefix line1
  -- a lone `!` (or `/`) carries no pattern: `if line.is_empty() { return Ok(self); }`
  if p.2.2.isEmpty then .skip else
  let d := splitDirSlash p.2.2
  -- nothing but the (escaped) slash: `if line.is_empty() { return Ok(self); }` inside the trailing-slash block
  if d.1 && d.2.isEmpty then .skip else
  let actual := actualOf p.2.1 d.2
  match parse (giOpts ci) actual with
  | .error e => .err e
  | .ok toks =>
    .glob { original := line1, actual := actual, isWhitelist := p.1, isOnlyDir := d.1,
            glob := { opts := giOpts ci, tokens := toks } }

/-- the globs of a builder after `add_line` on every line (errors are reported but do not stop the file) -/
def buildGlobs (ci : Bool) (lines : List (List Nat)) : List GiGlob :=
  lines.filterMap fun l => match addLine ci l with
    | .glob g => some g
    | _ => none

/-- `Match<&Glob>` with the index of the deciding glob -/
inductive Verdict where
  | none
  | ignore (i : Nat)
  | whitelist (i : Nat)
  deriving Repr, DecidableEq

def Verdict.isNone : Verdict → Bool
  | .none => true
  | _ => false

def Verdict.isIgnore : Verdict → Bool
  | .ignore _ => true
  | _ => false

/-- the `for &i in matches.iter().rev()` loop of `matched_stripped` -/
def pickLast (globs : List GiGlob) (isDir : Bool) : List Nat → Verdict
  | [] => .none
  | i :: rest =>
    match globs[i]? with
    | none => pickLast globs isDir rest         -- unreachable: indices come from the set
    | some g =>
      if !g.isOnlyDir || isDir then (if g.isWhitelist then .whitelist i else .ignore i)
      else pickLast globs isDir rest

/-- `Gitignore::matched_stripped` -/
def matchedStripped (globs : List GiGlob) (path : Bytes) (isDir : Bool) : Verdict :=
  if globs.isEmpty then .none
  else pickLast globs isDir (setMatches (globs.map (·.glob)) path).reverse

/-- `pathutil::strip_prefix` (bytewise) -/
def stripPrefix (pre path : Bytes) : Option Bytes :=
  if pre.isPrefixOf path then some (path.drop pre.length) else none

/-- `Gitignore::strip` (`root` already has its own leading `./` removed by `GitignoreBuilder::new`) -/
def strip (root path : Bytes) : Bytes :=
  let path := (stripPrefix [46, 47] path).getD path
  if root != [46] && path.contains 47 then
    match stripPrefix root path with
    | some p => (stripPrefix [47] p).getD p
    | none => path
  else path

/-- `Gitignore::matched` -/
def matched (root : Bytes) (globs : List GiGlob) (path : Bytes) (isDir : Bool) : Verdict :=
  if globs.isEmpty then .none else matchedStripped globs (strip root path) isDir

/-- `Path::parent` of a relative path without `.`/`..` components, as bytes -/
def parentPath (p : Bytes) : Option Bytes :=
  if p.isEmpty then none
  else if p.contains 47 then some ((p.reverse.dropWhile (· != 47)).drop 1).reverse
  else some []

/-- the `while let Some(parent) = path.parent()` loop of `matched_path_or_any_parents` -/
def parentsLoop (globs : List GiGlob) : Nat → Bytes → Verdict
  | 0, _ => .none
  | fuel + 1, path =>
    match parentPath path with
    | none => .none
    | some parent =>
      match matchedStripped globs parent true with
      | .none => parentsLoop globs fuel parent
      | v => v

/-- `Gitignore::matched_path_or_any_parents` (for paths under the root) -/
def matchedPathOrAnyParents (root : Bytes) (globs : List GiGlob) (path : Bytes) (isDir : Bool) : Verdict :=
  if globs.isEmpty then .none else
  let path := strip root path
  match matchedStripped globs path isDir with
  | .none => parentsLoop globs (path.length + 1) path
  | v => v

/-! ### one rule source over a directory tree (`dir.rs::matched_ignore` for `.gitignore`, `walk.rs` pruning) -/

def joinPath : List Bytes → Bytes
  | [] => []
  | [c] => c
  | c :: cs => c ++ [47] ++ joinPath cs

/-- `ign d` = the lines of the ignore file in directory `d` (components below the walk root; `[]` is the root).
The entry `comps` (all its components, `isDir` for the last) is asked of the matcher of every directory on the
way, nearest first; each sees the path relative to itself.  The first non-`None` answer decides. -/
def matchedIgnore (ci : Bool) (ign : List Bytes → List (List Nat)) (comps : List Bytes) (isDir : Bool) : Verdict :=
  let rec go : Nat → Verdict
    | 0 => .none
    | k + 1 =>
      -- the directory made of the first k components; nearest first means largest k first
      let dir := comps.take k
      let rel := joinPath (comps.drop k)
      match matchedStripped (buildGlobs ci (ign dir)) rel isDir with
      | .none => go k
      | v => v
  go comps.length

/-- The walker visits `comps` iff none of its proper ancestors (below the root) nor itself was skipped:
top-down, the first ignored prefix prunes everything beneath it. -/
def rgSkipped (ci : Bool) (ign : List Bytes → List (List Nat)) (comps : List Bytes) (isDir : Bool) : Bool :=
  let rec go : Nat → Nat → Bool
    | 0, _ => false
    | fuel + 1, k =>
      -- entry made of the first k components
      if k > comps.length then false else
      let entryIsDir := if k == comps.length then isDir else true
      if (matchedIgnore ci ign (comps.take k) entryIsDir).isIgnore then true
      else if k == comps.length then false
      else go fuel (k + 1)
  go (comps.length + 1) 1

end RgVerif.Gitignore
