import RgVerif.Model.Gitignore
/-
Source anchors for the string constants of `gitignore.rs::add_line` that the model carries as numbers.
Each theorem ties the model's behaviour to the literal text; `checks/C04.json` → `constants` compares that text
with the Rust source on every run.
-/
namespace RgVerif.Gitignore
open RgVerif.Glob

/-- `format!("**/{}", glob.actual)` -/
theorem anchor_dstar_prefix : actualOf false (str "a") = str "**/" ++ str "a" := by decide

/-- `glob.actual.ends_with("/**")` … `format!("{}/*", glob.actual)` -/
theorem anchor_dstar_suffix_test : actualOf true (str "a" ++ str "/**") = str "a" ++ str "/**" ++ str "/*" := by decide

/-- `line.starts_with("#")` -/
theorem anchor_comment : (match addLine false (str "#" ++ str "a") with | .skip => true | _ => false) = true := by decide

/-- `!line.ends_with("\\ ")` -/
theorem anchor_escaped_blank : trimLine (str "a" ++ str "\\ ") = str "a" ++ str "\\ " := by decide

/-- `has_doublestar_prefix`: `actual.starts_with("**/") || actual == "**"` -/
theorem anchor_has_dstar_prefix : actualOf false (str "**/" ++ str "a") = str "**/" ++ str "a" ∧
    actualOf false (str "**") = str "**" := by decide

end RgVerif.Gitignore
