import RgVerif.Model.Matcher
/-
Model of `crates/searcher/src/lines.rs` (and of `grep_matcher::LineTerminator`).

Every function mirrors the Rust function of the same name, branch by branch.  Slices `&b[s..e]`
are `slice b s e` (total: out-of-range indices clamp instead of panicking; none of the theorems
relies on the clamped behaviour, they all run inside bounds).

API (import this file; do not edit — add `Model/LinesExtra.lean` of your own instead):
  `LineTerm`, `LineTerm.asByte`, `LineTerm.asBytes`         grep_matcher::LineTerminator
  `findByte`, `rfindByte`                                  memchr / memrchr (`find_byte`, `rfind_byte`)
  `slice`                                                  `&b[s..e]`
  `LineStep`, `LineStep.next`, `stepLines`                 `LineStep::next_impl`; `stepLines` = all ranges a
                                                           `while let Some(line) = stepper.next_match(buf)` loop sees
  `count`, `withoutTerminator`, `locate`, `preceding`, `precedingByPos`
-/
namespace RgVerif.Lines
open RgVerif RgVerif.Matcher

/-- `grep_matcher::LineTerminator`: any single byte, or CRLF. -/
inductive LineTerm where
  | byte (b : Nat)
  | crlf
  deriving Repr, DecidableEq, Inhabited

/-- `LineTerminator::as_byte`: CRLF answers `\n`. -/
def LineTerm.asByte : LineTerm → Nat
  | .byte b => b
  | .crlf => 10

/-- `LineTerminator::as_bytes`: CRLF answers `\r\n`. -/
def LineTerm.asBytes : LineTerm → Bytes
  | .byte b => [b]
  | .crlf => [13, 10]

/-- `&b[s..e]`. -/
def slice (b : Bytes) (s e : Nat) : Bytes := (b.take e).drop s

/-- `bytes.find_byte(t)` (memchr): index of the first occurrence. -/
def findByte (t : Nat) : Bytes → Option Nat
  | [] => none
  | b :: rest => if b == t then some 0 else (findByte t rest).map (· + 1)

/-- `bytes.rfind_byte(t)` (memrchr): index of the last occurrence. -/
def rfindByte (t : Nat) : Bytes → Option Nat
  | [] => none
  | b :: rest =>
    match rfindByte t rest with
    | some i => some (i + 1)
    | none => if b == t then some 0 else none

/-- `LineStep { line_term, pos, end }`. -/
structure LineStep where
  lineTerm : Nat
  pos : Nat
  end_ : Nat
  deriving Repr, DecidableEq

/-- `LineStep::next_impl`: the next line range (terminator included) and the advanced stepper. -/
def LineStep.next (st : LineStep) (bytes : Bytes) : Option (Span × LineStep) :=
  let bytes := bytes.take st.end_
  match findByte st.lineTerm (bytes.drop st.pos) with
  | none =>
    if st.pos < bytes.length then
      some (⟨st.pos, bytes.length⟩, { st with pos := bytes.length })
    else none
  | some lineEnd =>
    some (⟨st.pos, st.pos + lineEnd + 1⟩, { st with pos := st.pos + lineEnd + 1 })

/-- All items a stepper yields, in order (`fuel` bounds the number of calls of `next`). -/
def LineStep.collect (bytes : Bytes) : Nat → LineStep → List Span
  | 0, _ => []
  | fuel + 1, st =>
    match st.next bytes with
    | none => []
    | some (m, st') => m :: LineStep.collect bytes fuel st'

/-- The ranges seen by `let mut stepper = LineStep::new(t, s, e); while let Some(line) = stepper.next_match(buf)`.
The stepper is local to each loop of `core.rs` and the buffer is immutable, so the sequence of lines does
not depend on the loop body; every such loop of the model is a recursion over this list.
Every yielded range is non-empty, hence `e - s + 1` calls suffice (`Lemmas/SearcherLines.stepLines_of_lines`). -/
def stepLines (t : Nat) (buf : Bytes) (s e : Nat) : List Span :=
  LineStep.collect buf (e - s + 1) ⟨t, s, e⟩

/-- `lines::count`: number of terminator bytes. -/
def count (bytes : Bytes) (t : Nat) : Nat := bytes.count t

/-- `bytes.strip_suffix(&[b])` for a one-byte suffix. -/
def stripSuffix1 (bytes : Bytes) (b : Nat) : Option Bytes :=
  if bytes.getLast? == some b then some bytes.dropLast else none

/-- `lines::without_terminator`. Under CRLF: strip a trailing `\n`, then a `\r` before it if there is one
(a bare `\n` ends a line in CRLF mode too; repaired in cc9628f, finding F3). Otherwise strip the
one-byte terminator if the line ends with it. -/
def withoutTerminator (bytes : Bytes) (lt : LineTerm) : Bytes :=
  if lt == .crlf then
    match stripSuffix1 bytes 10 with
    | none => bytes
    | some line => (stripSuffix1 line 13).getD line
  else
    let lineTerm := lt.asBytes
    let start := bytes.length - lineTerm.length
    if bytes.drop start == lineTerm then bytes.take (bytes.length - lineTerm.length) else bytes

/-- `lines::locate`: start and end of the lines containing `range`. -/
def locate (bytes : Bytes) (t : Nat) (range : Span) : Span :=
  let lineStart :=
    match rfindByte t (bytes.take range.s) with
    | none => 0
    | some i => i + 1
  let lineEnd :=
    if range.e > lineStart && bytes[range.e - 1]? == some t then range.e
    else
      match findByte t (bytes.drop range.e) with
      | none => bytes.length
      | some i => range.e + i + 1
  ⟨lineStart, lineEnd⟩

/-- The `loop` of `preceding_by_pos` (`count` strictly decreases, so the recursion is structural). -/
def precedingLoop (bytes : Bytes) (t : Nat) : Nat → Nat → Nat
  | count, pos =>
    match rfindByte t (bytes.take pos) with
    | none => 0
    | some i =>
      match count with
      | 0 => i + 1
      | c + 1 => if i == 0 then 0 else precedingLoop bytes t c i

/-- `lines::preceding_by_pos`. -/
def precedingByPos (bytes : Bytes) (pos : Nat) (t : Nat) (count : Nat) : Nat :=
  if pos == 0 then 0
  else
    let pos := if bytes[pos - 1]? == some t then pos - 1 else pos
    precedingLoop bytes t count pos

/-- `lines::preceding`. -/
def preceding (bytes : Bytes) (t : Nat) (count : Nat) : Nat :=
  precedingByPos bytes bytes.length t count

end RgVerif.Lines
