import RgVerif.Model.Sx
import RgVerif.Model.Utf8
/-
C17 — model of the transcoding detour of `crates/searcher/src/searcher/mod.rs`
(`slice_needs_transcoding`, `slice_has_bom`, `search_slice` → `search_reader`, the builder flags
`encoding` / `bom_sniffing`, ripgrep's fixed `utf8_passthru(true)`, `strip_bom(bom_sniffing)`,
`bom_override(true)`), of `hiargs.rs` (`EncodingMode::{Auto, Some, Disabled}`), and — external, modelled —
of `encoding_rs_io::DecodeReaderBytes` (BOM peeker, `detect`, the 8 KiB scratch buffer) and of
encoding_rs' streaming UTF-16 decoder (state = pending byte + pending high surrogate, U+FFFD
replacement, removal of its own BOM).
-/
namespace RgVerif.Decode

inductive Enc where
  | utf8 | utf16le | utf16be
  | other (id : Nat)          -- any other label (windows-1252 "latin1", shift_jis, …): table driven, not modelled
  deriving Repr, DecidableEq, Inhabited

/-- `SearcherBuilder` configuration relevant here. ripgrep: `-E label` ⇒ `label = some _`, sniffing on;
`-E none` ⇒ `label = none`, sniffing off; default ⇒ `label = none`, sniffing on. -/
structure Cfg where
  label : Option Enc
  bomSniffing : Bool
  deriving Repr, DecidableEq, Inhabited

/-- `hiargs.rs`: `EncodingMode` → searcher builder. -/
inductive EncodingMode where
  | auto | some (e : Enc) | disabled
  deriving Repr, DecidableEq, Inhabited

def cfgOfMode : EncodingMode → Cfg
  | .auto => ⟨none, true⟩
  | .some e => ⟨some e, true⟩
  | .disabled => ⟨none, false⟩

/-- `encoding_rs::Encoding::for_bom`: the encoding and the length of the mark. -/
def bomOf : Bytes → Option (Enc × Nat)
  | 0xEF :: 0xBB :: 0xBF :: _ => some (.utf8, 3)
  | 0xFF :: 0xFE :: _ => some (.utf16le, 2)
  | 0xFE :: 0xFF :: _ => some (.utf16be, 2)
  | _ => none

/-! ### A streaming decoder is a byte-level state machine -/

structure Machine where
  σ : Type
  init : σ
  step : σ → Nat → σ × Bytes
  finish : σ → Bytes

namespace Machine

/-- `decode_to_utf8(src, dst, last = false)` on one piece of input. -/
def runBytes (m : Machine) : m.σ → Bytes → m.σ × Bytes
  | s, [] => (s, [])
  | s, b :: rest =>
    let (s1, o1) := m.step s b
    let (s2, o2) := runBytes m s1 rest
    (s2, o1 ++ o2)

/-- One call per piece; the state (pending bytes, pending surrogate) is carried across pieces. -/
def runChunks (m : Machine) : m.σ → List Bytes → m.σ × Bytes
  | s, [] => (s, [])
  | s, c :: rest =>
    let (s1, o1) := runBytes m s c
    let (s2, o2) := runChunks m s1 rest
    (s2, o1 ++ o2)

/-- The whole stream: all pieces, then `decode_to_utf8(&[], dst, last = true)`. -/
def decode (m : Machine) (chunks : List Bytes) : Bytes :=
  let (s, o) := runChunks m m.init chunks
  o ++ m.finish s

end Machine

/-! ### encoding_rs' UTF-16 decoder (`new_decoder_with_bom_removal`) -/

def isHigh (u : Nat) : Bool := 0xD800 ≤ u && u ≤ 0xDBFF
def isLow (u : Nat) : Bool := 0xDC00 ≤ u && u ≤ 0xDFFF

/-- UTF-8 encoding of a scalar value. -/
def utf8Encode (c : Nat) : Bytes :=
  if c < 0x80 then [c]
  else if c < 0x800 then [0xC0 + c / 64, 0x80 + c % 64]
  else if c < 0x10000 then [0xE0 + c / 4096, 0x80 + c / 64 % 64, 0x80 + c % 64]
  else [0xF0 + c / 262144, 0x80 + c / 4096 % 64, 0x80 + c / 64 % 64, 0x80 + c % 64]

def astral (h l : Nat) : Nat := 0x10000 + (h - 0xD800) * 0x400 + (l - 0xDC00)

def replacement : Nat := 0xFFFD

structure U16 where
  first : Bool := true          -- no code unit seen yet: a leading U+FEFF is the decoder's own mark
  lo : Option Nat := none       -- first byte of an incomplete code unit
  hi : Option Nat := none       -- pending high surrogate
  deriving Repr, DecidableEq, Inhabited

/-- One complete code unit. -/
def stepUnit (s : U16) (u : Nat) : U16 × List Nat :=
  if s.first && u == 0xFEFF then ({ s with first := false }, [])
  else
    let s := { s with first := false }
    match s.hi with
    | some h =>
      if isLow u then ({ s with hi := none }, [astral h u])
      else if isHigh u then ({ s with hi := some u }, [replacement])
      else ({ s with hi := none }, [replacement, u])
    | none =>
      if isHigh u then ({ s with hi := some u }, [])
      else if isLow u then (s, [replacement])
      else (s, [u])

def unitOf (be : Bool) (b0 b1 : Nat) : Nat := if be then b0 * 256 + b1 else b1 * 256 + b0

def step16 (be : Bool) (s : U16) (b : Nat) : U16 × Bytes :=
  match s.lo with
  | none => ({ s with lo := some b }, [])
  | some b0 =>
    let (s', cps) := stepUnit { s with lo := none } (unitOf be b0 b)
    (s', cps.flatMap utf8Encode)

/-- End of stream: an incomplete unit and/or a pending high surrogate give one U+FFFD. -/
def finish16 (s : U16) : Bytes :=
  if s.lo.isSome || s.hi.isSome then utf8Encode replacement else []

def utf16Machine (be : Bool) : Machine :=
  { σ := U16, init := {}, step := step16 be, finish := finish16 }

/-! ### encoding_rs' UTF-8 decoder (`new_decoder_with_bom_removal`), WHATWG "UTF-8 decoder"

State: the bytes of an incomplete sequence seen so far (always a proper prefix of a well-formed sequence)
and whether anything was emitted yet.  A byte that cannot continue the pending sequence ends it with one
U+FFFD and is then looked at afresh ("prepend byte to stream"). -/

/-- Length of the sequence a lead byte announces; 0 for a byte that cannot start one. -/
def need (b0 : Nat) : Nat :=
  if 0xC2 ≤ b0 && b0 ≤ 0xDF then 2
  else if 0xE0 ≤ b0 && b0 ≤ 0xEF then 3
  else if 0xF0 ≤ b0 && b0 ≤ 0xF4 then 4
  else 0

/-- May `b` follow the incomplete sequence `p`?  The second byte has lead-specific bounds. -/
def okNext (p : Bytes) (b : Nat) : Bool :=
  match p with
  | [b0] =>
    if need b0 = 3 then
      (if b0 == 0xE0 then 0xA0 ≤ b && b ≤ 0xBF else if b0 == 0xED then 0x80 ≤ b && b ≤ 0x9F else isCont b)
    else if need b0 = 4 then
      (if b0 == 0xF0 then 0x90 ≤ b && b ≤ 0xBF else if b0 == 0xF4 then 0x80 ≤ b && b ≤ 0x8F else isCont b)
    else isCont b
  | _ => isCont b

structure U8 where
  first : Bool := true      -- nothing emitted yet: a leading EF BB BF is the decoder's own mark
  pend : Bytes := []        -- incomplete sequence
  deriving Repr, DecidableEq, Inhabited

/-- A byte seen with no sequence pending. -/
def start8 (s : U8) (b : Nat) : U8 × Bytes :=
  if b < 0x80 then ({ first := false, pend := [] }, [b])
  else if 2 ≤ need b then ({ s with pend := [b] }, [])
  else ({ first := false, pend := [] }, utf8Encode replacement)

def step8 (s : U8) (b : Nat) : U8 × Bytes :=
  match s.pend with
  | [] => start8 s b
  | b0 :: q =>
    if okNext (b0 :: q) b then
      if q.length + 2 = need b0 then
        let sq := b0 :: q ++ [b]
        if s.first && sq == [0xEF, 0xBB, 0xBF] then ({ first := false, pend := [] }, [])
        else ({ first := false, pend := [] }, sq)
      else ({ s with pend := b0 :: q ++ [b] }, [])
    else
      let (s', o) := start8 { first := false, pend := [] } b
      (s', utf8Encode replacement ++ o)

def finish8 (s : U8) : Bytes := if s.pend.isEmpty then [] else utf8Encode replacement

def utf8Machine : Machine := { σ := U8, init := {}, step := step8, finish := finish8 }

/-! ### encoding_rs' Shift_JIS decoder (WHATWG "Shift_JIS decoder"), parametric in index jis0208 -/

def sjisIsLead (b : Nat) : Bool := (0x81 ≤ b && b ≤ 0x9F) || (0xE0 ≤ b && b ≤ 0xFC)

/-- the code point of the pair (lead, byte), if any: pointer arithmetic, the user-defined range, the index -/
def sjisPair (idx : Nat → Option Nat) (lead byte : Nat) : Option Nat :=
  if (0x40 ≤ byte && byte ≤ 0x7E) || (0x80 ≤ byte && byte ≤ 0xFC) then
    let offset := if byte < 0x7F then 0x40 else 0x41
    let leadOffset := if lead < 0xA0 then 0x81 else 0xC1
    let ptr := (lead - leadOffset) * 188 + byte - offset
    if 8836 ≤ ptr && ptr ≤ 10715 then some (0xE000 - 8836 + ptr) else idx ptr
  else none

/-- a byte seen with no lead pending -/
def sjisStart (b : Nat) : Option Nat × Bytes :=
  if b ≤ 0x80 then (none, utf8Encode b)
  else if 0xA1 ≤ b && b ≤ 0xDF then (none, utf8Encode (0xFF61 - 0xA1 + b))
  else if sjisIsLead b then (some b, [])
  else (none, utf8Encode replacement)

def sjisStep (idx : Nat → Option Nat) (s : Option Nat) (b : Nat) : Option Nat × Bytes :=
  match s with
  | none => sjisStart b
  | some lead =>
    match sjisPair idx lead b with
    | some c => (none, utf8Encode c)
    | none =>
      -- error; an ASCII byte is put back and looked at afresh
      if b < 0x80 then (none, utf8Encode replacement ++ (sjisStart b).2) else (none, utf8Encode replacement)

def sjisMachine (idx : Nat → Option Nat) : Machine :=
  { σ := Option Nat, init := none, step := sjisStep idx,
    finish := fun s => if s.isSome then utf8Encode replacement else [] }

/-! ### a single-byte table decoder (windows-1252 and friends): no state -/

def tableMachine (table : Nat → Nat) : Machine :=
  { σ := Unit, init := (), step := fun _ b => ((), utf8Encode (table b)), finish := fun _ => [] }

/-! ### `encoding_rs_io::DecodeReaderBytes` as configured by the searcher -/

/-- `BomPeeker::peek_bom`: read until three bytes are there (or the stream ends). -/
def peek3 : List Bytes → Nat → Bytes
  | _, 0 => []
  | [], _ => []
  | c :: rest, n + 1 =>
    let took := c.take (n + 1)
    took ++ peek3 rest (n + 1 - took.length)

/-- Skip `n` bytes of a chunked stream (`BomPeeker::without_bom`). -/
def dropBytes : Nat → List Bytes → List Bytes
  | 0, cs => cs
  | _, [] => []
  | n + 1, c :: rest =>
    if n + 1 < c.length then c.drop (n + 1) :: rest
    else dropBytes (n + 1 - c.length) rest

/-- the builder flags ripgrep's searcher fixes: `.utf8_passthru(true)`, `.bom_override(true)` (source-anchored) -/
abbrev utf8Passthru : Bool := true
abbrev bomOverride : Bool := true

structure Plan where
  strip : Nat                   -- bytes the peeker removes
  decoder : Option Enc          -- `none`: reads go straight to the underlying reader
  deriving Repr, DecidableEq, Inhabited

/-- `build_with_buffer` + `detect` with ripgrep's flags: the decoder starts out as the label's;
`has_detected = !bom_sniffing`; a sniffed UTF-16 mark replaces the decoder; a sniffed UTF-8 mark under
`utf8_passthru` returns early **leaving the decoder as it was** (so a label survives); the peeker strips
the mark iff `strip_bom` (= `bom_sniffing`). -/
def plan (c : Cfg) (first3 : Bytes) : Plan :=
  if !c.bomSniffing then ⟨0, c.label⟩
  else match bomOf first3 with
    | none => ⟨0, c.label⟩
    | some (.utf8, n) => ⟨n, c.label⟩
    | some (e, n) => ⟨n, some e⟩

/-- `build_with_buffer` + `detect` for arbitrary builder flags (`strip_bom` = `bom_sniffing` as in the searcher):
`has_detected = !bom_sniffing || (!bom_override && encoding.is_some())`; a UTF-8 mark builds no decoder
only under `utf8_passthru`. `plan` is this with ripgrep's fixed flags (`plan_is_ripgrep_config`). -/
def planGeneral (passthru override : Bool) (c : Cfg) (first3 : Bytes) : Plan :=
  if !c.bomSniffing || (!override && c.label.isSome) then ⟨0, c.label⟩
  else match bomOf first3 with
    | none => ⟨0, c.label⟩
    | some (.utf8, n) => if passthru then ⟨n, c.label⟩ else ⟨n, some .utf8⟩
    | some (e, n) => ⟨n, some e⟩

/-- `fill`: every read of the underlying reader delivers at most the free part of the scratch buffer. -/
def splitCap (cap : Nat) (fuel : Nat) (c : Bytes) : List Bytes :=
  match fuel with
  | 0 => [c]
  | fuel + 1 => if c.length ≤ cap ∨ cap = 0 then [c] else c.take cap :: splitCap cap fuel (c.drop cap)

/-- `decode_buffer: RefCell::new(vec![0; 8 * (1 << 10)])` (source-anchored) -/
abbrev scratchKiB : Nat := 8
abbrev kiBShift : Nat := 10
def scratch : Nat := scratchKiB * 2 ^ kiBShift

/-- What the searcher reads from `DecodeReaderBytes` when the underlying reader delivers `chunks`. -/
def readerOutput (c : Cfg) (M : Enc → Machine) (chunks : List Bytes) : Bytes :=
  let p := plan c (peek3 chunks 3)
  let body := dropBytes p.strip chunks
  match p.decoder with
  | none => body.flatten
  | some e => (M e).decode (body.flatMap (fun ch => splitCap scratch ch.length ch))

/-- `DecodeReaderBytes::transcode` at the end of the input when the caller offers fewer than 4 bytes of room
(`tiny_transcode`): the flush goes into the `TinyTranscoder`, `tiny.read(buf)` hands out `buf.len()` bytes, and
the rest is never delivered — the next call returns 0 on `self.exhausted` before it looks at `self.tiny`.
The line searchers always offer kilobytes; `read_to_end` (multi-line strategy, `fill_multi_line_buffer_from_reader`)
offers whatever spare capacity its `Vec` has. -/
def finalFlush (room : Nat) (flush : Bytes) : Bytes :=
  if room < 4 then flush.take room else flush

/-- `slice_has_bom`. -/
def sliceHasBom (slice : Bytes) : Bool := (bomOf slice).isSome

/-- `slice_needs_transcoding`. -/
def sliceNeedsTranscoding (c : Cfg) (slice : Bytes) : Bool :=
  c.label.isSome || (c.bomSniffing && sliceHasBom slice)

/-- The bytes `search_slice` (mmap, in-memory) hands to the line searchers. -/
def sliceSearched (c : Cfg) (M : Enc → Machine) (slice : Bytes) : Bytes :=
  if sliceNeedsTranscoding c slice then readerOutput c M [slice] else slice

end RgVerif.Decode
