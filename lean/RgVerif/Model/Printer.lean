import RgVerif.Model.Replace
import RgVerif.Model.Json
/-
Model of the Standard and JSON printers as consumers of the searcher's `Sink` event stream.

  crates/printer/src/util.rs      DecimalFormatter, find_iter_at_in_context, trim_line_terminator (Model/Replace)
  crates/printer/src/standard.rs  StandardSink::{begin, matched, context, context_break, finish}, record_matches,
                                  StandardImpl::{sink, sink_fast, sink_fast_multi_line, sink_slow, sink_slow_multi_line,
                                  sink_slow_multi_line_only_matching, sink_slow_multi_per_match, write_prelude,
                                  write_line, write_colored_matches, write_search_prelude, write_context_separator,
                                  write_path_line}, PreludeWriter
  crates/printer/src/counter.rs   CounterWriter (count / total_count / reset_count)
  crates/printer/src/json.rs      JSONSink::{begin, matched, context, finish}, record_matches, SubMatches::new

Switched off (the properties exclude them): colour, hyperlinks, trim_ascii, max_columns, replacement, binary
detection.  The matcher is a parameter: `find hay pos` is `matcher.find_at(hay, pos)`.
`&bytes[m]` with `m.end > bytes.len()` panics in Rust; where that can happen (JSON `SubMatches::new`) the model has
an explicit `panicked` flag, elsewhere slices are proven in range under the matcher contract.
-/
namespace RgVerif.Printer
open RgVerif RgVerif.Matcher RgVerif.Replace RgVerif.Json

/-- `matcher.find_at(haystack, pos)` for every haystack. -/
abbrev Oracle := Bytes → Nat → Option Span

-- `crate::MAX_LOOK_AHEAD` is `Replace.maxLookAhead` (Model/Replace.lean, re-checked against the source on every run)

/-! ### `DecimalFormatter` -/

/-- `DecimalFormatter::new(n).as_bytes()`: digits are produced least significant first into the end of a buffer. -/
def decimal (n : Nat) : Bytes :=
  if n < 10 then [48 + n] else decimal (n / 10) ++ [48 + n % 10]
termination_by n
decreasing_by omega

/-- Reference reader of a decimal field. -/
def parseNat (b : Bytes) : Nat := b.foldl (fun a d => a * 10 + (d - 48)) 0

/-! ### Lines of a block (`LineIter`, `LineStep`) -/

/-- `LineIter::new(term, bytes)`: every line includes its terminator; the last one may lack it. -/
def splitLines (t : Nat) : Bytes → List Bytes
  | [] => []
  | b :: rest =>
    if b == t then [b] :: splitLines t rest
    else match splitLines t rest with
      | [] => [[b]]
      | l :: ls => (b :: l) :: ls

def spansFrom (start : Nat) : List Bytes → List (Nat × Nat)
  | [] => []
  | l :: ls => (start, start + l.length) :: spansFrom (start + l.length) ls

/-- `LineStep::new(term, 0, bytes.len())` iterated to exhaustion: `(start, end)` of every line. -/
def lineSpans (t : Nat) (b : Bytes) : List (Nat × Nat) := spansFrom 0 (splitLines t b)

/-! ### Searcher-side configuration and events -/

structure SCfg where
  lt : LineTerm := .byte 10
  /-- `searcher.multi_line_with_matcher(&matcher)` -/
  multiLine : Bool := false
  invert : Bool := false
  afterContext : Nat := 0
  deriving Repr

inductive CtxKind where
  | before | after | other
  deriving Repr, DecidableEq

/-- One `Sink` callback. `matched`: `mat.buffer()`, `mat.bytes_range_in_buffer()`, `absolute_byte_offset`,
`line_number`; `context`: `ctx.bytes()`, kind, offset, line number. -/
inductive Event where
  | matched (buf : Bytes) (rs re : Nat) (absOff : Nat) (lineNo : Option Nat)
  | context (kind : CtxKind) (bytes : Bytes) (absOff : Nat) (lineNo : Option Nat)
  | contextBreak
  deriving Repr

/-! ### `find_iter_at_in_context` -/

/-- The haystack the multi-line branch of `find_iter_at_in_context` (and of `replace_all`) hands to the matcher:
the buffer cut `MAX_LOOK_AHEAD` bytes behind the range. (The `else` branch is the cut the line-oriented branch
made before 0cdcce3; nothing uses it any more.) -/
def cutHaystack (sc : SCfg) (bytes : Bytes) (re : Nat) : Bytes :=
  if sc.multiLine then
    if bytes.length - re ≥ maxLookAhead then bytes.take (re + maxLookAhead) else bytes
  else bytes.take (trimLineTerminator sc.lt bytes 0 re)

/-- The line-oriented branch searches the line on its own (since 0cdcce3): `&bytes[range.start..content_end]`,
`content_end` by `trim_line_terminator` on `(range.start, range.end)`.
(Rust slices `bytes[range.start..content_end]`, which needs `range.start ≤ content_end`; `trim_line_terminator` can
step below `range.start` only under `--crlf` for the line `\n` preceded by a `\r` — impossible for a line the
searcher reports, since what precedes a line is nothing or the previous line's `\n`. The model's `slice` is `[]`
there.) -/
def lineHaystack (lt : LineTerm) (bytes : Bytes) (rs re : Nat) : Bytes :=
  slice bytes rs (trimLineTerminator lt bytes rs re)

/-- the haystack shown to the matcher for the range, and the position the iteration starts from -/
def shownHay (sc : SCfg) (bytes : Bytes) (rs re : Nat) : Bytes :=
  if sc.multiLine then cutHaystack sc bytes re else lineHaystack sc.lt bytes rs re

def shownFrom (sc : SCfg) (rs : Nat) : Nat := if sc.multiLine then rs else 0

/-- `find_iter_at_in_context(searcher, matcher, bytes, range, |m| { push(m); true })`: all callers pass a callback
that records the match and returns `true`.
Line-oriented branch: every match of the line's own content, found from position 0, shifted back by `range.start`
(`m.offset(range.start)`).
Multi-line branch: the closure drops (and stops at) a match with `m.start() >= range.end`, except the one that
starts exactly at `range.end` when the range ends the haystack without a terminator (`isAtUnterminatedEnd`,
`beyondRange`: Model/Replace.lean, same Rust functions); a kept match is handed on as
`m.with_end(min(m.end(), range.end))`: with the bounded look-ahead it may reach beyond the lines. -/
def findIterInContext (sc : SCfg) (find : Oracle) (bytes : Bytes) (rs re : Nat) : List Span :=
  if sc.multiLine then
    let hay := cutHaystack sc bytes re
    let atEnd := isAtUnterminatedEnd sc.lt hay rs re
    findIterAt (find hay) hay.length rs
      (fun (acc : List Span) m =>
        if beyondRange re atEnd m.s then (acc, false) else (acc ++ [⟨m.s, min m.e re⟩], true)) []
  else
    let line := lineHaystack sc.lt bytes rs re
    findIterAt (find line) line.length 0
      (fun (acc : List Span) m => (acc ++ [⟨m.s + rs, m.e + rs⟩], true)) []

def shiftSpans (rs : Nat) (ms : List Span) : List Span := ms.map fun m => ⟨m.s - rs, m.e - rs⟩

/-! ### Standard printer -/

structure StdCfg where
  stats : Bool := false
  heading : Bool := false
  /-- the path handed to `sink_with_path` (after `with_separator`), `none` for `sink` or `config.path == false` -/
  path : Option Bytes := none
  onlyMatching : Bool := false
  perMatch : Bool := false
  perMatchOneLine : Bool := false
  maxMatches : Option Nat := none
  column : Bool := false
  byteOffset : Bool := false
  sepSearch : Option Bytes := none
  sepContext : Option Bytes := some [45, 45]
  sepFieldMatch : Bytes := [58]
  sepFieldContext : Bytes := [45]
  pathTerminator : Option Nat := none
  deriving Repr

/-- `Standard::needs_match_granularity` with colour and replacement off. -/
def StdCfg.granular (c : StdCfg) : Bool := c.column || c.perMatch || c.onlyMatching || c.stats

/-- `StandardSink::record_matches` -/
def recordMatchesStd (sc : SCfg) (c : StdCfg) (find : Oracle) (bytes : Bytes) (rs re : Nat) : List Span :=
  if !c.granular then []
  else shiftSpans rs (findIterInContext sc find bytes rs re)

/-- `Sunk` -/
structure Sunk where
  bytes : Bytes
  absOff : Nat
  lineNo : Option Nat
  ctx : Option CtxKind
  ms : List Span
  deriving Repr

inductive NextSep where
  | none | field | pathTerm
  deriving Repr, DecidableEq

/-- `PreludeWriter`: bytes written so far and `next_separator`. -/
structure PW where
  out : Bytes := []
  next : NextSep := .none
  deriving Repr

def fieldSep (c : StdCfg) (isCtx : Bool) : Bytes := if isCtx then c.sepFieldContext else c.sepFieldMatch

/-- `PreludeWriter::write_separator` -/
def PW.writeSeparator (c : StdCfg) (isCtx : Bool) (pw : PW) : PW :=
  match pw.next with
  | .none => { pw with next := .none }
  | .field => { out := pw.out ++ fieldSep c isCtx, next := .none }
  | .pathTerm =>
    match c.pathTerminator with
    | some t => { out := pw.out ++ [t], next := .none }
    | none => { pw with next := .none }

/-- `PreludeWriter::write_path` -/
def PW.writePath (c : StdCfg) (isCtx : Bool) (pw : PW) : PW :=
  if c.heading then pw
  else match c.path with
    | none => pw
    | some p =>
      let pw := pw.writeSeparator c isCtx
      { out := pw.out ++ p, next := if c.pathTerminator.isSome then .pathTerm else .field }

/-- `write_line_number`, `write_column_number`, `write_byte_offset` share this shape. -/
def PW.writeNum (c : StdCfg) (isCtx : Bool) (pw : PW) (n : Nat) : PW :=
  let pw := pw.writeSeparator c isCtx
  { out := pw.out ++ decimal n, next := .field }

def PW.writeLineNumber (c : StdCfg) (isCtx : Bool) (pw : PW) (ln : Option Nat) : PW :=
  match ln with
  | none => pw
  | some n => pw.writeNum c isCtx n

def PW.writeColumnNumber (c : StdCfg) (isCtx : Bool) (pw : PW) (col : Option Nat) : PW :=
  if !c.column then pw
  else match col with
    | none => pw
    | some n => pw.writeNum c isCtx n

def PW.writeByteOffset (c : StdCfg) (isCtx : Bool) (pw : PW) (off : Nat) : PW :=
  if !c.byteOffset then pw else pw.writeNum c isCtx off

/-- `StandardImpl::write_prelude`: path, line number, column, byte offset, then the pending separator. -/
def writePrelude (c : StdCfg) (isCtx : Bool) (off : Nat) (ln : Option Nat) (col : Option Nat) : Bytes :=
  let pw : PW := {}
  let pw := pw.writePath c isCtx
  let pw := pw.writeLineNumber c isCtx ln
  let pw := pw.writeColumnNumber c isCtx col
  let pw := pw.writeByteOffset c isCtx off
  (pw.writeSeparator c isCtx).out

/-- `StandardImpl::write_line` (no trimming, no column limit): the line, plus a terminator if it has none.
`write_colored_line` without colour is the same function. -/
def writeLine (lt : LineTerm) (line : Bytes) : Bytes :=
  line ++ (if lt.isSuffix line then [] else lt.bytes)

/-- `write_path_line` -/
def writePathLine (lt : LineTerm) (c : StdCfg) : Bytes :=
  match c.path with
  | none => []
  | some p => p ++ (match c.pathTerminator with | some t => [t] | none => lt.bytes)

/-- `write_search_prelude`; `count`/`total` are the `CounterWriter` fields. -/
def writeSearchPrelude (lt : LineTerm) (c : StdCfg) (count total : Nat) : Bytes :=
  if count > 0 then []
  else
    (match c.sepSearch with
     | some sep => if total + count > 0 then sep ++ lt.bytes else []
     | none => [])
    ++ (if c.heading then writePathLine lt c else [])

/-- `write_context_separator` -/
def writeContextSeparator (lt : LineTerm) (c : StdCfg) : Bytes :=
  match c.sepContext with
  | some sep => sep ++ lt.bytes
  | none => []

/-- `sink_fast` -/
def sinkFast (sc : SCfg) (c : StdCfg) (s : Sunk) : Bytes :=
  writePrelude c s.ctx.isSome s.absOff s.lineNo none ++ writeLine sc.lt s.bytes

/-- loop of `sink_fast_multi_line` over `sunk.lines(line_term).enumerate()` -/
def sinkFastMultiLineGo (sc : SCfg) (c : StdCfg) (isCtx : Bool) (ln : Option Nat) : Nat → Nat → List Bytes → Bytes
  | _, _, [] => []
  | i, off, line :: rest =>
    writePrelude c isCtx off (ln.map (· + i)) none ++ writeLine sc.lt line
      ++ sinkFastMultiLineGo sc c isCtx ln (i + 1) (off + line.length) rest

def sinkFastMultiLine (sc : SCfg) (c : StdCfg) (s : Sunk) : Bytes :=
  sinkFastMultiLineGo sc c s.ctx.isSome s.lineNo 0 s.absOff (splitLines sc.lt.asByte s.bytes)

/-- `sink_slow` -/
def sinkSlow (sc : SCfg) (c : StdCfg) (s : Sunk) : Bytes :=
  let isCtx := s.ctx.isSome
  if c.onlyMatching then
    s.ms.flatMap fun m =>
      writePrelude c isCtx (s.absOff + m.s) s.lineNo (some (m.s + 1)) ++ writeLine sc.lt (slice s.bytes m.s m.e)
  else if c.perMatch then
    s.ms.flatMap fun m =>
      writePrelude c isCtx (s.absOff + m.s) s.lineNo (some (m.s + 1)) ++ writeLine sc.lt s.bytes
  else
    writePrelude c isCtx s.absOff s.lineNo (some ((s.ms.headD ⟨0, 0⟩).s + 1)) ++ writeLine sc.lt s.bytes

/-- The `while !line.is_empty()` loop of `write_colored_matches` without colour: returns the bytes written and the
final `match_index`. `ls`/`le` is the (already terminator-trimmed) line. -/
def coloredGo (bytes : Bytes) (ms : List Span) : Nat → Nat → Nat → Nat → Bytes → Bytes × Nat
  | 0, _, _, midx, acc => (acc, midx)
  | fuel + 1, ls, le, midx, acc =>
    if ls == le then (acc, midx)
    else match ms[midx]? with
      | none => (acc, midx)
      | some m =>
        if m.e ≤ ls then
          if midx + 1 < ms.length then coloredGo bytes ms fuel ls le (midx + 1) acc
          else (acc ++ slice bytes ls le, midx)
        else if ls < m.s then
          let upto := min le m.s
          coloredGo bytes ms fuel upto le midx (acc ++ slice bytes ls upto)
        else
          let upto := min le m.e
          coloredGo bytes ms fuel upto le midx (acc ++ slice bytes ls upto)

/-- `write_colored_matches(bytes, line, matches, &mut match_index)` -/
def writeColoredMatches (lt : LineTerm) (bytes : Bytes) (ls le : Nat) (ms : List Span) (midx : Nat) : Bytes × Nat :=
  let le' := trimLineTerminator lt bytes ls le
  if ms.isEmpty then (slice bytes ls le', midx)
  else coloredGo bytes ms ((le' - ls) + ms.length + 1) ls le' midx []

/-- `write_own_line_term(bytes, line)` (since b0493c8): the terminator bytes the line ends with, exactly as they
are; the configured terminator when the line has none. -/
def writeOwnLineTerm (lt : LineTerm) (bytes : Bytes) (ls le : Nat) : Bytes :=
  let t := trimLineTerminator lt bytes ls le
  if t < le then slice bytes t le else lt.bytes

/-- loop of `sink_slow_multi_line` (neither only-matching nor per-match) -/
def sinkSlowMultiLineGo (sc : SCfg) (c : StdCfg) (s : Sunk) : Nat → Nat → List (Nat × Nat) → Bytes
  | _, _, [] => []
  | count, midx, (ls, le) :: rest =>
    let pre := writePrelude c false (s.absOff + ls) (s.lineNo.map (· + count)) (some ((s.ms.headD ⟨0, 0⟩).s + 1))
    let (w, midx') := writeColoredMatches sc.lt s.bytes ls le s.ms midx
    pre ++ w ++ writeOwnLineTerm sc.lt s.bytes ls le ++ sinkSlowMultiLineGo sc c s (count + 1) midx' rest

/-- inner `while !line.is_empty()` loop of `sink_slow_multi_line_only_matching` for one line; returns the bytes
written and the final `midx`. -/
def onlyMatchingGo (sc : SCfg) (c : StdCfg) (s : Sunk) (count : Nat) : Nat → Nat → Nat → Nat → Bytes → Bytes × Nat
  | 0, _, _, midx, acc => (acc, midx)
  | fuel + 1, ls, le, midx, acc =>
    if ls == le then (acc, midx)
    else match s.ms[midx]? with
      | none => (acc, midx)
      | some m =>
        if m.e ≤ ls then
          if midx + 1 < s.ms.length then onlyMatchingGo sc c s count fuel ls le (midx + 1) acc
          else (acc, midx)
        else if ls < m.s then
          onlyMatchingGo sc c s count fuel (min le m.s) le midx acc
        else
          let upto := min le m.e
          let pre := writePrelude c false (s.absOff + m.s) (s.lineNo.map (· + count)) (some (m.s + 1))
          onlyMatchingGo sc c s count fuel upto le midx (acc ++ pre ++ slice s.bytes ls upto ++ sc.lt.bytes)

/-- loop of `sink_slow_multi_line_only_matching` over the lines -/
def sinkSlowMultiLineOnlyMatchingGo (sc : SCfg) (c : StdCfg) (s : Sunk) : Nat → Nat → List (Nat × Nat) → Bytes
  | _, _, [] => []
  | count, midx, (ls, le) :: rest =>
    let le' := trimLineTerminator sc.lt s.bytes ls le
    let (w, midx') := onlyMatchingGo sc c s count ((le' - ls) + s.ms.length + 1) ls le' midx []
    w ++ sinkSlowMultiLineOnlyMatchingGo sc c s (count + 1) midx' rest

/-- inner `while !line.is_empty()` loop of `sink_slow_multi_per_match` without colour -/
def perMatchPiecesGo (bytes : Bytes) (m : Span) : Nat → Nat → Nat → Bytes → Bytes
  | 0, _, _, acc => acc
  | fuel + 1, ls, le, acc =>
    if ls == le then acc
    else if m.e ≤ ls then acc ++ slice bytes ls le
    else if ls < m.s then
      let upto := min le m.s
      perMatchPiecesGo bytes m fuel upto le (acc ++ slice bytes ls upto)
    else
      let upto := min le m.e
      perMatchPiecesGo bytes m fuel upto le (acc ++ slice bytes ls upto)

/-- the `while let Some((start, end)) = stepper.next(bytes)` loop of `sink_slow_multi_per_match` for one match -/
def perMatchLinesGo (sc : SCfg) (c : StdCfg) (s : Sunk) (m : Span) : Nat → List (Nat × Nat) → Bytes
  | _, [] => []
  | count, (ls, le) :: rest =>
    if ls ≥ m.e then []
    else if le ≤ m.s then perMatchLinesGo sc c s m (count + 1) rest
    else
      let pre := writePrelude c false (s.absOff + ls) (s.lineNo.map (· + count)) (some (m.s - ls + 1))
      let le' := trimLineTerminator sc.lt s.bytes ls le
      let w := perMatchPiecesGo s.bytes m ((le' - ls) + 1) ls le' []
      pre ++ w ++ writeOwnLineTerm sc.lt s.bytes ls le ++
        (if c.perMatchOneLine then [] else perMatchLinesGo sc c s m (count + 1) rest)

/-- `sink_slow_multi_line` -/
def sinkSlowMultiLine (sc : SCfg) (c : StdCfg) (s : Sunk) : Bytes :=
  let spans := lineSpans sc.lt.asByte s.bytes
  if c.onlyMatching then sinkSlowMultiLineOnlyMatchingGo sc c s 0 0 spans
  else if c.perMatch then s.ms.flatMap fun m => perMatchLinesGo sc c s m 0 spans
  else sinkSlowMultiLineGo sc c s 0 0 spans

/-- `StandardImpl::sink` without the search prelude -/
def sinkBody (sc : SCfg) (c : StdCfg) (s : Sunk) : Bytes :=
  if s.ms.isEmpty then
    if sc.multiLine && !s.ctx.isSome then sinkFastMultiLine sc c s else sinkFast sc c s
  else
    if sc.multiLine && !s.ctx.isSome then sinkSlowMultiLine sc c s else sinkSlow sc c s

/-- `StandardImpl::sink` -/
def sink (sc : SCfg) (c : StdCfg) (s : Sunk) (count total : Nat) : Bytes :=
  writeSearchPrelude sc.lt c count total ++ sinkBody sc c s

/-- `CounterWriter` plus the per-search fields of `StandardSink`. -/
structure StdState where
  out : Bytes := []
  count : Nat := 0
  total : Nat := 0
  matchCount : Nat := 0
  afterRem : Nat := 0
  stats : Option Stats := none
  deriving Repr

def StdState.write (st : StdState) (w : Bytes) : StdState :=
  { st with out := st.out ++ w, count := st.count + w.length }

def moreThanLimit (maxMatches : Option Nat) (matchCount : Nat) : Bool :=
  match maxMatches with
  | none => false
  | some l => matchCount > l

/-- `should_quit` of the Standard and JSON sinks -/
def shouldQuit (maxMatches : Option Nat) (matchCount afterRem : Nat) : Bool :=
  match maxMatches with
  | none => false
  | some l => if matchCount < l then false else afterRem == 0

/-- `StandardSink::begin`: returns the state and whether the search proceeds. -/
def stdBegin (c : StdCfg) (st : StdState) : StdState × Bool :=
  let st := { st with total := st.total + st.count, count := 0, matchCount := 0, afterRem := 0 }
  (st, !(c.maxMatches == some 0))

/-- `StandardSink::matched` -/
def stdMatched (sc : SCfg) (c : StdCfg) (find : Oracle) (st : StdState)
    (buf : Bytes) (rs re absOff : Nat) (ln : Option Nat) : StdState × Bool :=
  let mc := st.matchCount + 1
  let afterRem := if moreThanLimit c.maxMatches mc then st.afterRem - 1 else sc.afterContext
  let ms := recordMatchesStd sc c find buf rs re
  let bytes := slice buf rs re
  let stats := st.stats.map fun s =>
    { s with matchCount := s.matchCount + ms.length
           , matchedLines := s.matchedLines + (splitLines sc.lt.asByte bytes).length }
  let w := sink sc c { bytes, absOff, lineNo := ln, ctx := none, ms } st.count st.total
  let st := { st with matchCount := mc, afterRem, stats }.write w
  (st, !shouldQuit c.maxMatches st.matchCount st.afterRem)

/-- `StandardSink::context` -/
def stdContext (sc : SCfg) (c : StdCfg) (find : Oracle) (st : StdState)
    (kind : CtxKind) (bytes : Bytes) (absOff : Nat) (ln : Option Nat) : StdState × Bool :=
  let afterRem := if kind == .after then st.afterRem - 1 else st.afterRem
  let ms := if sc.invert then recordMatchesStd sc c find bytes 0 bytes.length else []
  let w := sink sc c { bytes, absOff, lineNo := ln, ctx := some kind, ms } st.count st.total
  let st := { st with afterRem }.write w
  (st, !shouldQuit c.maxMatches st.matchCount st.afterRem)

/-- `StandardSink::context_break` -/
def stdContextBreak (sc : SCfg) (c : StdCfg) (st : StdState) : StdState × Bool :=
  (st.write (writeContextSeparator sc.lt c), true)

def stdEvent (sc : SCfg) (c : StdCfg) (find : Oracle) (st : StdState) : Event → StdState × Bool
  | .matched buf rs re off ln => stdMatched sc c find st buf rs re off ln
  | .context k b off ln => stdContext sc c find st k b off ln
  | .contextBreak => stdContextBreak sc c st

/-- The searcher delivers events until a callback returns `false`. -/
def stdEvents (sc : SCfg) (c : StdCfg) (find : Oracle) : StdState → List Event → StdState
  | st, [] => st
  | st, ev :: rest =>
    let (st', cont) := stdEvent sc c find st ev
    if cont then stdEvents sc c find st' rest else st'

/-- `StandardSink::finish` (no binary data) -/
def stdFinish (st : StdState) (byteCount : Nat) : StdState :=
  { st with stats := st.stats.map fun s =>
      { s with searches := s.searches + 1
             , searchesWithMatch := s.searchesWithMatch + (if st.matchCount > 0 then 1 else 0)
             , bytesSearched := s.bytesSearched + byteCount
             , bytesPrinted := s.bytesPrinted + st.count } }

/-- One search with a fresh `StandardSink` on a printer whose writer is in state `(out, count, total)`. -/
def stdSearch (sc : SCfg) (c : StdCfg) (find : Oracle) (w : StdState) (evs : List Event) (byteCount : Nat) :
    StdState :=
  let st0 : StdState := { w with matchCount := 0, afterRem := 0, stats := if c.stats then some {} else none }
  let (st1, go) := stdBegin c st0
  let st2 := if go then stdEvents sc c find st1 evs else st1
  stdFinish st2 byteCount

/-! ### JSON printer -/

structure JsonCfg where
  maxMatches : Option Nat := none
  alwaysBeginEnd : Bool := false
  path : Option Bytes := none
  deriving Repr

structure JsonState where
  msgs : List Msg := []
  matchCount : Nat := 0
  afterRem : Nat := 0
  beginPrinted : Bool := false
  stats : Stats := {}
  /-- a slice index went out of range (`SubMatches::new`): the process aborts -/
  panicked : Bool := false
  deriving Repr

/-- `JSONSink::record_matches` -/
def recordMatchesJson (sc : SCfg) (find : Oracle) (bytes : Bytes) (rs re : Nat) : List Span :=
  shiftSpans rs (findIterInContext sc find bytes rs re)

/-- `SubMatches::new(bytes, matches)`: `none` when `&bytes[mat]` is out of range. -/
def subMatches (bytes : Bytes) (ms : List Span) : Option (List SubMatch) :=
  if ms.all (fun m => m.s ≤ m.e && m.e ≤ bytes.length) then
    some (ms.map fun m => { m := encodeData (slice bytes m.s m.e), s := m.s, e := m.e })
  else none

def pathData (p : Option Bytes) : Option Data := p.map encodeData

/-- `write_begin_message` -/
def JsonState.writeBegin (jc : JsonCfg) (st : JsonState) : JsonState :=
  if st.beginPrinted then st
  else { st with msgs := st.msgs ++ [.begin (pathData jc.path)], beginPrinted := true }

def jsonBegin (jc : JsonCfg) (st : JsonState) : JsonState × Bool :=
  let st := { st with matchCount := 0, afterRem := 0 }
  if jc.maxMatches == some 0 then (st, false)
  else if !jc.alwaysBeginEnd then (st, true)
  else (st.writeBegin jc, true)

/-- `JSONSink::matched` -/
def jsonMatched (sc : SCfg) (jc : JsonCfg) (find : Oracle) (st : JsonState)
    (buf : Bytes) (rs re absOff : Nat) (ln : Option Nat) : JsonState × Bool :=
  let st := st.writeBegin jc
  let mc := st.matchCount + 1
  let afterRem := if moreThanLimit jc.maxMatches mc then st.afterRem - 1 else sc.afterContext
  let ms := recordMatchesJson sc find buf rs re
  let bytes := slice buf rs re
  let stats := { st.stats with matchCount := st.stats.matchCount + ms.length
                             , matchedLines := st.stats.matchedLines + (splitLines sc.lt.asByte bytes).length }
  let st := { st with matchCount := mc, afterRem, stats }
  match subMatches bytes ms with
  | none => ({ st with panicked := true }, false)
  | some subs =>
    let st := { st with msgs := st.msgs ++ [.matched (pathData jc.path) (encodeData bytes) ln absOff subs] }
    (st, !shouldQuit jc.maxMatches st.matchCount st.afterRem)

/-- `JSONSink::context` -/
def jsonContext (sc : SCfg) (jc : JsonCfg) (find : Oracle) (st : JsonState)
    (kind : CtxKind) (bytes : Bytes) (absOff : Nat) (ln : Option Nat) : JsonState × Bool :=
  let st := st.writeBegin jc
  let afterRem := if kind == .after then st.afterRem - 1 else st.afterRem
  let st := { st with afterRem }
  let subs? := if sc.invert then subMatches bytes (recordMatchesJson sc find bytes 0 bytes.length) else some []
  match subs? with
  | none => ({ st with panicked := true }, false)
  | some subs =>
    let st := { st with msgs := st.msgs ++ [.context (pathData jc.path) (encodeData bytes) ln absOff subs] }
    (st, !shouldQuit jc.maxMatches st.matchCount st.afterRem)

/-- `context_break` is the trait's default (`Ok(true)`) for the JSON sink. -/
def jsonEvent (sc : SCfg) (jc : JsonCfg) (find : Oracle) (st : JsonState) : Event → JsonState × Bool
  | .matched buf rs re off ln => jsonMatched sc jc find st buf rs re off ln
  | .context k b off ln => jsonContext sc jc find st k b off ln
  | .contextBreak => (st, true)

def jsonEvents (sc : SCfg) (jc : JsonCfg) (find : Oracle) : JsonState → List Event → JsonState
  | st, [] => st
  | st, ev :: rest =>
    let (st', cont) := jsonEvent sc jc find st ev
    if cont then jsonEvents sc jc find st' rest else st'

/-- `JSONSink::finish` (`bytes_printed` counts serialised JSON text and is not modelled: left unchanged) -/
def jsonFinish (jc : JsonCfg) (st : JsonState) (byteCount : Nat) : JsonState :=
  if st.panicked then st
  else if !st.beginPrinted then st
  else
    let stats := { st.stats with searches := st.stats.searches + 1
                               , searchesWithMatch := st.stats.searchesWithMatch + (if st.matchCount > 0 then 1 else 0)
                               , bytesSearched := st.stats.bytesSearched + byteCount }
    { st with stats, msgs := st.msgs ++ [.end (pathData jc.path) none stats] }

/-- One search with a fresh `JSONSink`. -/
def jsonSearch (sc : SCfg) (jc : JsonCfg) (find : Oracle) (evs : List Event) (byteCount : Nat) : JsonState :=
  let (st1, go) := jsonBegin jc {}
  let st2 := if go then jsonEvents sc jc find st1 evs else st1
  jsonFinish jc st2 byteCount

end RgVerif.Printer
