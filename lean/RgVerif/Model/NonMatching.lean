import RgVerif.Model.HirSem
/-
Model of `crates/regex/src/non_matching.rs`.

`ByteSet` is a 256-bit mask held in a `Nat`; the model accumulates the *removed* bytes
(`matchingSet`), the declared set is the complement (`nonMatching`).
`Utf8Sequences::new(lo, hi)` (regex-syntax) is external; it is modelled by `addUtf8Range`, which
adds, for every encoding length and every position, the bytes that occur at that position in the
encoding of some scalar value of `[lo, hi]`.  `Lemmas/HirNonMatching.lean` proves that this covers
every byte of every encoding in the range, which is all that soundness needs; the harness checks
set equality with the real code.
-/
namespace RgVerif.Rx
open RgVerif

def bsMem (m b : Nat) : Bool := m.testBit b

/-- `set.remove(b)` (as an addition to the removed set). -/
def bsAdd (m b : Nat) : Nat := m ||| (1 <<< b)

/-- `set.remove_all(lo, hi)`. -/
def bsAddRange (m lo hi : Nat) : Nat :=
  if lo ≤ hi then m ||| ((2 ^ (hi + 1 - lo) - 1) <<< lo) else m

/-- add `{marker + q % 64 | qlo ≤ q ≤ qhi}`. -/
def addDigits (m marker qlo qhi : Nat) : Nat :=
  if qhi - qlo ≥ 63 then bsAddRange m marker (marker + 63)
  else if qlo % 64 ≤ qhi % 64 then bsAddRange m (marker + qlo % 64) (marker + qhi % 64)
  else bsAddRange (bsAddRange m marker (marker + qhi % 64)) (marker + qlo % 64) (marker + 63)

/-- bytes of the encodings of `[lo, hi] ∩ [a, b]` where all of `[a, b]` encodes to `n` bytes. -/
def addUtf8Len (m lo hi a b n : Nat) : Nat :=
  let lo' := max lo a
  let hi' := min hi b
  if lo' ≤ hi' then
    match n with
    | 1 => bsAddRange m lo' hi'
    | 2 => addDigits (addDigits m 0xC0 (lo' / 64) (hi' / 64)) 0x80 lo' hi'
    | 3 => addDigits (addDigits (addDigits m 0xE0 (lo' / 4096) (hi' / 4096)) 0x80 (lo' / 64) (hi' / 64)) 0x80 lo' hi'
    | _ => addDigits (addDigits (addDigits (addDigits m 0xF0 (lo' / 262144) (hi' / 262144))
             0x80 (lo' / 4096) (hi' / 4096)) 0x80 (lo' / 64) (hi' / 64)) 0x80 lo' hi'
  else m

/-- all bytes of `Utf8Sequences::new(lo, hi)`. -/
def addUtf8Range (m lo hi : Nat) : Nat :=
  let m := addUtf8Len m lo hi 0 0x7F 1
  let m := addUtf8Len m lo hi 0x80 0x7FF 2
  let m := addUtf8Len m lo hi 0x800 0xD7FF 3
  let m := addUtf8Len m lo hi 0xE000 0xFFFF 3
  addUtf8Len m lo hi 0x10000 0x10FFFF 4

def lookRemoved (m : Nat) : Look → Nat
  | .Start | .End | .StartLF | .EndLF => bsAdd m 10
  | .StartCRLF | .EndCRLF => bsAdd (bsAdd m 13) 10
  | _ => m

mutual
/-- `remove_matching_bytes(expr, set)`; `m` = bytes removed so far. -/
def matchingSet : Hir → Nat → Nat
  | .empty, m => m
  | .look k, m => lookRemoved m k
  | .lit bs, m => bs.foldl bsAdd m
  | .classU rs, m => rs.foldl (fun m r => addUtf8Range m r.1 r.2) m
  | .classB rs, m => rs.foldl (fun m r => bsAddRange m r.1 r.2) m
  | .rep _ _ _ sub, m => matchingSet sub m
  | .cap _ sub, m => matchingSet sub m
  | .concat xs, m => matchingSetL xs m
  | .alt xs, m => matchingSetL xs m
def matchingSetL : HirList → Nat → Nat
  | .nil, m => m
  | .cons h t, m => matchingSetL t (matchingSet h m)
end

/-- `non_matching_bytes(expr)` as a sorted list of bytes. -/
def nonMatching (h : Hir) : List Nat :=
  let m := matchingSet h 0
  (List.range 256).filter fun b => !bsMem m b

end RgVerif.Rx
