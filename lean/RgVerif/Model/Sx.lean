/-
Wire format shared by every driver: one request per line, one reply per line.
Bytes travel as lowercase hex (`-` is the empty string), numbers in decimal,
structures as S-expressions.  Everything here is import-free so that the
driver links as a `lean_exe`.
-/
namespace RgVerif

/-- Bytes are modelled as natural numbers (< 256 on the wire). Theorems are stated
for all `List Nat`, which covers every byte string. -/
abbrev Bytes := List Nat

inductive Sx where
  | atom (s : String)
  | list (xs : List Sx)
  deriving Repr, Inhabited

namespace Sx

private def flushTok (cur : List Char) (acc : List String) : List String :=
  if cur.isEmpty then acc else String.ofList cur.reverse :: acc

/-- Split into tokens: `(`, `)` and maximal runs of non-space, non-paren characters. -/
def tokenize (cs : List Char) : List String :=
  let rec go (cs : List Char) (cur : List Char) (acc : List String) : List String :=
    match cs with
    | [] => (flushTok cur acc).reverse
    | c :: rest =>
      if c == '(' then go rest [] ("(" :: flushTok cur acc)
      else if c == ')' then go rest [] (")" :: flushTok cur acc)
      else if c == ' ' || c == '\t' || c == '\n' || c == '\r' then go rest [] (flushTok cur acc)
      else go rest (c :: cur) acc
  go cs [] []

/-- Parse a token list into a forest. Unbalanced input yields `none`. -/
def parseToks (toks : List String) : Option (List Sx) :=
  let rec go (toks : List String) (stack : List (List Sx)) (cur : List Sx) : Option (List Sx) :=
    match toks with
    | [] => if stack.isEmpty then some cur.reverse else none
    | t :: rest =>
      if t == "(" then go rest (cur :: stack) []
      else if t == ")" then
        match stack with
        | [] => none
        | top :: stack' => go rest stack' (Sx.list cur.reverse :: top)
      else go rest stack (Sx.atom t :: cur)
  go toks [] []

def parseLine (line : String) : Option (List Sx) := parseToks (tokenize line.toList)

partial def toStr : Sx → String
  | atom s => s
  | list xs => "(" ++ " ".intercalate (xs.map toStr) ++ ")"

def atom? : Sx → Option String
  | atom s => some s
  | _ => none

def list? : Sx → Option (List Sx)
  | list xs => some xs
  | _ => none

end Sx

/-! ### Hex and decimal -/

def hexDigit (n : Nat) : Char :=
  if n < 10 then Char.ofNat (48 + n) else Char.ofNat (87 + n)

def hexVal (c : Char) : Option Nat :=
  let n := c.toNat
  if 48 ≤ n ∧ n ≤ 57 then some (n - 48)
  else if 97 ≤ n ∧ n ≤ 102 then some (n - 87)
  else if 65 ≤ n ∧ n ≤ 70 then some (n - 55)
  else none

def toHex (bs : Bytes) : String :=
  if bs.isEmpty then "-" else
  String.ofList (bs.flatMap fun b => [hexDigit (b / 16 % 16), hexDigit (b % 16)])

def fromHexChars : List Char → Option Bytes
  | [] => some []
  | [_] => none
  | a :: b :: rest => do
    let x ← hexVal a
    let y ← hexVal b
    let r ← fromHexChars rest
    pure ((x * 16 + y) :: r)

def fromHex (s : String) : Option Bytes :=
  if s == "-" then some [] else fromHexChars s.toList

def Sx.bytes? (x : Sx) : Option Bytes := x.atom? >>= fromHex
def Sx.nat? (x : Sx) : Option Nat := x.atom? >>= String.toNat?
def Sx.bool? (x : Sx) : Option Bool :=
  match x with
  | .atom "1" => some true
  | .atom "0" => some false
  | _ => none

/-- Look up `(key v…)` in an association-style S-expression list. -/
def Sx.field (xs : List Sx) (key : String) : Option (List Sx) :=
  match xs with
  | [] => none
  | Sx.list (Sx.atom k :: vs) :: rest => if k == key then some vs else Sx.field rest key
  | _ :: rest => Sx.field rest key

def Sx.field1 (xs : List Sx) (key : String) : Option Sx :=
  match Sx.field xs key with
  | some [v] => some v
  | _ => none

def natsToStr (ns : List Nat) : String := " ".intercalate (ns.map toString)

def optNat : Option Nat → String
  | none => "-"
  | some n => toString n

end RgVerif
