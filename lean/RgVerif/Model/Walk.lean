import RgVerif.Model.WalkFs
/-
C06 — models of the two walkers of `crates/ignore/src/walk.rs` as deterministic recursions
(which worker runs what and when is C07's business).

* parallel: `Work`, `Worker::run_one`, `Worker::generate_work`, `check_symlink_loop`,
  `skip_filesize`, `should_skip_entry`, `is_same_file_system`, root handling of `WalkParallel::visit`.
* serial: walkdir 2.5.0's contract (`IntoIter::handle_entry`: follow + `check_loop`, `same_file_system`
  push decision, `max_depth` pop, `skip_current_dir` = pop the top list) under `Walk::next`,
  `Walk::skip_entry` and the enter/exit bookkeeping of `WalkEventIter` (the `ig` stack is pushed on
  every `Dir` event and popped on the matching `Exit`).
-/
namespace RgVerif.Walk

/-! ### Parallel walker -/

/-- `struct Work { dent, ignore, root_device }` (the `Ignore` matcher is its chain of entered dirs). -/
structure Work where
  path : Path
  depth : Nat
  view : View
  anc : List Anc
  rootDev : Option Nat

def View.kids : View → List Node
  | .dir d _ => d.kids
  | _ => []

def View.isSymlink : View → Bool
  | .symlink _ => true
  | _ => false

/-- What both walkers do first with a `read_dir` item: with `follow_links`, a symbolic link is
stat-ed through (`from_path(.., true)`, error if dangling) and, if it points to a directory, checked
against the inodes of the directories being walked (`check_symlink_loop` / walkdir's `check_loop`). -/
def followEntry (cfg : Cfg) (forest : List Node) (ancInos : List Nat) (p : Path) (k : Node) :
    Except Out View :=
  if cfg.followLinks && (lstat k).isSymlink then
    match stat forest k with
    | .broken => .error (.broken p)
    | .dir d v => if ancInos.any (· == d.ino) then .error (.loop p) else .ok (.dir d v)
    | v => .ok v
  else .ok (lstat k)

/-- `Worker::generate_work` for one `read_dir` item: errors reported, and the work sent (if any). -/
def generateWork (cfg : Cfg) (forest : List Node) (anc : List Anc) (depth : Nat)
    (rootDev : Option Nat) (pp : Path) (k : Node) : List Out × Option Work :=
  let p := pp ++ [k.name]
  -- DirEntryRaw::from_entry; if self.follow_links && is_symlink { from_path(.., true); check_symlink_loop }
  let followed := followEntry cfg forest (anc.map (·.1)) p k
  match followed with
  | .error e => ([e], none)
  | .ok dent =>
    if ignoredBy cfg anc k.name dent then ([], none)
    else
      let shouldSkipFilesize :=
        if cfg.maxFilesize.isSome && !dent.isDir then tooBig cfg dent else false
      let shouldSkipFiltered := filteredOut cfg p dent
      if !shouldSkipFilesize && !shouldSkipFiltered then
        ([], some { path := p, depth := depth, view := dent, anc := anc, rootDev := rootDev })
      else ([], none)

/-- The part of `Worker::run_one` that decides whether the directory of a work is listed
(`descend` from `is_same_file_system`, then the `max_depth` test); if so, the ancestor chain its
children get (`work.read_dir()` = `add_child`). -/
def enterDir (cfg : Cfg) (w : Work) : Option (List Anc) :=
  match w.view with
  | .dir d _ =>
    -- let descend = if let Some(root_device) = work.root_device { is_same_file_system(..) } else { true }
    if !devOk w.rootDev d.dev then none
    -- if self.max_depth.map_or(false, |max| depth >= max) { return WalkState::Skip; }
    else if !depthOk cfg w.depth then none
    else some ((d.ino, d.ign) :: w.anc)
  | _ => none

/-- `Worker::run_one`: the entry is handed to the visitor, then — for a directory that is entered —
`contents` lists it (the `for result in readdir` loop with the recursive processing of the works it
sends). -/
def runOne (cfg : Cfg) (w : Work)
    (contents : List Anc → Nat → Path → Option Nat → List Out) : List Out :=
  .entry w.path ::
    (match enterDir cfg w with
     | some anc' => contents anc' w.depth w.path w.rootDev
     | none => [])

mutual
def parEntry (cfg : Cfg) (forest : List Node) (jump : Contents) (rootDev : Option Nat)
    (anc : List Anc) (depth : Nat) (pp : Path) : Node → List Out
  | .dir name ino dev ign kids =>
    match generateWork cfg forest anc (depth + 1) rootDev pp (.dir name ino dev ign kids) with
    | (errs, none) => errs
    | (errs, some w) =>
      errs ++ runOne cfg w (fun a d p rd => parKids cfg forest jump rd a d p kids)
  | k =>
    match generateWork cfg forest anc (depth + 1) rootDev pp k with
    | (errs, none) => errs
    | (errs, some w) => errs ++ runOne cfg w (fun a d p rd => jump a d p rd w.view.kids)
def parKids (cfg : Cfg) (forest : List Node) (jump : Contents) (rootDev : Option Nat)
    (anc : List Anc) (depth : Nat) (pp : Path) : List Node → List Out
  | [] => []
  | k :: ks =>
    parEntry cfg forest jump rootDev anc depth pp k ++ parKids cfg forest jump rootDev anc depth pp ks
end

def parContents (cfg : Cfg) (forest : List Node) : Nat → Contents
  | 0 => fun _ _ _ _ _ => []
  | f + 1 => fun anc depth p rootDev kids =>
    parKids cfg forest (parContents cfg forest f) rootDev anc depth p kids

/-- A root path in `WalkParallel::visit`: `device_num`, `DirEntryRaw::from_path(0, path, false)`
(which stats through links), then the work is run. -/
def parRoot (cfg : Cfg) (forest : List Node) (fuel : Nat) (r : Node) : List Out :=
  match stat forest r with
  | .broken => [.broken [r.name]]
  | v =>
    let rootDev := if cfg.sameFs then
        (match v with
         | .dir d _ => some d.dev
         | _ => some 0)
      else none
    runOne cfg { path := [r.name], depth := rootDepth, view := v, anc := [], rootDev := rootDev }
      (fun a d p rd => parContents cfg forest fuel a d p rd v.kids)

def parallel (cfg : Cfg) (forest : List Node) (fuel : Nat) (roots : List Node) : List Out :=
  roots.flatMap (parRoot cfg forest fuel)

/-! ### Serial walker -/

/-- `Walk::skip_entry` for an entry of depth > 0. -/
def skipEntry (cfg : Cfg) (ig : List Anc) (p : Path) (name : Name) (ent : View) : Bool :=
  if ignoredBy cfg ig name ent then true
  else if cfg.maxFilesize.isSome && !ent.isDir && tooBig cfg ent then true
  else if filteredOut cfg p ent then true
  else false

/-- walkdir's `handle_entry` for an entry of depth > 0: an error, or the yielded entry and whether
its directory list was pushed on walkdir's stack. `sp` = walkdir's `stack_path` (ancestor inodes,
kept only with `follow_links`). -/
def wdHandle (cfg : Cfg) (forest : List Node) (sp : List Nat) (rootDev : Option Nat) (p : Path)
    (k : Node) : Except Out (View × Bool) :=
  let followed := followEntry cfg forest sp p k
  match followed with
  | .error e => .error e
  | .ok dent =>
    match dent with
    | .dir d _ =>
      -- is_normal_dir: if same_file_system && depth > 0 { if is_same_file_system { push } } else { push }
      let pushed := if cfg.sameFs then devOk rootDev d.dev else true
      .ok (dent, pushed)
    | _ => .ok (dent, false)

/-- Result of processing one walkdir entry in `Walk::next`: what was yielded, whether the *parent's*
list was popped so that the remaining siblings are never read (`abort`: since the repair of finding F25
— `skip_current_dir` is called only for a directory walkdir descends into — no entry sets it; the field
and the plumbing in `serKids` are kept so that a model of the old behaviour differs in one place only),
and the `ig` stack afterwards. -/
structure SerRes where
  outs : List Out
  abort : Bool
  ig : List Anc

/-- Contents of a directory for the serial walker: also returns the `ig` stack afterwards. -/
abbrev SerContents := List Nat → List Anc → Nat → Path → Option Nat → List Node → List Out × List Anc

mutual
def serEntry (cfg : Cfg) (forest : List Node) (jump : SerContents) (rootDev : Option Nat)
    (sp : List Nat) (ig : List Anc) (depth : Nat) (pp : Path) : Node → SerRes
  | .dir name ino dev ign kids =>
    match wdHandle cfg forest sp rootDev (pp ++ [name]) (.dir name ino dev ign kids) with
    | .error e => ⟨[e], false, ig⟩
    | .ok (dent, pushed) =>
      -- WalkEvent::Dir
      if skipEntry cfg ig (pp ++ [name]) name dent then
        -- skip_current_dir(); add_child (push) ... Exit (pop)
        -- skip_current_dir() is only called when walkdir descends into the directory (it was pushed):
        -- the parent's listing is never popped
        ⟨[], false, (((ino, ign) :: ig).tail)⟩
      else
        let ig' := (ino, ign) :: ig
        if pushed && depthOk cfg (depth + 1) then
          let r := serKids cfg forest jump rootDev (if cfg.followLinks then ino :: sp else sp) ig'
            (depth + 1) (pp ++ [name]) kids
          ⟨.entry (pp ++ [name]) :: r.1, false, r.2.tail⟩
        else ⟨[.entry (pp ++ [name])], false, ig'.tail⟩
  | k =>
    match wdHandle cfg forest sp rootDev (pp ++ [k.name]) k with
    | .error e => ⟨[e], false, ig⟩
    | .ok (dent, pushed) =>
      match dent with
      | .dir d _ =>
        if skipEntry cfg ig (pp ++ [k.name]) k.name dent then
          ⟨[], false, (((d.ino, d.ign) :: ig).tail)⟩
        else
          let ig' := (d.ino, d.ign) :: ig
          if pushed && depthOk cfg (depth + 1) then
            let r := jump (if cfg.followLinks then d.ino :: sp else sp) ig' (depth + 1)
              (pp ++ [k.name]) rootDev d.kids
            ⟨.entry (pp ++ [k.name]) :: r.1, false, r.2.tail⟩
          else ⟨[.entry (pp ++ [k.name])], false, ig'.tail⟩
      | _ =>
        -- WalkEvent::File
        if skipEntry cfg ig (pp ++ [k.name]) k.name dent then ⟨[], false, ig⟩
        else ⟨[.entry (pp ++ [k.name])], false, ig⟩
def serKids (cfg : Cfg) (forest : List Node) (jump : SerContents) (rootDev : Option Nat)
    (sp : List Nat) (ig : List Anc) (depth : Nat) (pp : Path) : List Node → List Out × List Anc
  | [] => ([], ig)
  | k :: ks =>
    let r := serEntry cfg forest jump rootDev sp ig depth pp k
    if r.abort then (r.outs, r.ig)
    else
      let rest := serKids cfg forest jump rootDev sp r.ig depth pp ks
      (r.outs ++ rest.1, rest.2)
end

def serContents (cfg : Cfg) (forest : List Node) : Nat → SerContents
  | 0 => fun _ ig _ _ _ _ => ([], ig)
  | f + 1 => fun sp ig depth p rootDev kids =>
    serKids cfg forest (serContents cfg forest f) rootDev sp ig depth p kids

/-- One root of `Walk`: `WalkDir::new(p).follow_links(follow_links || p.is_file())…`, the root entry
is never skipped. -/
def serRoot (cfg : Cfg) (forest : List Node) (fuel : Nat) (r : Node) : List Out :=
  -- device_num(start) when same_file_system, handle_entry(root): both stat through the link
  match stat forest r with
  | .broken => [.broken [r.name]]
  | .dir d _ =>
    let rootDev := if cfg.sameFs then some d.dev else none
    -- WalkEvent::Dir (walkdir_is_dir), depth 0: not skipped; add_child
    let ig' := [(d.ino, d.ign)]
    .entry [r.name] ::
      (if depthOk cfg 0 then
        (serContents cfg forest fuel (if cfg.followLinks then [d.ino] else []) ig' 0 [r.name] rootDev
          d.kids).1
       else [])
  | _ => [.entry [r.name]]

def serial (cfg : Cfg) (forest : List Node) (fuel : Nat) (roots : List Node) : List Out :=
  roots.flatMap (serRoot cfg forest fuel)

end RgVerif.Walk
