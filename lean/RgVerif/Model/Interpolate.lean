import RgVerif.Model.Sx
/-
Model of `crates/matcher/src/interpolate.rs` (`interpolate`, `find_cap_ref`,
`is_valid_cap_letter`) and of `Captures::interpolate` in `crates/matcher/src/lib.rs`.
Mirrors the code as it is, including its refusal of braced names containing
anything but `[0-9A-Za-z_]`.
-/
namespace RgVerif.Interp

def isCapLetter (b : Nat) : Bool :=
  (48 ≤ b && b ≤ 57) || (97 ≤ b && b ≤ 122) || (65 ≤ b && b ≤ 90) || b == 95

def isDigit (b : Nat) : Bool := 48 ≤ b && b ≤ 57

inductive Ref where
  | number (n : Nat)
  | named (name : Bytes)
  deriving Repr, DecidableEq

def digitsVal (bs : Bytes) : Nat := bs.foldl (fun acc b => acc * 10 + (b - 48)) 0

/-- Rust's `str::parse::<u32>()`: optional leading `+`, then one or more ASCII digits,
value at most `u32::MAX`. -/
def parseBounded (max : Nat) (bs : Bytes) : Option Nat :=
  let ds := match bs with
    | 43 :: t => t
    | _ => bs
  if ds.isEmpty || !ds.all isDigit then none
  else if digitsVal ds ≤ max then some (digitsVal ds) else none

def u32Max : Nat := 4294967295
def usizeMax : Nat := 18446744073709551615

/-- `match cap.parse::<u32>() { Ok(i) => Number(i), Err(_) => Named(cap) }` -/
def toRefU32 (name : Bytes) : Ref :=
  match parseBounded u32Max name with
  | some n => .number n
  | none => .named name

/-- Result of `find_cap_ref`: the reference and the index just past it. -/
structure CapRef where
  cap : Ref
  endPos : Nat
  deriving Repr, DecidableEq

/-- `find_cap_ref(replacement)`: `$name`, `$123`, `${name}`; the name is the longest run of
`[0-9A-Za-z_]`, which must be non-empty, and in the braced form must be followed by `}`. -/
def findCapRef (r : Bytes) : Option CapRef :=
  match r with
  | 36 :: 123 :: body =>
    let name := body.takeWhile isCapLetter
    if name.isEmpty then none
    else match body.drop name.length with
      | 125 :: _ => some ⟨toRefU32 name, name.length + 3⟩
      | _ => none
  | 36 :: c :: rest =>
    let name := (c :: rest).takeWhile isCapLetter
    if name.isEmpty then none else some ⟨toRefU32 name, name.length + 1⟩
  | _ => none

theorem findCapRef_pos {r : Bytes} {cr : CapRef} (h : findCapRef r = some cr) : 0 < cr.endPos := by
  unfold findCapRef at h
  split at h
  · simp only at h
    split at h
    · simp at h
    · split at h
      · injection h with h; subst h; simp
      · simp at h
  · simp only at h
    split at h
    · simp at h
    · injection h with h; subst h; simp
  · simp at h

/-- Capture environment: group `i` ↦ matched text (if the group participated), and name ↦ index. -/
structure Env where
  group : Nat → Option Bytes
  nameIdx : Bytes → Option Nat

def Env.expand (env : Env) : Ref → Bytes
  | .number i => (env.group i).getD []
  | .named n =>
    match env.nameIdx n with
    | some i => (env.group i).getD []
    | none => []

/-- `interpolate(replacement, append, name_to_index, dst)`, returning what is appended to `dst`.
The `memchr` skip is the byte-wise copy of the last equation. -/
def interpolate (env : Env) : Bytes → Bytes
  | [] => []
  | 36 :: 36 :: rest => 36 :: interpolate env rest
  | 36 :: rest =>
    match h : findCapRef (36 :: rest) with
    | none => 36 :: interpolate env rest
    | some cr => env.expand cr.cap ++ interpolate env ((36 :: rest).drop cr.endPos)
  | b :: rest => b :: interpolate env rest
termination_by r => r.length
decreasing_by
  all_goals simp_wf
  all_goals try omega
  have := findCapRef_pos h
  omega

end RgVerif.Interp
