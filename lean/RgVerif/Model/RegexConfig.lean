import RgVerif.Model.Strip
import RgVerif.Model.NonMatching
import RgVerif.Model.Literal
/-
Model of `crates/regex/src/config.rs` (`Config::{is_fixed_strings, is_case_insensitive}`,
`ConfiguredHIR::{new, line_terminator, into_word, into_whole_line}`), of the smart-case analysis of
`crates/regex/src/ast.rs`, and of `RegexMatcherBuilder::build_many` / the `Matcher` methods of
`crates/regex/src/matcher.rs` that C11 and the regex part of C01 speak about.

External and therefore *inputs* of the model: the regex-syntax AST parser and translator (the
pattern text and flags handed to them are modelled: `patternText`, `translatorFlags`; their result,
the HIR, is an argument), `Regex::is_accelerated`, `Seq::optimize_for_prefix_by_preference`.
-/
namespace RgVerif.Rx
open RgVerif

structure Config where
  caseInsensitive : Bool := false
  caseSmart : Bool := false
  multiLine : Bool := false
  dotMatchesNewLine : Bool := false
  swapGreed : Bool := false
  unicode : Bool := true
  lineTerm : Option LineTerm := none
  ban : Option Nat := none
  crlf : Bool := false
  word : Bool := false
  fixedStrings : Bool := false
  wholeLine : Bool := false
  deriving Repr

/-! ### `ast.rs`: smart case -/

mutual
/-- the part of `regex_syntax::ast::Ast` the analysis looks at -/
inductive Ast where
  | other                       -- Empty, Flags, Dot, Assertion, ClassUnicode, ClassPerl
  | literal (c : Nat)
  | bracketed (set : ClassSet)
  | repetition (a : Ast)
  | group (a : Ast)
  | alternation (xs : AstList)
  | concat (xs : AstList)
inductive AstList where
  | nil
  | cons (a : Ast) (t : AstList)
inductive ClassSet where
  | itemOther                   -- Empty, Ascii, Unicode, Perl
  | itemLiteral (c : Nat)
  | itemRange (lo hi : Nat)
  | itemBracketed (set : ClassSet)
  | itemUnion (xs : ClassSetList)
  | binaryOp (lhs rhs : ClassSet)
inductive ClassSetList where
  | nil
  | cons (a : ClassSet) (t : ClassSetList)
end

structure AstAnalysis where
  anyUppercase : Bool := false
  anyLiteral : Bool := false
  deriving Repr, DecidableEq

def AstAnalysis.done (a : AstAnalysis) : Bool := a.anyUppercase && a.anyLiteral

section
variable (isUpper : Nat → Bool)

/-- `from_ast_literal` -/
def AstAnalysis.lit (a : AstAnalysis) (c : Nat) : AstAnalysis :=
  { anyLiteral := true, anyUppercase := a.anyUppercase || isUpper c }

mutual
/-- `from_ast_impl` (with its `done()` early exits) -/
def analyseAst : Ast → AstAnalysis → AstAnalysis
  | .other, a => a
  | .literal c, a => if a.done then a else a.lit isUpper c
  | .bracketed set, a => if a.done then a else analyseSet set a
  | .repetition x, a => if a.done then a else analyseAst x a
  | .group x, a => if a.done then a else analyseAst x a
  | .alternation xs, a => if a.done then a else analyseAstList xs a
  | .concat xs, a => if a.done then a else analyseAstList xs a
def analyseAstList : AstList → AstAnalysis → AstAnalysis
  | .nil, a => a
  | .cons x t, a => analyseAstList t (analyseAst x a)
/-- `from_ast_class_set` / `from_ast_class_set_item` -/
def analyseSet : ClassSet → AstAnalysis → AstAnalysis
  | .itemOther, a => a
  | .itemLiteral c, a => if a.done then a else a.lit isUpper c
  | .itemRange lo hi, a => if a.done then a else (a.lit isUpper lo).lit isUpper hi
  | .itemBracketed set, a => if a.done then a else analyseSet set a
  | .itemUnion xs, a => if a.done then a else analyseSetList xs a
  | .binaryOp l r, a => if a.done then a else analyseSet r (analyseSet l a)
def analyseSetList : ClassSetList → AstAnalysis → AstAnalysis
  | .nil, a => a
  | .cons x t, a => analyseSetList t (analyseSet x a)
end
end

/-- `Config::is_case_insensitive` -/
def Config.isCaseInsensitive (cfg : Config) (an : AstAnalysis) : Bool :=
  if cfg.caseInsensitive then true
  else if !cfg.caseSmart then false
  else an.anyLiteral && !an.anyUppercase

/-! ### fixed strings -/

/-- `regex_syntax::is_meta_character` (all ASCII, so byte-wise on UTF-8 text). -/
def isMetaByte (b : Nat) : Bool :=
  [92, 46, 43, 42, 63, 40, 41, 124, 91, 93, 123, 125, 94, 36, 35, 38, 45, 126].contains b

/-- `has_line_terminator` -/
def hasLineTerminator (lt : LineTerm) (p : Bytes) : Bool :=
  match lt with
  | .crlf => p.any fun b => b == 13 || b == 10
  | .byte t => p.any fun b => b == t

/-- `Config::is_fixed_strings` -/
def Config.isFixedStrings (cfg : Config) (pats : List Bytes) : Bool :=
  if cfg.caseInsensitive || cfg.caseSmart then false
  else if cfg.fixedStrings then
    match cfg.lineTerm with
    | some lt => !pats.any (hasLineTerminator lt)
    | none => true
  else
    pats.all fun p =>
      !p.any isMetaByte &&
      (match cfg.lineTerm with
       | some lt => !hasLineTerminator lt p
       | none => true)

/-- `regex_syntax::escape` -/
def escapeBytes (p : Bytes) : Bytes := p.flatMap fun b => if isMetaByte b then [92, b] else [b]

def joinWith (sep : Bytes) : List Bytes → Bytes
  | [] => []
  | [x] => x
  | x :: rest => x ++ sep ++ joinWith sep rest

/-- the pattern text handed to the parser on the non-fixed route: `(?:p1)|(?:p2)|…` -/
def Config.patternText (cfg : Config) (pats : List Bytes) : Bytes :=
  joinWith [124] (pats.map fun p =>
    [40, 63, 58] ++ (if cfg.fixedStrings then escapeBytes p else p) ++ [41])

/-! ### `ConfiguredHIR` -/

inductive BuildErr where
  | banned (b : Nat)
  | strip (e : StripErr)
  deriving Repr, DecidableEq

/-- `ban::check` as configured -/
def Config.banRejects (cfg : Config) (h : Hir) : Bool :=
  match cfg.ban with
  | some b => banned b h
  | none => false

/-- `strip_from_match` as the real code runs it: every `strip_from_match_ascii` pass rebuilds the tree
through regex-syntax's smart constructors (`norm`, external), so under CRLF the second pass sees the
*normalised* result of the first (e.g. `b|[\r\n]` → `b|[\n]` → `[\nb]` → `[b]` is accepted). -/
def stripN (norm : Hir → Hir) (h : Hir) (lt : LineTerm) : Except StripErr Hir :=
  match lt with
  | .crlf =>
    match stripAscii h 13 with
    | .ok h1 => stripAscii (norm h1) 10
    | .error e => .error e
  | .byte b => stripAscii h b

/-- the `strip_from_match` step of `ConfiguredHIR::new` -/
def Config.stripped (cfg : Config) (norm : Hir → Hir) (h : Hir) : Except BuildErr Hir :=
  match cfg.lineTerm with
  | none => .ok h
  | some lt =>
    match stripN norm h lt with
    | .ok h' => .ok h'
    | .error e => .error (.strip e)

/-- the alternation of literals of the fixed-strings route (`Hir::literal("")` is `Hir::empty`) -/
def fixedHir (pats : List Bytes) : Hir :=
  .alt (HirList.ofList (pats.map fun p => if p.isEmpty then Hir.empty else Hir.lit p))

/-- `ConfiguredHIR::new`, given what the external translator returned for `patternText`
(only consulted on the non-fixed route). -/
def Config.configuredHir (cfg : Config) (norm : Hir → Hir) (pats : List Bytes) (translated : Hir) :
    Except BuildErr Hir :=
  if cfg.isFixedStrings pats then .ok (fixedHir pats)
  else if cfg.banRejects translated then .error (.banned (cfg.ban.getD 0))
  else cfg.stripped norm translated

/-- what the user asked for, before the terminator is stripped: the alternation of the literal
patterns on the fixed-strings route, otherwise what the translator made of `patternText` -/
def Config.userHir (cfg : Config) (pats : List Bytes) (translated : Hir) : Hir :=
  if cfg.isFixedStrings pats then fixedHir pats else translated

/-- `into_whole_line` (before `Hir::concat` flattens it) -/
def Config.intoWholeLine (cfg : Config) (h : Hir) : Hir :=
  .concat (.cons (.look (if cfg.crlf then .StartCRLF else .StartLF))
    (.cons h (.cons (.look (if cfg.crlf then .EndCRLF else .EndLF)) .nil)))

/-- `into_word` -/
def Config.intoWord (cfg : Config) (h : Hir) : Hir :=
  .concat (.cons (.look (if cfg.unicode then .WordStartHalfUnicode else .WordStartHalfAscii))
    (.cons h (.cons (.look (if cfg.unicode then .WordEndHalfUnicode else .WordEndHalfAscii)) .nil)))

/-- the wrapping step of `build_many` -/
def Config.wrap (cfg : Config) (h : Hir) : Hir :=
  if cfg.wholeLine then cfg.intoWholeLine h
  else if cfg.word then cfg.intoWord h
  else h

def Look.isHaystackAnchor : Look → Bool
  | .Start | .End => true
  | _ => false

def Look.isCrlfAnchor : Look → Bool
  | .StartCRLF | .EndCRLF => true
  | _ => false

/-- `ConfiguredHIR::line_terminator`: withheld for haystack anchors, and for CRLF-aware line anchors
when `crlf` is off (they see the `\n` behind a trailing `\r` in a buffer but not on the line). -/
def Config.lineTerminatorOf (cfg : Config) (h : Hir) : Option LineTerm :=
  if anyLook Look.isHaystackAnchor h || (anyLook Look.isCrlfAnchor h && !cfg.crlf) then none else cfg.lineTerm

/-- the line anchors of the configured terminator itself (`crlf` on: `StartCRLF`/`EndCRLF`, else
`StartLF`/`EndLF`) -/
def Config.isOwnAnchor (cfg : Config) : Look → Bool
  | .StartCRLF | .EndCRLF => cfg.crlf
  | .StartLF | .EndLF => !cfg.crlf
  | _ => false

/-- `verify_on_line` of `build_many`: the look set contains a look other than the own line anchors -/
def Config.verifyOnLine (cfg : Config) (h : Hir) : Bool := anyLook (fun k => !cfg.isOwnAnchor k) h

/-! ### the matcher -/

structure MatcherM where
  /-- the HIR the regex is compiled from -/
  hir : Hir
  /-- `Matcher::line_terminator()` -/
  lineTerm : Option LineTerm
  /-- `Matcher::non_matching_bytes()` -/
  nonMatching : List Nat
  /-- literals of `fast_line_regex` (`none`: no fast regex) -/
  fastLits : Option (List Lit)
  /-- `verify_on_line`: buffer matches are only candidates, the searcher re-checks the line alone -/
  verifyOnLine : Bool := false
  deriving Inhabited

/-- `InnerLiterals::new(..).one_regex()`: the literal alternatives, if any.
`optimized` is the result of the external `optimize_for_prefix_by_preference` on `(extract h).seq`. -/
def fastLiterals (cfg : Config) (accelerated : Bool) (h : Hir) (optimized : Seq) : Option (List Lit) :=
  if innerGate cfg.lineTerm.isSome accelerated h then
    match finishUntagged optimized with
    | some L => if L.isEmpty then none else some L
    | none => none
  else none

/-- `RegexMatcherBuilder::build_many`.  `norm` stands for regex-syntax's smart constructors, through
which the real code rebuilds every node (`Hir::concat`, `Hir::class`, …): an external,
meaning-preserving normalisation of the tree. -/
def Config.build (cfg : Config) (pats : List Bytes) (translated : Hir) (accelerated : Bool)
    (optimize : Seq → Seq) (norm : Hir → Hir) : Except BuildErr MatcherM :=
  match cfg.configuredHir norm pats translated with
  | .error e => .error e
  | .ok h0 =>
    let h := norm (cfg.wrap h0)
    .ok { hir := h
        , lineTerm := cfg.lineTerminatorOf h
        , nonMatching := nonMatching h
        , fastLits := fastLiterals cfg accelerated h (optimize (extract h).seq)
        , verifyOnLine := cfg.verifyOnLine h }

/-- `Matcher::find_candidate_line`: `Candidate(i)` from the literal search; without a literal regex the end
of the engine's `shortest_match`, as `Candidate(i)` when `verify_on_line` is set, else `Confirmed(i)`. -/
inductive Cand where
  | candidate (i : Nat)
  | confirmed (i : Nat)
  deriving Repr, DecidableEq

def Cand.offset : Cand → Nat
  | .candidate i => i
  | .confirmed i => i

def MatcherM.findCandidateLine (m : MatcherM) (shortest : Bytes → Option Nat) (hay : Bytes) : Option Cand :=
  match m.fastLits with
  | some L => (fastFind L hay).map .candidate
  | none => if m.verifyOnLine then (shortest hay).map .candidate else (shortest hay).map .confirmed

end RgVerif.Rx
