/-
C06 — the file-system model shared by the walker models and the reachability spec.

A forest of roots.  Directories carry an inode number (identity used by the symlink-loop checks),
a device number (`same_file_system`) and the names listed in their ignore file.  A symbolic link
carries the length of its link text (what `symlink_metadata().len()` reports) and what the OS
resolves it to — resolving the link text is the OS's job and not modelled.
-/
namespace RgVerif.Walk

abbrev Name := Nat
/-- A reported path: the root's name first. -/
abbrev Path := List Name

inductive Target where
  | missing
  | file (size : Nat)
  | dir (ino : Nat)
  deriving Repr, DecidableEq, Inhabited

inductive Node where
  | file (name : Name) (size : Nat)
  | dir (name : Name) (ino dev : Nat) (ign : List Name) (kids : List Node)
  | link (name : Name) (len : Nat) (tgt : Target)
  deriving Repr, Inhabited

def Node.name : Node → Name
  | .file n _ => n
  | .dir n _ _ _ _ => n
  | .link n _ _ => n

/-- What is known of a directory once it has been stat-ed / opened. -/
structure DirView where
  ino : Nat
  dev : Nat
  ign : List Name
  kids : List Node
  deriving Repr, Inhabited

mutual
/-- The directory with inode `i` (first in pre-order). -/
def findDirN (i : Nat) : Node → Option DirView
  | .file _ _ => none
  | .link _ _ _ => none
  | .dir _ ino dev ign kids =>
    if ino = i then some ⟨ino, dev, ign, kids⟩ else findDirL i kids
def findDirL (i : Nat) : List Node → Option DirView
  | [] => none
  | k :: ks =>
    match findDirN i k with
    | some d => some d
    | none => findDirL i ks
end

mutual
/-- Inode numbers of all directories. -/
def dirInosN : Node → List Nat
  | .file _ _ => []
  | .link _ _ _ => []
  | .dir _ ino _ _ kids => ino :: dirInosL kids
def dirInosL : List Node → List Nat
  | [] => []
  | k :: ks => dirInosN k ++ dirInosL ks
end

/-- Result of a `stat` / `lstat` on an entry. -/
inductive View where
  | file (size : Nat)
  /-- a symbolic link that was not followed; `len` = length of the link text -/
  | symlink (len : Nat)
  /-- a directory; `viaLink` = reached by following a symbolic link -/
  | dir (d : DirView) (viaLink : Bool)
  /-- following the link failed (dangling) -/
  | broken
  deriving Repr, Inhabited

def View.isDir : View → Bool
  | .dir _ _ => true
  | _ => false

/-- `fs::metadata` through a link. -/
def resolve (forest : List Node) : Target → View
  | .missing => .broken
  | .file s => .file s
  | .dir i =>
    match findDirL i forest with
    | some d => .dir d true
    | none => .broken

/-- `fs::symlink_metadata` (what `read_dir` entries report). -/
def lstat : Node → View
  | .file _ s => .file s
  | .dir _ ino dev ign kids => .dir ⟨ino, dev, ign, kids⟩ false
  | .link _ len _ => .symlink len

/-- `fs::metadata` (follows a link). -/
def stat (forest : List Node) : Node → View
  | .link _ _ t => resolve forest t
  | n => lstat n

/-- What a walker reports. -/
inductive Out where
  | entry (p : Path)
  /-- symlink loop error for the link at `p` -/
  | loop (p : Path)
  /-- I/O error: the link at `p` cannot be followed -/
  | broken (p : Path)
  deriving Repr, DecidableEq, Inhabited

/-- An entered directory as the walkers remember it: identity and ignore-file contents. -/
abbrev Anc := Nat × List Name

structure Cfg where
  maxDepth : Option Nat
  maxFilesize : Option Nat
  followLinks : Bool
  sameFs : Bool
  /-- `should_skip_entry`: verdict of the ignore matcher built from the ignore files of the entered
  ancestors (innermost first) on an entry name; arbitrary in the theorems -/
  ignored : List (List Name) → Name → Bool → Bool
  /-- `filter_entry` predicate (`true` = keep); arbitrary in the theorems -/
  filter : Option (Path → Bool → Bool)

/-- `skip_filesize` on a non-directory. -/
def tooBig (cfg : Cfg) : View → Bool
  | .file s => match cfg.maxFilesize with
    | some m => decide (m < s)
    | none => false
  | .symlink l => match cfg.maxFilesize with
    | some m => decide (m < l)
    | none => false
  | _ => false

def filteredOut (cfg : Cfg) (p : Path) (v : View) : Bool :=
  match cfg.filter with
  | some f => !f p v.isDir
  | none => false

def ignoredBy (cfg : Cfg) (anc : List Anc) (name : Name) (v : View) : Bool :=
  cfg.ignored (anc.map (·.2)) name v.isDir

/-- May the children of a directory at depth `d` be listed? -/
def depthOk (cfg : Cfg) (d : Nat) : Bool :=
  match cfg.maxDepth with
  | some m => decide (d < m)
  | none => true

def devOk (rootDev : Option Nat) (dev : Nat) : Bool :=
  match rootDev with
  | some r => r == dev
  | none => true

def inAnc (anc : List Anc) (ino : Nat) : Bool := anc.any (fun a => a.1 == ino)

/-- The depth of a root entry: `Walk::skip_entry` never skips an entry of this depth (`if ent.depth() == 0`)
and `WalkParallel::visit` creates the root works with it (`DirEntryRaw::from_path(0, path, false)`)
(source-anchored: bin/check re-extracts both literals from walk.rs). -/
def rootDepth : Nat := 0

/-- Contents of an entered directory, given: ancestors (innermost first), depth of the directory,
its path, the root device, its children. -/
abbrev Contents := List Anc → Nat → Path → Option Nat → List Node → List Out

end RgVerif.Walk
