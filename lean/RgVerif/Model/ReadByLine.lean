import RgVerif.Model.Glue
import RgVerif.Model.LineBuffer
/-
Model of the reader strategy: `glue.rs` `ReadByLine::{run, fill, should_binary_quit}` on top of
the `Core` model (searcher-core's `Model/Core.lean`) and the roll buffer (`Model/LineBuffer.lean`),
`mod.rs` `Config::line_buffer` (+ the `verif_buffer_capacity` hook) and the strategy choice of
`search_reader` / `search_file_maybe_path` / `fill_multi_line_buffer_from_reader`.

Errors: an `io::Error` of the reader or of the allocation limit becomes `S::Error::error_io`, i.e.
`Res.err` with no event.  The failed `assert!`s of `ReadByLine::fill` / `LineBuffer::consume`
(which would panic) are `Res.err` too; `rbl_no_panic` (Props/C02) shows they never fire.
-/
namespace RgVerif.Searcher
open RgVerif RgVerif.Lines RgVerif.LineBuffer

/-- `line_buffer::BinaryDetection` is shared by both layers. -/
def BinaryDetection.toLB : BinaryDetection → BinDet
  | .none => .none
  | .quit b => .quit b
  | .convert b => .convert b

/-- `Config::line_buffer()` (`mod.rs`), with the `verif_buffer_capacity` hook applied last. -/
def lineBufferConfig (cfg : Config) (heapLimit : Option Nat) (verifCap : Option Nat) : LineBuffer.Config :=
  let (capacity, alloc) :=
    match heapLimit with
    | none => (defaultBufferCapacity, Alloc.eager)
    | some limit =>
      if limit ≤ defaultBufferCapacity then (limit, Alloc.error 0)
      else (defaultBufferCapacity, Alloc.error (limit - defaultBufferCapacity))
  let capacity := match verifCap with
    | some c => c
    | none => capacity
  { capacity := capacity, lineterm := cfg.lineTerm.asByte, alloc := alloc, binary := cfg.binary.toLB }

/-- `ReadByLine`: the core, the line buffer and the reader behind it. -/
structure RBL where
  core : Core
  lb : LB
  rdr : Reader

/-- `ReadByLine::should_binary_quit`. -/
def shouldBinaryQuit (cfg : Config) (lb : LB) : Bool :=
  lb.binOff.isSome && cfg.binary.quitByte.isSome

/-- `ReadByLine::fill`. -/
def rblFill (cfg : Config) (σ : Script) (s : RBL) : RBL × Res Bool :=
  let alreadyBinary := s.lb.binOff.isSome
  let oldBufLen := s.lb.buffer.length
  let (core, consumed) := roll cfg s.lb.buffer s.core
  match s.lb.consume consumed with
  | none => ({ s with core := core }, .err)
  | some lb =>
    match lb.fill s.rdr with
    | (lb, rdr, .allocErr) => (⟨core, lb, rdr⟩, .err)
    | (lb, rdr, .fuel) => (⟨core, lb, rdr⟩, .err)
    | (lb, rdr, .ok didread) =>
      let handOff : Core × Res Bool :=
        if !alreadyBinary then
          match lb.binOff with
          | some offset => binaryData σ core offset
          | none => (core, .ok true)
        else (core, .ok true)
      match handOff with
      | (core, .err) => (⟨core, lb, rdr⟩, .err)
      | (core, .ok false) => (⟨core, lb, rdr⟩, .ok false)
      | (core, .ok true) =>
        if !didread || shouldBinaryQuit cfg lb then (⟨core, lb, rdr⟩, .ok false)
        else if consumed == 0 && oldBufLen == lb.buffer.length then
          -- only leftover context in the buffer: forcefully quit
          match lb.consume oldBufLen with
          | some lb' => (⟨core, lb', rdr⟩, .ok false)
          | none => (⟨core, lb, rdr⟩, .err)
        else (⟨core, lb, rdr⟩, .ok true)

/-- The `while self.fill()? { if !self.core.match_by_line(self.rdr.buffer())? { stopped_at = …; break } }`
loop of `ReadByLine::run` (with fix 9a1d13a); `ok stoppedAt`. -/
def rblLoop (cfg : Config) (m : MatcherI) (σ : Script) : Nat → RBL → RBL × Res (Option Nat)
  | 0, s => (s, .err)
  | fuel + 1, s =>
    match rblFill cfg σ s with
    | (s, .err) => (s, .err)
    | (s, .ok false) => (s, .ok none)
    | (s, .ok true) =>
      match matchByLine cfg m σ s.lb.buffer s.core with
      | (core, .err) => ({ s with core := core }, .err)
      | (core, .ok false) => ({ s with core := core }, .ok (some (s.lb.abs + core.pos)))
      | (core, .ok true) => rblLoop cfg m σ fuel { s with core := core }

/-- Iterations of the loop: every `fill` that returns `true` either consumed something, or read
something new (else it takes the "leftover context" exit), so twice the input length plus the
script length is ample.  (Sufficiency is not proved; the correspondence run would show an `err`.) -/
def rblFuel (rdr : Reader) : Nat := 2 * (rdr.data.length + rdr.script.length) + 8

/-- `ReadByLine::run` (with `Core::new(searcher, matcher, write_to, false)`). -/
def readByLine (cfg : Config) (m : MatcherI) (σ : Script) (lbcfg : LineBuffer.Config) (rdr : Reader) : Run :=
  let st := Core.new cfg false
  match begin σ st with
  | (st, .err) => ⟨st, .err⟩
  | (st, .ok keepgoing) =>
    let s : RBL := ⟨st, LB.init lbcfg, rdr⟩
    let (s, r) : RBL × Res (Option Nat) :=
      if keepgoing then rblLoop cfg m σ (rblFuel rdr) s else (s, .ok none)
    match r with
    | .err => ⟨s.core, .err⟩
    | .ok stoppedAt =>
      let byteCount := match stoppedAt with
        | some n => n
        | none => s.lb.abs
      let (st, r) := finish σ s.core byteCount s.lb.binOff
      ⟨st, r⟩

/-- `fill_multi_line_buffer_from_reader` under a heap limit: the buffer starts at
`min(DEFAULT_BUFFER_CAPACITY, limit)`, doubles up to `limit`, and the read loop fails with the
allocation error as soon as it is full at `limit` -- i.e. (for a reader that returns 0 bytes only at
EOF) iff the input has at least `limit` bytes, or `limit = 0`.  No callback is made before that. -/
def multiLineHeapFails (heapLimit : Option Nat) (len : Nat) : Bool :=
  match heapLimit with
  | none => false
  | some limit => limit == 0 || decide (limit ≤ len)

/-- `search_reader`: with a real multi-line search `fill_multi_line_buffer_from_reader` reads
everything (interrupted reads are retried there too; the heap limit as above), then the multi-line
searcher runs on the slice; else the roll buffer. -/
def searchReader (cfg : Config) (m : MatcherI) (σ : Script) (heapLimit verifCap : Option Nat)
    (rdr : Reader) : Run :=
  if multiLineWithMatcher cfg m then
    if multiLineHeapFails heapLimit rdr.data.length then ⟨Core.new cfg true, .err⟩
    else multiLine cfg m σ rdr.data
  else readByLine cfg m σ (lineBufferConfig cfg heapLimit verifCap) rdr.withBomPeek

end RgVerif.Searcher
