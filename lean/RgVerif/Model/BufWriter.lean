import RgVerif.Model.Sx
/-
C08 — model of how per-file output blocks reach stdout.

* multi-threaded (`main.rs::search_parallel`): every worker prints a file's results into its own
  `termcolor::Buffer` and hands the whole buffer to `BufferWriter::print`, which takes the stdout lock,
  writes `separator ++ "\n"` if a separator is configured and something was printed before, then the
  buffer (termcolor 1.4.1, `BufferWriter::print`).  The order in which workers get the lock is arbitrary.
* single-threaded (`search`): the printer writes straight to stdout and owns the separator
  (`standard.rs::write_search_prelude`: `separator_search ++ line terminator` before the first byte of a
  search if anything was ever written).
* `--files` (`files_parallel`): haystacks travel through a channel to one printing thread.
* `hiargs.rs`: `threads`, `file_separator`.
-/
namespace RgVerif.BufWriter

/-! ### `termcolor::BufferWriter` -/

structure BW where
  printed : Bool := false      -- `self.printed`
  out : Bytes := []            -- bytes on stdout so far
  deriving Repr, DecidableEq, Inhabited

/-- what `BufferWriter::print` writes after the separator: `stream.write_all(b"\n")` (source-anchored) -/
abbrev bwTerminator : Nat := '\n'.toNat

/-- `BufferWriter::print(&buf)` (under the stream lock, so atomic). -/
def bwPrint (sep : Option Bytes) (st : BW) (buf : Bytes) : BW :=
  if buf.isEmpty then st else
  let out := match sep with
    | some s => if st.printed then st.out ++ s ++ [bwTerminator] else st.out
    | none => st.out
  { printed := true, out := out ++ buf }

/-- `search_parallel`: the buffers in the order in which the workers obtained the lock. -/
def outPar (sep : Option Bytes) (bufs : List Bytes) : Bytes :=
  (bufs.foldl (bwPrint sep) {}).out

/-! ### the workers of `search_parallel` and the lock discipline

Each worker owns one printer whose writer is a `termcolor::Buffer`.  The closure run for a file does
`searcher.printer().get_mut().clear()`, searches (the printer appends the file's results to the buffer),
and then `bufwtr.print(buffer)` — the only operation that touches stdout, atomic under the stdout lock.
Between a worker's `clear+search` and its `print` any other worker may do anything. -/

inductive Ev where
  | search (w : Nat) (blk : Bytes)     -- worker `w`: `clear()`, then the search writes `blk` into its buffer
  | print (w : Nat)                    -- worker `w`: `bufwtr.print(&buffer)`
  deriving Repr, DecidableEq, Inhabited

structure Par where
  bw : BW := {}
  bufs : Nat → Bytes := fun _ => []    -- the per-worker buffers

def parStep (sep : Option Bytes) (st : Par) : Ev → Par
  | .search w blk => { st with bufs := fun v => if v = w then blk else st.bufs v }
  | .print w => { st with bw := bwPrint sep st.bw (st.bufs w) }

/-- stdout after a schedule of worker events -/
def outSched (sep : Option Bytes) (evs : List Ev) : Bytes :=
  (evs.foldl (parStep sep) {}).bw.out

/-- The buffers in the order in which they were printed: for each `print w`, what worker `w` searched last. -/
def printed (evs : List Ev) (bufs : Nat → Bytes) : List Bytes :=
  match evs with
  | [] => []
  | .search w blk :: rest => printed rest (fun v => if v = w then blk else bufs v)
  | .print w :: rest => bufs w :: printed rest bufs

/-! ### single-threaded: the printer owns the separator -/

/-- The counting writer under the printer: `total_count()` = bytes ever written. -/
structure Seq where
  out : Bytes := []
  deriving Repr, DecidableEq, Inhabited

/-- One search in `search`: `write_search_prelude` runs before the first byte of the file's results
(`count() == 0`), and only if there is something to write.  `term` is the searcher's line terminator
(`\n`, `\r\n` under `--crlf`, `\0` under `--null-data`). -/
def seqPrint (sep : Option Bytes) (term : Bytes) (st : Seq) (blk : Bytes) : Seq :=
  if blk.isEmpty then st else
  let out := match sep with
    | some s => if st.out.length > 0 then st.out ++ s ++ term else st.out     -- `ever_written`
    | none => st.out
  { out := out ++ blk }

def outSeq (sep : Option Bytes) (term : Bytes) (blks : List Bytes) : Bytes :=
  (blks.foldl (seqPrint sep term) {}).out

/-! ### a search that fails part-way (`main.rs`: the `Err(err)` arms of `search` / `search_parallel`)

`blk` = what the printer had written for the file when the search returned (`failed = true`: an error after
some results, e.g. a `--pre` / `-z` command that exits unsuccessfully once its output was consumed, or a
read error in the middle of a file).  Single-threaded, those bytes are already on stdout when the error
comes back.  Multi-threaded, they sit in the worker's buffer; since 1ed0364 the `Err` arm prints the buffer
(`bufwtr.print`) before `err_message!`, as the `Ok` arm does (before, it returned without printing and the
results were lost). -/

def outSeqF (sep : Option Bytes) (term : Bytes) (items : List (Bytes × Bool)) : Bytes :=
  outSeq sep term (items.map (·.1))

def outParF (sep : Option Bytes) (items : List (Bytes × Bool)) : Bytes :=
  outPar sep (items.map (·.1))

/-! ### the "binary file matches" message (`standard.rs::StandardSink::finish` → `write_binary_message`)

When a file is recognised as binary after a match (an explicitly named file: binary detection `convert`), the
matching lines are withheld and `finish` writes the single line `path: binary file matches (…)`.  The message
does not go through `write_search_prelude`; since 302ce55 `write_binary_message` itself writes the separator
half of the prelude (`separator_search ++ line terminator` if anything was ever written) when the message is
the only output of its search (`flag = true`: the block is such a bare message).  Before, nothing separated
it in the single-threaded run. -/

def seqPrintB (sep : Option Bytes) (term : Bytes) (st : Seq) (it : Bytes × Bool) : Seq :=
  if it.2 then
    -- `write_binary_message`: `!this_search_written` ⇒ separator if `ever_written`, then the message
    if it.1.isEmpty then st else
    let out := match sep with
      | some s => if st.out.length > 0 then st.out ++ s ++ term else st.out
      | none => st.out
    { out := out ++ it.1 }
  else seqPrint sep term st it.1

def outSeqB (sep : Option Bytes) (term : Bytes) (items : List (Bytes × Bool)) : Bytes :=
  (items.foldl (seqPrintB sep term) {}).out

/-! ### the `--stats` trailer

`search`: `print_stats(mode, stats, started_at, searcher.printer().get_mut())` writes the trailer straight to
stdout after the last file.  `search_parallel` (since 78b4250): `print_stats(…, &mut args.stdout())` after the
walk, straight to stdout as well.  (Before, the trailer was written into the main searcher's buffer and handed
to `bufwtr.print`, which put the file separator in front of it like in front of any other buffer; that revert
is a mutant.) -/

def outSeqStats (sep : Option Bytes) (term : Bytes) (blks : List Bytes) (trailer : Bytes) : Bytes :=
  outSeq sep term blks ++ trailer

def outParStats (sep : Option Bytes) (bufs : List Bytes) (trailer : Bytes) : Bytes :=
  outPar sep bufs ++ trailer

/-! ### `--files` with several threads: channel + one printing thread -/

/-- `files_parallel`: the print thread writes each received path line; no separator. -/
def outFilesPar (lines : List Bytes) : Bytes := lines.flatten

/-! ### `hiargs.rs` -/

/-- `available_parallelism().map_or(1, |n| n.get()).min(12)` (source-anchored) -/
abbrev maxDefaultThreads : Nat := 12

/-- `HiArgs::from_low_args`: `threads`. -/
def threads (sortSome oneFile : Bool) (low : Option Nat) (avail : Nat) : Nat :=
  if sortSome || oneFile then 1
  else match low with
    | some t => t
    | none => min avail maxDefaultThreads

inductive OutMode where
  | standard | other
  deriving Repr, DecidableEq, Inhabited

/-- `HiArgs::from_low_args`: `file_separator`. `ctx` = before > 0 || after > 0 (limited context). -/
def fileSeparator (mode : OutMode) (heading ctx : Bool) (contextSep : Option Bytes) : Option Bytes :=
  match mode with
  | .standard => if heading then some [] else if ctx then contextSep else none
  | .other => none

/-- `run`: the single-threaded driver is used iff `threads == 1`; the output of a run over the files in
`order` (single-threaded: traversal order; multi-threaded: lock order). -/
def runOut (nthreads : Nat) (sep : Option Bytes) (term : Bytes) (order : List Bytes) : Bytes :=
  if nthreads == 1 then outSeq sep term order else outPar sep order

end RgVerif.BufWriter
