import RgVerif.Model.Walk
import RgVerif.Model.ParWalk
/-
Bridge between C06 and C07: the tree of `Work` items of the parallel walker.

C07's transition system runs on an abstract tree "entry ↦ the entries `generate_work` sends for it".
Here that tree is computed from C06's model of `generate_work` / `run_one`: one node per `Work` that is
sent (label = its path), its children are the works sent while the directory is listed.  Errors
(`visitor.visit(Err(..))`) are not works.
-/
namespace RgVerif.Walk
open RgVerif.ParWalk (Tree)

abbrev TreeContents := List Anc → Nat → Path → Option Nat → List Node → List Tree

mutual
def workEntry (cfg : Cfg) (forest : List Node) (jump : TreeContents) (rootDev : Option Nat)
    (anc : List Anc) (depth : Nat) (pp : Path) : Node → List Tree
  | .dir name ino dev ign kids =>
    match generateWork cfg forest anc (depth + 1) rootDev pp (.dir name ino dev ign kids) with
    | (_, none) => []
    | (_, some w) =>
      [Tree.node w.path (match enterDir cfg w with
        | some a => workKids cfg forest jump w.rootDev a w.depth w.path kids
        | none => [])]
  | k =>
    match generateWork cfg forest anc (depth + 1) rootDev pp k with
    | (_, none) => []
    | (_, some w) =>
      [Tree.node w.path (match enterDir cfg w with
        | some a => jump a w.depth w.path w.rootDev w.view.kids
        | none => [])]
def workKids (cfg : Cfg) (forest : List Node) (jump : TreeContents) (rootDev : Option Nat)
    (anc : List Anc) (depth : Nat) (pp : Path) : List Node → List Tree
  | [] => []
  | k :: ks =>
    workEntry cfg forest jump rootDev anc depth pp k ++ workKids cfg forest jump rootDev anc depth pp ks
end

def workContents (cfg : Cfg) (forest : List Node) : Nat → TreeContents
  | 0 => fun _ _ _ _ _ => []
  | f + 1 => fun anc depth p rootDev kids =>
    workKids cfg forest (workContents cfg forest f) rootDev anc depth p kids

/-- The work a root path becomes in `WalkParallel::visit` (none if it cannot be stat-ed). -/
def workRoot (cfg : Cfg) (forest : List Node) (fuel : Nat) (r : Node) : List Tree :=
  match stat forest r with
  | .broken => []
  | v =>
    let rootDev := if cfg.sameFs then
        (match v with
         | .dir d _ => some d.dev
         | _ => some 0)
      else none
    let w : Work := { path := [r.name], depth := rootDepth, view := v, anc := [], rootDev := rootDev }
    [Tree.node w.path (match enterDir cfg w with
      | some a => workContents cfg forest fuel a w.depth w.path w.rootDev v.kids
      | none => [])]

/-- The initial messages of the parallel walker, as C07 trees. -/
def workForest (cfg : Cfg) (forest : List Node) (fuel : Nat) (roots : List Node) : List Tree :=
  roots.flatMap (workRoot cfg forest fuel)

def Out.entry? : Out → Option Path
  | .entry p => some p
  | _ => none

/-- The entries among the reported items. -/
def entriesOf (os : List Out) : List Path := os.filterMap Out.entry?

end RgVerif.Walk
