import RgVerif.Model.Gitignore
/-
Model of the filter precedence of `crates/ignore/src/dir.rs` (`Ignore::{matched, matched_dir_entry,
matched_ignore}`, the matcher gating of `add_child_path`, `has_git` of `add_child_path` / `add_parents`,
the path re-basing for absolute parents), `overrides.rs::Override::matched`, `types.rs::Types::matched`,
`pathutil.rs::is_hidden`, `walk.rs::{skip_entry (depth 0), should_skip_entry}`, `core/haystack.rs::is_explicit`
and the flag → builder table of `core/flags/hiargs.rs::walk_builder`.
-/
namespace RgVerif.IgnoreDir
open RgVerif RgVerif.Glob RgVerif.Gitignore

/-- `Match<T>` without its payload -/
inductive M3 where
  | none | ignore | whitelist
  deriving DecidableEq, Repr

def M3.isNone : M3 → Bool
  | .none => true
  | _ => false
def M3.isIgnore : M3 → Bool
  | .ignore => true
  | _ => false
def M3.isWhitelist : M3 → Bool
  | .whitelist => true
  | _ => false

/-- `Match::or` -/
def M3.or (a b : M3) : M3 := if a.isNone then b else a

/-- `Match::invert` -/
def M3.invert : M3 → M3
  | .none => .none
  | .ignore => .whitelist
  | .whitelist => .ignore

def ofVerdict : Verdict → M3
  | .none => .none
  | .ignore _ => .ignore
  | .whitelist _ => .whitelist

/-- a compiled ignore file: `Gitignore { root, globs }` -/
structure Gi where
  root : Bytes
  globs : List GiGlob
  deriving Repr

def Gi.empty : Gi := { root := [], globs := [] }

/-- `Gitignore::matched` -/
def Gi.matched (g : Gi) (path : Bytes) (isDir : Bool) : M3 :=
  ofVerdict (Gitignore.matched g.root g.globs path isDir)

/-- `IgnoreOptions` plus the two emptiness tests of `has_any_ignore_rules` -/
structure Opts where
  hidden : Bool
  ignore : Bool
  parents : Bool
  gitGlobal : Bool
  gitIgnore : Bool
  gitExclude : Bool
  requireGit : Bool
  hasCustomNames : Bool      -- `!custom_ignore_filenames.is_empty()`
  deriving DecidableEq, Repr

/-- what a directory holds on disk: the four kinds of rule files and whether `.git` exists -/
structure DirFiles where
  dir : Bytes                 -- the path the matcher is built for (`IgnoreInner.dir`)
  custom : Gi                 -- `.rgignore` (custom ignore file names)
  ignore : Gi                 -- `.ignore`
  gitignore : Gi              -- `.gitignore`
  exclude : Gi                -- `.git/info/exclude`
  dotGit : Bool               -- `dir/.git` exists
  deriving Repr

/-- one `IgnoreInner` on the `parents()` chain -/
structure Level where
  dir : Bytes
  custom : Gi
  ignore : Gi
  gitignore : Gi
  exclude : Gi
  hasGit : Bool
  isAbsoluteParent : Bool
  deriving Repr

/-- `add_child_path`: which matchers are built at all, and `has_git` -/
def childLevel (o : Opts) (f : DirFiles) : Level :=
  let gitProbe := o.requireGit && (o.gitIgnore || o.gitExclude)
  { dir := f.dir,
    custom := if !o.hasCustomNames then Gi.empty else f.custom,
    ignore := if !o.ignore then Gi.empty else f.ignore,
    gitignore := if !o.gitIgnore then Gi.empty else f.gitignore,
    exclude := if !o.gitExclude then Gi.empty else f.exclude,
    hasGit := gitProbe && f.dotGit,
    isAbsoluteParent := false }

/-- `add_parents`: like `add_child_path`, then `is_absolute_parent = true` and `has_git` recomputed
(with `git_ignore` alone in the condition) -/
def parentLevel (o : Opts) (f : DirFiles) : Level :=
  { childLevel o f with
    isAbsoluteParent := true,
    hasGit := if o.requireGit && o.gitIgnore then f.dotGit else false }

/-- `add_parents` is a no-op when no option needs parent directories -/
def wantsParents (o : Opts) : Bool := o.parents || o.gitIgnore || o.gitExclude || o.gitGlobal

/-- `has_any_ignore_rules` -/
def hasAnyIgnoreRules (o : Opts) (hasExplicit : Bool) : Bool :=
  o.ignore || o.gitGlobal || o.gitIgnore || o.gitExclude || o.hasCustomNames || hasExplicit

/-- the four accumulators of `matched_ignore` and `saw_git` -/
structure Acc where
  custom : M3
  ignore : M3
  gi : M3
  exclude : M3
  sawGit : Bool
  deriving Repr

/-- one iteration of either `for ig in self.parents()…` loop -/
def stepLevel (anyGit : Bool) (path : Bytes) (isDir : Bool) (a : Acc) (l : Level) : Acc :=
  { custom := if a.custom.isNone then l.custom.matched path isDir else a.custom,
    ignore := if a.ignore.isNone then l.ignore.matched path isDir else a.ignore,
    gi := if anyGit && !a.sawGit && a.gi.isNone then l.gitignore.matched path isDir else a.gi,
    exclude := if anyGit && !a.sawGit && a.exclude.isNone then l.exclude.matched path isDir else a.exclude,
    sawGit := a.sawGit || l.hasGit }

/-- the re-basing of the candidate path for absolute parents:
`abs_parent_path.join(strip_prefix(strip_prefix("./", self.dir), path).strip_prefix("/"))` -/
def rebase (absBase curDir path : Bytes) : Bytes :=
  let pathPrefix := (stripPrefix [46, 47] curDir).getD curDir
  let rel := match stripPrefix pathPrefix path with
    | none => path
    | some p => (stripPrefix [47] p).getD p
  -- `PathBuf::join`: an absolute argument replaces the base; otherwise a separator is inserted if needed
  if rel.head? == some 47 then rel
  else if absBase.getLast? == some 47 || absBase.isEmpty then absBase ++ rel
  else absBase ++ [47] ++ rel

/-- the `for gi in explicit_ignores.iter().rev()` loop -/
def explicitLoop (explicit : List Gi) (path : Bytes) (isDir : Bool) : M3 :=
  explicit.reverse.foldl (fun m g => if !m.isNone then m else g.matched path isDir) .none

/-- the two `for ig in self.parents()…` loops of `matched_ignore`: first the directories of this walk
(asked about `path`), then — if `parents` and an absolute base exist — the absolute parents (asked about
the re-based path) -/
def foldLevels (o : Opts) (levels : List Level) (curDir : Bytes) (absBase : Option Bytes)
    (path : Bytes) (isDir : Bool) : Acc :=
  let anyGit := !o.requireGit || levels.any (·.hasGit)
  let a0 : Acc := { custom := .none, ignore := .none, gi := .none, exclude := .none, sawGit := false }
  let a1 := (levels.takeWhile (fun l => !l.isAbsoluteParent)).foldl (stepLevel anyGit path isDir) a0
  if o.parents then
    match absBase with
    | some base =>
      (levels.dropWhile (fun l => !l.isAbsoluteParent)).foldl
        (stepLevel anyGit (rebase base curDir path) isDir) a1
    | none => a1
  else a1

/-- `Ignore::matched_ignore`; `levels` = `self.parents()` (nearest first), `curDir` = `self.dir`,
`absBase` = `self.absolute_base` -/
def matchedIgnore (o : Opts) (levels : List Level) (curDir : Bytes) (absBase : Option Bytes)
    (explicit : List Gi) (global : Gi) (path : Bytes) (isDir : Bool) : M3 :=
  let anyGit := !o.requireGit || levels.any (·.hasGit)
  let a2 := foldLevels o levels curDir absBase path isDir
  let m_custom_ignore := a2.custom
  let m_ignore := a2.ignore
  let m_gi := a2.gi
  let m_gi_exclude := a2.exclude
  let m_explicit := explicitLoop explicit path isDir
  -- `IgnoreBuilder::build`: the global matcher is empty unless `git_global`
  let m_global := if anyGit then (if o.gitGlobal then global else Gi.empty).matched path isDir else .none
  m_custom_ignore.or (m_ignore.or (m_gi.or (m_gi_exclude.or (m_global.or m_explicit))))

/-- `Override::matched` (`ov` = the inner gitignore-style matcher, `numWhitelists` of that matcher) -/
def overrideMatched (ov : Gi) (numWhitelists : Nat) (path : Bytes) (isDir : Bool) : M3 :=
  if ov.globs.isEmpty then .none else
  let mat := (ov.matched path isDir).invert
  if mat.isNone && numWhitelists > 0 && !isDir then .ignore else mat

/-- ignore's `pathutil::file_name` -/
def fileNameOf (p : Bytes) : Option Bytes := Glob.fileName p

/-- `Types::matched`: `sel` = the globs of the selected types in selection order with their negation flag;
`hasSelected` -/
def typesMatched (sel : List (Bool × Glob)) (hasSelected : Bool) (path : Bytes) (isDir : Bool) : M3 :=
  if isDir || sel.isEmpty then .none else
  match fileNameOf path with
  | none => if hasSelected then .ignore else .none
  | some name =>
    match (setMatches (sel.map (·.2)) name).getLast? with
    | some i => match sel[i]? with
      | some (neg, _) => if neg then .ignore else .whitelist
      | none => .none
    | none => if hasSelected then .ignore else .none

/-- everything `Ignore::matched` consults besides the chain -/
structure Matchers where
  overrides : Gi
  overrideWhitelists : Nat
  types : List (Bool × Glob)
  typesSelected : Bool
  explicit : List Gi
  global : Gi
  deriving Repr

/-- `Ignore::matched` -/
def matched (o : Opts) (m : Matchers) (levels : List Level) (curDir : Bytes) (absBase : Option Bytes)
    (path0 : Bytes) (isDir : Bool) : M3 :=
  let path := (stripPrefix [46, 47] path0).getD path0
  let ov := if !m.overrides.globs.isEmpty then overrideMatched m.overrides m.overrideWhitelists path isDir else .none
  if !ov.isNone then ov else
  let ig := if hasAnyIgnoreRules o (!m.explicit.isEmpty)
            then matchedIgnore o levels curDir absBase m.explicit m.global path isDir else .none
  if ig.isIgnore then ig else
  let wl1 := if ig.isWhitelist then ig else M3.none
  let ty := if !m.types.isEmpty then typesMatched m.types m.typesSelected path isDir else .none
  if ty.isIgnore then ty else
  if ty.isWhitelist then ty else wl1

/-- `pathutil::is_hidden` (Unix) -/
def isHidden (path : Bytes) : Bool :=
  match fileNameOf path with
  | some name => name.head? == some 46
  | none => false

/-- `Ignore::matched_dir_entry` followed by `should_skip_entry`: is the entry skipped -/
def shouldSkip (o : Opts) (m : Matchers) (levels : List Level) (curDir : Bytes) (absBase : Option Bytes)
    (path : Bytes) (isDir : Bool) : Bool :=
  let r := matched o m levels curDir absBase path isDir
  let r := if r.isNone && o.hidden && isHidden path then M3.ignore else r
  r.isIgnore

/-- `Walk::skip_entry` as far as filtering goes: entries given on the command line (depth 0) are never
skipped; `haystack::is_explicit` then searches a depth-0 non-directory unconditionally -/
def skipEntry (o : Opts) (m : Matchers) (levels : List Level) (curDir : Bytes) (absBase : Option Bytes)
    (depth : Nat) (path : Bytes) (isDir : Bool) : Bool :=
  if depth == 0 then false else shouldSkip o m levels curDir absBase path isDir

/-! ### the command line (`hiargs.rs::walk_builder`) -/

structure Flags where
  hidden : Bool
  no_ignore_dot : Bool
  no_ignore_exclude : Bool
  no_ignore_files : Bool
  no_ignore_global : Bool
  no_ignore_parent : Bool
  no_ignore_vcs : Bool
  no_require_git : Bool
  deriving DecidableEq, Repr

def Flags.default : Flags := ⟨false, false, false, false, false, false, false, false⟩

/-- `--no-ignore` -/
def Flags.noIgnore (f : Flags) : Flags :=
  { f with no_ignore_dot := true, no_ignore_exclude := true, no_ignore_global := true, no_ignore_parent := true,
           no_ignore_vcs := true }

/-- `-u`, `-uu` (`-uuu` adds `--binary`, which does not concern the walk) -/
def Flags.unrestricted (f : Flags) (n : Nat) : Flags :=
  let f := if n ≥ 1 then f.noIgnore else f
  if n ≥ 2 then { f with hidden := true } else f

/-- one filter switch as it appears on the command line (`flags/defs.rs`): the switch and its negation
(`--hidden` / `--no-hidden`, `--no-ignore` / `--ignore`, `--no-ignore-dot` / `--ignore-dot`, …, `--no-require-git` /
`--require-git`; `v` = the value the switch sets), and `-u`, which has no negation -/
inductive FlagTok where
  | hidden (v : Bool) | noIgnore (v : Bool) | noIgnoreDot (v : Bool) | noIgnoreExclude (v : Bool)
  | noIgnoreFiles (v : Bool) | noIgnoreGlobal (v : Bool) | noIgnoreParent (v : Bool) | noIgnoreVcs (v : Bool)
  | noRequireGit (v : Bool) | unrestricted
  deriving Repr, DecidableEq

/-- `LowArgs` as far as the walk is concerned: the switches and the `-u` counter -/
structure FlagState where
  f : Flags
  u : Nat
  deriving Repr, DecidableEq

/-- each flag's `update`: a switch overwrites its field(s); `--no-ignore`/`--ignore` overwrite the five fields
dot, exclude, global, parent, vcs; the n-th `-u` is `--no-ignore` (n = 1), `--hidden` (n = 2), `--binary` (n = 3) -/
def applyTok (s : FlagState) : FlagTok → FlagState
  | .hidden v => { s with f := { s.f with hidden := v } }
  | .noIgnore v => { s with f := { s.f with no_ignore_dot := v, no_ignore_exclude := v, no_ignore_global := v,
                                            no_ignore_parent := v, no_ignore_vcs := v } }
  | .noIgnoreDot v => { s with f := { s.f with no_ignore_dot := v } }
  | .noIgnoreExclude v => { s with f := { s.f with no_ignore_exclude := v } }
  | .noIgnoreFiles v => { s with f := { s.f with no_ignore_files := v } }
  | .noIgnoreGlobal v => { s with f := { s.f with no_ignore_global := v } }
  | .noIgnoreParent v => { s with f := { s.f with no_ignore_parent := v } }
  | .noIgnoreVcs v => { s with f := { s.f with no_ignore_vcs := v } }
  | .noRequireGit v => { s with f := { s.f with no_require_git := v } }
  | .unrestricted =>
    let u := s.u + 1
    if u == 1 then { f := { s.f with no_ignore_dot := true, no_ignore_exclude := true, no_ignore_global := true,
                                     no_ignore_parent := true, no_ignore_vcs := true }, u := u }
    else if u == 2 then { f := { s.f with hidden := true }, u := u }
    else { s with u := u }

/-- the flags a command line amounts to: the switches are applied from left to right -/
def foldToks (toks : List FlagTok) : Flags := (toks.foldl applyTok ⟨Flags.default, 0⟩).f

/-- the `WalkBuilder` settings -/
def walkOpts (f : Flags) : Opts :=
  { hidden := !f.hidden,
    parents := !f.no_ignore_parent,
    ignore := !f.no_ignore_dot,
    gitGlobal := !f.no_ignore_vcs && !f.no_ignore_global,
    gitIgnore := !f.no_ignore_vcs,
    gitExclude := !f.no_ignore_vcs && !f.no_ignore_exclude,
    requireGit := !f.no_require_git,
    hasCustomNames := !f.no_ignore_dot }          -- `.rgignore` is added unless `--no-ignore-dot`

/-- are the `--ignore-file` arguments handed to the builder -/
def useIgnoreFiles (f : Flags) : Bool := !f.no_ignore_files

/-! ### one walk root (`walk.rs`: `add_parents(root)`, then `add_child` per directory entered) -/

/-- `Path::join` for a relative component -/
def joinName (dir name : Bytes) : Bytes :=
  if dir.getLast? == some 47 || dir.isEmpty then dir ++ name else dir ++ [47] ++ name

/-- all proper ancestors of an absolute path, nearest first (`while let Some(parent) = path.parent()`) -/
def ancestors (p : Bytes) : List Bytes :=
  let rec go : Nat → Bytes → List Bytes
    | 0, _ => []
    | fuel + 1, p =>
      if p == [47] || p.isEmpty then [] else
      let cut := ((p.reverse.dropWhile (· != 47)).drop 1).reverse
      let parent := if cut.isEmpty then [47] else cut
      parent :: go fuel parent
  go (p.length + 1) p

/-- the world as one walk sees it -/
structure World where
  opts : Opts
  m : Matchers
  rootGiven : Bytes                       -- the root as written on the command line (`./` by default)
  rootAbs : Bytes                         -- its canonical absolute path
  files : Bytes → DirFiles                -- rule files of a directory, by absolute path (`dir` is overwritten)
  /-- `false` = the code as it is; `true` = the re-basing the documentation implies (the path below the
  search root is appended to the absolute base), used only to state the known finding -/
  fixRebase : Bool := false

/-- the matchers of a directory are rooted at the path the walker uses for it
(`GitignoreBuilder::new(dir)` strips a leading `./`) -/
def DirFiles.withDir (d : DirFiles) (dir : Bytes) : DirFiles :=
  let root := (stripPrefix [46, 47] dir).getD dir
  { dir := dir, dotGit := d.dotGit,
    custom := { d.custom with root := root }, ignore := { d.ignore with root := root },
    gitignore := { d.gitignore with root := root }, exclude := { d.exclude with root := root } }

/-- `self.parents()` for the matcher of the directory `rootGiven/comps`: the directories of this walk nearest
first, then (if `add_parents` did anything) the absolute parents of the root -/
def chainFor (w : World) (comps : List Bytes) : List Level × Bytes :=
  let dirAt (k : Nat) : Bytes × Bytes :=
    ((comps.take k).foldl joinName w.rootGiven, (comps.take k).foldl joinName w.rootAbs)
  let mine := (List.range (comps.length + 1)).reverse.map fun k =>
    childLevel w.opts ((w.files (dirAt k).2).withDir (dirAt k).1)
  let above := if wantsParents w.opts then
      (ancestors w.rootAbs).map fun a => parentLevel w.opts ((w.files a).withDir a)
    else []
  (mine ++ above, (dirAt comps.length).1)

/-- is the entry `rootGiven/comps` (depth = `comps.length ≥ 1`) skipped when the walker meets it -/
def entrySkipped (w : World) (comps : List Bytes) (isDir : Bool) : Bool :=
  let (levels, curDir) := chainFor w comps.dropLast
  let absBase := if wantsParents w.opts then some w.rootAbs else none
  skipEntry w.opts w.m levels (if w.fixRebase then w.rootGiven else curDir) absBase comps.length
    (comps.foldl joinName w.rootGiven) isDir

/-- the walker yields the entry iff neither it nor any directory on the way down was skipped -/
def entryVisited (w : World) (comps : List Bytes) (isDir : Bool) : Bool :=
  (List.range comps.length).all fun i =>
    !entrySkipped w (comps.take (i + 1)) (if i + 1 == comps.length then isDir else true)

end RgVerif.IgnoreDir
