import RgVerif.Model.Printer
/-
Model of `crates/printer/src/summary.rs` (`SummarySink::{begin, matched, finish}` for the five kinds),
of the mode normalisation in `crates/core/flags/hiargs.rs` (`from_low_args`, `printer`, `stats`) and of the
aggregation over files in `crates/core/main.rs` (`search`, exit status in `run`).
Colour, hyperlinks and binary detection are off.
-/
namespace RgVerif.Summary
open RgVerif RgVerif.Matcher RgVerif.Replace RgVerif.Json RgVerif.Printer

inductive Kind where
  | count | countMatches | pathWithMatch | pathWithoutMatch | quiet
  deriving Repr, DecidableEq

/-- `SummaryKind::requires_stats` -/
def Kind.requiresStats : Kind → Bool
  | .countMatches => true
  | _ => false

/-- `SummaryKind::quit_early` -/
def Kind.quitEarly : Kind → Bool
  | .pathWithMatch | .quiet => true
  | _ => false

structure SumCfg where
  kind : Kind := .count
  /-- `config.stats` as given to the builder; `SummaryBuilder::build` ors in `kind.requires_stats()` -/
  stats : Bool := false
  path : Option Bytes := none
  maxMatches : Option Nat := none
  excludeZero : Bool := true
  sepField : Bytes := [58]
  pathTerminator : Option Nat := none
  deriving Repr

/-- whether the sink carries a `Stats` (`Summary::sink*`: `config.stats || kind.requires_stats()`) -/
def SumCfg.hasStats (c : SumCfg) : Bool := c.stats || c.kind.requiresStats

structure SumState where
  out : Bytes := []
  matchCount : Nat := 0
  stats : Option Stats := none
  deriving Repr

/-- `SummarySink::matched` -/
def sumMatched (sc : SCfg) (c : SumCfg) (find : Oracle) (st : SumState) (buf : Bytes) (rs re : Nat) :
    SumState × Bool :=
  -- when inverting, every call reports lines without a match: count the calls
  let isMultiLine := sc.multiLine && !sc.invert
  let sinkMatchCount :=
    if st.stats.isNone && !isMultiLine then 1
    else (findIterInContext sc find buf rs re).length
  let mc := if isMultiLine then st.matchCount + sinkMatchCount else st.matchCount + 1
  match st.stats with
  | some s =>
    let s := { s with matchCount := s.matchCount + sinkMatchCount
                    , matchedLines := s.matchedLines + (splitLines sc.lt.asByte (slice buf rs re)).length }
    ({ st with matchCount := mc, stats := some s },
      !(match c.maxMatches with | none => false | some l => mc ≥ l))
  | none =>
    if c.kind.quitEarly then ({ st with matchCount := mc }, false)
    else ({ st with matchCount := mc }, !(match c.maxMatches with | none => false | some l => mc ≥ l))

/-- `context` and `context_break` are the trait defaults (`Ok(true)`). -/
def sumEvent (sc : SCfg) (c : SumCfg) (find : Oracle) (st : SumState) : Event → SumState × Bool
  | .matched buf rs re _ _ => sumMatched sc c find st buf rs re
  | .context _ _ _ _ => (st, true)
  | .contextBreak => (st, true)

def sumEvents (sc : SCfg) (c : SumCfg) (find : Oracle) : SumState → List Event → SumState
  | st, [] => st
  | st, ev :: rest =>
    let (st', cont) := sumEvent sc c find st ev
    if cont then sumEvents sc c find st' rest else st'

/-- `write_path_field` -/
def writePathField (c : SumCfg) : Bytes :=
  match c.path with
  | none => []
  | some p => p ++ (match c.pathTerminator with | some t => [t] | none => c.sepField)

/-- `write_path_line` -/
def writePathLine (lt : LineTerm) (c : SumCfg) : Bytes :=
  match c.path with
  | none => []
  | some p => p ++ (match c.pathTerminator with | some t => [t] | none => lt.bytes)

/-- `SummarySink::finish` without binary data. `u64::to_string` is the decimal rendering. -/
def sumFinish (sc : SCfg) (c : SumCfg) (st : SumState) (byteCount : Nat) : SumState :=
  let showCount := !c.excludeZero || st.matchCount > 0
  let w : Bytes :=
    match c.kind with
    | .count => if showCount then writePathField c ++ decimal st.matchCount ++ sc.lt.bytes else []
    | .countMatches =>
      if showCount then writePathField c ++ decimal ((st.stats.getD {}).matchCount) ++ sc.lt.bytes else []
    | .pathWithMatch => if st.matchCount > 0 then writePathLine sc.lt c else []
    | .pathWithoutMatch => if st.matchCount == 0 then writePathLine sc.lt c else []
    | .quiet => []
  let stats := st.stats.map fun s =>
    { s with searches := s.searches + 1
           , searchesWithMatch := s.searchesWithMatch + (if st.matchCount > 0 then 1 else 0)
           -- `bytes_printed` adds `wtr.count()`, read before the summary line is written: 0
           , bytesSearched := s.bytesSearched + byteCount }
  { st with out := st.out ++ w, stats }

/-- One search with a fresh `SummarySink`; `begin` stops at once when `max_matches == Some(0)`. -/
def sumSearch (sc : SCfg) (c : SumCfg) (find : Oracle) (evs : List Event) (byteCount : Nat) : SumState :=
  let st0 : SumState := { stats := if c.hasStats then some {} else none }
  let st1 := if c.maxMatches == some 0 then st0 else sumEvents sc c find st0 evs
  sumFinish sc c st1 byteCount

/-- `SummarySink::has_match` -/
def sumHasMatch (c : SumCfg) (st : SumState) : Bool :=
  match c.kind with
  | .pathWithoutMatch => st.matchCount == 0
  | _ => st.matchCount > 0

/-! ### Mode normalisation (`hiargs.rs`) -/

inductive Mode where
  | standard | count | countMatches | filesWithMatches | filesWithoutMatch | json
  deriving Repr, DecidableEq

/-- `HiArgs::from_low_args`: `-v --count-matches ⇒ --count`; `-o --count ⇒ --count-matches` unless `-v`
(then it would be turned back into `--count`). -/
def normalizeMode (mode : Mode) (invert onlyMatching : Bool) : Mode :=
  match mode with
  | .countMatches => if invert then .count else .countMatches
  | .count => if onlyMatching && !invert then .countMatches else .count
  | m => m

/-- which printer `HiArgs::printer` builds: `none` = Standard, `some none` = JSON, `some (some k)` = Summary k -/
def printerFor (quiet : Bool) (mode : Mode) : Option (Option Kind) :=
  if quiet then some (some .quiet)
  else match mode with
    | .filesWithMatches => some (some .pathWithMatch)
    | .filesWithoutMatch => some (some .pathWithoutMatch)
    | .count => some (some .count)
    | .countMatches => some (some .countMatches)
    | .json => some none
    | .standard => none

/-- `hiargs::stats`: stats are tracked with `--stats` or in JSON mode. -/
def statsOn (statsFlag : Bool) (mode : Mode) : Bool := statsFlag || mode == .json

/-! ### Aggregation over files (`main.rs::search`, `run`) -/

/-- what `main.rs` reads from one `SearchResult` -/
structure FileResult where
  hasMatch : Bool
  stats : Option Stats
  deriving Repr

/-- the `for haystack in haystacks` loop: `matched`, summed stats, and the number of files searched
(`quit_after_match` stops after the first file that makes `matched` true). -/
def aggregate (quitAfterMatch : Bool) (statsOn : Bool) : List FileResult → Bool × Option Stats → Bool × Option Stats
  | [], acc => acc
  | r :: rest, (matched, stats) =>
    let matched := matched || r.hasMatch
    let stats := stats.map fun s => s.add (r.stats.getD {})
    if matched && quitAfterMatch then (matched, stats)
    else aggregate quitAfterMatch statsOn rest (matched, stats)

def searchAll (quitAfterMatch : Bool) (statsOn : Bool) (rs : List FileResult) : Bool × Option Stats :=
  aggregate quitAfterMatch statsOn rs (false, if statsOn then some {} else none)

/-- exit status of `run` -/
def exitCode (matched quiet errored : Bool) : Nat :=
  if matched && (quiet || !errored) then 0 else if errored then 2 else 1

end RgVerif.Summary
