import RgVerif.Model.Gitignore
/-
`GitignoreBuilder::add`: how an ignore FILE becomes the lines handed to `add_line`.
`BufReader::lines()`: chunks up to and including each `\n`; a chunk must be valid UTF-8 (`str::from_utf8`), otherwise
the iterator yields an `InvalidData` error: that line is lost, the loop `continue`s with the next one (since 234ccee;
before that `add` stopped reading there).  One trailing `\n`, then one trailing `\r`, are removed from every line, the last one included (since 3df4263;
`BufRead::lines` left the `\r` of a last line without `\n`).  On the first line one leading U+FEFF is dropped (since
e983cb6, like git's `skip_utf8_bom`).  Up to decoding this is `GitSpec.readLines`.
-/
namespace RgVerif.Gitignore
open RgVerif

def isCont (b : Nat) : Bool := 0x80 ≤ b && b ≤ 0xBF

/-- one scalar value from the front, as `str::from_utf8` accepts it (no overlong forms, no surrogates, ≤ U+10FFFF) -/
def decodeOne : Bytes → Option (Nat × Bytes)
  | [] => none
  | b0 :: r =>
    if b0 < 0x80 then some (b0, r)
    else if 0xC2 ≤ b0 && b0 ≤ 0xDF then
      match r with
      | b1 :: r => if isCont b1 then some ((b0 - 0xC0) * 64 + (b1 - 0x80), r) else none
      | _ => none
    else if 0xE0 ≤ b0 && b0 ≤ 0xEF then
      match r with
      | b1 :: b2 :: r =>
        if isCont b1 && isCont b2 && !(b0 == 0xE0 && b1 < 0xA0) && !(b0 == 0xED && b1 > 0x9F) then
          some ((b0 - 0xE0) * 4096 + (b1 - 0x80) * 64 + (b2 - 0x80), r)
        else none
      | _ => none
    else if 0xF0 ≤ b0 && b0 ≤ 0xF4 then
      match r with
      | b1 :: b2 :: b3 :: r =>
        if isCont b1 && isCont b2 && isCont b3 && !(b0 == 0xF0 && b1 < 0x90) && !(b0 == 0xF4 && b1 > 0x8F) then
          some ((b0 - 0xF0) * 262144 + (b1 - 0x80) * 4096 + (b2 - 0x80) * 64 + (b3 - 0x80), r)
        else none
      | _ => none
    else none

/-- `str::from_utf8` -/
def decodeUtf8 : Nat → Bytes → Option (List Nat)
  | 0, b => if b.isEmpty then some [] else none
  | _ + 1, [] => some []
  | f + 1, b =>
    match decodeOne b with
    | none => none
    | some (c, r) => (decodeUtf8 f r).map (c :: ·)

/-- the chunks `read_line` returns: each ends with `\n`, except possibly the last; no empty chunk -/
def readChunks : Bytes → Bytes → List Bytes
  | [], cur => if cur.isEmpty then [] else [cur]
  | b :: rest, cur => if b == 10 then (cur ++ [10]) :: readChunks rest [] else readChunks rest (cur ++ [b])

/-- the line without its terminator (3df4263, `read_line` + two `strip_suffix`): one trailing `\n` if present, then
one trailing `\r` if present — also when the file ends without `\n` (like git, which supplies the missing line feed) -/
def stripEol (l : List Nat) : List Nat :=
  let l := if l.getLast? == some 10 then l.dropLast else l
  if l.getLast? == some 13 then l.dropLast else l

/-- `line.strip_prefix('\u{FEFF}')` on the line with index 0 -/
def stripBomAt (i : Nat) (l : List Nat) : List Nat :=
  if i == 0 && l.head? == some 0xFEFF then l.drop 1 else l

/-- the `for (i, line) in rdr.lines().enumerate()` loop of `GitignoreBuilder::add`: a chunk that is not UTF-8 is
skipped (it still counts for `i`) -/
def linesFrom : Nat → List Bytes → List (List Nat)
  | _, [] => []
  | i, ch :: rest =>
    match decodeUtf8 ch.length ch with
    | none => linesFrom (i + 1) rest
    | some cps => stripBomAt i (stripEol cps) :: linesFrom (i + 1) rest

/-- the lines of an ignore file as `add_line` receives them -/
def rgReadLines (content : Bytes) : List (List Nat) := linesFrom 0 (readChunks content [])

end RgVerif.Gitignore
