import RgVerif.Model.Sx
/-
Model of `crates/searcher/src/line_buffer.rs` (`LineBuffer`, `LineBufferReader`), function by
function.

State abstraction (the only one): the Rust `buf: Vec<u8>` is split into its *filled* part
`buf = vec[0..end]` (so `end = buf.length`) and its total length `len = vec.len()`.  The bytes of
the free space `vec[end..]` are never read before `read()` overwrote them (`newbytes` is
`vec[oldend..end]` *after* the read), so their value is unobservable.

A reader is `(data, script)`: the bytes it still holds and the scripted outcomes of the next
`read()` calls (`ret n`: return at most `n` bytes, `intr`: fail with `ErrorKind::Interrupted`,
which `fill` retries);
when the script is exhausted a read returns as much as fits.
-/
namespace RgVerif.LineBuffer
open RgVerif

/-- `line_buffer::BinaryDetection`. -/
inductive BinDet where
  | none
  | quit (b : Nat)
  | convert (b : Nat)
  deriving Repr, DecidableEq, Inhabited

/-- `BinaryDetection::is_quit`. -/
def BinDet.isQuit : BinDet → Bool
  | .quit _ => true
  | _ => false

/-- `line_buffer::BufferAllocation`. -/
inductive Alloc where
  | eager
  | error (limit : Nat)
  deriving Repr, DecidableEq, Inhabited

/-- `line_buffer::Config`. -/
structure Config where
  capacity : Nat
  lineterm : Nat
  alloc : Alloc
  binary : BinDet
  deriving Repr, Inhabited

/-- `line_buffer::LineBuffer`; `buf` is `vec[0..end]`, `len` is `vec.len()`. -/
structure LB where
  cfg : Config
  buf : Bytes
  len : Nat
  pos : Nat
  last : Nat
  abs : Nat
  binOff : Option Nat
  deriving Repr, Inhabited

/-- `LineBufferBuilder::build` followed by `clear` (what `LineBufferReader::new` hands out). -/
def LB.init (cfg : Config) : LB :=
  { cfg := cfg, buf := [], len := cfg.capacity, pos := 0, last := 0, abs := 0, binOff := none }

/-- `LineBuffer::clear` (called by `LineBufferReader::new` when the buffer gets a new reader): the
vector keeps the length it has grown to. -/
def LB.clear (s : LB) : LB :=
  { s with buf := [], pos := 0, last := 0, abs := 0, binOff := none }

/-- `LineBuffer::buffer`: `&self.buf[self.pos..self.last_lineterm]`. -/
def LB.buffer (s : LB) : Bytes := (s.buf.take s.last).drop s.pos

/-- `LineBuffer::consume`; `none` is the failed `assert!(amt <= self.buffer().len())`. -/
def LB.consume (s : LB) (amt : Nat) : Option LB :=
  if amt ≤ s.buffer.length then some { s with pos := s.pos + amt, abs := s.abs + amt } else none

/-- `LineBuffer::roll`. -/
def LB.roll (s : LB) : LB :=
  if s.pos = s.buf.length then
    { s with pos := 0, last := 0, buf := [] }
  else
    let rollLen := s.buf.length - s.pos
    { s with buf := s.buf.drop s.pos, pos := 0, last := rollLen }

/-- `ensure_capacity`: `let len = std::cmp::max(1, self.buf.len());` (source-anchored, checks/C02.json) -/
def growBase : Nat := 1
/-- `ensure_capacity`: `BufferAllocation::Eager => len * 2` and `min(len * 2, limit - used)` (source-anchored) -/
def growFactor : Nat := 2

/-- `LineBuffer::ensure_capacity`; `none` is `alloc_error`. -/
def LB.ensureCapacity (s : LB) : Option LB :=
  if s.buf.length < s.len then some s
  else
    let len := max growBase s.len
    match s.cfg.alloc with
    | .eager => some { s with len := s.len + len * growFactor }
    | .error limit =>
      let used := s.len - s.cfg.capacity
      let n := min (len * growFactor) (limit - used)
      if n = 0 then none else some { s with len := s.len + n }

/-! ### byte search helpers (`bstr::ByteSlice::{find_byte, rfind_byte}`) -/

def findByte (b : Nat) : Bytes → Option Nat
  | [] => none
  | x :: xs => if x = b then some 0 else (findByte b xs).map (· + 1)

def rfindByte (b : Nat) : Bytes → Option Nat
  | [] => none
  | x :: xs =>
    match rfindByte b xs with
    | some i => some (i + 1)
    | none => if x = b then some 0 else none

/-- what one byte becomes under `Convert(b)` with terminator `lt`. -/
def convByte (b lt x : Nat) : Nat := if x = b then lt else x

/-- The `while let Some(i) = bytes.find_byte(src)` loop of `replace_bytes` (with its inner
run-skipping loop): every later occurrence is overwritten, every other byte is left alone. -/
def replaceTail (src repl : Nat) : Bytes → Bytes
  | [] => []
  | x :: xs => (if x = src then repl else x) :: replaceTail src repl xs

/-- `line_buffer::replace_bytes`: new contents and the offset of the first replacement. -/
def replaceBytes (bytes : Bytes) (src repl : Nat) : Bytes × Option Nat :=
  if src = repl then (bytes, none)
  else
    match findByte src bytes with
    | none => (bytes, none)
    | some first =>
      (bytes.take first ++ repl :: replaceTail src repl (bytes.drop (first + 1)), some first)

/-! ### the reader -/

inductive Step where
  | ret (n : Nat)
  | intr
  deriving Repr, DecidableEq, Inhabited

structure Reader where
  data : Bytes
  script : List Step
  /-- bytes at the head of `data` that a BOM peeker in front of the reader has already pulled out
  of it (`encoding_rs_io::BomPeeker`, always in front of `search_reader`): they are handed out
  first, limited only by the caller's buffer. `0` for a bare reader. -/
  bom : Nat := 0
  deriving Repr, Inhabited

inductive ReadRes where
  | bytes (bs : Bytes)
  | interrupted
  deriving Repr

/-- One `read(&mut free_buffer)` call with `free = free_buffer.len()`. -/
def Reader.read (r : Reader) (free : Nat) : ReadRes × Reader :=
  if r.bom > 0 then
    let k := min free (min r.bom r.data.length)
    (.bytes (r.data.take k), { r with data := r.data.drop k, bom := r.bom - k })
  else
  match r.script with
  | [] =>
    let k := min free r.data.length
    (.bytes (r.data.take k), { r with data := r.data.drop k })
  | .intr :: rest => (.interrupted, { r with script := rest })
  | .ret n :: rest =>
    let k := min n (min free r.data.length)
    (.bytes (r.data.take k), { data := r.data.drop k, script := rest, bom := 0 })

/-- `encoding_rs_io::util::read_full` on a 3-byte buffer, run by `BomPeeker::peek_bom` at the first
`read`: how many bytes it gets (`need` still wanted, `rem` bytes left in the reader) and what is left
of the script (interrupted reads are retried, a 0-byte read ends it). -/
def readFull : Nat → Nat → Nat → List Step → Nat × List Step
  | 0, _, _, sc => (0, sc)
  | fuel + 1, need, rem, sc =>
    if need = 0 then (0, sc)
    else
      match sc with
      | [] => (min need rem, [])
      | .intr :: rest => readFull fuel need rem rest
      | .ret n :: rest =>
        let k := min n (min need rem)
        if k = 0 then (0, rest)
        else
          let (g, sc') := readFull fuel (need - k) (rem - k) rest
          (k + g, sc')

/-- `encoding_rs_io` 0.1.7 `util.rs`: `let mut buf = [0u8; 3];` in `BomPeeker::peek_bom` (the crate
version is source-anchored through `/repo/Cargo.lock`, checks/C02.json) -/
def bomPeekLen : Nat := 3
/-- the `encoding_rs_io` release whose `BomPeeker` is modelled here (source-anchored) -/
def bomPeekerCrateVersion : String := "0.1.7"

/-- The reader as `search_reader` sees it through the pass-through decoder (no BOM, no encoding):
the first up to 3 bytes were pulled out by the peeker. -/
def Reader.withBomPeek (r : Reader) : Reader :=
  let (got, sc) := readFull (r.script.length + 4) bomPeekLen r.data.length r.script
  { data := r.data, script := sc, bom := got }

/-! ### fill -/

inductive FillRes where
  | ok (more : Bool)
  | allocErr
  | fuel
  deriving Repr, DecidableEq, Inhabited

/-- Outcome of the `match self.config.binary` block on the freshly read bytes. -/
inductive Detect where
  | quitAt (i : Nat)
  | cont (newbytes : Bytes) (binOff : Option Nat)

def LB.detect (s : LB) (oldend : Nat) (nb : Bytes) : Detect :=
  match s.cfg.binary with
  | .none => .cont nb s.binOff
  | .quit b =>
    match findByte b nb with
    | some i => .quitAt i
    | none => .cont nb s.binOff
  | .convert b =>
    match replaceBytes nb b s.cfg.lineterm with
    | (nb', some i) =>
      .cont nb' (if s.binOff.isNone then some (s.abs + (oldend + i)) else s.binOff)
    | (nb', none) => .cont nb' s.binOff

/-- The `loop { … }` of `LineBuffer::fill`. -/
def fillLoop : Nat → LB → Reader → LB × Reader × FillRes
  | 0, s, r => (s, r, .fuel)
  | fuel + 1, s, r =>
    match s.ensureCapacity with
    | none => (s, r, .allocErr)
    | some s =>
      match r.read (s.len - s.buf.length) with
      | (.interrupted, r) => fillLoop fuel s r   -- `ErrorKind::Interrupted => continue` (fix e7fdda2)
      | (.bytes nb, r) =>
        if nb.length = 0 then
          let s := { s with last := s.buf.length }
          (s, r, .ok (!s.buffer.isEmpty))
        else
          let oldend := s.buf.length
          match s.detect oldend nb with
          | .quitAt i =>
            let s := { s with buf := s.buf ++ nb.take i, last := oldend + i,
                              binOff := some (s.abs + (oldend + i)) }
            (s, r, .ok (decide (s.pos < oldend + i)))
          | .cont nb' bo =>
            let s := { s with buf := s.buf ++ nb', binOff := bo }
            match rfindByte s.cfg.lineterm nb' with
            | some i => ({ s with last := oldend + i + 1 }, r, .ok true)
            | none => fillLoop fuel s r

/-- `LineBuffer::fill`.  Every iteration of the loop that does not return consumes at least one
byte of the reader or one scripted `Interrupted`, so `data.length + script.length + 1` iterations
suffice (`fill_progress` in Props/C02).  (A reader that is interrupted for ever keeps the real
loop spinning; a script is finite.) -/
def LB.fill (s : LB) (r : Reader) : LB × Reader × FillRes :=
  if s.cfg.binary.isQuit && s.binOff.isSome then (s, r, .ok (!s.buffer.isEmpty))
  else fillLoop (r.data.length + r.script.length + 1) s.roll r

/-! ### op sequences (what a caller of `LineBufferReader` can do) -/

inductive Op where
  | fill
  | consume (n : Nat)
  deriving Repr, DecidableEq, Inhabited

/-- Run an op sequence; an invalid `consume` (the Rust `assert!` would panic) ends the run. -/
def run : LB → Reader → List Op → LB × Reader
  | s, r, [] => (s, r)
  | s, r, .fill :: ops =>
    let (s, r, _) := s.fill r
    run s r ops
  | s, r, .consume n :: ops =>
    match s.consume n with
    | some s => run s r ops
    | none => (s, r)

/-- The buffer state reached by an op sequence from a fresh buffer on the reader `(inp, script)`. -/
def reach (cfg : Config) (inp : Bytes) (script : List Step) (ops : List Op) : LB :=
  (run (LB.init cfg) ⟨inp, script, 0⟩ ops).1

/-! ### what the caller is promised to see (spec side) -/

/-- The input as seen through binary detection: untouched, cut at the first `b`, or with every
`b` turned into the line terminator. -/
def view (cfg : Config) (inp : Bytes) : Bytes :=
  match cfg.binary with
  | .none => inp
  | .quit b => inp.takeWhile (fun x => x != b)
  | .convert b => inp.map (convByte b cfg.lineterm)

/-- The window `[a, a+n)` of a byte string. -/
def window (xs : Bytes) (a n : Nat) : Bytes := (xs.drop a).take n

end RgVerif.LineBuffer
