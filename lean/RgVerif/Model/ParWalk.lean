/-
C07 — model of the parallel walker's work-stealing / termination protocol
(`crates/ignore/src/walk.rs`: `WalkParallel::visit`, `Stack::{new_for_each_thread,push,pop,steal}`,
`Worker::{run,run_one,get_work,recv,send,send_quit,is_quit_now,quit_now,deactivate_worker,
activate_worker}`).

A labelled transition system.  One *atomic step* is the code a worker executes between two
synchronisation points (the places where the `verif-hooks` yield hook is called, refined so that
each steal attempt on one victim is its own step).  Any worker may take any enabled step, so a
statement proved for every `Reachable` state holds under every interleaving.

The directory tree is a rose tree of labelled entries.  A `Work` message carries the subtree rooted
at its entry (what `read_dir` would list below it, after the filters of C06 — which entries are
generated is C06's business, here only the hand-over protocol matters).
-/
namespace RgVerif.ParWalk

/-- Identity of an entry: its path (a list of name codes; the harness uses one-element labels). -/
abbrev Label := List Nat

/-- An entry (label = identity of the path) with the entries `generate_work` would send for it. -/
inductive Tree where
  | node (label : Label) (kids : List Tree)
  deriving Inhabited

def Tree.label : Tree → Label
  | .node l _ => l

def Tree.kids : Tree → List Tree
  | .node _ ks => ks

mutual
/-- All entries of a tree (pre-order). -/
def Tree.entries : Tree → List Label
  | .node l ks => l :: entriesL ks
/-- All entries of a forest. -/
def entriesL : List Tree → List Label
  | [] => []
  | t :: ts => t.entries ++ entriesL ts
end

/-- `enum Message { Work(Work), Quit }` -/
inductive Msg where
  | work (t : Tree)
  | quit
  deriving Inhabited

/-- Program counter of one worker: the synchronisation point it is parked at, together with the
thread-local data that is live there (message / work in hand, children still to be sent).

`recv w` / `steal w vs`: inside `Stack::pop` (own LIFO end) resp. `Stack::steal` (victims `vs` still
to be tried in this round); `w = true` when called from the idle loop of `get_work` (after
`deactivate_worker`), `false` for the first `recv()` of `get_work`.
The Boolean of `sendQuit/exiting/exited` is ghost: whether the worker is still counted in
`active_workers` (it is not after its own `deactivate_worker()` returned 0). -/
inductive Pc where
  | recv (wait : Bool)
  | steal (wait : Bool) (vs : List Nat)
  | activate (m : Msg)
  | check (v : Option Msg)
  | hold (t : Tree)
  | running (kids : List Tree)
  | setQuit
  | deact
  | sleep
  | sendQuit (counted : Bool)
  | exiting (counted : Bool)
  | exited (counted : Bool)
  deriving Inhabited

/-- Function update (worker-indexed state components are functions `Nat → _`). -/
def upd {α : Type} (f : Nat → α) (i : Nat) (v : α) : Nat → α :=
  fun j => if j = i then v else f j

structure State where
  /-- per-worker program counter -/
  pc : Nat → Pc
  /-- per-worker deque; head = newest (the owner's LIFO end), last = oldest (the stealers' end) -/
  dq : Nat → List Msg
  /-- `active_workers` -/
  active : Nat
  /-- `quit_now` -/
  quitNow : Bool
  /-- ghost: some visitor call has returned `WalkState::Quit` -/
  quitAsked : Bool
  /-- labels handed to visitor calls, in order -/
  visited : List Label

/-- Victims in the order `Stack::steal` tries them: `index+1 … n-1, 0 … index-1`. -/
def order (n w : Nat) : List Nat :=
  (List.range' (w + 1) (n - (w + 1))) ++ List.range' 0 (min w n)

/-- `if self.deactivate_worker() == 0` in `get_work`: the value of the counter at which a worker concludes
that nothing is left and broadcasts `Quit` (source-anchored: bin/check re-extracts it from walk.rs). -/
def quiescentCount : Nat := 0

/-- `fetch_sub(1, …)` / `fetch_add(1, …)` in `deactivate_worker` / `activate_worker` (source-anchored). -/
def counterStep : Nat := 1

/-- Where a received message goes: `activate_worker()` first when received in the idle loop. -/
def afterRecv (wait : Bool) (m : Msg) : Pc :=
  if wait then .activate m else .check (some m)

/-- One atomic step of worker `w`.  `n` is the number of workers.  (Every rule ends with the two
premises `w < n` and `s.pc w = …`; side conditions come first.) -/
inductive Step (n : Nat) : State → Nat → State → Prop where
  /-- `self.deque.pop()` returns a message -/
  | popOk {s : State} {w : Nat} {b : Bool} {m : Msg} {d : List Msg} :
      s.dq w = m :: d → w < n → s.pc w = .recv b →
      Step n s w { s with pc := upd s.pc w (afterRecv b m), dq := upd s.dq w d }
  /-- `self.deque.pop()` returns `None`; `Stack::steal` is entered -/
  | popEmpty {s : State} {w : Nat} {b : Bool} :
      s.dq w = [] → w < n → s.pc w = .recv b →
      Step n s w { s with pc := upd s.pc w (.steal b (order n w)) }
  /-- `steal_batch_and_pop` on victim `v` succeeds: the `rest.length + 1` oldest messages of `v`
  are taken; the newest of them (`m`) is returned, the others are pushed on the thief's deque
  oldest first (crossbeam-deque 0.8.5, LIFO flavour).  The batch size is arbitrary. -/
  | stealOk {s : State} {w v : Nat} {b : Bool} {vs : List Nat} {keep rest : List Msg} {m : Msg} :
      v < n → v ≠ w → s.dq v = keep ++ m :: rest → w < n → s.pc w = .steal b (v :: vs) →
      Step n s w { s with pc := upd s.pc w (afterRecv b m),
                          dq := upd (upd s.dq v keep) w (rest ++ s.dq w) }
  /-- the steal on victim `v` yields `Empty` or `Retry` (allowed at any time: spurious failure) -/
  | stealFail {s : State} {w v : Nat} {b : Bool} {vs : List Nat} :
      w < n → s.pc w = .steal b (v :: vs) →
      Step n s w { s with pc := upd s.pc w (.steal b vs) }
  /-- all victims tried: `recv()` returns `None` -/
  | stealDone {s : State} {w : Nat} {b : Bool} :
      w < n → s.pc w = .steal b [] →
      Step n s w { s with pc := upd s.pc w (if b then .sleep else .check none) }
  /-- `std::thread::sleep(1ms)` then `recv()` again -/
  | sleep {s : State} {w : Nat} :
      w < n → s.pc w = .sleep →
      Step n s w { s with pc := upd s.pc w (.recv true) }
  /-- `activate_worker()` -/
  | activate {s : State} {w : Nat} {m : Msg} :
      w < n → s.pc w = .activate m →
      Step n s w { s with pc := upd s.pc w (.check (some m)), active := s.active + counterStep }
  /-- `is_quit_now()` reads `true`: whatever was received is replaced by `Quit` -/
  | checkQuitNow {s : State} {w : Nat} {v : Option Msg} :
      s.quitNow = true → w < n → s.pc w = .check v →
      Step n s w { s with pc := upd s.pc w (.sendQuit true) }
  | checkWork {s : State} {w : Nat} {t : Tree} :
      s.quitNow = false → w < n → s.pc w = .check (some (.work t)) →
      Step n s w { s with pc := upd s.pc w (.hold t) }
  | checkQuit {s : State} {w : Nat} :
      s.quitNow = false → w < n → s.pc w = .check (some .quit) →
      Step n s w { s with pc := upd s.pc w (.sendQuit true) }
  | checkNone {s : State} {w : Nat} :
      s.quitNow = false → w < n → s.pc w = .check none →
      Step n s w { s with pc := upd s.pc w .deact }
  /-- `run_one`: the visitor is called and answers `Continue` (or `Skip` on an entry without
  children to send) -/
  | visitCont {s : State} {w : Nat} {t : Tree} :
      w < n → s.pc w = .hold t →
      Step n s w { s with pc := upd s.pc w (.running t.kids), visited := s.visited ++ [t.label] }
  /-- the visitor answers `Quit`: nothing is sent, `quit_now()` comes next -/
  | visitQuit {s : State} {w : Nat} {t : Tree} :
      w < n → s.pc w = .hold t →
      Step n s w { s with pc := upd s.pc w .setQuit, visited := s.visited ++ [t.label],
                          quitAsked := true }
  /-- `self.send(Work{..})` for the next child -/
  | push {s : State} {w : Nat} {k : Tree} {ks : List Tree} :
      w < n → s.pc w = .running (k :: ks) →
      Step n s w { s with pc := upd s.pc w (.running ks), dq := upd s.dq w (.work k :: s.dq w) }
  /-- `run_one` returns; back to `get_work` -/
  | runDone {s : State} {w : Nat} :
      w < n → s.pc w = .running [] →
      Step n s w { s with pc := upd s.pc w (.recv false) }
  /-- `quit_now()` -/
  | setQuit {s : State} {w : Nat} :
      w < n → s.pc w = .setQuit →
      Step n s w { s with pc := upd s.pc w (.recv false), quitNow := true }
  /-- `deactivate_worker()` returns 0: this worker broadcasts `Quit` -/
  | deactZero {s : State} {w : Nat} :
      s.active - counterStep = quiescentCount → w < n → s.pc w = .deact →
      Step n s w { s with pc := upd s.pc w (.sendQuit false), active := s.active - counterStep }
  /-- `deactivate_worker()` returns non-zero: enter the idle loop -/
  | deactWait {s : State} {w : Nat} :
      s.active - counterStep ≠ quiescentCount → w < n → s.pc w = .deact →
      Step n s w { s with pc := upd s.pc w (.recv true), active := s.active - counterStep }
  /-- `send_quit()` (the consumed / generated `Quit` is pushed on the own deque) -/
  | sendQuit {s : State} {w : Nat} {c : Bool} :
      w < n → s.pc w = .sendQuit c →
      Step n s w { s with pc := upd s.pc w (.exiting c), dq := upd s.dq w (.quit :: s.dq w) }
  /-- the worker loop is left, the thread ends -/
  | exit {s : State} {w : Nat} {c : Bool} :
      w < n → s.pc w = .exiting c →
      Step n s w { s with pc := upd s.pc w (.exited c) }

/-- `Stack::new_for_each_thread`: the `i`-th initial message is pushed on stack `i % n`. -/
def distribute (n : Nat) : List Tree → Nat → (Nat → List Msg) → (Nat → List Msg)
  | [], _, acc => acc
  | r :: rs, i, acc => distribute n rs (i + 1) (upd acc (i % n) (.work r :: acc (i % n)))

def init (n : Nat) (roots : List Tree) : State :=
  { pc := fun _ => .recv false
    dq := distribute n roots 0 (fun _ => [])
    active := n
    quitNow := false
    quitAsked := false
    visited := [] }

/-- States reachable under some interleaving of `n` workers started on `roots`. -/
inductive Reachable (n : Nat) (roots : List Tree) : State → Prop where
  | init : Reachable n roots (init n roots)
  | step {s s' : State} {w : Nat} : Reachable n roots s → Step n s w s' → Reachable n roots s'

def Pc.isExited : Pc → Bool
  | .exited _ => true
  | _ => false

def AllExited (n : Nat) (s : State) : Prop := ∀ w, w < n → (s.pc w).isExited = true

/-! ### Executable transition function (used by the driver; `stepFn_sound` ties it to `Step`) -/

/-- Resolution of the nondeterminism of one step. -/
inductive Act where
  | go
  | stealOk (k : Nat)
  | stealFail
  | visitCont
  | visitQuit
  deriving Repr, Inhabited

def stepFn (n : Nat) (s : State) (w : Nat) (a : Act) : Option State :=
  if w < n then
    match s.pc w, a with
    | .recv b, .go =>
      match s.dq w with
      | m :: d => some { s with pc := upd s.pc w (afterRecv b m), dq := upd s.dq w d }
      | [] => some { s with pc := upd s.pc w (.steal b (order n w)) }
    | .steal b (v :: _), .stealOk k =>
      let len := (s.dq v).length
      if v < n ∧ v ≠ w ∧ 1 ≤ k ∧ k ≤ len then
        match (s.dq v).drop (len - k) with
        | m :: rest =>
          some { s with pc := upd s.pc w (afterRecv b m),
                        dq := upd (upd s.dq v ((s.dq v).take (len - k))) w (rest ++ s.dq w) }
        | [] => none
      else none
    | .steal b (_ :: vs), .stealFail => some { s with pc := upd s.pc w (.steal b vs) }
    | .steal b [], .go => some { s with pc := upd s.pc w (if b then .sleep else .check none) }
    | .sleep, .go => some { s with pc := upd s.pc w (.recv true) }
    | .activate m, .go => some { s with pc := upd s.pc w (.check (some m)), active := s.active + counterStep }
    | .check v, .go =>
      if s.quitNow then some { s with pc := upd s.pc w (.sendQuit true) }
      else match v with
        | some (.work t) => some { s with pc := upd s.pc w (.hold t) }
        | some .quit => some { s with pc := upd s.pc w (.sendQuit true) }
        | none => some { s with pc := upd s.pc w .deact }
    | .hold t, .visitCont =>
      some { s with pc := upd s.pc w (.running t.kids), visited := s.visited ++ [t.label] }
    | .hold t, .visitQuit =>
      some { s with pc := upd s.pc w .setQuit, visited := s.visited ++ [t.label], quitAsked := true }
    | .running (k :: ks), .go =>
      some { s with pc := upd s.pc w (.running ks), dq := upd s.dq w (.work k :: s.dq w) }
    | .running [], .go => some { s with pc := upd s.pc w (.recv false) }
    | .setQuit, .go => some { s with pc := upd s.pc w (.recv false), quitNow := true }
    | .deact, .go =>
      if s.active - counterStep = quiescentCount then
        some { s with pc := upd s.pc w (.sendQuit false), active := s.active - counterStep }
      else some { s with pc := upd s.pc w (.recv true), active := s.active - counterStep }
    | .sendQuit c, .go =>
      some { s with pc := upd s.pc w (.exiting c), dq := upd s.dq w (.quit :: s.dq w) }
    | .exiting c, .go => some { s with pc := upd s.pc w (.exited c) }
    | _, _ => none
  else none

/-- Run a fine-grained schedule: a list of (worker, resolution of its step's nondeterminism). -/
def runActs (n : Nat) : List (Nat × Act) → State → Option State
  | [], s => some s
  | (w, a) :: rest, s =>
    match stepFn n s w a with
    | some s' => runActs n rest s'
    | none => none

def allExitedB (n : Nat) (s : State) : Bool :=
  (List.range n).all fun w => (s.pc w).isExited

/-! ### Termination measure (potential): every non-stutter step lowers it, stutter steps keep it -/

mutual
/-- Steps still to be spent on an entry that has been received but not yet visited
(`n` = number of workers; `n + 9` bounds the walk from `recv false` to the next message or exit). -/
def Tree.cost (n : Nat) : Tree → Nat
  | .node _ ks => (n + 11) + costL n ks
def costL (n : Nat) : List Tree → Nat
  | [] => 0
  | t :: ts => (1 + t.cost n) + costL n ts
end

def Msg.cost (n : Nat) : Msg → Nat
  | .work t => t.cost n
  | .quit => 0

def dqCost (n : Nat) (d : List Msg) : Nat := (d.map (Msg.cost n)).sum

def Pc.cost (n : Nat) : Pc → Nat
  | .exited _ => 0
  | .exiting _ => 1
  | .sendQuit _ => 2
  | .check (some (.work t)) => 3 + t.cost n
  | .check (some .quit) => 3
  | .check none => 8
  | .activate m => 4 + m.cost n
  | .recv true => 6
  | .steal true _ => 6
  | .sleep => 6
  | .deact => 7
  | .recv false => n + 9
  | .steal false vs => vs.length + 9
  | .setQuit => n + 10
  | .running ks => (n + 10) + costL n ks
  | .hold t => 2 + t.cost n

def sumTo (n : Nat) (f : Nat → Nat) : Nat :=
  match n with
  | 0 => 0
  | k + 1 => sumTo k f + f k

/-- The termination measure. -/
def mu (n : Nat) (s : State) : Nat :=
  sumTo n (Pc.cost n ∘ s.pc) + sumTo n (dqCost n ∘ s.dq)

/-- The stutter steps: the idle loop of `get_work` finding nothing (and spurious steal failures in it). -/
def Pc.idle : Pc → Bool
  | .recv true => true
  | .steal true _ => true
  | .sleep => true
  | _ => false

end RgVerif.ParWalk
