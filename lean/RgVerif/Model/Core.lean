import RgVerif.Model.Lines
/-
Model of `crates/searcher/src/searcher/core.rs` (the whole `Core`), of the part of
`crates/searcher/src/sink.rs` a `Sink` can observe, and of the `Config` fields of
`crates/searcher/src/searcher/mod.rs` that `core.rs` / `glue.rs` read.

Conventions
* `Result<bool, S::Error>` is `Res Bool` (`ok true` = keep going, `ok false` = stop, `err` = the sink's error).
  Every `?` / `if !keepgoing { return Ok(false) }` site is an explicit `match`; nothing is hidden in a monad.
* `&mut self` is the threaded `Core` value.  The sink is part of it: `events` is the log of all callbacks made so
  far and the *script* `σ : Nat → Resp` says what the sink answers to its k-th callback (k = index in the log).
* The matcher is a parameter (`MatcherI`); matcher errors are not modelled (the regex matcher's error type is
  `NoError`).
* `while let Some(line) = stepper.next_match(buf)` loops run over `Lines.stepLines` (see there); the two
  `while !buf[pos..].is_empty()` loops take fuel `buf.length + 1` (each iteration advances `pos`).
* Panics (`assert!`, out-of-range slicing) are not modelled: the functions are total and clamp.

API: `Config`, `BinaryDetection`, `MatcherI`, `LineMatchKind`, `Event`, `CtxKind`, `Resp`, `Script`, `allCont`,
`Res`, `Core`, `Core.new`, `emit`, and one function per method of `Core`.
-/
namespace RgVerif.Searcher
open RgVerif RgVerif.Matcher RgVerif.Lines

/-! ### Configuration -/

/-- `line_buffer::BinaryDetection`. -/
inductive BinaryDetection where
  | none
  | quit (b : Nat)
  | convert (b : Nat)
  deriving Repr, DecidableEq, Inhabited

/-- `searcher::BinaryDetection::quit_byte`. -/
def BinaryDetection.quitByte : BinaryDetection → Option Nat
  | .quit b => some b
  | _ => Option.none

/-- The fields of `searcher::Config` read by `core.rs` and `glue.rs`. -/
structure Config where
  lineTerm : LineTerm := .byte 10
  invertMatch : Bool := false
  afterContext : Nat := 0
  beforeContext : Nat := 0
  passthru : Bool := false
  lineNumber : Bool := true
  stopOnNonmatch : Bool := false
  multiLine : Bool := false
  binary : BinaryDetection := .none
  deriving Repr, DecidableEq, Inhabited

/-- `Config::max_context`. -/
def Config.maxContext (c : Config) : Nat := max c.beforeContext c.afterContext

/-- `DEFAULT_BUFFER_CAPACITY` (`line_buffer.rs`): 64 KiB. -/
def defaultBufferCapacity : Nat := 64 * (1 <<< 10)

/-! ### Matcher -/

/-- `grep_matcher::LineMatchKind`. -/
inductive LineMatchKind where
  | confirmed (i : Nat)
  | candidate (i : Nat)
  deriving Repr, DecidableEq

/-- The methods of `grep_matcher::Matcher` the searcher calls. `shortestAt`, `findCandidateLine`
have trait defaults (`MatcherI.ofFindAt`); `RegexMatcher` overrides them. -/
structure MatcherI where
  /-- `find_at(haystack, at)` -/
  findAt : Bytes → Nat → Option Span
  /-- `shortest_match_at(haystack, at)` -/
  shortestAt : Bytes → Nat → Option Nat
  /-- `find_candidate_line(haystack)` -/
  findCandidateLine : Bytes → Option LineMatchKind
  /-- `line_terminator()` -/
  lineTerminator : Option LineTerm
  /-- `non_matching_bytes()` as a membership test -/
  nonMatchingBytes : Option (Nat → Bool)

/-- `Matcher::shortest_match` (provided method). -/
def MatcherI.shortestMatch (m : MatcherI) (h : Bytes) : Option Nat := m.shortestAt h 0
/-- `Matcher::is_match` (provided method: `is_match_at(h,0)` = `shortest_match_at(h,0).is_some()`). -/
def MatcherI.isMatch (m : MatcherI) (h : Bytes) : Bool := (m.shortestAt h 0).isSome

/-- A matcher that only implements `find_at`: every other method is the trait's default. -/
def MatcherI.ofFindAt (f : Bytes → Nat → Option Span) : MatcherI :=
  { findAt := f
  , shortestAt := fun h at_ => (f h at_).map (·.e)
  , findCandidateLine := fun h => ((f h 0).map (·.e)).map LineMatchKind.confirmed
  , lineTerminator := none
  , nonMatchingBytes := none }

/-! ### What a `Sink` sees -/

/-- `SinkContextKind`. -/
inductive CtxKind where
  | before | after | other
  deriving Repr, DecidableEq, Inhabited

/-- One `Sink` callback with the data it carries. -/
inductive Event where
  | begin
  | matched (lineNumber : Option Nat) (absOffset : Nat) (bytes : Bytes)
  | context (kind : CtxKind) (lineNumber : Option Nat) (absOffset : Nat) (bytes : Bytes)
  | contextBreak
  | binaryData (offset : Nat)
  | finish (byteCount : Nat) (binaryOffset : Option Nat)
  deriving Repr, DecidableEq, Inhabited

/-- Answer of the sink to one callback: `Ok(true)`, `Ok(false)`, `Err(_)`. -/
inductive Resp where
  | cont | stop | err
  deriving Repr, DecidableEq, Inhabited

/-- The sink as a script over the callback index. -/
abbrev Script := Nat → Resp

/-- The sink that always answers `Ok(true)`. -/
def allCont : Script := fun _ => .cont

/-- `Result<α, S::Error>`. -/
inductive Res (α : Type) where
  | ok (a : α)
  | err
  deriving Repr, DecidableEq, Inhabited

/-! ### `Core` -/

structure Core where
  /-- `binary`: true for slice searchers (they sniff themselves), false for the reader. -/
  binary : Bool
  pos : Nat := 0
  absoluteByteOffset : Nat := 0
  binaryByteOffset : Option Nat := none
  lineNumber : Option Nat
  lastLineCounted : Nat := 0
  lastLineVisited : Nat := 0
  afterContextLeft : Nat := 0
  hasSunk : Bool := false
  hasMatched : Bool := false
  /-- log of the sink callbacks made so far -/
  events : List Event := []
  deriving Repr, DecidableEq

/-- `Core::new`. -/
def Core.new (cfg : Config) (binary : Bool) : Core :=
  { binary := binary, lineNumber := if cfg.lineNumber then some 1 else none }

/-- One sink callback: log it, answer by the script. -/
def emit (σ : Script) (st : Core) (ev : Event) : Core × Res Bool :=
  let k := st.events.length
  let st := { st with events := st.events ++ [ev] }
  match σ k with
  | .cont => (st, .ok true)
  | .stop => (st, .ok false)
  | .err => (st, .err)

/-- `Core::begin`. -/
def begin (σ : Script) (st : Core) : Core × Res Bool := emit σ st .begin

/-- `Core::binary_data`. -/
def binaryData (σ : Script) (st : Core) (offset : Nat) : Core × Res Bool :=
  emit σ st (.binaryData offset)

/-- `Core::finish` (`Sink::finish` returns `Result<(), _>`: a `false` cannot be expressed). -/
def finish (σ : Script) (st : Core) (byteCount : Nat) (binaryByteOffset : Option Nat) : Core × Res Unit :=
  match emit σ st (.finish byteCount binaryByteOffset) with
  | (st, .err) => (st, .err)
  | (st, .ok _) => (st, .ok ())

/-- `Core::count_lines`. -/
def countLines (cfg : Config) (buf : Bytes) (st : Core) (upto : Nat) : Core :=
  match st.lineNumber with
  | none => st
  | some lineNumber =>
    if st.lastLineCounted ≥ upto then st
    else
      let c := count (slice buf st.lastLineCounted upto) cfg.lineTerm.asByte
      { st with lineNumber := some (lineNumber + c), lastLineCounted := upto }

/-- `Core::detect_binary`: `ok true` = stop searching. -/
def detectBinary (cfg : Config) (σ : Script) (buf : Bytes) (range : Span) (st : Core) : Core × Res Bool :=
  if st.binaryByteOffset.isSome then (st, .ok cfg.binary.quitByte.isSome)
  else
    match (match cfg.binary with
           | .quit b => some b
           | .convert b => some b
           | .none => Option.none) with
    | none => (st, .ok false)
    | some binaryByte =>
      match findByte binaryByte (slice buf range.s range.e) with
      | some i =>
        let offset := range.s + i
        let st := { st with binaryByteOffset := some offset }
        match binaryData σ st offset with
        | (st, .err) => (st, .err)
        | (st, .ok false) => (st, .ok true)
        | (st, .ok true) => (st, .ok cfg.binary.quitByte.isSome)
      | none => (st, .ok false)

/-- The guard `self.binary && self.detect_binary(buf, range)?` at the head of every `sink_*`. -/
def binaryGuard (cfg : Config) (σ : Script) (buf : Bytes) (range : Span) (st : Core) : Core × Res Bool :=
  if st.binary then detectBinary cfg σ buf range st else (st, .ok false)

/-- `Core::sink_break_context`. -/
def sinkBreakContext (cfg : Config) (σ : Script) (st : Core) (startOfLine : Nat) : Core × Res Bool :=
  let isGap := st.lastLineVisited < startOfLine
  let anyContext := cfg.beforeContext > 0 || cfg.afterContext > 0
  if !anyContext || !st.hasSunk || !isGap then (st, .ok true)
  else emit σ st .contextBreak

/-- `Core::sink_matched`. -/
def sinkMatched (cfg : Config) (σ : Script) (buf : Bytes) (st : Core) (range : Span) : Core × Res Bool :=
  match binaryGuard cfg σ buf range st with
  | (st, .err) => (st, .err)
  | (st, .ok true) => (st, .ok false)
  | (st, .ok false) =>
    match sinkBreakContext cfg σ st range.s with
    | (st, .ok true) =>
      let st := countLines cfg buf st range.s
      let offset := st.absoluteByteOffset + range.s
      match emit σ st (.matched st.lineNumber offset (slice buf range.s range.e)) with
      | (st, .ok true) =>
        ({ st with lastLineVisited := range.e, afterContextLeft := cfg.afterContext, hasSunk := true }, .ok true)
      | (st, r) => (st, r)
    | (st, r) => (st, r)

/-- `Core::matched` (used by the multi-line searcher). -/
def matched (cfg : Config) (σ : Script) (buf : Bytes) (st : Core) (range : Span) : Core × Res Bool :=
  sinkMatched cfg σ buf st range

/-- `Core::sink_before_context`. -/
def sinkBeforeContext (cfg : Config) (σ : Script) (buf : Bytes) (st : Core) (range : Span) : Core × Res Bool :=
  match binaryGuard cfg σ buf range st with
  | (st, .err) => (st, .err)
  | (st, .ok true) => (st, .ok false)
  | (st, .ok false) =>
    let st := countLines cfg buf st range.s
    let offset := st.absoluteByteOffset + range.s
    match emit σ st (.context .before st.lineNumber offset (slice buf range.s range.e)) with
    | (st, .ok true) => ({ st with lastLineVisited := range.e, hasSunk := true }, .ok true)
    | (st, r) => (st, r)

/-- `Core::sink_after_context`. -/
def sinkAfterContext (cfg : Config) (σ : Script) (buf : Bytes) (st : Core) (range : Span) : Core × Res Bool :=
  match binaryGuard cfg σ buf range st with
  | (st, .err) => (st, .err)
  | (st, .ok true) => (st, .ok false)
  | (st, .ok false) =>
    let st := countLines cfg buf st range.s
    let offset := st.absoluteByteOffset + range.s
    match emit σ st (.context .after st.lineNumber offset (slice buf range.s range.e)) with
    | (st, .ok true) =>
      ({ st with lastLineVisited := range.e, afterContextLeft := st.afterContextLeft - 1, hasSunk := true }, .ok true)
    | (st, r) => (st, r)

/-- `Core::sink_other_context`. -/
def sinkOtherContext (cfg : Config) (σ : Script) (buf : Bytes) (st : Core) (range : Span) : Core × Res Bool :=
  match binaryGuard cfg σ buf range st with
  | (st, .err) => (st, .err)
  | (st, .ok true) => (st, .ok false)
  | (st, .ok false) =>
    let st := countLines cfg buf st range.s
    let offset := st.absoluteByteOffset + range.s
    match emit σ st (.context .other st.lineNumber offset (slice buf range.s range.e)) with
    | (st, .ok true) => ({ st with lastLineVisited := range.e, hasSunk := true }, .ok true)
    | (st, r) => (st, r)

/-- Body of the `while let` loop of `before_context_by_line`. -/
def beforeLoop (cfg : Config) (σ : Script) (buf : Bytes) : List Span → Core → Core × Res Bool
  | [], st => (st, .ok true)
  | line :: rest, st =>
    match sinkBreakContext cfg σ st line.s with
    | (st, .ok true) =>
      match sinkBeforeContext cfg σ buf st line with
      | (st, .ok true) => beforeLoop cfg σ buf rest st
      | (st, r) => (st, r)
    | (st, r) => (st, r)

/-- `Core::before_context_by_line`. -/
def beforeContextByLine (cfg : Config) (σ : Script) (buf : Bytes) (st : Core) (upto : Nat) : Core × Res Bool :=
  if cfg.beforeContext == 0 then (st, .ok true)
  else
    let rs := st.lastLineVisited
    let re := upto
    if re - rs == 0 then (st, .ok true)
    else
      let beforeContextStart :=
        rs + preceding (slice buf rs re) cfg.lineTerm.asByte (cfg.beforeContext - 1)
      beforeLoop cfg σ buf (stepLines cfg.lineTerm.asByte buf beforeContextStart re) st

/-- Body of the `while let` loop of `after_context_by_line`. -/
def afterLoop (cfg : Config) (σ : Script) (buf : Bytes) : List Span → Core → Core × Res Bool
  | [], st => (st, .ok true)
  | line :: rest, st =>
    match sinkAfterContext cfg σ buf st line with
    | (st, .ok true) =>
      if st.afterContextLeft == 0 then (st, .ok true) else afterLoop cfg σ buf rest st
    | (st, r) => (st, r)

/-- `Core::after_context_by_line`. -/
def afterContextByLine (cfg : Config) (σ : Script) (buf : Bytes) (st : Core) (upto : Nat) : Core × Res Bool :=
  if st.afterContextLeft == 0 then (st, .ok true)
  else afterLoop cfg σ buf (stepLines cfg.lineTerm.asByte buf st.lastLineVisited upto) st

/-- Body of the `while let` loop of `other_context_by_line`. -/
def otherLoop (cfg : Config) (σ : Script) (buf : Bytes) : List Span → Core → Core × Res Bool
  | [], st => (st, .ok true)
  | line :: rest, st =>
    match sinkOtherContext cfg σ buf st line with
    | (st, .ok true) => otherLoop cfg σ buf rest st
    | (st, r) => (st, r)

/-- `Core::other_context_by_line`. -/
def otherContextByLine (cfg : Config) (σ : Script) (buf : Bytes) (st : Core) (upto : Nat) : Core × Res Bool :=
  otherLoop cfg σ buf (stepLines cfg.lineTerm.asByte buf st.lastLineVisited upto) st

/-- `Core::is_line_by_line_fast`. -/
def isLineByLineFast (cfg : Config) (m : MatcherI) (st : Core) : Bool :=
  if cfg.passthru then false
  else if cfg.stopOnNonmatch && (st.hasMatched || cfg.invertMatch) then false
  -- /repo a2e984b: never the fast searcher when the terminator byte is not `\n` (whatever the matcher reports)
  else if cfg.lineTerm.asByte != 10 then false
  else
    let viaTerm : Option Bool :=
      match m.lineTerminator with
      | some lineTerm => if lineTerm == cfg.lineTerm then some true else none
      | none => none
    match viaTerm with
    | some b => b
    | none =>
      match m.nonMatchingBytes with
      | some nonMatching => if nonMatching cfg.lineTerm.asByte then true else false
      | none => false

/-- Body of the `while let` loop of `match_by_line_slow`. -/
def slowLoop (cfg : Config) (m : MatcherI) (σ : Script) (buf : Bytes) : List Span → Core → Core × Res Bool
  | [], st => (st, .ok true)
  | line :: rest, st =>
    let matched :=
      (m.shortestMatch (withoutTerminator (slice buf line.s line.e) cfg.lineTerm)).isSome
    let st := { st with pos := line.e }
    let success := matched != cfg.invertMatch
    let step : Core × Res Bool :=
      if success then
        let st := { st with hasMatched := true }
        match beforeContextByLine cfg σ buf st line.s with
        | (st, .ok true) => sinkMatched cfg σ buf st line
        | (st, r) => (st, r)
      else if st.afterContextLeft ≥ 1 then sinkAfterContext cfg σ buf st line
      else if cfg.passthru then sinkOtherContext cfg σ buf st line
      else (st, .ok true)
    match step with
    | (st, .ok true) =>
      if cfg.stopOnNonmatch && !success && st.hasMatched then (st, .ok false)
      else slowLoop cfg m σ buf rest st
    | (st, r) => (st, r)

/-- `Core::match_by_line_slow`. -/
def matchByLineSlow (cfg : Config) (m : MatcherI) (σ : Script) (buf : Bytes) (st : Core) : Core × Res Bool :=
  slowLoop cfg m σ buf (stepLines cfg.lineTerm.asByte buf st.pos buf.length) st

/-- The loop of `Core::find_by_line_fast` from position `pos` (`fuel` bounds the iterations;
every `continue` strictly advances `pos`). -/
def findByLineFastLoop (cfg : Config) (m : MatcherI) (buf : Bytes) : Nat → Nat → Option Span
  | 0, _ => none
  | fuel + 1, pos =>
    if (buf.drop pos).isEmpty then none
    else
      match m.findCandidateLine (buf.drop pos) with
      | none => none
      | some (.confirmed i) =>
        let line := locate buf cfg.lineTerm.asByte ⟨pos + i, pos + i⟩
        if line.s == buf.length then findByLineFastLoop cfg m buf fuel buf.length
        else some line
      | some (.candidate i) =>
        let line := locate buf cfg.lineTerm.asByte ⟨pos + i, pos + i⟩
        -- /repo 4165f41: as above, a candidate at the position behind the final terminator is not a line
        if line.s == buf.length then findByLineFastLoop cfg m buf fuel buf.length
        else
          let sl := withoutTerminator (slice buf line.s line.e) cfg.lineTerm
          if m.isMatch sl then some line
          else findByLineFastLoop cfg m buf fuel line.e

/-- `Core::find_by_line_fast`. -/
def findByLineFast (cfg : Config) (m : MatcherI) (buf : Bytes) (st : Core) : Option Span :=
  findByLineFastLoop cfg m buf (buf.length + 1) st.pos

/-- The final `while let` loop of `match_by_line_fast_invert`. -/
def matchedLoop (cfg : Config) (σ : Script) (buf : Bytes) : List Span → Core → Core × Res Bool
  | [], st => (st, .ok true)
  | line :: rest, st =>
    match sinkMatched cfg σ buf st line with
    | (st, .ok true) => matchedLoop cfg σ buf rest st
    | (st, r) => (st, r)

/-- `Core::match_by_line_fast_invert`. -/
def matchByLineFastInvert (cfg : Config) (m : MatcherI) (σ : Script) (buf : Bytes) (st : Core) : Core × Res Bool :=
  let (invertMatch, st) : Span × Core :=
    match findByLineFast cfg m buf st with
    | none => (⟨st.pos, buf.length⟩, { st with pos := buf.length })
    | some line => (⟨st.pos, line.s⟩, { st with pos := line.e })
  if invertMatch.e - invertMatch.s == 0 then (st, .ok true)
  else
    let st := { st with hasMatched := true }
    match afterContextByLine cfg σ buf st invertMatch.s with
    | (st, .ok true) =>
      match beforeContextByLine cfg σ buf st invertMatch.s with
      | (st, .ok true) =>
        matchedLoop cfg σ buf (stepLines cfg.lineTerm.asByte buf invertMatch.s invertMatch.e) st
      | (st, r) => (st, r)
    | (st, r) => (st, r)

/-- `FastMatchResult`. -/
inductive FastMatchResult where
  | continue_ | stop | switchToSlow
  deriving Repr, DecidableEq

/-- The `while !buf[self.pos()..].is_empty()` loop of `match_by_line_fast`.
`ok none` = the loop ended normally (condition false, or `break`). -/
def fastLoop (cfg : Config) (m : MatcherI) (σ : Script) (buf : Bytes) :
    Nat → Core → Core × Res (Option FastMatchResult)
  | 0, st => (st, .ok none)
  | fuel + 1, st =>
    if (buf.drop st.pos).isEmpty then (st, .ok none)
    else if cfg.stopOnNonmatch && st.hasMatched then (st, .ok (some .switchToSlow))
    else if cfg.invertMatch then
      match matchByLineFastInvert cfg m σ buf st with
      | (st, .err) => (st, .err)
      | (st, .ok false) => (st, .ok (some .stop))
      | (st, .ok true) => fastLoop cfg m σ buf fuel st
    else
      match findByLineFast cfg m buf st with
      | some line =>
        let st := { st with hasMatched := true }
        let ctx : Core × Res Bool :=
          if cfg.maxContext > 0 then
            match afterContextByLine cfg σ buf st line.s with
            | (st, .ok true) => beforeContextByLine cfg σ buf st line.s
            | (st, r) => (st, r)
          else (st, .ok true)
        match ctx with
        | (st, .err) => (st, .err)
        | (st, .ok false) => (st, .ok (some .stop))
        | (st, .ok true) =>
          let st := { st with pos := line.e }
          match sinkMatched cfg σ buf st line with
          | (st, .err) => (st, .err)
          | (st, .ok false) => (st, .ok (some .stop))
          | (st, .ok true) => fastLoop cfg m σ buf fuel st
      | none => (st, .ok none)

/-- `Core::match_by_line_fast`. -/
def matchByLineFast (cfg : Config) (m : MatcherI) (σ : Script) (buf : Bytes) (st : Core) :
    Core × Res FastMatchResult :=
  match fastLoop cfg m σ buf (buf.length + 1) st with
  | (st, .err) => (st, .err)
  | (st, .ok (some r)) => (st, .ok r)
  | (st, .ok none) =>
    match afterContextByLine cfg σ buf st buf.length with
    | (st, .err) => (st, .err)
    | (st, .ok false) => (st, .ok .stop)
    | (st, .ok true) => ({ st with pos := buf.length }, .ok .continue_)

/-- `Core::match_by_line`. -/
def matchByLine (cfg : Config) (m : MatcherI) (σ : Script) (buf : Bytes) (st : Core) : Core × Res Bool :=
  if isLineByLineFast cfg m st then
    match matchByLineFast cfg m σ buf st with
    | (st, .err) => (st, .err)
    | (st, .ok .switchToSlow) => matchByLineSlow cfg m σ buf st
    | (st, .ok .continue_) => (st, .ok true)
    | (st, .ok .stop) => (st, .ok false)
  else matchByLineSlow cfg m σ buf st

/-- `Core::roll` (used by the reader strategy): returns the new core and `consumed`. -/
def roll (cfg : Config) (buf : Bytes) (st : Core) : Core × Nat :=
  let consumed :=
    if cfg.maxContext == 0 then buf.length
    else
      let contextStart := preceding buf cfg.lineTerm.asByte cfg.maxContext
      max contextStart st.lastLineVisited
  let st := countLines cfg buf st consumed
  ({ st with absoluteByteOffset := st.absoluteByteOffset + consumed
           , lastLineCounted := 0, lastLineVisited := 0, pos := buf.length - consumed }, consumed)

end RgVerif.Searcher
