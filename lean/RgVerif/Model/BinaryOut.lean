import RgVerif.Model.Sx
/-
C14 — the decisions that keep binary data off the output:
  * `hiargs.rs::BinaryDetection::from_low_args` and `search.rs::SearchWorker::search` (which
    detection mode a file gets),
  * `printer/src/standard.rs` `StandardSink::{begin, matched, context, context_break, binary_data,
    finish}` and `StandardImpl::write_binary_message` (what is written once binary data was seen),
  * `printer/src/summary.rs::finish` (the squash of the match count in `Quit` mode).
The searcher is represented by the event stream it would hand to a sink that never says stop; the
sink's `false` answers cut that stream (`stdRun`).
-/
namespace RgVerif.BinaryOut
open RgVerif

/-- `LowArgs.binary` (`BinaryMode`): default, `--binary`, `-a` or `--text`. -/
inductive BinaryMode where
  | auto
  | searchAndSuppress
  | asText
  deriving Repr, DecidableEq, Inhabited

/-- `grep::searcher::BinaryDetection` as used by ripgrep (the byte is always NUL). -/
inductive Det where
  | none
  | quit
  | convert
  deriving Repr, DecidableEq, Inhabited

/-- `hiargs.rs::BinaryDetection::from_low_args`: `(explicit, implicit)`. -/
def fromLowArgs (mode : BinaryMode) (nullData : Bool) : Det × Det :=
  let none := mode == .asText || nullData
  let convert := mode == .searchAndSuppress
  let explicit := if none then Det.none else Det.convert
  let implicit := if none then Det.none else if convert then Det.convert else Det.quit
  (explicit, implicit)

/-- `search.rs::SearchWorker::search`: `haystack.is_explicit()` picks the mode. -/
def chooseDet (isExplicit : Bool) (d : Det × Det) : Det :=
  if isExplicit then d.1 else d.2

/-- What a `Sink` is told (line number as printed by `-n`). -/
inductive Ev where
  | matched (off : Nat) (ln : Nat) (bytes : Bytes)
  | context (off : Nat) (ln : Nat) (bytes : Bytes)
  | ctxBreak
  | binaryData (off : Nat)
  deriving Repr, DecidableEq, Inhabited

/-- What the standard printer writes (before rendering to bytes). -/
inductive Item where
  | matchLine (ln : Nat) (bytes : Bytes)
  | contextLine (ln : Nat) (bytes : Bytes)
  | sep
  | stoppedWarning (off : Nat)      -- "WARNING: stopped searching binary file after match …"
  | stoppedNoMatch (off : Nat)      -- "WARNING: stopped searching binary file …" (lines printed, none matched; ea82056)
  | binaryMatches (off : Nat)       -- "binary file matches …"
  deriving Repr, DecidableEq, Inhabited

/-- The binary-related state of `StandardSink`. -/
structure St where
  binOff : Option Nat := none
  matchCount : Nat := 0
  out : List Item := []
  deriving Repr, Inhabited

/-- `StandardSink::{matched, context, context_break, binary_data}`: new state and "keep going"
(no `max_count`: `should_quit` is false). -/
def step (det : Det) (st : St) : Ev → St × Bool
  | .matched _ ln bs =>
    let st := { st with matchCount := st.matchCount + 1 }
    if det == .convert && st.binOff.isSome then (st, false)
    else ({ st with out := st.out ++ [.matchLine ln bs] }, true)
  | .context _ ln bs =>
    -- not printed, but the search goes on (fix 8b6e9fb): the notice is due once a match is seen
    if det == .convert && st.binOff.isSome then (st, true)
    else ({ st with out := st.out ++ [.contextLine ln bs] }, true)
  | .ctxBreak => ({ st with out := st.out ++ [.sep] }, true)
  | .binaryData off => ({ st with binOff := some off }, true)

/-- `write_binary_message`, `cut_short` (ea82056): in `Quit` mode the warning is due whenever this
search has written something, even if no line of it matched (`this_search_written`: every item is at
least one byte). -/
def cutShort (det : Det) (st : St) : Bool := det == .quit && !st.out.isEmpty

/-- `StandardSink::finish` + `write_binary_message`. -/
def finish (det : Det) (st : St) : List Item :=
  match st.binOff with
  | none => st.out
  | some off =>
    if st.matchCount = 0 && !cutShort det st then st.out
    else
      match det with
      | .quit => st.out ++ [if st.matchCount = 0 then .stoppedNoMatch off else .stoppedWarning off]
      | .convert => st.out ++ [.binaryMatches off]
      | .none => st.out

/-- Feed the stream until the sink says stop. -/
def feed (det : Det) : St → List Ev → St
  | st, [] => st
  | st, ev :: evs =>
    match step det st ev with
    | (st, true) => feed det st evs
    | (st, false) => st

/-- One search printed by the standard printer (`begin` resets the state). -/
def stdRun (det : Det) (evs : List Ev) : List Item := finish det (feed det {} evs)

/-! ### executable predicates on streams -/

def Ev.isBinaryData : Ev → Bool
  | .binaryData _ => true
  | _ => false

def Ev.isMatched : Ev → Bool
  | .matched _ _ _ => true
  | _ => false

def Ev.isContext : Ev → Bool
  | .context _ _ _ => true
  | _ => false

/-! ### rendering (`-H --no-heading -n --color never`) -/

/-- decimal digits, most significant first (`fuel` = `n + 1` is ample) -/
def natDigits : Nat → Nat → Bytes → Bytes
  | 0, _, acc => acc
  | fuel + 1, n, acc =>
    let acc := (48 + n % 10) :: acc
    if n / 10 = 0 then acc else natDigits fuel (n / 10) acc

def natBytes (n : Nat) : Bytes := natDigits (n + 1) n []

/-- the text `: WARNING: stopped searching binary file after match (found "\\0" byte around offset ` -/
def warnStopped : Bytes := [58, 32, 87, 65, 82, 78, 73, 78, 71, 58, 32, 115, 116, 111, 112, 112, 101, 100, 32, 115, 101, 97, 114, 99, 104, 105, 110, 103, 32, 98, 105, 110, 97, 114, 121, 32, 102, 105, 108, 101, 32, 97, 102, 116, 101, 114, 32, 109, 97, 116, 99, 104, 32, 40, 102, 111, 117, 110, 100, 32, 34, 92, 48, 34, 32, 98, 121, 116, 101, 32, 97, 114, 111, 117, 110, 100, 32, 111, 102, 102, 115, 101, 116, 32]
/-- the text `: WARNING: stopped searching binary file (found "\\0" byte around offset ` (no line matched) -/
def warnStoppedNoMatch : Bytes := [58, 32, 87, 65, 82, 78, 73, 78, 71, 58, 32, 115, 116, 111, 112, 112, 101, 100, 32, 115, 101, 97, 114, 99, 104, 105, 110, 103, 32, 98, 105, 110, 97, 114, 121, 32, 102, 105, 108, 101, 32, 40, 102, 111, 117, 110, 100, 32, 34, 92, 48, 34, 32, 98, 121, 116, 101, 32, 97, 114, 111, 117, 110, 100, 32, 111, 102, 102, 115, 101, 116, 32]
/-- the text `: binary file matches (found "\\0" byte around offset ` -/
def warnMatches : Bytes := [58, 32, 98, 105, 110, 97, 114, 121, 32, 102, 105, 108, 101, 32, 109, 97, 116, 99, 104, 101, 115, 32, 40, 102, 111, 117, 110, 100, 32, 34, 92, 48, 34, 32, 98, 121, 116, 101, 32, 97, 114, 111, 117, 110, 100, 32, 111, 102, 102, 115, 101, 116, 32]
/-- `)` and a newline -/
def warnEnd : Bytes := [41, 10]

/-- a line is written as is; the terminator is added when missing -/
def withTerm (bs : Bytes) : Bytes := if bs.getLast? = some 10 then bs else bs ++ [10]

/-! #### texts copied from the source (source-anchored in checks/C14.json; tied to the byte lists
used by `renderItem` in `Lemmas/BinaryOut.lean`, `*_text`) -/

/-- ASCII text as bytes -/
def textBytes (s : String) : Bytes := s.toList.map Char.toNat

/-- `hiargs.rs::BinaryDetection::from_low_args`: `quit(b'\x00')` / `convert(b'\x00')` -- the byte the
`0 ∉ render …` theorems of Props/C14 are about -/
def binaryByte : Nat := 0x00
/-- `standard.rs` `StandardBuilder::new`: `separator_field_match: Arc::new(b":".to_vec())` -/
def sepFieldMatchText : String := ":"
/-- `separator_field_context: Arc::new(b"-".to_vec())` -/
def sepFieldContextText : String := "-"
/-- `separator_context: Arc::new(Some(b"--".to_vec()))` -/
def sepContextText : String := "--"
/-- `standard.rs` `write_binary_message`, `Quit` -/
def warnStoppedHead : String := "WARNING: stopped searching binary file"
/-- `write_binary_message`: `if self.sink.match_count > 0 { " after match" } else { "" }` -/
def warnAfterMatchText : String := " after match"
/-- `standard.rs` `write_binary_message`, `Convert` -/
def warnMatchesHead : String := "binary file matches"
def warnFoundText : String := " (found "
def warnAroundText : String := " byte around offset "

def fieldMatchSep : Bytes := [58]
def fieldContextSep : Bytes := [45]
def contextSepLine : Bytes := [45, 45, 10]

def renderItem (path : Bytes) : Item → Bytes
  | .matchLine ln bs => path ++ fieldMatchSep ++ natBytes ln ++ fieldMatchSep ++ withTerm bs
  | .contextLine ln bs => path ++ fieldContextSep ++ natBytes ln ++ fieldContextSep ++ withTerm bs
  | .sep => contextSepLine
  | .stoppedWarning off => path ++ warnStopped ++ natBytes off ++ warnEnd
  | .stoppedNoMatch off => path ++ warnStoppedNoMatch ++ natBytes off ++ warnEnd
  | .binaryMatches off => path ++ warnMatches ++ natBytes off ++ warnEnd

def render (path : Bytes) (items : List Item) : Bytes := items.flatMap (renderItem path)

/-- `SummarySink::finish`: the official match count (`-c`, `-l`) is squashed in `Quit` mode. -/
def summaryCount (det : Det) (binOff : Option Nat) (matchCount : Nat) : Nat :=
  if binOff.isSome && det == .quit then 0 else matchCount

end RgVerif.BinaryOut
