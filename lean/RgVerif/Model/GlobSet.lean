import RgVerif.Model.Glob
/-
Model of `crates/globset/src/pathutil.rs` (`file_name`, `file_name_ext`; `normalize_path` is the identity
on Unix) and of `crates/globset/src/lib.rs`: `Candidate::new`, `GlobSet::new`, the seven
`*Strategy::matches_into`, and `GlobSet::matches_candidate_into` (extend, sort, dedup).

External and therefore represented by their contract: the fnv hash maps (association lists keyed by bytes,
values in insertion order), Aho-Corasick `find_overlapping_iter` (all patterns occurring at the position
asked for), the compiled regexes (`tokMatch` of the glob they were printed from).
-/
namespace RgVerif.Glob

/-! ### pathutil -/

/-- the bytes after the last `/` (`&path[last_slash..]`) -/
def lastComp (p : Bytes) : Bytes := (p.reverse.takeWhile (· != 47)).reverse

/-- `pathutil::file_name` (after the fix: `None` only for the empty path and for a final `.` / `..`) -/
def fileName (p : Bytes) : Option Bytes :=
  if p.isEmpty then none
  else if lastComp p == [46] || lastComp p == [46, 46] then none
  else some (lastComp p)

/-- `pathutil::file_name_ext`: from the last `.` of the name on -/
def fileNameExt (name : Bytes) : Option Bytes :=
  if name.isEmpty then none
  else if name.contains 46 then some (46 :: (name.reverse.takeWhile (· != 46)).reverse)
  else none

/-- `Candidate` -/
structure Candidate where
  path : Bytes
  basename : Bytes
  ext : Bytes
  deriving Repr, DecidableEq

/-- `Candidate::new` -/
def candidate (p : Bytes) : Candidate :=
  let basename := (fileName p).getD []
  { path := p, basename := basename, ext := (fileNameExt basename).getD [] }

/-! ### hash maps `HashMap<Vec<u8>, Vec<V>>` as association lists -/

abbrev LitMap (V : Type) := List (Bytes × List V)

/-- `map.entry(key).or_insert(vec![]).push(v)` -/
def LitMap.add {V : Type} (m : LitMap V) (key : Bytes) (v : V) : LitMap V :=
  match m with
  | [] => [(key, [v])]
  | (k, vs) :: rest => if k == key then (k, vs ++ [v]) :: rest else (k, vs) :: LitMap.add rest key v

/-- `map.get(key)` (an absent key behaves like an empty vector at every use) -/
def LitMap.get {V : Type} (m : LitMap V) (key : Bytes) : List V :=
  match m with
  | [] => []
  | (k, vs) :: rest => if k == key then vs else LitMap.get rest key

/-! ### `GlobSet` -/

/-- `GlobSet { len, strats }`; the tables in the order they were declared in `GlobSet::new`. -/
structure GlobSet where
  len : Nat
  lits : LitMap Nat
  baseLits : LitMap Nat
  exts : LitMap Nat
  prefixes : List (Bytes × Nat)        -- MultiStrategyBuilder: literals zipped with map
  suffixes : List (Bytes × Nat)
  requiredExts : LitMap (Nat × Glob)   -- the regex is the one printed from that glob
  regexes : List (Nat × Glob)
  deriving Repr

def GlobSet.emptySet : GlobSet :=
  { len := 0, lits := [], baseLits := [], exts := [], prefixes := [], suffixes := [],
    requiredExts := [], regexes := [] }

/-- one iteration of the `for (i, p) in pats.iter().enumerate()` loop of `GlobSet::new` -/
def GlobSet.addGlob (s : GlobSet) (i : Nat) (g : Glob) : GlobSet :=
  match strategyOf g with
  | .literal l => { s with lits := s.lits.add (utf8Str l) i }
  | .basenameLiteral l => { s with baseLits := s.baseLits.add (utf8Str l) i }
  | .extension e => { s with exts := s.exts.add (utf8Str e) i }
  | .pfx l => { s with prefixes := s.prefixes ++ [(utf8Str l, i)] }
  | .sfx l component =>
    let s := if component then { s with lits := s.lits.add ((utf8Str l).drop 1) i } else s
    { s with suffixes := s.suffixes ++ [(utf8Str l, i)] }
  | .requiredExt e => { s with requiredExts := s.requiredExts.add (utf8Str e) (i, g) }
  | .regex => { s with regexes := s.regexes ++ [(i, g)] }

def GlobSet.addAll (s : GlobSet) : Nat → List Glob → GlobSet
  | _, [] => s
  | i, g :: gs => (s.addGlob i g).addAll (i + 1) gs

/-- `GlobSet::new` -/
def GlobSet.new (pats : List Glob) : GlobSet :=
  if pats.isEmpty then GlobSet.emptySet
  else { (GlobSet.emptySet.addAll 0 pats) with len := pats.length }

/-- `ExtensionStrategy::matches_into` -/
def extHits (m : LitMap Nat) (c : Candidate) : List Nat :=
  if c.ext.isEmpty then [] else m.get c.ext

/-- `BasenameLiteralStrategy::matches_into` -/
def baseHits (m : LitMap Nat) (c : Candidate) : List Nat :=
  if c.basename.isEmpty then [] else m.get c.basename

/-- `LiteralStrategy::matches_into` -/
def litHits (m : LitMap Nat) (c : Candidate) : List Nat := m.get c.path

/-- `SuffixStrategy::matches_into` (Aho-Corasick: every literal that ends at the end of the path) -/
def sufHits (t : List (Bytes × Nat)) (c : Candidate) : List Nat :=
  (t.filter fun e => e.1.isSuffixOf c.path).map (·.2)

/-- `PrefixStrategy::matches_into` (every literal that starts at offset 0) -/
def preHits (t : List (Bytes × Nat)) (c : Candidate) : List Nat :=
  (t.filter fun e => e.1.isPrefixOf c.path).map (·.2)

/-- `RequiredExtensionStrategy::matches_into` -/
def reqHits (m : LitMap (Nat × Glob)) (c : Candidate) : List Nat :=
  if c.ext.isEmpty then [] else ((m.get c.ext).filter fun e => e.2.isMatch c.path).map (·.1)

/-- `RegexSetStrategy::matches_into` (the regex set reports every pattern that matches) -/
def reHits (t : List (Nat × Glob)) (c : Candidate) : List Nat :=
  (t.filter fun e => e.2.isMatch c.path).map (·.1)

/-- the pushes of the seven `matches_into` calls, in the order of `strats`
(Extension, BasenameLiteral, Literal, Suffix, Prefix, RequiredExtension, Regex) -/
def GlobSet.pushes (s : GlobSet) (c : Candidate) : List Nat :=
  extHits s.exts c ++ baseHits s.baseLits c ++ litHits s.lits c ++ sufHits s.suffixes c
    ++ preHits s.prefixes c ++ reqHits s.requiredExts c ++ reHits s.regexes c

/-- `into.sort()` (the sorted permutation of a vector of `usize` is unique) -/
def insertSorted (x : Nat) : List Nat → List Nat
  | [] => [x]
  | y :: ys => if x ≤ y then x :: y :: ys else y :: insertSorted x ys

def sortNat (xs : List Nat) : List Nat := xs.foldr insertSorted []

/-- `into.dedup()`: removes consecutive repeated elements -/
def dedupAdj : List Nat → List Nat
  | [] => []
  | [x] => [x]
  | x :: y :: rest => if x == y then dedupAdj (y :: rest) else x :: dedupAdj (y :: rest)

/-- `GlobSet::matches_candidate_into` -/
def GlobSet.matchesCandidate (s : GlobSet) (c : Candidate) : List Nat :=
  if s.len == 0 then [] else dedupAdj (sortNat (s.pushes c))

/-- the seven members of `GlobSet.strats` -/
inductive StratKind where
  | extension | basenameLiteral | literal | suffix | pfx | requiredExtension | regex
  deriving Repr, DecidableEq

/-- every strategy once (any arrangement of these seven is a possible `strats` vector) -/
def allStrats : List StratKind :=
  [.extension, .basenameLiteral, .literal, .suffix, .pfx, .requiredExtension, .regex]

/-- what one strategy's `matches_into` pushes -/
def GlobSet.hitsOf (s : GlobSet) (c : Candidate) : StratKind → List Nat
  | .extension => extHits s.exts c
  | .basenameLiteral => baseHits s.baseLits c
  | .literal => litHits s.lits c
  | .suffix => sufHits s.suffixes c
  | .pfx => preHits s.prefixes c
  | .requiredExtension => reqHits s.requiredExts c
  | .regex => reHits s.regexes c

/-- `for strat in &self.strats { strat.matches_into(path, into) }` for a `strats` vector in the given order -/
def GlobSet.pushesIn (s : GlobSet) (order : List StratKind) (c : Candidate) : List Nat :=
  order.flatMap (s.hitsOf c)

/-- `matches_candidate_into` when the strategies sit in `order` -/
def GlobSet.matchesCandidateIn (s : GlobSet) (order : List StratKind) (c : Candidate) : List Nat :=
  if s.len == 0 then [] else dedupAdj (sortNat (s.pushesIn order c))

/-- `is_match_candidate` when the strategies sit in `order`: some strategy reports a match (a strategy's
`is_match` is true exactly when its `matches_into` pushes something) -/
def GlobSet.isMatchIn (s : GlobSet) (order : List StratKind) (c : Candidate) : Bool :=
  if s.len == 0 then false else order.any fun k => !(s.hitsOf c k).isEmpty

/-- `GlobSetBuilder::build()` followed by `GlobSet::matches(path)` -/
def setMatches (gs : List Glob) (p : Bytes) : List Nat :=
  (GlobSet.new gs).matchesCandidate (candidate p)

/-- `into.clear()` -/
def clearBuf (_into : List Nat) : List Nat := []

/-- `GlobSet::matches_candidate_into` with the caller's buffer made explicit (the `*_into` functions write into a
`Vec` the caller may reuse): the buffer is cleared FIRST, then comes the early exit for an empty set, then every
strategy pushes, then `sort` + `dedup`.  Returns the buffer after the call. -/
def GlobSet.matchesCandidateInto (s : GlobSet) (c : Candidate) (into : List Nat) : List Nat :=
  let into := clearBuf into
  if s.len == 0 then into else dedupAdj (sortNat (into ++ s.pushes c))

/-- a history of `matches_into` calls that all reuse one buffer: each step builds a set (possibly with no glob
at all: `GlobSet::empty()`, `GlobSetBuilder::new().build()`, `Default`) and asks about one path; the list of
buffer contents after each call -/
def intoHistory : List (List Glob × Bytes) → List Nat → List (List Nat)
  | [], _ => []
  | (gs, p) :: rest, buf =>
    let r := (GlobSet.new gs).matchesCandidateInto (candidate p) buf
    r :: intoHistory rest r

/-- the answer of one strategy for one glob, as the (test-only) `GlobStrategic::is_match_candidate`
states it; `GlobSet` spreads the same lookups over its tables -/
def stratAnswer (g : Glob) (st : Strat) (c : Candidate) : Bool :=
  match st with
  | .literal l => utf8Str l == c.path
  | .basenameLiteral l => !c.basename.isEmpty && utf8Str l == c.basename
  | .extension e => !c.ext.isEmpty && utf8Str e == c.ext
  | .pfx l => (utf8Str l).isPrefixOf c.path
  | .sfx l component =>
    (component && c.path == (utf8Str l).drop 1) || (utf8Str l).isSuffixOf c.path
  | .requiredExt e => !c.ext.isEmpty && c.ext == utf8Str e && g.isMatch c.path
  | .regex => g.isMatch c.path

/-- the class of paths on which the unchanged tree's set and single-glob answers differ:
the last component is `.` or `..` (`file_name` is `None`, so basename and extension are empty) -/
def lastCompDots (p : Bytes) : Bool := lastComp p == [46] || lastComp p == [46, 46]

end RgVerif.Glob
