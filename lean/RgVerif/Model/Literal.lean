import RgVerif.Model.HirSem
/-
Model of `crates/regex/src/literal.rs` (inner literal extraction) together with the operations
of `regex_syntax::hir::literal::{Literal, Seq}` (0.8.4) it calls.

* `Seq`  = `Option (List Lit)`; `none` is the infinite sequence.
* `TSeq` = `Seq` + the `prefix` tag.
* `Seq::optimize_for_prefix_by_preference` is *not* modelled: the harness passes the real
  result and the verified certificate `covers` (below) decides.
-/
namespace RgVerif.Rx
open RgVerif

structure Lit where
  bytes : Bytes
  exact : Bool
  deriving Repr, DecidableEq, Inhabited

abbrev Seq := Option (List Lit)

namespace Lit
def inexact (l : Lit) : Lit := { l with exact := false }
/-- `Literal::keep_first_bytes`. -/
def keepFirst (n : Nat) (l : Lit) : Lit :=
  if n ≥ l.bytes.length then l else { bytes := l.bytes.take n, exact := false }
/-- `Literal::keep_last_bytes`. -/
def keepLast (n : Nat) (l : Lit) : Lit :=
  if n ≥ l.bytes.length then l else { bytes := l.bytes.drop (l.bytes.length - n), exact := false }
end Lit

/-! ### `Seq` -/

/-- `Vec::dedup_by` with the closure of `Seq::dedup`: `prev` is the retained element. -/
def dedupGo (prev : Lit) : List Lit → List Lit
  | [] => [prev]
  | b :: rest =>
    if prev.bytes == b.bytes then
      dedupGo (if prev.exact != b.exact then prev.inexact else prev) rest
    else prev :: dedupGo b rest

def dedupLits : List Lit → List Lit
  | [] => []
  | a :: rest => dedupGo a rest

namespace Seq
def infinite : Seq := none
def empty : Seq := some []
def singleton (l : Lit) : Seq := some [l]
def isFinite (s : Seq) : Bool := s.isSome
def len (s : Seq) : Option Nat := s.map List.length
def isEmpty (s : Seq) : Bool := s.len == some 0
def makeInexact (s : Seq) : Seq := s.map fun ls => ls.map Lit.inexact
def keepFirstBytes (n : Nat) (s : Seq) : Seq := s.map fun ls => ls.map (Lit.keepFirst n)
def keepLastBytes (n : Nat) (s : Seq) : Seq := s.map fun ls => ls.map (Lit.keepLast n)
def dedup (s : Seq) : Seq := s.map dedupLits
/-- `self.literals().map_or(true, |lits| lits.iter().all(|x| !x.is_exact()))` -/
def isInexact : Seq → Bool
  | none => true
  | some ls => ls.all fun l => !l.exact
def isExact : Seq → Bool
  | none => false
  | some ls => ls.all fun l => l.exact
def minLiteralLen : Seq → Option Nat
  | none => none
  | some [] => none
  | some (l :: ls) => some (ls.foldl (fun m x => min m x.bytes.length) l.bytes.length)
def maxLiteralLen : Seq → Option Nat
  | none => none
  | some [] => none
  | some (l :: ls) => some (ls.foldl (fun m x => max m x.bytes.length) l.bytes.length)
def maxUnionLen (a b : Seq) : Option Nat := do pure ((← a.len) + (← b.len))
def maxCrossLen (a b : Seq) : Option Nat := do pure ((← a.len) * (← b.len))
/-- `Seq::push`: skipped when equal to the last literal. -/
def push (s : Seq) (l : Lit) : Seq :=
  s.map fun ls => if ls.getLast? == some l then ls else ls ++ [l]

/-- `Seq::cross_forward` (result left in `self`; `other` is drained and not used afterwards). -/
def crossForward (s1 s2 : Seq) : Seq :=
  match s2 with
  | none => if s1.minLiteralLen == some 0 then none else s1.makeInexact
  | some l2 =>
    match s1 with
    | none => none
    | some l1 =>
      some (dedupLits (l1.flatMap fun a =>
        if a.exact then l2.map fun b => { bytes := a.bytes ++ b.bytes, exact := b.exact } else [a]))

/-- `Seq::union`. -/
def union (s1 s2 : Seq) : Seq :=
  match s2 with
  | none => none
  | some l2 =>
    match s1 with
    | none => none
    | some l1 => some (dedupLits (l1 ++ l2))
end Seq

/-! ### byte frequency ranks (`regex_syntax::hir::literal::rank`) -/

def rankTable : List Nat :=
  [55,52,51,50,49,48,47,46,45,103,242,66,67,229,44,43,42,41,40,39,38,37,36,35,34,33,56,32,31,30,29,28,
   255,148,164,149,136,160,155,173,221,222,134,122,232,202,215,224,208,220,204,187,183,179,177,168,178,
   200,226,195,154,184,174,126,120,191,157,194,170,189,162,161,150,193,142,137,171,176,185,167,186,112,
   175,192,188,156,140,143,123,133,128,147,138,146,114,223,151,249,216,238,236,253,227,218,230,247,135,
   180,241,233,246,244,231,139,245,243,251,235,201,196,240,214,152,182,205,181,127,27,212,211,210,213,
   228,197,169,159,131,172,105,80,98,96,97,81,207,145,116,115,144,130,153,121,107,132,109,110,124,111,
   82,108,118,141,113,129,119,125,165,117,92,106,83,72,99,93,65,79,166,237,163,199,190,225,209,203,198,
   217,219,206,234,248,158,239,255,255,255,255,255,255,255,255,255,255,255,255,255,255,255,255,255,255,
   255,255,255,255,255,255,255,255,255,255,255,255,255,255,255,255,255,255,255,255,255,255,255,255,255,
   255,255,255,255,255,255,255,255,255,255,255,255,255,255,255,255,255,255,255,255,255]

def rank (b : Nat) : Nat := rankTable.getD b 255

/-! constants of `is_poisonous`, `is_good`, `is_really_good`, `Extractor::union` (source-anchored: `bin/check`
re-extracts each from literal.rs on every run, see `checks/C11.json`) -/
def poisonLen : Nat := 1
def poisonRank : Nat := 250
def goodShortMin : Nat := 1
def goodShortLen : Nat := 3
def goodMin : Nat := 2
def goodLen : Nat := 64
def reallyGoodMin : Nat := 3
def reallyGoodLen : Nat := 8
def unionTrimLen : Nat := 4

/-- `is_poisonous`. -/
def isPoisonous (l : Lit) : Bool :=
  l.bytes.isEmpty || (l.bytes.length == poisonLen && rank (l.bytes.getD 0 0) ≥ poisonRank)

/-! ### `TSeq` -/

structure TSeq where
  seq : Seq
  pre : Bool
  deriving Repr, DecidableEq, Inhabited

namespace TSeq
def empty : TSeq := ⟨Seq.empty, true⟩
def infinite : TSeq := ⟨Seq.infinite, true⟩
def singleton (l : Lit) : TSeq := ⟨Seq.singleton l, true⟩
def makeInexact (t : TSeq) : TSeq := { t with seq := t.seq.makeInexact }
def makeInfinite (t : TSeq) : TSeq := { t with seq := none }
def keepFirstBytes (n : Nat) (t : TSeq) : TSeq := { t with seq := t.seq.keepFirstBytes n }
def dedup (t : TSeq) : TSeq := { t with seq := t.seq.dedup }

def hasPoisonousLiteral (t : TSeq) : Bool :=
  match t.seq with
  | none => false
  | some ls => ls.any isPoisonous

def isGood (t : TSeq) : Bool :=
  if t.hasPoisonousLiteral then false
  else match t.seq.minLiteralLen, t.seq.len with
    | some mn, some len => if mn ≤ goodShortMin then len ≤ goodShortLen else mn ≥ goodMin && len ≤ goodLen
    | _, _ => false

def isReallyGood (t : TSeq) : Bool :=
  if t.hasPoisonousLiteral then false
  else match t.seq.minLiteralLen, t.seq.len with
    | some mn, some len => mn ≥ reallyGoodMin && len ≤ reallyGoodLen
    | _, _ => false

/-- `TSeq::choose`. -/
def choose (a b : TSeq) : TSeq :=
  let s1 := a.makeInexact
  let s2 := b.makeInexact
  if !s1.seq.isFinite then s2
  else if !s2.seq.isFinite then s1
  else if s1.hasPoisonousLiteral then s2
  else if s2.hasPoisonousLiteral then s1
  else match s1.seq.minLiteralLen with
    | none => s2
    | some min1 =>
      match s2.seq.minLiteralLen with
      | none => s1
      | some min2 =>
        if min1 < min2 then s2
        else if min2 < min1 then s1
        else
          let len1 := (s1.seq.len).getD 0
          let len2 := (s2.seq.len).getD 0
          if len1 < len2 then s2
          else if len2 < len1 then s1
          else s1
end TSeq

/-! ### `Extractor` -/

def limitClass : Nat := 10
def limitRepeat : Nat := 10
def limitLiteralLen : Nat := 100
def limitTotal : Nat := 64

/-- `Extractor::enforce_literal_len`. -/
def enforceLiteralLen (t : TSeq) : TSeq := t.keepFirstBytes limitLiteralLen

/-- `max_cross_len(..).map_or(false, |len| len > limit_total)` -/
def overCross (a b : Seq) : Bool :=
  match a.maxCrossLen b with
  | some len => len > limitTotal
  | none => false

/-- `max_union_len(..).map_or(false, |len| len > limit_total)` -/
def overUnion (a b : Seq) : Bool :=
  match a.maxUnionLen b with
  | some len => len > limitTotal
  | none => false

/-- `Extractor::cross`. -/
def exCross (t1 t2 : TSeq) : TSeq :=
  if !t2.pre then t1.choose t2
  else
    let s2 : Seq := if overCross t1.seq t2.seq then none else t2.seq
    enforceLiteralLen { t1 with seq := t1.seq.crossForward s2 }

/-- `Extractor::union`. -/
def exUnion (t1 t2 : TSeq) : TSeq :=
  if overUnion t1.seq t2.seq then
    let a := (t1.seq.keepFirstBytes unionTrimLen).dedup
    let b := (t2.seq.keepFirstBytes unionTrimLen).dedup
    let b := if overUnion a b then none else b
    ⟨a.union b, t1.pre && t2.pre⟩
  else ⟨t1.seq.union t2.seq, t1.pre && t2.pre⟩

/-- `class_over_limit_*`: the loop with its early return. -/
def classOverLimitGo (count : Nat) : Ranges → Bool
  | [] => count > limitClass
  | r :: rs => if count > limitClass then true else classOverLimitGo (count + (r.2 + 1 - r.1)) rs

def classOverLimit (rs : Ranges) : Bool := classOverLimitGo 0 rs

/-- the scalar values / bytes of a (small) class in order. -/
def classElems (rs : Ranges) : List Nat := rs.flatMap fun r => List.range' r.1 (r.2 + 1 - r.1)

def extractClassUnicode (rs : Ranges) : TSeq :=
  if classOverLimit rs then TSeq.infinite
  else
    let s := ((classElems rs).filter isScalar).foldl (fun s c => Seq.push s ⟨utf8Enc c, true⟩) Seq.empty
    enforceLiteralLen ⟨s, true⟩

def extractClassBytes (rs : Ranges) : TSeq :=
  if classOverLimit rs then TSeq.infinite
  else
    let s := (classElems rs).foldl (fun s b => Seq.push s ⟨[b], true⟩) Seq.empty
    enforceLiteralLen ⟨s, true⟩

/-- the loop `for _ in 0..k { if seq.is_inexact() { break } seq = cross(seq, subseq.clone()) }`. -/
def crossLoop (sub : TSeq) : Nat → TSeq → TSeq
  | 0, seq => seq
  | k + 1, seq => if seq.seq.isInexact then seq else crossLoop sub k (exCross seq sub)

/-- `Extractor::extract_repetition` given the sequence of the sub-expression. -/
def extractRepetition (min : Nat) (max : Option Nat) (greedy : Bool) (subseq : TSeq) : TSeq :=
  if min == 0 then
    let subseq := if max != some 1 then subseq.makeInexact else subseq
    let empty := TSeq.singleton ⟨[], true⟩
    if greedy then exUnion subseq empty else exUnion empty subseq
  else match max with
    | some mx =>
      if min == mx then
        let seq := crossLoop subseq (Nat.min min limitRepeat) (TSeq.singleton ⟨[], true⟩)
        if min > limitRepeat then seq.makeInexact else seq
      else if min < mx then
        (crossLoop subseq (Nat.min min limitRepeat) (TSeq.singleton ⟨[], true⟩)).makeInexact
      else subseq.makeInexact
    | none => subseq.makeInexact

mutual
/-- `Extractor::extract`. -/
def extract : Hir → TSeq
  | .empty => TSeq.singleton ⟨[], true⟩
  | .look _ => TSeq.singleton ⟨[], true⟩
  | .lit bs => enforceLiteralLen (TSeq.singleton ⟨bs, true⟩)
  | .classU rs => extractClassUnicode rs
  | .classB rs => extractClassBytes rs
  | .rep min max greedy sub => extractRepetition min max greedy (extract sub)
  | .cap _ sub => extract sub
  | .concat xs => extractConcat xs (TSeq.singleton ⟨[], true⟩) none
  | .alt xs => extractAlt xs TSeq.empty
/-- the loop of `Extractor::extract_concat` (state: `seq`, `prev`). -/
def extractConcat : HirList → TSeq → Option TSeq → TSeq
  | .nil, seq, prev =>
    match prev with
    | some p => p.choose seq
    | none => seq
  | .cons h t, seq, prev =>
    if seq.seq.isInexact then
      if seq.seq.isEmpty then seq
      else if seq.isReallyGood then seq
      else
        let prev' := match prev with
          | none => seq
          | some p => p.choose seq
        extractConcat t (exCross ⟨Seq.singleton ⟨[], true⟩, false⟩ (extract h)) (some prev')
    else extractConcat t (exCross seq (extract h)) prev
/-- the loop of `Extractor::extract_alternation`. -/
def extractAlt : HirList → TSeq → TSeq
  | .nil, seq => seq
  | .cons h t, seq => if !seq.seq.isFinite then seq else extractAlt t (exUnion seq (extract h))
end

/-- The tail of `Extractor::extract_untagged` after the (external) optimisation step:
`optimized` is what `optimize_for_prefix_by_preference` returned. -/
def finishUntagged (optimized : Seq) : Seq :=
  if (TSeq.mk optimized true).isGood then optimized else none

/-! ### gating of `InnerLiterals::new` -/

def Look.isWordUnicode : Look → Bool
  | .WordUnicode | .WordUnicodeNegate | .WordStartUnicode | .WordEndUnicode
  | .WordStartHalfUnicode | .WordEndHalfUnicode => true
  | _ => false

mutual
/-- some look of the tree satisfies `p` (`properties().look_set()` membership). -/
def anyLook (p : Look → Bool) : Hir → Bool
  | .look k => p k
  | .rep _ _ _ sub => anyLook p sub
  | .cap _ sub => anyLook p sub
  | .concat xs => anyLookL p xs
  | .alt xs => anyLookL p xs
  | _ => false
def anyLookL (p : Look → Bool) : HirList → Bool
  | .nil => false
  | .cons h t => anyLook p h || anyLookL p t
end

def isLit : Hir → Bool
  | .lit _ => true
  | _ => false

mutual
/-- `Properties::is_literal`. -/
def propLiteral : Hir → Bool
  | .lit _ => true
  | .concat xs => propLiteralAll xs
  | _ => false
def propLiteralAll : HirList → Bool
  | .nil => true
  | .cons h t => propLiteral h && propLiteralAll t
end

mutual
/-- `Properties::is_alternation_literal`. -/
def propAltLiteral : Hir → Bool
  | .lit _ => true
  | .concat xs => propAltLiteralAll xs
  | .alt xs => propLiteralAll xs
  | _ => false
def propAltLiteralAll : HirList → Bool
  | .nil => true
  | .cons h t => propAltLiteral h && propAltLiteralAll t
end

/-- `InnerLiterals::new` declines (returns the infinite sequence) unless this holds.
`accelerated` is `Regex::is_accelerated()` of the compiled regex (opaque input). -/
def innerGate (hasLineTerm accelerated : Bool) (h : Hir) : Bool :=
  hasLineTerm && !(accelerated && !anyLook Look.isWordUnicode h) && !propAltLiteral h

/-! ### the certificate for the external optimisation step -/

/-- `a` occurs as a contiguous sub-list of `b`. -/
def isInfixB (a : Bytes) : Bytes → Bool
  | [] => a.isEmpty
  | b :: bs => a.isPrefixOf (b :: bs) || isInfixB a bs

/-- every literal of `L` has some literal of `L'` inside it. -/
def covers (L L' : List Lit) : Bool := L.all fun l => L'.any fun l' => isInfixB l'.bytes l.bytes

/-- no literal contains the byte (so an occurrence of a literal never crosses a line). -/
def litsNoByte (b : Nat) (L : List Lit) : Bool := L.all fun l => !l.bytes.contains b

/-! ### the fast candidate search -/

/-- leftmost occurrence of any literal at or after `at_`: the end offset of the literal that
`Regex::search_half` of the literal alternation reports (first alternative that matches there). -/
def fastFindFrom (L : List Lit) (hay : Bytes) : Nat → Nat → Option Nat
  | 0, _ => none
  | fuel + 1, pos =>
    match L.find? (fun l => l.bytes.isPrefixOf (hay.drop pos)) with
    | some l => some (pos + l.bytes.length)
    | none => if pos < hay.length then fastFindFrom L hay fuel (pos + 1) else none

def fastFind (L : List Lit) (hay : Bytes) : Option Nat := fastFindFrom L hay (hay.length + 1) 0

end RgVerif.Rx
