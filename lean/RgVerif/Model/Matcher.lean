import RgVerif.Model.Sx
/-
Model of the `grep_matcher::Matcher` trait's provided iteration methods
(`crates/matcher/src/lib.rs`): `try_find_iter_at`, `try_captures_iter_at`.
The required methods (`find_at`, `captures_at`) are parameters.
-/
namespace RgVerif.Matcher

/-- A match span `[start, end)`. -/
structure Span where
  s : Nat
  e : Nat
  deriving Repr, DecidableEq, Inhabited

/-- Capture locations: group 0 first; `none` = group did not participate. -/
structure Caps where
  groups : List (Option Span)
  deriving Repr, DecidableEq, Inhabited

def Caps.get (c : Caps) (i : Nat) : Option Span := (c.groups[i]?).join

/-- The loop of `try_captures_iter_at` / `try_find_iter_at` (identical control flow; `item` is either
a `Span` or a `Caps`, `span` projects the overall match).
`capsAt pos` is `captures_at(haystack, pos)`; `f` is the callback, returning the new accumulator and
whether to continue. `fuel` bounds the number of engine calls; `len + 2` always suffices for a matcher
whose matches start at or after the search position (`iterGo_fuel_enough`). -/
def iterGo {α σ : Type} (span : α → Span) (capsAt : Nat → Option α) (len : Nat)
    (f : σ → α → σ × Bool) : Nat → Nat → Option Nat → σ → σ
  | 0, _, _, st => st
  | fuel + 1, lastEnd, lastMatch, st =>
    if lastEnd > len then st
    else match capsAt lastEnd with
      | none => st
      | some c =>
        let m := span c
        if m.s == m.e then
          -- empty match: next search starts one past it; skip it if it abuts the previous match
          if some m.e == lastMatch then iterGo span capsAt len f fuel (m.e + 1) lastMatch st
          else
            let (st', cont) := f st c
            if cont then iterGo span capsAt len f fuel (m.e + 1) (some m.e) st' else st'
        else
          let (st', cont) := f st c
          if cont then iterGo span capsAt len f fuel m.e (some m.e) st' else st'

/-- `captures_iter_at(haystack, at, caps, matched)`. -/
def capturesIterAt {σ : Type} (capsAt : Nat → Option Caps) (len : Nat) (at_ : Nat)
    (f : σ → Caps → σ × Bool) (init : σ) : σ :=
  iterGo (fun c => (c.get 0).getD ⟨0, 0⟩) capsAt len f (len + 2) at_ none init

/-- `find_iter_at(haystack, at, matched)`. -/
def findIterAt {σ : Type} (findAt : Nat → Option Span) (len : Nat) (at_ : Nat)
    (f : σ → Span → σ × Bool) (init : σ) : σ :=
  iterGo id findAt len f (len + 2) at_ none init

end RgVerif.Matcher
