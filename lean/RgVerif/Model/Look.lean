import RgVerif.Model.Hir
/-
Look-around assertions: transcription of `regex_automata::util::look::LookMatcher`
(0.4.7, default line terminator `\n`) and of the helpers `util::utf8::{decode, decode_last,
is_word_byte}` it uses.  The Unicode word predicate on scalar values is a parameter
`isWord` (the real table is `\w`); none of the C11 theorems depends on it.
-/
namespace RgVerif.Rx
open RgVerif

def isWordByte (b : Nat) : Bool :=
  b == 95 || (48 ≤ b && b ≤ 57) || (65 ≤ b && b ≤ 90) || (97 ≤ b && b ≤ 122)

/-- `utf8::len`: length announced by a leading byte. -/
def u8len (b : Nat) : Option Nat :=
  if b ≤ 0x7F then some 1
  else if b ≤ 0xBF then none
  else if b ≤ 0xDF then some 2
  else if b ≤ 0xEF then some 3
  else if b ≤ 0xF7 then some 4
  else none

/-- Result of `utf8::decode`: `none` = empty input, `some none` = `Err`, `some (some c)` = `Ok(c)`. -/
def decodeFwd (bs : Bytes) : Option (Option Nat) :=
  match bs with
  | [] => none
  | b0 :: _ =>
    match u8len b0 with
    | none => some none
    | some n =>
      if n > bs.length then some none
      else if n == 1 then some (some b0)
      else some (utf8Dec (bs.take n))

/-- The backwards walk of `utf8::decode_last` (at most three steps over continuation bytes). -/
def backStart (bs : Bytes) (limit : Nat) : Nat → Nat → Nat
  | 0, start => start
  | fuel + 1, start =>
    let b := bs.getD start 0
    if start > limit && (0x80 ≤ b && b ≤ 0xBF) then backStart bs limit fuel (start - 1) else start

/-- `utf8::decode_last` (note: it decodes the character that *starts* at the position found by
walking back; it does not check that this character ends at the end of the slice). -/
def decodeLast (bs : Bytes) : Option (Option Nat) :=
  if bs.isEmpty then none
  else
    let start := backStart bs (bs.length - 4) 3 (bs.length - 1)
    decodeFwd (bs.drop start)

section
variable (isWord : Nat → Bool)

/-- `is_word_char::fwd`. -/
def wordFwd (hay : Bytes) (at_ : Nat) : Bool :=
  match decodeFwd (hay.drop at_) with
  | some (some c) => isWord c
  | _ => false

/-- `is_word_char::rev`. -/
def wordRev (hay : Bytes) (at_ : Nat) : Bool :=
  match decodeLast (hay.take at_) with
  | some (some c) => isWord c
  | _ => false

def isOkDecode : Option (Option Nat) → Bool
  | some (some _) => true
  | _ => false

/-- `LookMatcher::matches(look, haystack, at)` for `at ≤ haystack.len()`. -/
def lookAt (k : Look) (hay : Bytes) (at_ : Nat) : Bool :=
  let len := hay.length
  let prev := hay.getD (at_ - 1) 0
  let cur := hay.getD at_ 0
  let wbA := at_ > 0 && isWordByte prev
  let waA := at_ < len && isWordByte cur
  match k with
  | .Start => at_ == 0
  | .End => at_ == len
  | .StartLF => at_ == 0 || prev == 10
  | .EndLF => at_ == len || cur == 10
  | .StartCRLF => at_ == 0 || prev == 10 || (prev == 13 && (at_ ≥ len || cur != 10))
  | .EndCRLF => at_ == len || cur == 13 || (cur == 10 && (at_ == 0 || prev != 13))
  | .WordAscii => wbA != waA
  | .WordAsciiNegate => !(wbA != waA)
  | .WordUnicode => wordRev isWord hay at_ != wordFwd isWord hay at_
  | .WordUnicodeNegate =>
    if at_ > 0 && !isOkDecode (decodeLast (hay.take at_)) then false
    else if at_ < len && !isOkDecode (decodeFwd (hay.drop at_)) then false
    else (at_ > 0 && wordRev isWord hay at_) == (at_ < len && wordFwd isWord hay at_)
  | .WordStartAscii => !wbA && waA
  | .WordEndAscii => wbA && !waA
  | .WordStartUnicode => !wordRev isWord hay at_ && wordFwd isWord hay at_
  | .WordEndUnicode => wordRev isWord hay at_ && !wordFwd isWord hay at_
  | .WordStartHalfAscii => !wbA
  | .WordEndHalfAscii => !waA
  | .WordStartHalfUnicode =>
    if at_ > 0 && !isOkDecode (decodeLast (hay.take at_)) then false
    else !(at_ > 0 && wordRev isWord hay at_)
  | .WordEndHalfUnicode =>
    if at_ < len && !isOkDecode (decodeFwd (hay.drop at_)) then false
    else !(at_ < len && wordFwd isWord hay at_)

end

/-- Word predicate used by the driver: exact on ASCII; non-ASCII scalars are looked up in the
ranges the harness passes along (the `\w` table of the linked regex-syntax), default none. -/
def isWordWith (extra : Ranges) (c : Nat) : Bool :=
  if c < 128 then isWordByte c else inCls extra c

end RgVerif.Rx
