import RgVerif.Model.Matcher
import RgVerif.Model.Interpolate
/-
Model of `crates/printer/src/util.rs`: `trim_line_terminator`,
`replace_with_captures_in_context`, `Replacer::replace_all` (non-multi-line branch), and the two
`StandardSink` callbacks that call it.
-/
namespace RgVerif.Replace
open RgVerif.Matcher RgVerif.Interp

/-- `MAX_LOOK_AHEAD = 128` (crates/printer/src/lib.rs): how far beyond the range the multi-line branch of
`replace_all` / `find_iter_at_in_context` lets the matcher look. The non-multi-line branch modelled below
does not use it; it is recorded (and re-checked against the source on every run) because the proofs are about
that branch only as long as the two branches stay what they are. -/
def maxLookAhead : Nat := 128

/-- Line terminator configuration of the searcher: a single byte, or CRLF. -/
inductive LineTerm where
  | byte (b : Nat)
  | crlf
  deriving Repr, DecidableEq

def LineTerm.asByte : LineTerm → Nat
  | .byte b => b
  | .crlf => 10

/-- `lineterm.is_suffix(slice)`: the slice ends with the terminator *byte*. -/
def LineTerm.isSuffix (t : LineTerm) (slice : Bytes) : Bool :=
  slice.getLast? == some t.asByte

/-- `trim_line_terminator(searcher, buf, &mut line)` for `line = [s, e)`: new end. -/
def trimLineTerminator (t : LineTerm) (buf : Bytes) (s e : Nat) : Nat :=
  if t.isSuffix ((buf.take e).drop s) then
    let end1 := e - 1
    if t == .crlf && end1 > 0 && buf[end1 - 1]? == some 13 then end1 - 1 else end1
  else e

def slice (b : Bytes) (s e : Nat) : Bytes := (b.take e).drop s

structure RState where
  lastMatch : Nat
  dst : Bytes
  /-- offsets of each expansion inside `dst` -/
  spans : List Span
  deriving Repr

def envOf (hay : Bytes) (names : List (Bytes × Nat)) (c : Caps) : Env :=
  { group := fun i => (c.get i).map fun sp => slice hay sp.s sp.e
  , nameIdx := fun nm => (names.find? (fun p => p.1 == nm)).map (·.2) }

/-- `is_at_unterminated_end(searcher, bytes, &range)`: the range ends the haystack and does not end in a
line terminator, so an (empty) match at the very end still belongs to the range's last line. -/
def isAtUnterminatedEnd (t : LineTerm) (bytes : Bytes) (rs re : Nat) : Bool :=
  re == bytes.length && decide (rs ≤ re) && !t.isSuffix (slice bytes rs re)

/-- `m.start() >= range.end && !(at_unterminated_end && m.start() == range.end)`: the callback's
"this match lies beyond the range, stop" test. -/
def beyondRange (re : Nat) (atEnd : Bool) (s : Nat) : Bool :=
  decide (s ≥ re) && !(atEnd && s == re)

/-- `replace_with_captures_in_context` with the closure `replace_all` passes to it. -/
def replaceWithCapturesInContext (capsAt : Nat → Option Caps) (names : List (Bytes × Nat))
    (bytes : Bytes) (rs re : Nat) (atEnd : Bool) (tmpl : Bytes) : RState :=
  let step := fun (st : RState) (c : Caps) =>
    let m := (c.get 0).getD ⟨0, 0⟩
    -- a match that starts beyond the range, or (multi-line look-ahead) reaches beyond it, ends the loop
    if beyondRange re atEnd m.s || decide (m.e > re) then (st, false)
    else
      let dst1 := st.dst ++ slice bytes st.lastMatch m.s
      let exp := interpolate (envOf bytes names c) tmpl
      ({ lastMatch := m.e, dst := dst1 ++ exp,
         spans := st.spans ++ [⟨dst1.length, dst1.length + exp.length⟩] }, true)
  let st := capturesIterAt capsAt bytes.length rs step ⟨rs, [], []⟩
  let end_ := min bytes.length re
  { st with dst := st.dst ++ slice bytes st.lastMatch end_ }

/-- `Replacer::replace_all(searcher, matcher, haystack, range, replacement)` when not multi-line (since the
repair 0cdcce3): the line `[rs, re)` is searched on its own — the haystack handed to the matcher is the line
without its terminator (`&haystack[range.start..m.end()]`, `m` = the range with its terminator trimmed), the range
becomes `0..re-rs`, the replacement is done on that haystack, and the terminator bytes that were cut off are put
back after it (`dst.extend(line_term)`). `capsAtOf hay` is the matcher run on that haystack. Returns `dst` and the
expansion offsets. (The real `trim_line_terminator` would panic rather than trim below `rs`; that needs a `\r`
directly before a line that is just `\n`, which no line range delivered by the searcher has.) -/
def replaceAllLine (t : LineTerm) (capsAtOf : Bytes → Nat → Option Caps) (names : List (Bytes × Nat))
    (haystack : Bytes) (rs re : Nat) (tmpl : Bytes) : RState :=
  let e := trimLineTerminator t haystack rs re
  let lineTerm := slice haystack e re
  let hay := slice haystack rs e
  let st := replaceWithCapturesInContext (capsAtOf hay) names hay 0 (re - rs)
    (isAtUnterminatedEnd t hay 0 (re - rs)) tmpl
  { st with dst := st.dst ++ lineTerm }

def LineTerm.bytes : LineTerm → Bytes
  | .byte b => [b]
  | .crlf => [13, 10]

/-- `write_line`: the bytes, completed with the configured terminator when they do not end in its byte. -/
def completeLine (t : LineTerm) (bs : Bytes) : Bytes :=
  bs ++ (if t.isSuffix bs then [] else t.bytes)

/-- One printed record of `sink_slow`: the column handed to `write_prelude` (1-based start of a match in
the printed bytes; `none` when the line is printed by `sink_fast`) and the record's text. -/
structure Record where
  col : Option Nat
  text : Bytes
  deriving Repr, DecidableEq

/-- What the Standard printer writes for one matched line when a replacement is configured
(`StandardSink::matched` → `replace` → `Sunk::from_sink_match` → `StandardImpl::sink` → `sink_fast` /
`sink_slow` → `write_line`; no colour, no trimming, no column limit). If the replacement produced no
expansion (`Replacer::replacement()` is `None`) the original line goes through `sink_fast`.
`sink_slow` tests `only_matching` before `per_match`. -/
def printRecords (t : LineTerm) (only perMatch : Bool) (line : Bytes) (st : RState) : List Record :=
  if st.spans.isEmpty then
    [⟨none, completeLine t line⟩]
  else if only then
    st.spans.map fun sp => ⟨some (sp.s + 1), completeLine t (slice st.dst sp.s sp.e)⟩
  else if perMatch then
    st.spans.map fun sp => ⟨some (sp.s + 1), completeLine t st.dst⟩
  else
    [⟨(st.spans.head?).map (·.s + 1), completeLine t st.dst⟩]

/-- The record texts only (what is written after each prelude). -/
def printMatched (t : LineTerm) (only : Bool) (line : Bytes) (st : RState) : Bytes :=
  (printRecords t only false line st).flatMap (·.text)

/-- Which `Sink` callback delivers a line to the printer. -/
inductive LineKind where
  | matched
  | context
  deriving Repr, DecidableEq

/-- `StandardSink::matched` / `StandardSink::context` with a replacement configured: the records of one
delivered line `[rs, re)` of `haystack`. A matched line is always handed to the replacer, with the whole buffer as
haystack. A context line is handed to it only when the search is inverted (`if searcher.invert_match()`: then the
context lines are the ones that contain matches) and as a haystack of its own (`ctx.bytes()`, range all of it);
otherwise `replacer.clear()` leaves no replacement and the line goes through `sink_fast` as it is. -/
def sinkLine (t : LineTerm) (only perMatch invert : Bool) (kind : LineKind)
    (capsAtOf : Bytes → Nat → Option Caps) (names : List (Bytes × Nat))
    (haystack : Bytes) (rs re : Nat) (tmpl : Bytes) : List Record :=
  let line := slice haystack rs re
  match kind with
  | .matched => printRecords t only perMatch line (replaceAllLine t capsAtOf names haystack rs re tmpl)
  | .context =>
    if invert then printRecords t only perMatch line (replaceAllLine t capsAtOf names line 0 line.length tmpl)
    else [⟨none, completeLine t line⟩]

end RgVerif.Replace
