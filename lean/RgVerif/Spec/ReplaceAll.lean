import RgVerif.Model.Utf8
import RgVerif.Model.Interpolate
import RgVerif.Model.Matcher
/-
Specification for C19: the *regex crate's* replacement-template grammar
(regex-automata 0.4.7 `util/interpolate.rs`), written as a tokenizer, and
"replace all" over a list of successive matches.
-/
namespace RgVerif.ReplaceSpec
open RgVerif.Interp

inductive Tok where
  | lit (b : Nat)
  | ref (r : Ref)
  deriving Repr, DecidableEq

/-- `match cap.parse::<usize>() { Ok(i) => Number(i), Err(_) => Named(cap) }` -/
def toRefUsize (name : Bytes) : Ref :=
  match parseBounded usizeMax name with
  | some n => .number n
  | none => .named name

/-- A reference at the head of `r`, as the regex crate reads it: the reference and how many bytes it
spans. `${…}` takes *any* bytes up to the first `}` as the name (valid UTF-8 required); `$name` takes the
longest non-empty run of `[0-9A-Za-z_]`. -/
def refAt (r : Bytes) : Option (Ref × Nat) :=
  match r with
  | 36 :: 123 :: body =>
    let name := body.takeWhile (fun b => b != 125)
    match body.drop name.length with
    | 125 :: _ => if validUtf8 name then some (toRefUsize name, name.length + 3) else none
    | _ => none
  | 36 :: c :: rest =>
    let name := (c :: rest).takeWhile isCapLetter
    if name.isEmpty then none else some (toRefUsize name, name.length + 1)
  | _ => none

theorem refAt_pos {r : Bytes} {x : Ref × Nat} (h : refAt r = some x) : 0 < x.2 := by
  unfold refAt at h
  split at h
  · simp only at h
    split at h
    · split at h
      · injection h with h; subst h; simp
      · simp at h
    · simp at h
  · simp only at h
    split at h
    · simp at h
    · injection h with h; subst h; simp
  · simp at h

def tokens : Bytes → List Tok
  | [] => []
  | 36 :: 36 :: rest => .lit 36 :: tokens rest
  | 36 :: rest =>
    match h : refAt (36 :: rest) with
    | none => .lit 36 :: tokens rest
    | some x => .ref x.1 :: tokens ((36 :: rest).drop x.2)
  | b :: rest => .lit b :: tokens rest
termination_by r => r.length
decreasing_by
  all_goals simp_wf
  all_goals try omega
  have := refAt_pos h
  omega

def Tok.out (env : Env) : Tok → Bytes
  | .lit b => [b]
  | .ref r => env.expand r

/-- Expansion of a template for one match, as `regex::bytes::Captures::expand` defines it. -/
def expand (env : Env) (tmpl : Bytes) : Bytes := (tokens tmpl).flatMap (Tok.out env)

/-- The guard the current code forces (finding F12): every `${` that has a closing `}` encloses a
non-empty name made of `[0-9A-Za-z_]` only. -/
def braceHeadOk : Bytes → Bool
  | 36 :: 123 :: body =>
    let name := body.takeWhile (fun b => b != 125)
    match body.drop name.length with
    | 125 :: _ => !name.isEmpty && name.all isCapLetter
    | _ => true
  | _ => true

def braceOk : Bytes → Bool
  | [] => true
  | b :: rest => braceHeadOk (b :: rest) && braceOk rest

/-! ### Successive matches and replace-all, as the regex crate defines them

`regex::bytes::Regex::captures_iter` (regex-automata `util::iter::Searcher::advance`): search from the
end of the previous match; if the match found is empty and ends where the previous match ended, search
again one byte further and take whatever that finds. -/

open RgVerif.Matcher in
def specIter (capsAt : Nat → Option Caps) (len : Nat) : Nat → Nat → Option Nat → List Caps
  | 0, _, _ => []
  | fuel + 1, pos, last =>
    if pos > len then []
    else match capsAt pos with
      | none => []
      | some c =>
        let m := (c.get 0).getD ⟨0, 0⟩
        if m.s == m.e && some m.e == last then
          -- overlapping empty match: retry from `pos + 1`
          if pos + 1 > len then []
          else match capsAt (pos + 1) with
            | none => []
            | some c' =>
              let m' := (c'.get 0).getD ⟨0, 0⟩
              c' :: specIter capsAt len fuel m'.e (some m'.e)
        else c :: specIter capsAt len fuel m.e (some m.e)

open RgVerif.Matcher in
/-- All matches of a haystack of length `len`, searching from `start`. `2 * len + 6` searches always
suffice (each position is searched at most twice). -/
def allMatches (capsAt : Nat → Option Caps) (len start : Nat) : List Caps :=
  specIter capsAt len (2 * len + 6) start none

open RgVerif.Matcher in
/-- `replace_all` over the matches `ms` (in order) of `hay`, copying text between matches verbatim,
starting the copy at `from_` and ending it at `to`. -/
def replaceAllSpec (hay : Bytes) (expandOne : Caps → Bytes) : List Caps → Nat → Nat → Bytes
  | [], from_, to => (hay.take to).drop from_
  | c :: ms, from_, to =>
    let m := (c.get 0).getD ⟨0, 0⟩
    (hay.take m.s).drop from_ ++ expandOne c ++ replaceAllSpec hay expandOne ms m.e to

end RgVerif.ReplaceSpec
