import RgVerif.Model.Core
/-
The grep model (property C03), stated directly on the list of lines and on which of them are selected.
Nothing here mentions buffers, positions or a scan order: every clause is a predicate of a line *index*.

Input: `ls : List (Bytes × Bool)` — the lines of the input in order (terminator included) paired with
"is this line selected" (matched, or not matched under inversion).  With `A` lines of after-context and
`B` lines of before-context:

  line i is a **match**   iff it is selected;
  else **after**-context  iff some selected line j < i has i - j ≤ A;
  else **other**-context  iff passthru is on (every remaining line is delivered);
  else **before**-context iff some selected line j > i has j - i ≤ B;
  else it is not delivered.

  A **break** is signalled before delivered line i iff context is enabled (A > 0 ∨ B > 0), line i - 1 is
  not delivered, and some earlier line is (i.e. exactly between non-adjacent groups).
  Line numbers are 1-based indices, offsets are the sum of the lengths of all earlier lines, and the
  final `finish` reports the total length.  `stop_on_nonmatch` cuts the input after the first unselected
  line that follows a selected line (that line can still be delivered as after/other context).
-/
namespace RgVerif.GrepSpec
open RgVerif RgVerif.Searcher

/-- Split at terminator bytes; every line keeps its terminator, the last one may lack it; no line is empty. -/
def splitLines (t : Nat) : Bytes → List Bytes
  | [] => []
  | b :: rest =>
    if b == t then [b] :: splitLines t rest
    else
      match splitLines t rest with
      | [] => [[b]]
      | l :: ls => (b :: l) :: ls

abbrev SLine := Bytes × Bool

def selAt (ls : List SLine) (i : Nat) : Bool := ((ls[i]?).map (·.2)).getD false
def bytesAt (ls : List SLine) (i : Nat) : Bytes := ((ls[i]?).map (·.1)).getD []

/-- some selected line `j < i` with `i - j ≤ A` -/
def afterWin (A : Nat) (ls : List SLine) (i : Nat) : Bool :=
  (List.range i).any fun j => selAt ls j && decide (i - j ≤ A)

/-- some selected line `j > i` with `j - i ≤ B` -/
def beforeWin (B : Nat) (ls : List SLine) (i : Nat) : Bool :=
  (List.range B).any fun d => selAt ls (i + 1 + d)

inductive Kind where
  | matched
  | ctx (k : CtxKind)
  deriving Repr, DecidableEq

def kindAt (cfg : Config) (ls : List SLine) (i : Nat) : Option Kind :=
  if selAt ls i then some .matched
  else if afterWin cfg.afterContext ls i then some (.ctx .after)
  else if cfg.passthru then some (.ctx .other)
  else if beforeWin cfg.beforeContext ls i then some (.ctx .before)
  else none

def delivered (cfg : Config) (ls : List SLine) (i : Nat) : Bool := (kindAt cfg ls i).isSome

def anyContext (cfg : Config) : Bool := decide (cfg.beforeContext > 0) || decide (cfg.afterContext > 0)

def breakBefore (cfg : Config) (ls : List SLine) (i : Nat) : Bool :=
  anyContext cfg && decide (i ≥ 1) && !delivered cfg ls (i - 1) && (List.range i).any (delivered cfg ls)

/-- starting offset of line `i` -/
def offsetAt (ls : List SLine) (i : Nat) : Nat := ((ls.take i).map (·.1.length)).sum

def lineNo (cfg : Config) (i : Nat) : Option Nat := if cfg.lineNumber then some (i + 1) else none

/-- what the sink is told about line `i` -/
def lineEvents (cfg : Config) (ls : List SLine) (i : Nat) : List Event :=
  match kindAt cfg ls i with
  | none => []
  | some k =>
    (if breakBefore cfg ls i then [Event.contextBreak] else []) ++
      [match k with
       | .matched => Event.matched (lineNo cfg i) (offsetAt ls i) (bytesAt ls i)
       | .ctx c => Event.context c (lineNo cfg i) (offsetAt ls i) (bytesAt ls i)]

/-- `stop_on_nonmatch`: keep everything up to and including the first unselected line after a selected one. -/
def stopTrunc : Bool → List SLine → List SLine
  | _, [] => []
  | seen, l :: rest => if !l.2 && seen then [l] else l :: stopTrunc (seen || l.2) rest

def effective (cfg : Config) (ls : List SLine) : List SLine :=
  if cfg.stopOnNonmatch then stopTrunc false ls else ls

/-- Everything the sink is told during a complete search. -/
def grepSpecLines (cfg : Config) (ls : List SLine) : List Event :=
  let ls := effective cfg ls
  [Event.begin] ++ (List.range ls.length).flatMap (lineEvents cfg ls) ++ [Event.finish (offsetAt ls ls.length) none]

/-- The selection predicate of line-oriented search: the matcher's verdict on the line without its
terminator (as `lines::without_terminator` cuts it), flipped by `invert_match`. -/
def lineSel (cfg : Config) (m : MatcherI) (line : Bytes) : Bool :=
  (m.shortestMatch (Lines.withoutTerminator line cfg.lineTerm)).isSome != cfg.invertMatch

/-- The line content as property C01 defines it: the line minus its terminator byte, and under CRLF also
minus a `\r` directly before it. -/
def content (lt : Lines.LineTerm) (line : Bytes) : Bytes :=
  if line.getLast? = some lt.asByte then
    if lt = .crlf ∧ line.dropLast.getLast? = some 13 then line.dropLast.dropLast else line.dropLast
  else line

/-- offset and bytes of a `matched` callback -/
def matchedOf : Event → Option (Nat × Bytes)
  | .matched _ off bs => some (off, bs)
  | _ => none

/-- the lines reported as matching: offset and bytes of every `matched` callback, in order -/
def reported (evs : List Event) : List (Nat × Bytes) := evs.filterMap matchedOf

/-- The grep model of an input for a selection predicate on lines. -/
def grepSpec (cfg : Config) (sel : Bytes → Bool) (inp : Bytes) : List Event :=
  grepSpecLines cfg ((splitLines cfg.lineTerm.asByte inp).map fun l => (l, sel l))

end RgVerif.GrepSpec
