import RgVerif.Spec.Grep
/-
The multi-line model (property C13), stated on the whole input.

  matches   successive leftmost non-overlapping matches `findAt inp pos` with `pos` starting at 0 and moving to
            the end of each match (one byte further after an empty match); look-around is the matcher's business
            and sees the whole input because the whole input is what `findAt` is given;
  blocks    each match mapped to the lines it overlaps (`locate`), ranges that touch merged, an empty range
            (a match at the very end, after the last terminator) dropped;
  covered   a line is covered iff it lies inside a block;
  events    the grep model (`Spec/Grep.lean`) for the selection "covered" (inverted: "not covered"), where —
            without inversion — every block is delivered as one `matched` callback.
`stop_on_nonmatch` plays no role in multi-line search.
-/
namespace RgVerif.MLSpec
open RgVerif RgVerif.Matcher RgVerif.Lines RgVerif.Searcher RgVerif.GrepSpec

/-- where the search resumes after a match -/
def nextPos (len : Nat) (mat : Span) : Nat :=
  if mat.e - mat.s == 0 && mat.e < len then mat.e + 1 else mat.e

/-- successive matches from `pos` on (`fuel` bounds their number) -/
def matchesFrom (findAt : Nat → Option Span) (len : Nat) : Nat → Nat → List Span
  | 0, _ => []
  | fuel + 1, pos =>
    if pos ≥ len then []
    else
      match findAt pos with
      | none => []
      | some mat => mat :: matchesFrom findAt len fuel (nextPos len mat)

def mlMatches (m : MatcherI) (inp : Bytes) : List Span :=
  matchesFrom (m.findAt inp) inp.length (inp.length + 1) 0

/-- merge successive ranges that touch or overlap: `p` is the range being grown -/
def mergeAcc : Span → List Span → List Span
  | p, [] => [p]
  | p, r :: rest => if p.e ≥ r.s then mergeAcc ⟨p.s, r.e⟩ rest else p :: mergeAcc r rest

def mergeTouching : List Span → List Span
  | [] => []
  | r :: rest => mergeAcc r rest

/-- the blocks of lines overlapped by the matches -/
def mlBlocks (cfg : Config) (m : MatcherI) (inp : Bytes) : List Span :=
  (mergeTouching ((mlMatches m inp).map (locate inp cfg.lineTerm.asByte))).filter fun r => r.e - r.s != 0

/-- is the line `[s, e)` inside one of the blocks -/
def coveredBy (blocks : List Span) (s e : Nat) : Bool := blocks.any fun b => decide (b.s ≤ s) && decide (e ≤ b.e)

/-- selection bit of every line, in order, starting at offset `off` -/
def coverBits (blocks : List Span) (invert : Bool) : Nat → List Bytes → List SLine
  | _, [] => []
  | off, l :: ls => (l, coveredBy blocks off (off + l.length) != invert) :: coverBits blocks invert (off + l.length) ls

/-- deliver adjacent matched lines as one block -/
def coalesce : List Event → List Event
  | [] => []
  | ev :: rest =>
    match ev, coalesce rest with
    | .matched ln off bs, .matched ln' off' bs' :: rest' =>
      if off + bs.length == off' then .matched ln off (bs ++ bs') :: rest'
      else ev :: .matched ln' off' bs' :: rest'
    | _, r => ev :: r

/-- Everything the sink is told during a complete multi-line search. -/
def mlSpec (cfg : Config) (m : MatcherI) (inp : Bytes) : List Event :=
  let blocks := mlBlocks cfg m inp
  let sl := coverBits blocks cfg.invertMatch 0 (splitLines cfg.lineTerm.asByte inp)
  let base := grepSpecLines { cfg with stopOnNonmatch := false } sl
  if cfg.invertMatch then base else coalesce base

/-- Inversion is the complement only if the inverted scan, which resumes at the end of the *lines* of a
match, cannot miss a match: no match starts before the end of the previous match's last line. -/
def invertSafe (cfg : Config) (m : MatcherI) (inp : Bytes) : Bool :=
  let ms := mlMatches m inp
  (ms.zip ms.tail).all fun p => decide ((locate inp cfg.lineTerm.asByte p.1).e ≤ p.2.s)

/-- the line ranges of the matches the *inverted* scan finds: after a match it resumes at the end of the match's
last line (`advance(&line)`), not at the end of the match -/
def invRangesFrom (findAt : Nat → Option Span) (loc : Span → Span) (len : Nat) : Nat → Nat → List Span
  | 0, _ => []
  | fuel + 1, pos =>
    if pos ≥ len then []
    else
      match findAt pos with
      | none => []
      | some mat => loc mat :: invRangesFrom findAt loc len fuel (nextPos len (loc mat))

def invRanges (cfg : Config) (m : MatcherI) (inp : Bytes) : List Span :=
  invRangesFrom (m.findAt inp) (locate inp cfg.lineTerm.asByte) inp.length (inp.length + 1) 0

/-- what the inverted multi-line search delivers: the grep model for the lines *not* inside the line range of a
match the inverted scan finds -/
def mlSpecInv (cfg : Config) (m : MatcherI) (inp : Bytes) : List Event :=
  grepSpecLines { cfg with stopOnNonmatch := false }
    (coverBits (invRanges cfg m inp) true 0 (splitLines cfg.lineTerm.asByte inp))

/-- the inverted scan and the specification select the same lines -/
def invCoverSame (cfg : Config) (m : MatcherI) (inp : Bytes) : Bool :=
  coverBits (invRanges cfg m inp) true 0 (splitLines cfg.lineTerm.asByte inp)
    == coverBits (mlBlocks cfg m inp) true 0 (splitLines cfg.lineTerm.asByte inp)

/-- The matcher's answers on this input are spans inside the input that start at or after the search position
(decidable form of the contract under which `C13_context` is proved; every table the harness builds from the
regex engine's answers is checked against it). -/
def spanSaneB (m : MatcherI) (inp : Bytes) : Bool :=
  (List.range (inp.length + 1)).all fun pos =>
    match m.findAt inp pos with
    | none => true
    | some mat => decide (pos ≤ mat.s) && decide (mat.s ≤ mat.e) && decide (mat.e ≤ inp.length)

end RgVerif.MLSpec
