import RgVerif.Spec.Reach
/-
C06 — error visits for directories that cannot be listed (EACCES on `read_dir`).

They are outside the property (error visits are not entries) and are not part of `reach`, `serial`,
`parallel` — for those an unreadable directory is a directory without children.  This file states the
rule the two walkers follow for *these* visits, which differs at the depth limit:

* the parallel walker calls `read_dir` in `run_one` before it looks at `max_depth`: every reported
  directory on the root's device that cannot be listed yields an error visit;
* the serial walker (walkdir) opens the directory when it pushes it, but the error sits in the pushed
  listing and is only delivered when that listing is read — which does not happen beyond `max_depth`.

`denied ino` says which directories cannot be listed; `atLimit = true` gives the parallel rule,
`false` the serial one.  The harness compares both with the real walkers' EACCES visits.
-/
namespace RgVerif.Walk

abbrev DContents := List Anc → Nat → Path → Option Nat → List Node → List Path

/-- The error visit for the reported directory `d` at `p` (depth `depth + 1`). -/
def deniedHere (cfg : Cfg) (denied : Nat → Bool) (atLimit : Bool) (rd : Option Nat) (depth : Nat)
    (p : Path) (ino dev : Nat) : List Path :=
  if devOk rd dev && (atLimit || depthOk cfg (depth + 1)) && denied ino then [p] else []

mutual
def deniedEntry (cfg : Cfg) (forest : List Node) (denied : Nat → Bool) (atLimit : Bool)
    (jump : DContents) (rootDev : Option Nat) (anc : List Anc) (depth : Nat) (pp : Path) :
    Node → List Path
  | .file _ _ => []
  | .dir name ino dev ign kids =>
    if accepted cfg anc (pp ++ [name]) name (.dir ⟨ino, dev, ign, kids⟩ false) then
      deniedHere cfg denied atLimit rootDev depth (pp ++ [name]) ino dev ++
        (if devOk rootDev dev && depthOk cfg (depth + 1) then
          deniedKids cfg forest denied atLimit jump rootDev ((ino, ign) :: anc) (depth + 1)
            (pp ++ [name]) kids
         else [])
    else []
  | .link name _ tgt =>
    if cfg.followLinks then
      match resolve forest tgt with
      | .dir d _ =>
        if inAnc anc d.ino then []
        else if accepted cfg anc (pp ++ [name]) name (.dir d true) then
          deniedHere cfg denied atLimit rootDev depth (pp ++ [name]) d.ino d.dev ++
            (if devOk rootDev d.dev && depthOk cfg (depth + 1) then
              jump ((d.ino, d.ign) :: anc) (depth + 1) (pp ++ [name]) rootDev d.kids
             else [])
        else []
      | _ => []
    else []
def deniedKids (cfg : Cfg) (forest : List Node) (denied : Nat → Bool) (atLimit : Bool)
    (jump : DContents) (rootDev : Option Nat) (anc : List Anc) (depth : Nat) (pp : Path) :
    List Node → List Path
  | [] => []
  | k :: ks =>
    deniedEntry cfg forest denied atLimit jump rootDev anc depth pp k ++
      deniedKids cfg forest denied atLimit jump rootDev anc depth pp ks
end

def deniedContents (cfg : Cfg) (forest : List Node) (denied : Nat → Bool) (atLimit : Bool) :
    Nat → DContents
  | 0 => fun _ _ _ _ _ => []
  | f + 1 => fun anc depth p rootDev kids =>
    deniedKids cfg forest denied atLimit (deniedContents cfg forest denied atLimit f) rootDev anc depth p kids

def deniedRoot (cfg : Cfg) (forest : List Node) (denied : Nat → Bool) (atLimit : Bool) (fuel : Nat)
    (r : Node) : List Path :=
  match stat forest r with
  | .dir d _ =>
    (if (atLimit || depthOk cfg 0) && denied d.ino then [[r.name]] else []) ++
      (if depthOk cfg 0 then
        deniedContents cfg forest denied atLimit fuel [(d.ino, d.ign)] 0 [r.name]
          (if cfg.sameFs then some d.dev else none) d.kids
       else [])
  | _ => []

/-- Paths of the directories for which the walker makes an EACCES error visit
(`atLimit = true`: parallel walker, `false`: serial walker). -/
def deniedVisits (cfg : Cfg) (forest : List Node) (denied : Nat → Bool) (atLimit : Bool) (fuel : Nat)
    (roots : List Node) : List Path :=
  roots.flatMap (deniedRoot cfg forest denied atLimit fuel)

end RgVerif.Walk
