import RgVerif.Model.Printer
import RgVerif.Model.Summary
/-
Specification for C09 / C10.

A printed *record* is `path SEP lineno SEP column SEP offset SEP text`, every field optional except the
text.  `printRecord` lays a record out, `parseRecord` reads one back.  `eventRecords` says which records
an event of the searcher's stream must produce: their text is the event's own line (a missing final
terminator completed, nothing else altered), their numbers are the event's coordinates, the column is the
start of the first match.

The counting specs of C10 (`matchedCount`, `subMatchTotal`, …) are plain folds over the same events.
-/
namespace RgVerif.PrinterSpec
open RgVerif RgVerif.Matcher RgVerif.Replace RgVerif.Json RgVerif.Printer

/-! ### Records -/

structure Rec where
  path : Option Bytes
  lineNo : Option Nat
  col : Option Nat
  off : Option Nat
  isCtx : Bool
  /-- the printed text including its line terminator -/
  text : Bytes
  deriving Repr, DecidableEq

/-- decimal number followed by the field separator, or nothing -/
def numField (sep : Bytes) : Option Nat → Bytes
  | none => []
  | some n => decimal n ++ sep

/-- the path followed by the path terminator if one is configured, else by the field separator -/
def pathField (c : StdCfg) (sep : Bytes) : Option Bytes → Bytes
  | none => []
  | some p => p ++ (match c.pathTerminator with | some t => [t] | none => sep)

/-- Layout of one record. -/
def printRecord (c : StdCfg) (r : Rec) : Bytes :=
  let sep := fieldSep c r.isCtx
  pathField c sep r.path ++ numField sep r.lineNo ++ numField sep r.col ++ numField sep r.off ++ r.text

/-- Which fields a reader expects, and the separator bytes. -/
structure Shape where
  hasPath : Bool
  hasLineNo : Bool
  hasCol : Bool
  hasOff : Bool
  /-- byte that ends the path field -/
  pathSep : Nat
  /-- byte that ends a numeric field -/
  sep : Nat
  deriving Repr

/-- split at the first occurrence of `d` (which is dropped); `none` if `d` does not occur -/
def splitAt1 (d : Nat) : Bytes → Option (Bytes × Bytes)
  | [] => none
  | b :: rest =>
    if b == d then some ([], rest)
    else match splitAt1 d rest with
      | some (x, y) => some (b :: x, y)
      | none => none

def parseNumField (present : Bool) (sep : Nat) (b : Bytes) : Option (Option Nat × Bytes) :=
  if present then
    match splitAt1 sep b with
    | some (x, y) => some (some (parseNat x), y)
    | none => none
  else some (none, b)

def parsePathField (present : Bool) (pathSep : Nat) (b : Bytes) : Option (Option Bytes × Bytes) :=
  if present then
    match splitAt1 pathSep b with
    | some (p, rest) => some (some p, rest)
    | none => none
  else some (none, b)

/-- Reader of one record: `(path, lineno, column, offset, text)`. -/
def parseRecord (sh : Shape) (b : Bytes) : Option (Option Bytes × Option Nat × Option Nat × Option Nat × Bytes) :=
  (parsePathField sh.hasPath sh.pathSep b).bind fun x =>
  (parseNumField sh.hasLineNo sh.sep x.2).bind fun y =>
  (parseNumField sh.hasCol sh.sep y.2).bind fun z =>
  (parseNumField sh.hasOff sh.sep z.2).bind fun w =>
  some (x.1, y.1, z.1, w.1, w.2)

def isDigit (b : Nat) : Bool := 48 ≤ b && b ≤ 57

/-- The guard of `record_parses`: single-byte separators that are not digits and do not occur in the path. -/
def ParseGuard (c : StdCfg) (r : Rec) (sepB pathSepB : Nat) : Prop :=
  fieldSep c r.isCtx = [sepB] ∧ isDigit sepB = false ∧
  (match c.pathTerminator with | some t => pathSepB = t | none => pathSepB = sepB) ∧
  (∀ p, r.path = some p → pathSepB ∉ p)

def shapeOf (r : Rec) (sepB pathSepB : Nat) : Shape :=
  { hasPath := r.path.isSome, hasLineNo := r.lineNo.isSome, hasCol := r.col.isSome, hasOff := r.off.isSome
  , pathSep := pathSepB, sep := sepB }

/-! ### What an event must print -/

/-- "a missing final terminator is completed, nothing else altered" -/
def completed (lt : LineTerm) (line : Bytes) : Bytes :=
  if line.getLast? = some lt.asByte then line else line ++ lt.bytes

/-- the path shown on a record: none under `--heading` -/
def recPath (c : StdCfg) : Option Bytes := if c.heading then none else c.path

def optIf (b : Bool) (n : Nat) : Option Nat := if b then some n else none

/-- Records of a context line, or of a matched line in single-line mode. `ms` are the matches inside the
line (offsets relative to the line), empty when the configuration does not ask for them. One record for
the line (column = start of the first match + 1), or under `--vimgrep` one record per match. -/
def lineRecords (lt : LineTerm) (c : StdCfg) (isCtx : Bool) (bytes : Bytes) (absOff : Nat) (ln : Option Nat)
    (ms : List Span) : List Rec :=
  match ms with
  | [] => [{ path := recPath c, lineNo := ln, col := none, off := optIf c.byteOffset absOff, isCtx
           , text := completed lt bytes }]
  | m0 :: _ =>
    if c.perMatch then
      ms.map fun m => { path := recPath c, lineNo := ln, col := optIf c.column (m.s + 1)
                      , off := optIf c.byteOffset (absOff + m.s), isCtx, text := completed lt bytes }
    else [{ path := recPath c, lineNo := ln, col := optIf c.column (m0.s + 1), off := optIf c.byteOffset absOff
          , isCtx, text := completed lt bytes }]

/-- Records of a multi-line block printed line by line: the i-th line gets line number `ln + i`, the offset
of its own first byte, and (when columns are shown) the column of the block's first match, which is what
ripgrep repeats on every line of a block. -/
def blockRecords (lt : LineTerm) (c : StdCfg) (absOff : Nat) (ln : Option Nat) (col : Option Nat) :
    Nat → Nat → List Bytes → List Rec
  | _, _, [] => []
  | i, off, line :: rest =>
    { path := recPath c, lineNo := ln.map (· + i), col := col, off := optIf c.byteOffset (absOff + off)
    , isCtx := false, text := completed lt line } :: blockRecords lt c absOff ln col (i + 1) (off + line.length) rest

/-- Records of a multi-line block under `--vimgrep`: for the match `m`, the lines of the block that overlap it
(only the first one when `per_match_one_line`), each with its own line number and offset and the column of
the match start inside that line (1 for continuation lines). -/
def perMatchBlockRecords (lt : LineTerm) (c : StdCfg) (absOff : Nat) (ln : Option Nat) (m : Span) :
    Nat → Nat → List Bytes → List Rec
  | _, _, [] => []
  | i, off, line :: rest =>
    if off ≥ m.e then []
    else if off + line.length ≤ m.s then perMatchBlockRecords lt c absOff ln m (i + 1) (off + line.length) rest
    else
      { path := recPath c, lineNo := ln.map (· + i), col := optIf c.column (m.s - off + 1)
      , off := optIf c.byteOffset (absOff + off), isCtx := false, text := completed lt line }
      :: (if c.perMatchOneLine then []
          else perMatchBlockRecords lt c absOff ln m (i + 1) (off + line.length) rest)

/-- The matches inside an event's lines, relative to the start of those lines, when the configuration asks
for them (which matches exist is decided by the matcher and the iteration protocol; C09 states where each
is printed). -/
def eventSpans (sc : SCfg) (c : StdCfg) (find : Oracle) : Event → List Span
  | .matched buf rs re _ _ => if c.granular then shiftSpans rs (findIterInContext sc find buf rs re) else []
  | .context _ bytes _ _ =>
    if sc.invert && c.granular then findIterInContext sc find bytes 0 bytes.length else []
  | .contextBreak => []

/-- The records an event must print (only-matching output is outside C09). -/
def eventRecords (sc : SCfg) (c : StdCfg) (find : Oracle) (ev : Event) : List Rec :=
  let ms := eventSpans sc c find ev
  match ev with
  | .matched buf rs re off ln =>
    let bytes := slice buf rs re
    if sc.multiLine then
      let lines := splitLines sc.lt.asByte bytes
      match ms with
      | [] => blockRecords sc.lt c off ln none 0 0 lines
      | m0 :: _ =>
        if c.perMatch then ms.flatMap fun m => perMatchBlockRecords sc.lt c off ln m 0 0 lines
        else blockRecords sc.lt c off ln (optIf c.column (m0.s + 1)) 0 0 lines
    else lineRecords sc.lt c false bytes off ln ms
  | .context _ bytes off ln => lineRecords sc.lt c true bytes off ln ms
  | .contextBreak => []

/-- What one event adds to the output: before the first byte of a search the search separator (if
something was printed by an earlier search) and the heading; then the event's records; a context break is
the context separator on its own line. -/
def eventOutput (sc : SCfg) (c : StdCfg) (find : Oracle) (count total : Nat) (ev : Event) : Bytes :=
  match ev with
  | .contextBreak => writeContextSeparator sc.lt c
  | ev => writeSearchPrelude sc.lt c count total ++ (eventRecords sc c find ev).flatMap (printRecord c)

/-- Under `--crlf`, a line that ends in a bare `\n` (no `\r` before it). Only the `-U --only-matching` path, which
prints `piece-without-terminator ++ terminator`, still needs this (the other slow multi-line paths keep a line's own
terminator since b0493c8). -/
def crlfLineOk (lt : LineTerm) (line : Bytes) : Bool :=
  match lt with
  | .byte _ => true
  | .crlf =>
    match line.reverse with
    | 10 :: 13 :: _ => true
    | 10 :: _ => false
    | _ => true

/-- Guard of `C09_standard` for one event: no only-matching (nothing else since the repair of F19). -/
def eventGuard (_sc : SCfg) (c : StdCfg) (_find : Oracle) (_ev : Event) : Bool :=
  !c.onlyMatching

/-! ### Counting specs (C10) -/

def Event.isMatched : Event → Bool
  | .matched .. => true
  | _ => false

/-- number of `matched` callbacks in a stream -/
def matchedCount (evs : List Event) : Nat := (evs.filter Event.isMatched).length

/-- the individual matches inside one matched event, as every printer finds them -/
def eventMatches (sc : SCfg) (find : Oracle) : Event → List Span
  | .matched buf rs re _ _ => findIterInContext sc find buf rs re
  | _ => []

/-- total number of individual matches over the matched events -/
def subMatchTotal (sc : SCfg) (find : Oracle) (evs : List Event) : Nat :=
  (evs.map fun ev => (eventMatches sc find ev).length).sum

end RgVerif.PrinterSpec
