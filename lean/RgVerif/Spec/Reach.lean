import RgVerif.Model.WalkFs
/-
C06 — specification: the entries reachable from the roots.

A root is always reported (if it can be stat-ed).  Below an entered directory an entry is reported
iff it passes the entry tests (ignore rules, size limit for non-directories, caller's filter); a
reported directory is entered iff the depth limit allows it and, with `same_file_system`, it lies on
the root's device.  With `follow_links` a link is replaced by what it points to; a link to one of the
directories currently being walked is a loop: it is reported as an error and not entered.
-/
namespace RgVerif.Walk

/-- The entry tests of the property statement (non-root entries). -/
def accepted (cfg : Cfg) (anc : List Anc) (p : Path) (name : Name) (v : View) : Bool :=
  !ignoredBy cfg anc name v && !tooBig cfg v && !filteredOut cfg p v

mutual
/-- Entries reported for the child `k` (and below it) of the directory at `pp`, depth `depth`. -/
def reachEntry (cfg : Cfg) (forest : List Node) (jump : Contents) (rootDev : Option Nat)
    (anc : List Anc) (depth : Nat) (pp : Path) : Node → List Out
  | .file name size =>
    if accepted cfg anc (pp ++ [name]) name (.file size) then [.entry (pp ++ [name])] else []
  | .dir name ino dev ign kids =>
    if accepted cfg anc (pp ++ [name]) name (.dir ⟨ino, dev, ign, kids⟩ false) then
      .entry (pp ++ [name]) ::
        (if devOk rootDev dev && depthOk cfg (depth + 1) then
          reachKids cfg forest jump rootDev ((ino, ign) :: anc) (depth + 1) (pp ++ [name]) kids
         else [])
    else []
  | .link name len tgt =>
    if cfg.followLinks then
      match resolve forest tgt with
      | .broken => [.broken (pp ++ [name])]
      | .dir d _ =>
        if inAnc anc d.ino then [.loop (pp ++ [name])]
        else if accepted cfg anc (pp ++ [name]) name (.dir d true) then
          .entry (pp ++ [name]) ::
            (if devOk rootDev d.dev && depthOk cfg (depth + 1) then
              jump ((d.ino, d.ign) :: anc) (depth + 1) (pp ++ [name]) rootDev d.kids
             else [])
        else []
      | v => if accepted cfg anc (pp ++ [name]) name v then [.entry (pp ++ [name])] else []
    else if accepted cfg anc (pp ++ [name]) name (.symlink len) then [.entry (pp ++ [name])] else []
def reachKids (cfg : Cfg) (forest : List Node) (jump : Contents) (rootDev : Option Nat)
    (anc : List Anc) (depth : Nat) (pp : Path) : List Node → List Out
  | [] => []
  | k :: ks =>
    reachEntry cfg forest jump rootDev anc depth pp k ++
      reachKids cfg forest jump rootDev anc depth pp ks
end

/-- Contents of a directory; `fuel` bounds the number of nested link jumps (a theorem shows that
`dirCount + 1` is never exhausted). -/
def reachContents (cfg : Cfg) (forest : List Node) : Nat → Contents
  | 0 => fun _ _ _ _ _ => []
  | f + 1 => fun anc depth p rootDev kids =>
    reachKids cfg forest (reachContents cfg forest f) rootDev anc depth p kids

def reachRoot (cfg : Cfg) (forest : List Node) (fuel : Nat) (r : Node) : List Out :=
  match stat forest r with
  | .broken => [.broken [r.name]]
  | .dir d _ =>
    .entry [r.name] ::
      (if depthOk cfg 0 then
        reachContents cfg forest fuel [(d.ino, d.ign)] 0 [r.name]
          (if cfg.sameFs then some d.dev else none) d.kids
       else [])
  | _ => [.entry [r.name]]

/-- The specification: what a traversal of `roots` must report. -/
def reach (cfg : Cfg) (forest : List Node) (fuel : Nat) (roots : List Node) : List Out :=
  roots.flatMap (reachRoot cfg forest fuel)

mutual
/-- The shape behind the repaired finding F25 (it used to be the guard of the serial theorem; no theorem
depends on it any more, the harness keeps it as evidence that the shape is generated): a directory on another
device (not entered because of `same_file_system`) that is also rejected by an entry test. -/
def hazardEntry (cfg : Cfg) (forest : List Node) (jump : List Anc → Nat → Path → Option Nat → List Node → Bool)
    (rootDev : Option Nat) (anc : List Anc) (depth : Nat) (pp : Path) : Node → Bool
  | .file _ _ => false
  | .dir name ino dev ign kids =>
    if accepted cfg anc (pp ++ [name]) name (.dir ⟨ino, dev, ign, kids⟩ false) then
      devOk rootDev dev && depthOk cfg (depth + 1) &&
        hazardKids cfg forest jump rootDev ((ino, ign) :: anc) (depth + 1) (pp ++ [name]) kids
    else !devOk rootDev dev
  | .link name _ tgt =>
    if cfg.followLinks then
      match resolve forest tgt with
      | .dir d _ =>
        if inAnc anc d.ino then false
        else if accepted cfg anc (pp ++ [name]) name (.dir d true) then
          devOk rootDev d.dev && depthOk cfg (depth + 1) &&
            jump ((d.ino, d.ign) :: anc) (depth + 1) (pp ++ [name]) rootDev d.kids
        else !devOk rootDev d.dev
      | _ => false
    else false
def hazardKids (cfg : Cfg) (forest : List Node) (jump : List Anc → Nat → Path → Option Nat → List Node → Bool)
    (rootDev : Option Nat) (anc : List Anc) (depth : Nat) (pp : Path) : List Node → Bool
  | [] => false
  | k :: ks =>
    hazardEntry cfg forest jump rootDev anc depth pp k ||
      hazardKids cfg forest jump rootDev anc depth pp ks
end

def hazardContents (cfg : Cfg) (forest : List Node) :
    Nat → List Anc → Nat → Path → Option Nat → List Node → Bool
  | 0 => fun _ _ _ _ _ => false
  | f + 1 => fun anc depth p rootDev kids =>
    hazardKids cfg forest (hazardContents cfg forest f) rootDev anc depth p kids

def hazardRoot (cfg : Cfg) (forest : List Node) (fuel : Nat) (r : Node) : Bool :=
  match stat forest r with
  | .dir d _ =>
    depthOk cfg 0 &&
      hazardContents cfg forest fuel [(d.ino, d.ign)] 0 [r.name]
        (if cfg.sameFs then some d.dev else none) d.kids
  | _ => false

/-- Guard of the partial theorem: no reachable directory is both off-device and rejected. -/
def hazardFree (cfg : Cfg) (forest : List Node) (fuel : Nat) (roots : List Node) : Bool :=
  !(roots.any (hazardRoot cfg forest fuel))

end RgVerif.Walk
