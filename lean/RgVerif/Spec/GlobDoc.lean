import RgVerif.Model.Sx
/-
The *documented* glob syntax (the "Syntax" section at the top of `crates/globset/src/lib.rs` and the
doc comments of `GlobBuilder::{literal_separator, case_insensitive, backslash_escape, empty_alternates}`),
written down independently of `glob.rs`:

  ?        any single character (never `/` when `literal_separator`)
  *        zero or more characters (never `/` when `literal_separator`)
  **       only as a whole path component: `**/` at the start or after a `/` matches zero or more
           directories (nothing, or anything that ends in `/`); a final `**` after a `/` (or as the
           whole glob) matches everything that is left
  {a,b}    `a` or `b`, one level; an empty branch only counts when `empty_alternates`
  [ab] [a-c] [!ab] [^ab]   classes; `]` first and `-` first or last are literal
  \x       (when `backslash_escape`) the character x literally; otherwise `\` is an ordinary character
  case_insensitive: ASCII letters match regardless of case, in literals and in classes.

`docLex` returns `none` for every glob that the documentation does not give a meaning to
(`**` elsewhere, `**` inside or next to `{…}`, an unmatched `{`/`}`, nested braces, an unclosed or
reversed class, `\` inside a class, a `-` directly after a range, a dangling `\`, a glob that is only
`**/`, non-ASCII characters, a group whose branches are all dropped).  `okGlob` is that guard.
Paths are byte strings; "character" means byte.
-/
namespace RgVerif.GlobDoc

structure DocOpts where
  ci : Bool
  ls : Bool
  be : Bool
  ea : Bool
  deriving DecidableEq, Repr

inductive Atom where
  | lit (c : Nat)
  | any
  | star
  | dirs      -- `**/` as a whole component
  | rest      -- final `**` as a whole component
  | cls (neg : Bool) (items : List (Nat × Nat))
  deriving DecidableEq, Repr

inductive Item where
  | a (x : Atom)
  | alt (bs : List (List Atom))
  deriving DecidableEq, Repr

/-- class being read: items so far, a single character not yet committed, `x-` seen -/
structure ClsSt where
  neg : Bool
  items : List (Nat × Nat)
  first : Bool
  pend : Option Nat
  dash : Bool
  deriving Repr

structure LexSt where
  items : List Item                                   -- finished top-level items
  br : Option (List (List Atom) × List Atom)          -- inside `{`: finished branches, current branch
  cls : Option ClsSt                                  -- inside `[`
  compStart : Bool                                    -- at the start of a path component, outside braces
  deriving Repr

def LexSt.push (st : LexSt) (x : Atom) (compStart : Bool) : LexSt :=
  match st.br with
  | none => { st with items := st.items ++ [.a x], compStart := compStart }
  | some (done, cur) => { st with br := some (done, cur ++ [x]), compStart := false }

def flushPend (c : ClsSt) : List (Nat × Nat) :=
  match c.pend with
  | some x => c.items ++ [(x, x)]
  | none => c.items

/-- one character at a time -/
def lexGo (o : DocOpts) : List Nat → LexSt → Option (List Item)
  | [], st => if st.br.isSome || st.cls.isSome then none else some st.items
  | c :: g, st =>
    if c ≥ 128 then none else
    match st.cls with
    | some k =>
      if c == 93 then
        if k.first then lexGo o g { st with cls := some { k with items := k.items ++ [(93, 93)], first := false } }
        else
          let items := flushPend k ++ (if k.dash then [(45, 45)] else [])
          lexGo o g ({ st with cls := none }.push (.cls k.neg items) false)
      else if c == 92 then none
      else if c == 45 then
        if k.first then lexGo o g { st with cls := some { k with items := k.items ++ [(45, 45)], first := false } }
        else if k.pend.isSome && !k.dash then lexGo o g { st with cls := some { k with dash := true } }
        else none
      else
        match k.pend, k.dash with
        | some lo, true =>
          if lo ≤ c then lexGo o g { st with cls := some { k with items := k.items ++ [(lo, c)], pend := none, dash := false, first := false } }
          else none
        | _, _ => lexGo o g { st with cls := some { k with items := flushPend k, pend := some c, first := false } }
    | none =>
      if c == 63 then lexGo o g (st.push .any false)
      else if c == 42 then
        if g.head? == some 42 then
          if st.compStart && st.br.isNone then
            if (g.drop 1).isEmpty then some (st.push .rest false).items
            else if (g.drop 1).head? == some 47 then lexGo o (g.drop 2) (st.push .dirs true)
            else none
          else none
        else lexGo o g (st.push .star false)
      else if c == 91 then
        if g.head? == some 33 || g.head? == some 94 then
          lexGo o (g.drop 1) { st with cls := some ⟨true, [], true, none, false⟩ }
        else lexGo o g { st with cls := some ⟨false, [], true, none, false⟩ }
      else if c == 123 then
        if st.br.isSome then none else lexGo o g { st with br := some ([], []), compStart := false }
      else if c == 44 then
        match st.br with
        | some (done, cur) => lexGo o g { st with br := some (done ++ [cur], []) }
        | none => lexGo o g (st.push (.lit 44) false)
      else if c == 125 then
        match st.br with
        | some (done, cur) => lexGo o g { st with items := st.items ++ [.alt (done ++ [cur])], br := none, compStart := false }
        | none => none
      else if c == 92 then
        if o.be then
          match g with
          | [] => none
          | e :: g' => if e ≥ 128 then none else lexGo o g' (st.push (.lit e) false)
        else lexGo o g (st.push (.lit 92) false)
      else lexGo o g (st.push (.lit c) (c == 47 && st.br.isNone))
termination_by g => g.length
decreasing_by
  all_goals simp_wf
  all_goals (try simp only [List.length_drop])
  all_goals omega

/-- all ways of choosing one branch per group -/
def expand (o : DocOpts) : List Item → Option (List (List Atom))
  | [] => some [[]]
  | .a x :: rest => (expand o rest).map fun tails => tails.map (x :: ·)
  | .alt bs :: rest =>
    let kept := if o.ea then bs else bs.filter (fun b => !b.isEmpty)
    if kept.isEmpty then none
    else (expand o rest).map fun tails => kept.flatMap fun b => tails.map (b ++ ·)

def onlyDirs (items : List Item) : Bool := !items.isEmpty && items.all (· == .a .dirs)

/-- the glob as alternatives of plain atom sequences; `none` = not in the documented grammar -/
def docLex (o : DocOpts) (g : List Nat) : Option (List (List Atom)) :=
  match lexGo o g { items := [], br := none, cls := none, compStart := true } with
  | none => none
  | some items => if onlyDirs items then none else expand o items

def okGlob (o : DocOpts) (g : List Nat) : Bool := (docLex o g).isSome

/-! ### matching -/

/-- every way of writing `p = x ++ r` -/
def splits : Bytes → List (Bytes × Bytes)
  | [] => [([], [])]
  | b :: p => ([], b :: p) :: (splits p).map fun xr => (b :: xr.1, xr.2)

def lowerA (b : Nat) : Nat := if 65 ≤ b ∧ b ≤ 90 then b + 32 else b
def upperA (b : Nat) : Nat := if 97 ≤ b ∧ b ≤ 122 then b - 32 else b

def sameChar (o : DocOpts) (c b : Nat) : Bool := if o.ci then lowerA c == lowerA b else c == b

def inItems (items : List (Nat × Nat)) (b : Nat) : Bool := items.any fun r => r.1 ≤ b && b ≤ r.2

def clsHas (o : DocOpts) (neg : Bool) (items : List (Nat × Nat)) (b : Nat) : Bool :=
  let pos := if o.ci then inItems items (lowerA b) || inItems items (upperA b) || inItems items b
             else inItems items b
  pos != neg

def wild (o : DocOpts) (b : Nat) : Bool := !(o.ls && b == 47)

def atomsMatch (o : DocOpts) : List Atom → Bytes → Bool
  | [], p => p.isEmpty
  | .lit _ :: _, [] => false
  | .lit c :: as, b :: p => sameChar o c b && atomsMatch o as p
  | .any :: _, [] => false
  | .any :: as, b :: p => wild o b && atomsMatch o as p
  | .cls _ _ :: _, [] => false
  | .cls neg items :: as, b :: p => clsHas o neg items b && atomsMatch o as p
  | .star :: as, p => (splits p).any fun xr => xr.1.all (wild o) && atomsMatch o as xr.2
  | .dirs :: as, p => (splits p).any fun xr => (xr.1.isEmpty || xr.1.getLast? == some 47) && atomsMatch o as xr.2
  | .rest :: as, p => (splits p).any fun xr => atomsMatch o as xr.2

/-- the documented meaning of glob `g` on path `p` (`false` outside the documented grammar) -/
def docMatch (o : DocOpts) (g : List Nat) (p : Bytes) : Bool :=
  match docLex o g with
  | none => false
  | some alts => alts.any fun a => atomsMatch o a p

/-! ### characters beyond ASCII, and `**` outside its three legal places

The documentation speaks of characters: "`?` matches any single character", "`[ab]` matches `a` or `b` where `a` and
`b` are characters".  The grammar above is restricted to ASCII (there a character is a byte); the two sentences are
stated separately here for globs that are a single `?` or a single positive class, and paths that are one
character in UTF-8.  And: "Using `**` anywhere else is illegal (N.B. the glob `**` is allowed …)". -/

def cont (b : Nat) : Bool := 0x80 ≤ b && b ≤ 0xBF

/-- the path is exactly one character (one well-formed UTF-8 sequence): its code point -/
def oneChar : Bytes → Option Nat
  | [a] => if a < 0x80 then some a else none
  | [a, b] => if 0xC2 ≤ a && a ≤ 0xDF && cont b then some ((a - 0xC0) * 64 + (b - 0x80)) else none
  | [a, b, c] =>
    if 0xE0 ≤ a && a ≤ 0xEF && cont b && cont c && !(a == 0xE0 && b < 0xA0) && !(a == 0xED && b > 0x9F) then
      some ((a - 0xE0) * 4096 + (b - 0x80) * 64 + (c - 0x80))
    else none
  | [a, b, c, d] =>
    if 0xF0 ≤ a && a ≤ 0xF4 && cont b && cont c && cont d && !(a == 0xF0 && b < 0x90) && !(a == 0xF4 && b > 0x8F) then
      some ((a - 0xF0) * 262144 + (b - 0x80) * 4096 + (c - 0x80) * 64 + (d - 0x80))
    else none
  | _ => none

/-- the glob `?` (`members = none`) or the glob `[m₁m₂…]` (`members = some [m₁, m₂, …]`, single characters, not
negated, no ranges) on a path that is one character: `?` matches it (unless it is the separator under
`literal_separator`), the class matches it iff it is listed -/
def docOneChar (ls : Bool) (members : Option (List Nat)) (p : Bytes) : Bool :=
  match oneChar p with
  | none => false
  | some c =>
    match members with
    | none => !(ls && c == 47)
    | some ms => ms.contains c

/-- a run of two or more `*` outside classes and escapes that is not one of the legal forms: exactly `**`, at the
start of the glob or after `/`, and at the end of the glob or before `/`.  (Globs with braces are left alone.) -/
def illegalDstar (be : Bool) (g : List Nat) : Bool :=
  let rec go : Nat → List Nat → Bool → Bool
    -- fuel, rest, previous character was the start or a separator
    | 0, _, _ => false
    | _ + 1, [], _ => false
    | f + 1, 92 :: _ :: rest, _ => if be then go f rest false else go f rest false
    | f + 1, 91 :: rest, _ =>
      -- skip a class: an optional `!`/`^`, an optional first `]`, up to the closing `]`
      let r1 := match rest with | 33 :: r => r | 94 :: r => r | r => r
      let r2 := match r1 with | 93 :: r => r | r => r
      go f ((r2.dropWhile (· != 93)).drop 1) false
    | f + 1, 42 :: 42 :: rest, prevSep =>
      let more := rest.takeWhile (· == 42)
      let after := rest.dropWhile (· == 42)
      if !more.isEmpty || !prevSep || !(after.isEmpty || after.head? == some 47) then true
      else go f after false
    | f + 1, c :: rest, _ => go f rest (c == 47)
  !(g.contains 123) && go (g.length + 1) g true

end RgVerif.GlobDoc
