import RgVerif.Model.Sx
/-
gitignore(5), written independently of ripgrep (sources: the manual page, and git's `dir.c`
`parse_path_pattern` / `trim_trailing_spaces` / `last_matching_pattern_from_list` and `wildmatch.c` for
the exact meaning of the glob syntax).  Validated on every run against the real `git check-ignore`.

* a line starting with `#` is a comment; trailing spaces are dropped unless escaped with `\`;
  a blank line matches nothing
* `!` negates; a trailing `/` restricts the pattern to directories
* a pattern without `/` (other than the trailing one) is matched against the entry's name at any depth;
  otherwise against the path relative to the ignore file's directory (`wildmatch` with `WM_PATHNAME`:
  `*`, `?` and bracket expressions never match `/`; `**` as a whole component spans directories)
* within one file the last matching pattern decides; a file in a deeper directory is consulted before
  the files above it
* an entry below an excluded directory is excluded.

Patterns are ASCII here (characters are bytes); `okLine` (in `Props/C04.lean`) restricts further.
-/
namespace RgVerif.GitSpec

def isUpper (c : Nat) : Bool := 65 ≤ c && c ≤ 90
def isLower (c : Nat) : Bool := 97 ≤ c && c ≤ 122
def toLower (c : Nat) : Nat := if isUpper c then c + 32 else c
def toUpper (c : Nat) : Nat := if isLower c then c - 32 else c

/-! ### bracket expressions (`wildmatch.c`, `case '['`) -/

inductive ClsItem where
  | one (c : Nat)
  | range (lo hi : Nat)
  deriving Repr, DecidableEq

/-- the `do { … } while ((p_ch = *++p) != ']')` loop; `first` = the first character is taken literally
even if it is `]`; `prev` = `prev_ch` (0 after a range).  `none` = pattern ends inside the class. -/
def clsItems : List Nat → Bool → Nat → List ClsItem → Option (List ClsItem × List Nat)
  | [], _, _, _ => none
  | c :: p, first, prev, acc =>
    if c == 93 && !first then some (acc, p)
    else if c == 92 then
      match p with
      | [] => none
      | e :: p' => clsItems p' false e (acc ++ [.one e])
    else if c == 45 && prev != 0 && p.head? != none && p.head? != some 93 then
      -- range `prev - hi`
      match p with
      | 92 :: hi :: p' => clsItems p' false 0 (acc ++ [.range prev hi])
      | [92] => none
      | hi :: p' => clsItems p' false 0 (acc ++ [.range prev hi])
      | [] => none
    else clsItems p false c (acc ++ [.one c])

/-- does text byte `t` (already lower-cased under case folding) belong to the listed items -/
def clsHas (ci : Bool) (items : List ClsItem) (t : Nat) : Bool :=
  items.any fun
    | .one c => t == c
    | .range lo hi => (lo ≤ t && t ≤ hi) || (ci && isLower t && lo ≤ toUpper t && toUpper t ≤ hi)

/-- every suffix reachable by skipping bytes that satisfy `ok` -/
def skipWhile (ok : Nat → Bool) : Bytes → List Bytes
  | [] => [[]]
  | b :: t => (b :: t) :: (if ok b then skipWhile ok t else [])

/-- `dowild`: `pn` = `WM_PATHNAME`, `ci` = `WM_CASEFOLD`, `prevOk` = the previous pattern character is `/`
or we are at the start of the pattern (the condition under which `**` is special). -/
def wm (ci pn : Bool) : Bool → List Nat → Bytes → Bool
  | _, [], t => t.isEmpty
  | prevOk, c :: p, t =>
    if c == 92 then
      match p, t with
      | e :: p', b :: t' => (if ci then toLower b == e else b == e) && wm ci pn (e == 47) p' t'
      | _, _ => false
    else if c == 63 then
      match t with
      | b :: t' => !(pn && b == 47) && wm ci pn false p t'
      | [] => false
    else if c == 91 then
      let neg := p.head? == some 33 || p.head? == some 94
      match clsItems (if neg then p.drop 1 else p) true 0 [] with
      | none => false
      | some (items, p') =>
        match t with
        | [] => false
        | b :: t' =>
          let tb := if ci then toLower b else b
          (clsHas ci items tb != neg) && !(pn && b == 47) && wm ci pn false (p.drop (p.length - p'.length)) t'
    else if c == 42 then
      let p' := p.dropWhile (· == 42)
      let multi := p.head? == some 42
      let special := multi && pn && prevOk &&
        (p'.isEmpty || p'.head? == some 47 || (p'.head? == some 92 && (p'.drop 1).head? == some 47))
      -- `**/` may match nothing at all
      (special && p'.head? == some 47 && wm ci pn true (p.drop (p.length - p'.length + 1)) t) ||
      (let matchSlash := !pn || special
       (skipWhile (fun b => matchSlash || b != 47) t).any fun r => wm ci pn false (p.drop (p.length - p'.length)) r)
    else
      match t with
      | b :: t' => (if ci then toLower b == toLower c else b == c) && wm ci pn (c == 47) p t'
      | [] => false
termination_by _ p _ => p.length
decreasing_by
  all_goals simp_wf
  all_goals (try simp only [List.length_drop])
  all_goals (try omega)

/-! ### one pattern line (`dir.c`) -/

structure Pat where
  negative : Bool
  mustBeDir : Bool
  noDir : Bool            -- no `/` in the pattern: match the name only
  text : List Nat         -- without `!`, without the trailing `/`, without a leading `/`
  deriving Repr, DecidableEq

/-- `trim_trailing_spaces`: drop trailing unescaped spaces -/
def trimSpaces (l : List Nat) : List Nat :=
  -- position after the last character that is not a trailing space; `\x` protects x
  let rec go : List Nat → List Nat → List Nat → List Nat
    -- (rest, kept so far (all chars), pending spaces)
    | [], kept, _ => kept
    | 92 :: x :: rest, kept, pend => go rest (kept ++ pend ++ [92, x]) []
    | 32 :: rest, kept, pend => go rest kept (pend ++ [32])
    | c :: rest, kept, pend => go rest (kept ++ pend ++ [c]) []
  go l [] []

/-- a leading `!` negates -/
def stripNeg (l : List Nat) : Bool × List Nat :=
  if l.head? == some 33 then (true, l.drop 1) else (false, l)

/-- a trailing `/` restricts the pattern to directories -/
def stripDir (l : List Nat) : Bool × List Nat :=
  if l.getLast? == some 47 then (true, l.dropLast) else (false, l)

/-- a leading `/` only anchors; it is not part of the text that is matched -/
def stripLead (l : List Nat) : List Nat :=
  if l.head? == some 47 then l.drop 1 else l

/-- `add_patterns_from_buffer` + `parse_path_pattern` for one line (without its line terminator);
`none` for comments and empty lines -/
def parsePat (line : List Nat) : Option Pat :=
  if line.isEmpty || line.head? == some 35 then none else
  let n := stripNeg (trimSpaces line)
  let d := stripDir n.2
  some { negative := n.1, mustBeDir := d.1, noDir := !d.2.contains 47, text := stripLead d.2 }

/-! ### reading an exclude file (`dir.c`, `add_patterns_from_buffer`) -/

/-- `skip_utf8_bom` -/
def skipBom (b : Bytes) : Bytes := if b.take 3 == [0xEF, 0xBB, 0xBF] then b.drop 3 else b

/-- pieces between line feeds (the buffer ends in a line feed, so the last piece is complete) -/
def splitLf : Bytes → Bytes → List Bytes
  | [], _ => []
  | b :: rest, cur => if b == 10 then cur :: splitLf rest [] else splitLf rest (cur ++ [b])

/-- the pattern lines of an exclude file, as byte strings: a byte order mark at the start is skipped, a missing
final line feed is supplied, a carriage return directly before a line feed is dropped.  Nothing is decoded:
patterns are byte strings. -/
def readLines (content : Bytes) : List Bytes :=
  let b := skipBom content
  if b.isEmpty then [] else
  let b := if b.getLast? == some 10 then b else b ++ [10]
  (splitLf b []).map fun l => if l.getLast? == some 13 then l.dropLast else l

def joinComps : List Bytes → Bytes
  | [] => []
  | [c] => c
  | c :: cs => c ++ [47] ++ joinComps cs

/-- `is_glob_special`: `*`, `?`, `[`, `\` -/
def isGlobSpecial (c : Nat) : Bool := c == 42 || c == 63 || c == 91 || c == 92

/-- `simple_length`: the length of the pattern's literal prefix (`nowildcardlen`) -/
def simpleLen (p : List Nat) : Nat := (p.takeWhile fun c => !isGlobSpecial c).length

/-- `fspathncmp` -/
def eqFold (ci : Bool) (a b : Bytes) : Bool := if ci then a.map toLower == b.map toLower else a == b

/-- `match_pathname`: the literal prefix is compared first and `wildmatch` runs on what is left of pattern and
path — so a `**` that directly follows the literal prefix stands "at the start of the pattern" for `wildmatch`
and spans directories (`/b**` matches `b/x/y`, although gitignore(5) calls such asterisks regular). -/
def matchPathname (ci : Bool) (text name : Bytes) : Bool :=
  let k := simpleLen text
  decide (k ≤ name.length) && eqFold ci (text.take k) (name.take k) &&
    wm ci true true (text.drop k) (name.drop k)

/-- does the pattern match the entry whose path relative to the ignore file's directory is `rel`
(`match_basename` for patterns without `/`, `match_pathname` otherwise) -/
def patMatches (ci : Bool) (pat : Pat) (rel : List Bytes) (isDir : Bool) : Bool :=
  (!pat.mustBeDir || isDir) &&
  (if pat.noDir then wm ci false true pat.text (rel.getLast?.getD [])
   else matchPathname ci pat.text (joinComps rel))

/-- verdict of one ignore file: the last matching pattern wins -/
def fileVerdict (ci : Bool) (lines : List (List Nat)) (rel : List Bytes) (isDir : Bool) : Option Bool :=
  -- `some true` = excluded, `some false` = re-included, `none` = undecided
  ((lines.filterMap parsePat).reverse.find? fun pat => patMatches ci pat rel isDir).map fun pat => !pat.negative

/-- all ignore files on the way from the entry's directory up to the root, deepest first -/
def entryVerdict (ci : Bool) (ign : List Bytes → List (List Nat)) (comps : List Bytes) (isDir : Bool) : Option Bool :=
  let rec go : Nat → Option Bool
    | 0 => none
    | k + 1 =>
      match fileVerdict ci (ign (comps.take k)) (comps.drop k) isDir with
      | some v => some v
      | none => go k
  go comps.length

/-- an entry is ignored iff it, or one of the directories leading to it, is excluded -/
def gitIgnored (ci : Bool) (ign : List Bytes → List (List Nat)) (comps : List Bytes) (isDir : Bool) : Bool :=
  (List.range comps.length).any fun i =>
    let k := i + 1
    entryVerdict ci ign (comps.take k) (if k == comps.length then isDir else true) == some true

end RgVerif.GitSpec
