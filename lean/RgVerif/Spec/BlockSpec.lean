import RgVerif.Model.BufWriter
/-
C08 — the contract: the output is the non-empty per-file blocks, in some order, with the separator
line exactly between consecutive blocks.
-/
namespace RgVerif.BlockSpec

/-- Blocks joined with `line` strictly between neighbours. -/
def joinSep (line : Bytes) : List Bytes → Bytes
  | [] => []
  | [b] => b
  | b :: rest => b ++ line ++ joinSep line rest

/-- Files without output contribute nothing (no block, no separator). -/
def nonempty (bs : List Bytes) : List Bytes := bs.filter (fun b => !b.isEmpty)

/-- The separator line: the configured separator followed by the terminator; nothing when no separator
is configured. -/
def sepLine (sep : Option Bytes) (term : Bytes) : Bytes :=
  match sep with
  | some s => s ++ term
  | none => []

/-- Every block preceded by the separator line. -/
def joinAfter (line : Bytes) (bs : List Bytes) : Bytes := (bs.map (fun b => line ++ b)).flatten

/-! ### The block grammar of the path-tagged output modes

In every mode but `--heading`, each output line carries the path of its file (`path:…`, `path-…`, the bare
path, the `path.text` of a JSON message); the only untagged line is the context separator `--`, which
occurs *inside* a file's results (between non-adjacent context groups) and *between* files.  This is the
grammar the harness uses to cut an output into blocks; `parse` is that procedure. -/

inductive Line where
  | sep
  | data (p : Nat) (x : Bytes)
  deriving Repr, DecidableEq, Inhabited

def Line.isData (p : Nat) : Line → Bool
  | .data q _ => q == p
  | .sep => false

def Line.ofPathOrSep (p : Nat) : Line → Bool
  | .data q _ => q == p
  | .sep => true

/-- A file's block: starts and ends with a line of that file, separators only in between. -/
def wfBlock (p : Nat) (b : List Line) : Bool :=
  match b with
  | [] => false
  | l :: _ => l.isData p && (match b.getLast? with | some e => e.isData p | none => false) && b.all (Line.ofPathOrSep p)

/-- The output: blocks in order, `k` separator lines in every gap. -/
def joinLines (k : Nat) : List (Nat × List Line) → List Line
  | [] => []
  | [(_, b)] => b
  | (_, b) :: rest => b ++ List.replicate k Line.sep ++ joinLines k rest

structure PS where
  blocks : List (Nat × List Line) := []   -- most recent first
  gaps : List Nat := []                    -- separator lines found in each gap, most recent first
  pending : Nat := 0                       -- separator lines whose role is not yet known
  stray : Nat := 0                         -- separator lines before the first block
  deriving Repr, DecidableEq, Inhabited

def pstep (st : PS) : Line → PS
  | .sep => { st with pending := st.pending + 1 }
  | .data p x =>
    match st.blocks with
    | (q, ls) :: rest =>
      if q = p then
        { st with blocks := (q, ls ++ List.replicate st.pending Line.sep ++ [.data p x]) :: rest, pending := 0 }
      else
        { st with blocks := (p, [.data p x]) :: st.blocks, gaps := st.pending :: st.gaps, pending := 0 }
    | [] => { st with blocks := [(p, [.data p x])], stray := st.pending, pending := 0 }

/-- blocks in output order, gaps in output order, stray separators before / after -/
def parse (ls : List Line) : List (Nat × List Line) × List Nat × Nat × Nat :=
  let st := ls.foldl pstep {}
  (st.blocks.reverse, st.gaps.reverse, st.stray, st.pending)

/-- consecutive blocks belong to different files -/
def adjDistinct : List (Nat × List Line) → Bool
  | (p, _) :: (q, b) :: rest => p != q && adjDistinct ((q, b) :: rest)
  | _ => true

end RgVerif.BlockSpec
