import RgVerif.Model.BufWriter
/-
C08 — the contract: the output is the non-empty per-file blocks, in some order, with the separator
line exactly between consecutive blocks.
-/
namespace RgVerif.BlockSpec

/-- Blocks joined with `line` strictly between neighbours. -/
def joinSep (line : Bytes) : List Bytes → Bytes
  | [] => []
  | [b] => b
  | b :: rest => b ++ line ++ joinSep line rest

/-- Files without output contribute nothing (no block, no separator). -/
def nonempty (bs : List Bytes) : List Bytes := bs.filter (fun b => !b.isEmpty)

/-- The separator line: the configured separator followed by the terminator; nothing when no separator
is configured. -/
def sepLine (sep : Option Bytes) (term : Bytes) : Bytes :=
  match sep with
  | some s => s ++ term
  | none => []

/-- Every block preceded by the separator line. -/
def joinAfter (line : Bytes) (bs : List Bytes) : Bytes := (bs.map (fun b => line ++ b)).flatten

/-! ### The block grammar of the path-tagged output modes

In every mode but `--heading`, each output line carries the path of its file (`path:…`, `path-…`, the bare
path, the `path.text` of a JSON message); the only untagged line is the context separator `--`, which
occurs *inside* a file's results (between non-adjacent context groups) and *between* files.  This is the
grammar the harness uses to cut an output into blocks; `parse` is that procedure. -/

inductive Line where
  | sep
  | data (p : Nat) (x : Bytes)
  deriving Repr, DecidableEq, Inhabited

def Line.isData (p : Nat) : Line → Bool
  | .data q _ => q == p
  | .sep => false

def Line.ofPathOrSep (p : Nat) : Line → Bool
  | .data q _ => q == p
  | .sep => true

/-- A file's block: starts and ends with a line of that file, separators only in between. -/
def wfBlock (p : Nat) (b : List Line) : Bool :=
  match b with
  | [] => false
  | l :: _ => l.isData p && (match b.getLast? with | some e => e.isData p | none => false) && b.all (Line.ofPathOrSep p)

/-- The output: blocks in order, `k` separator lines in every gap. -/
def joinLines (k : Nat) : List (Nat × List Line) → List Line
  | [] => []
  | [(_, b)] => b
  | (_, b) :: rest => b ++ List.replicate k Line.sep ++ joinLines k rest

structure PS where
  blocks : List (Nat × List Line) := []   -- most recent first
  gaps : List Nat := []                    -- separator lines found in each gap, most recent first
  pending : Nat := 0                       -- separator lines whose role is not yet known
  stray : Nat := 0                         -- separator lines before the first block
  deriving Repr, DecidableEq, Inhabited

def pstep (st : PS) : Line → PS
  | .sep => { st with pending := st.pending + 1 }
  | .data p x =>
    match st.blocks with
    | (q, ls) :: rest =>
      if q = p then
        { st with blocks := (q, ls ++ List.replicate st.pending Line.sep ++ [.data p x]) :: rest, pending := 0 }
      else
        { st with blocks := (p, [.data p x]) :: st.blocks, gaps := st.pending :: st.gaps, pending := 0 }
    | [] => { st with blocks := [(p, [.data p x])], stray := st.pending, pending := 0 }

/-- blocks in output order, gaps in output order, stray separators before / after -/
def parse (ls : List Line) : List (Nat × List Line) × List Nat × Nat × Nat :=
  let st := ls.foldl pstep {}
  (st.blocks.reverse, st.gaps.reverse, st.stray, st.pending)

/-- consecutive blocks belong to different files -/
def adjDistinct : List (Nat × List Line) → Bool
  | (p, _) :: (q, b) :: rest => p != q && adjDistinct ((q, b) :: rest)
  | _ => true

/-! ### The block grammar of `--heading`

A block is the path on a line of its own followed by the file's result lines (which carry no path; context
separators `--` between context groups are result lines here); blocks are separated by blank lines
(the empty file separator plus its terminator).  A result line is never blank. -/

inductive HLine where
  | head (p : Nat)
  | body (x : Bytes)
  | blank
  deriving Repr, DecidableEq, Inhabited

def HLine.isBody : HLine → Bool
  | .body _ => true
  | _ => false

/-- a heading block of file `p`: its path line (or a bare `path: binary file matches` message line), then
the result lines -/
def wfHBlock (p : Nat) (b : List HLine) : Bool :=
  match b with
  | .head q :: tl => q == p && tl.all HLine.isBody
  | _ => false

def joinHLines (k : Nat) : List (Nat × List HLine) → List HLine
  | [] => []
  | [(_, b)] => b
  | (_, b) :: rest => b ++ List.replicate k HLine.blank ++ joinHLines k rest

structure HPS where
  blocks : List (Nat × List HLine) := []   -- most recent first
  gaps : List Nat := []
  pending : Nat := 0                        -- blank lines since the last block line
  isOpen : Bool := false                    -- inside a block (no blank line since its last line)
  stray : Nat := 0
  bad : Bool := false                       -- a result line outside any block
  deriving Repr, DecidableEq, Inhabited

def hstep (st : HPS) : HLine → HPS
  | .blank => { st with pending := st.pending + 1, isOpen := false }
  | .head p =>
    match st.blocks with
    | [] => { st with blocks := [(p, [.head p])], stray := st.pending, pending := 0, isOpen := true }
    | _ :: _ => { st with blocks := (p, [.head p]) :: st.blocks, gaps := st.pending :: st.gaps, pending := 0, isOpen := true }
  | .body x =>
    match st.blocks with
    | (q, ls) :: rest => if st.isOpen then { st with blocks := (q, ls ++ [.body x]) :: rest } else { st with bad := true }
    | [] => { st with bad := true }

def parseH (ls : List HLine) : List (Nat × List HLine) × List Nat × Nat × Nat × Bool :=
  let st := ls.foldl hstep {}
  (st.blocks.reverse, st.gaps.reverse, st.stray, st.pending, st.bad)

end RgVerif.BlockSpec
