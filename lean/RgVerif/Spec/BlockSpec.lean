import RgVerif.Model.BufWriter
/-
C08 — the contract: the output is the non-empty per-file blocks, in some order, with the separator
line exactly between consecutive blocks.
-/
namespace RgVerif.BlockSpec

/-- Blocks joined with `line` strictly between neighbours. -/
def joinSep (line : Bytes) : List Bytes → Bytes
  | [] => []
  | [b] => b
  | b :: rest => b ++ line ++ joinSep line rest

/-- Files without output contribute nothing (no block, no separator). -/
def nonempty (bs : List Bytes) : List Bytes := bs.filter (fun b => !b.isEmpty)

/-- The separator line: the configured separator followed by the terminator; nothing when no separator
is configured. -/
def sepLine (sep : Option Bytes) (term : Bytes) : Bytes :=
  match sep with
  | some s => s ++ term
  | none => []

/-- Every block preceded by the separator line. -/
def joinAfter (line : Bytes) (bs : List Bytes) : Bytes := (bs.map (fun b => line ++ b)).flatten

end RgVerif.BlockSpec
