import RgVerif.Model.IgnoreDir
/-
The documented precedence of ripgrep's filters (GUIDE.md "Automatic filtering", the man page entries of
`-g`, `--ignore-file`, `--no-ignore*`, `--hidden`, `--no-require-git`, and the comment block at the top of
`WalkBuilder`), as one decision function over *per-source* verdicts:

  1. command-line globs (`-g`) override everything;
  2. then the ignore rules, in this order of precedence:
     `.rgignore` > `.ignore` > `.gitignore` > `.git/info/exclude` > global gitignore > `--ignore-file`,
     within one kind the file of the nearest directory decides; git-sourced kinds only count inside a
     repository (unless `--no-require-git`) and never from beyond the repository root; files of directories
     above the search root count unless `--no-ignore-parent`;
  3. then file-type selection (`-t` / `-T`);
  4. a hidden entry is skipped only if nothing above whitelisted it.
An entry named on the command line is always searched.
-/
namespace RgVerif.Precedence
open RgVerif RgVerif.IgnoreDir

/-- the first verdict that is not `none` -/
def firstOf : List M3 → M3
  | [] => .none
  | m :: rest => if m.isNone then firstOf rest else m

/-- what every rule source says about one entry -/
structure SourceVerdicts where
  override : M3
  rgignore : M3
  ignore : M3
  gitignore : M3
  exclude : M3
  global : M3
  ignoreFile : M3
  types : M3
  hiddenName : Bool
  deriving Repr

/-- should the entry be skipped -/
def decide (hiddenFilter : Bool) (v : SourceVerdicts) : Bool :=
  if !v.override.isNone then v.override.isIgnore else
  let ig := firstOf [v.rgignore, v.ignore, v.gitignore, v.exclude, v.global, v.ignoreFile]
  if ig.isIgnore then true
  else if v.types.isIgnore then true
  else if ig.isWhitelist || v.types.isWhitelist then false
  else hiddenFilter && v.hiddenName

/-- the directories whose files of a plain kind (`.rgignore`, `.ignore`) are consulted, nearest first,
each with the path it is asked about -/
def consulted (parents : Bool) (levels : List Level) (path rebased : Bytes) : List (Level × Bytes) :=
  (levels.takeWhile (fun l => !l.isAbsoluteParent)).map (fun l => (l, path)) ++
  (if parents then (levels.dropWhile (fun l => !l.isAbsoluteParent)).map (fun l => (l, rebased)) else [])

/-- git-sourced kinds stop at the repository root: the first directory with `.git` is the last one asked -/
def upToRepoRoot : List (Level × Bytes) → List (Level × Bytes)
  | [] => []
  | q :: rest => if q.1.hasGit then [q] else q :: upToRepoRoot rest

def inRepo (requireGit : Bool) (levels : List Level) : Bool := !requireGit || levels.any (·.hasGit)

end RgVerif.Precedence
