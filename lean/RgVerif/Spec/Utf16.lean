import RgVerif.Model.Decode
import RgVerif.Model.Utf8
import RgVerif.Spec.SjisTable
/-
C17 — independent specification of "the UTF-8 transcoding of an input" (WHATWG Encoding Standard:
malformed sequences become U+FFFD), written on the *whole* byte string, with no state machine.
-/
namespace RgVerif.Utf16Spec
open RgVerif RgVerif.Decode

/-- Split into 16-bit code units; the flag tells whether a lone byte is left over. -/
def units (be : Bool) : Bytes → List Nat × Bool
  | [] => ([], false)
  | [_] => ([], true)
  | b0 :: b1 :: rest =>
    let (us, odd) := units be rest
    (unitOf be b0 b1 :: us, odd)

/-- Code units → scalar values. A high surrogate followed by a low one is one astral character; any other
surrogate is U+FFFD; a truncated end (lone byte and/or unpaired high surrogate) is one U+FFFD. -/
def scalars (odd : Bool) : List Nat → List Nat
  | [] => if odd then [replacement] else []
  | u :: rest =>
    if isHigh u then
      match rest with
      | [] => [replacement]
      | l :: rest' => if isLow l then astral u l :: scalars odd rest' else replacement :: scalars odd (l :: rest')
    else if isLow u then replacement :: scalars odd rest
    else u :: scalars odd rest
termination_by us => us.length
decreasing_by all_goals (simp_wf; try omega)

/-- UTF-16 (mark already handled by the caller) → UTF-8. -/
def transcode16 (be : Bool) (bs : Bytes) : Bytes :=
  let (us, odd) := units be bs
  (scalars odd us).flatMap utf8Encode

/-- The decoder's own mark: one leading U+FEFF is not content. -/
def dropOwnMark : List Nat → List Nat
  | 0xFEFF :: rest => rest
  | us => us

/-- What a UTF-16 decoder *with BOM removal* yields for a complete input. -/
def decode16 (be : Bool) (bs : Bytes) : Bytes :=
  let (us, odd) := units be bs
  (scalars odd (dropOwnMark us)).flatMap utf8Encode

/-- UTF-8 → UTF-8 with every maximal malformed subpart replaced by U+FFFD (WHATWG UTF-8 decoder). -/
def transcode8 : Bytes → Bytes
  | [] => []
  | b0 :: rest =>
    if b0 < 0x80 then b0 :: transcode8 rest
    else if 0xC2 ≤ b0 && b0 ≤ 0xDF then
      match rest with
      | b1 :: r => if isCont b1 then b0 :: b1 :: transcode8 r else utf8Encode replacement ++ transcode8 (b1 :: r)
      | [] => utf8Encode replacement
    else if 0xE0 ≤ b0 && b0 ≤ 0xEF then
      match rest with
      | b1 :: r1 =>
        if (if b0 == 0xE0 then 0xA0 ≤ b1 && b1 ≤ 0xBF
            else if b0 == 0xED then 0x80 ≤ b1 && b1 ≤ 0x9F
            else isCont b1) then
          match r1 with
          | b2 :: r2 => if isCont b2 then b0 :: b1 :: b2 :: transcode8 r2 else utf8Encode replacement ++ transcode8 (b2 :: r2)
          | [] => utf8Encode replacement
        else utf8Encode replacement ++ transcode8 (b1 :: r1)
      | [] => utf8Encode replacement
    else if 0xF0 ≤ b0 && b0 ≤ 0xF4 then
      match rest with
      | b1 :: r1 =>
        if (if b0 == 0xF0 then 0x90 ≤ b1 && b1 ≤ 0xBF
            else if b0 == 0xF4 then 0x80 ≤ b1 && b1 ≤ 0x8F
            else isCont b1) then
          match r1 with
          | b2 :: r2 =>
            if isCont b2 then
              match r2 with
              | b3 :: r3 => if isCont b3 then b0 :: b1 :: b2 :: b3 :: transcode8 r3 else utf8Encode replacement ++ transcode8 (b3 :: r3)
              | [] => utf8Encode replacement
            else utf8Encode replacement ++ transcode8 (b2 :: r2)
          | [] => utf8Encode replacement
        else utf8Encode replacement ++ transcode8 (b1 :: r1)
      | [] => utf8Encode replacement
    else utf8Encode replacement ++ transcode8 rest
termination_by bs => bs.length
decreasing_by all_goals (simp_wf; try omega)

/-- windows-1252 (the WHATWG meaning of the labels `latin1`, `iso-8859-1`, `ascii`): bytes 0x80–0x9F. -/
def win1252High : List Nat :=
  [0x20AC, 0x81, 0x201A, 0x192, 0x201E, 0x2026, 0x2020, 0x2021, 0x2C6, 0x2030, 0x160, 0x2039, 0x152, 0x8D, 0x17D, 0x8F,
   0x90, 0x2018, 0x2019, 0x201C, 0x201D, 0x2022, 0x2013, 0x2014, 0x2DC, 0x2122, 0x161, 0x203A, 0x153, 0x9D, 0x17E, 0x178]

/-- The windows-1252 table. -/
def win1252 (b : Nat) : Nat := if 0x80 ≤ b ∧ b < 0xA0 then win1252High.getD (b - 0x80) b else b

/-- windows-1252 → UTF-8 (a single-byte encoding: no state, nothing malformed). -/
def transcode1252 (bs : Bytes) : Bytes := bs.flatMap fun b => utf8Encode (win1252 b)

/-- Shift_JIS → UTF-8 on the whole string (WHATWG): single bytes, half-width katakana, two-byte sequences
through the index; a lead without a valid partner is U+FFFD, and an ASCII byte after it is kept. -/
def transcodeSjis (idx : Nat → Option Nat) : Bytes → Bytes
  | [] => []
  | b :: rest =>
    if b ≤ 0x80 then utf8Encode b ++ transcodeSjis idx rest
    else if 0xA1 ≤ b && b ≤ 0xDF then utf8Encode (0xFF61 - 0xA1 + b) ++ transcodeSjis idx rest
    else if sjisIsLead b then
      match rest with
      | [] => utf8Encode replacement
      | t :: r =>
        match sjisPair idx b t with
        | some c => utf8Encode c ++ transcodeSjis idx r
        | none =>
          if t < 0x80 then utf8Encode replacement ++ utf8Encode t ++ transcodeSjis idx r
          else utf8Encode replacement ++ transcodeSjis idx r
    else utf8Encode replacement ++ transcodeSjis idx rest
termination_by bs => bs.length
decreasing_by all_goals (simp_wf; try omega)

/-- The reference transcoder per encoding; encodings that are not modelled are a parameter. -/
def transcode (other : Nat → Bytes → Bytes) : Enc → Bytes → Bytes
  | .utf8 => transcode8
  | .utf16le => transcode16 false
  | .utf16be => transcode16 true
  | .other id => other id

/-- **The contract**: what must be searched for an input `bs` under configuration `c`.
`--encoding none`: the raw bytes, mark included. Otherwise a leading mark decides the encoding (it
overrides a label) and is removed; without a mark the label decides; without either the bytes are
searched as they are. -/
def searched (other : Nat → Bytes → Bytes) (c : Cfg) (bs : Bytes) : Bytes :=
  if !c.bomSniffing then
    match c.label with
    | none => bs
    | some e => transcode other e bs
  else match bomOf bs with
    | some (e, n) => transcode other e (bs.drop n)
    | none =>
      match c.label with
      | some e => transcode other e bs
      | none => bs

/-! ### The machines behind the labels, and what they are assumed / proven to compute -/

/-- The decoder family: UTF-16 is the modelled machine; the UTF-8 decoder and every other (table-driven)
decoder are parameters. -/
def machines (m8 : Machine) (mo : Nat → Machine) : Enc → Machine
  | .utf8 => m8
  | .utf16le => utf16Machine false
  | .utf16be => utf16Machine true
  | .other id => mo id

/-- The table-driven encodings that are modelled: 0 = windows-1252 (labels latin1, iso-8859-1, ascii …),
1 = Shift_JIS; anything else is passed through byte by byte (placeholder). -/
def otherSpec : Nat → Bytes → Bytes
  | 0 => transcode1252
  | 1 => transcodeSjis Sjis.index
  | _ => fun bs => bs.flatMap fun b => utf8Encode b

def otherMachine : Nat → Machine
  | 0 => tableMachine win1252
  | 1 => sjisMachine Sjis.index
  | _ => tableMachine id

/-- `bs` starts with the mark of encoding `e` (what `new_decoder_with_bom_removal` strips). -/
def ownMark : Enc → Bytes → Bool
  | .utf8, 0xEF :: 0xBB :: 0xBF :: _ => true
  | .utf16le, 0xFF :: 0xFE :: _ => true
  | .utf16be, 0xFE :: 0xFF :: _ => true
  | _, _ => false

def ownMarkLen : Enc → Nat
  | .utf8 => 3
  | .utf16le => 2
  | .utf16be => 2
  | .other _ => 0

/-- A decoder with BOM removal computes the reference transcoding of its input minus its own mark. -/
def Implements (other : Nat → Bytes → Bytes) (e : Enc) (m : Machine) : Prop :=
  ∀ bs : Bytes, (∀ b ∈ bs, b < 256) →
    m.decode [bs] = transcode other e (if ownMark e bs then bs.drop (ownMarkLen e) else bs)

/-- Guard of `C17`: the three situations in which the current tree does not search the UTF-8 equivalent.
(1) UTF-8 mark, no label: the rest is passed through raw, so it must be valid UTF-8 (F13);
(2) UTF-8 mark and a label other than UTF-8: the label's decoder is used (the mark does not override);
(3) the text after the mark (or, with sniffing off, the input) starts with the decoder's own mark again:
    the decoder removes that one, too. -/
def c17Guard (c : Cfg) (bs : Bytes) : Bool :=
  if !c.bomSniffing then
    match c.label with
    | none => true
    | some e => !ownMark e bs
  else match bomOf bs with
    | none => true
    | some (.utf8, n) =>
      match c.label with
      | none => validUtf8 (bs.drop n)
      | some .utf8 => !ownMark .utf8 (bs.drop n)
      | some _ => false
    | some (e, n) => !ownMark e (bs.drop n)

end RgVerif.Utf16Spec
