import RgVerif.Spec.Grep
/-
Executable check of the matcher contract the fast line-by-line path relies on (`LineSafe`,
`Lemmas/SearcherFind.lean`), for one buffer: a per-run certificate.  `lineSafeCheck_sound` (in
`Lemmas/SearcherFind.lean`) proves `lineSafeCheck … = true → LineSafe …`.
-/
namespace RgVerif.GrepSpec
open RgVerif RgVerif.Lines RgVerif.Searcher

/-- does the pattern match line `j` when asked about the line alone (terminator removed, as the code cuts it) -/
def pmLineB (cfg : Config) (m : MatcherI) (sl : List SLine) (j : Nat) : Bool :=
  m.isMatch (withoutTerminator (bytesAt sl j) cfg.lineTerm)

/-- position `x` lies in line `j`, between its start and the end of its content -/
def inLineB (t : Nat) (sl : List SLine) (j x : Nat) : Bool :=
  decide (j < sl.length) && decide (offsetAt sl j ≤ x) && decide (x ≤ offsetAt sl (j + 1)) &&
    !((bytesAt sl j).take (x - offsetAt sl j)).contains t

/-- no line in `[p, q)` matches -/
def noneMatchB (cfg : Config) (m : MatcherI) (sl : List SLine) (p q : Nat) : Bool :=
  (List.range q).all fun j => decide (j < p) || !pmLineB cfg m sl j

def lastTermB (t : Nat) (sl : List SLine) : Bool :=
  let l := bytesAt sl (sl.length - 1)
  l.getLast? == some t && !l.dropLast.contains t

def lineSafeCheck (cfg : Config) (m : MatcherI) (buf : Bytes) (sl : List SLine) : Bool :=
  let t := cfg.lineTerm.asByte
  (List.range sl.length).all fun p =>
    match m.findCandidateLine (buf.drop (offsetAt sl p)) with
    | none => noneMatchB cfg m sl p sl.length
    | some (.confirmed i) =>
      ((List.range sl.length).any fun j =>
          decide (p ≤ j) && inLineB t sl j (offsetAt sl p + i) && pmLineB cfg m sl j && noneMatchB cfg m sl p j) ||
        (offsetAt sl p + i == buf.length && lastTermB t sl && noneMatchB cfg m sl p sl.length)
    | some (.candidate i) =>
      ((List.range sl.length).any fun j =>
          decide (p ≤ j) && inLineB t sl j (offsetAt sl p + i) && noneMatchB cfg m sl p j) ||
        (offsetAt sl p + i == buf.length && lastTermB t sl && noneMatchB cfg m sl p sl.length)

end RgVerif.GrepSpec
