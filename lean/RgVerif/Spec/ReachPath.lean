import RgVerif.Spec.Reach
/-
C06 — the specification once more, path by path and without recursion over the tree (an independent
reading of the property statement, proved equivalent to `reach`):

* a directory is *listed* iff it is a root directory (and the depth limit is not 0), or it is a
  reported child directory of a listed directory that lies on the root's device and within the depth
  limit (with `follow_links` a link to a directory counts as that directory, unless it is one of the
  directories on the way down: a loop);
* an item is *reported* iff it is a root, or it is what `entryOut` says about a child of a listed
  directory: the entry itself if it passes the entry tests, a loop error, a dangling-link error.
-/
namespace RgVerif.Walk

/-- Root device remembered for `same_file_system`. -/
def rootDevOf (cfg : Cfg) (forest : List Node) (r : Node) : Option Nat :=
  match stat forest r with
  | .dir d _ => if cfg.sameFs then some d.dev else none
  | _ => none

/-- What is reported for a child itself (not for what is below it). -/
def entryOut (cfg : Cfg) (forest : List Node) (anc : List Anc) (pp : Path) : Node → Option Out
  | .file name size =>
    if accepted cfg anc (pp ++ [name]) name (.file size) then some (.entry (pp ++ [name])) else none
  | .dir name ino dev ign kids =>
    if accepted cfg anc (pp ++ [name]) name (.dir ⟨ino, dev, ign, kids⟩ false) then
      some (.entry (pp ++ [name])) else none
  | .link name len tgt =>
    if cfg.followLinks then
      match resolve forest tgt with
      | .broken => some (.broken (pp ++ [name]))
      | .dir d _ =>
        if inAnc anc d.ino then some (.loop (pp ++ [name]))
        else if accepted cfg anc (pp ++ [name]) name (.dir d true) then some (.entry (pp ++ [name]))
        else none
      | v => if accepted cfg anc (pp ++ [name]) name v then some (.entry (pp ++ [name])) else none
    else if accepted cfg anc (pp ++ [name]) name (.symlink len) then some (.entry (pp ++ [name]))
    else none

/-- `Listed cfg forest r anc depth p kids`: below root `r` the directory at path `p` (depth `depth`,
entered directories `anc`, children `kids`) is listed by the traversal. -/
inductive Listed (cfg : Cfg) (forest : List Node) (r : Node) :
    List Anc → Nat → Path → List Node → Prop where
  | root {d : DirView} {via : Bool} :
      stat forest r = .dir d via → depthOk cfg 0 = true →
      Listed cfg forest r [(d.ino, d.ign)] 0 [r.name] d.kids
  | real {anc : List Anc} {depth : Nat} {pp : Path} {ks : List Node}
      {name ino dev : Nat} {ign : List Name} {kids : List Node} :
      Listed cfg forest r anc depth pp ks → Node.dir name ino dev ign kids ∈ ks →
      accepted cfg anc (pp ++ [name]) name (.dir ⟨ino, dev, ign, kids⟩ false) = true →
      devOk (rootDevOf cfg forest r) dev = true → depthOk cfg (depth + 1) = true →
      Listed cfg forest r ((ino, ign) :: anc) (depth + 1) (pp ++ [name]) kids
  | link {anc : List Anc} {depth : Nat} {pp : Path} {ks : List Node}
      {name len : Nat} {tgt : Target} {d : DirView} {via : Bool} :
      Listed cfg forest r anc depth pp ks → Node.link name len tgt ∈ ks →
      cfg.followLinks = true → resolve forest tgt = .dir d via → inAnc anc d.ino = false →
      accepted cfg anc (pp ++ [name]) name (.dir d true) = true →
      devOk (rootDevOf cfg forest r) d.dev = true → depthOk cfg (depth + 1) = true →
      Listed cfg forest r ((d.ino, d.ign) :: anc) (depth + 1) (pp ++ [name]) d.kids

/-- What a traversal of root `r` must report. -/
inductive ReportedBelow (cfg : Cfg) (forest : List Node) (r : Node) : Out → Prop where
  | rootBroken : stat forest r = .broken → ReportedBelow cfg forest r (.broken [r.name])
  | rootEntry : stat forest r ≠ .broken → ReportedBelow cfg forest r (.entry [r.name])
  | child {anc : List Anc} {depth : Nat} {pp : Path} {ks : List Node} {k : Node} {o : Out} :
      Listed cfg forest r anc depth pp ks → k ∈ ks → entryOut cfg forest anc pp k = some o →
      ReportedBelow cfg forest r o

def Reported (cfg : Cfg) (forest : List Node) (roots : List Node) (o : Out) : Prop :=
  ∃ r, r ∈ roots ∧ ReportedBelow cfg forest r o

end RgVerif.Walk
