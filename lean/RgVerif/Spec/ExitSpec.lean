import RgVerif.Model.Exit
/-
C15 — the contract, stated on the list of walker entries (not on the fold):
"exit 0 exactly when a match (or listed file) was found and no error occurred, or when --quiet
found a match; 1 when nothing matched and no error occurred; 2 when an error occurred".
-/
namespace RgVerif.ExitSpec
open RgVerif.Exit

def isFile : Item → Bool
  | .file _ _ _ => true
  | _ => false

def isMatch : Item → Bool
  | .file _ (.ok true) _ => true
  | _ => false

/-- "At least one match (or, with --files, one listed file) was found." -/
def specMatched (c : Cfg) (all : List Item) : Bool :=
  match c.mode with
  | .search => c.matchesPossible && all.any isMatch
  | .files => all.any isFile

/-- The entry is a fault that must be reported: the walker could not produce it, or (when searching)
it could not be opened / read.  (`--files` never opens a file.) -/
def isFault (c : Cfg) : Item → Bool
  | .walkErr => true
  | .file _ .err _ => c.mode == .search
  | _ => false

/-- "An error occurred": the configuration file could not be read or parsed, some entry is a fault, or nothing
at all was searched under an implicit path (ripgrep reports that as an error, too). -/
def specErrored (c : Cfg) (all : List Item) : Bool :=
  c.configErr ||
  match c.mode with
  | .search => c.matchesPossible && (all.any (isFault c) || (c.implicitPath && !all.any isFile))
  | .files => all.any (isFault c)

/-- The run ends with an explicit flush of what is still buffered for stdout (single-writer paths). -/
def flushes (c : Cfg) : Bool :=
  match c.mode with
  | .search => c.matchesPossible && !c.parallel
  | .files => true

/-- The exit status table of the property. -/
def specExit (matched errored quiet : Bool) : Nat :=
  if matched ∧ (quiet ∨ ¬ errored) then 0
  else if errored ∧ ¬ (matched ∧ quiet) then 2
  else 1

/-- The table with the last write taken into account (when every earlier write went through): a failing
flush is an error, a closed pipe ends the run with status 0. -/
def specExitFull (c : Cfg) (all : List Item) : Nat :=
  match (if flushes c then c.flush else .ok) with
  | .ok => specExit (specMatched c all) (specErrored c all) c.quiet
  | .pipe => 0
  | .err => 2

/-- Every write to stdout succeeds (no consumer fault). -/
def writesOk : Item → Bool
  | .file _ .pipe _ => false
  | .file _ _ .ok => true
  | .file _ _ _ => false
  | _ => true

/-- Diagnostic owed to an entry (none for a broken pipe). -/
def diagOf (c : Cfg) : Item → Option Diag
  | .walkErr => some .walk
  | .file id .err wr =>
    if c.mode == .search && !(c.parallel && wr == .pipe) then some (.file id) else none
  | .file id .pipe wr =>
    if c.mode == .search && c.parallel && wr != .pipe then some (.file id) else none
  | .file id (.ok _) .err => if c.mode == .search && c.parallel then some (.write id) else none
  | _ => none

/-- Results owed by an entry when nothing stops the run early: a searched file / a listed file. -/
def okId (c : Cfg) : Item → Option Nat
  | .file id (.ok _) _ => some id
  | .file id _ _ => if c.mode == .files then some id else none
  | _ => none

def isOk : Item → Bool
  | .file _ (.ok _) _ => true
  | _ => false

/-- The summary owed: how many files were searched successfully, how many of them matched. -/
def specStats (all : List Item) : Stats := ⟨all.countP isOk, all.countP isMatch⟩

/-! ### Schedules of the parallel drivers -/

/-- Some callback of the parallel run returned `WalkState::Quit`. -/
def quitIssued (c : Cfg) (ran : List Item) : Bool :=
  match c.mode with
  | .search => (parSearchLoop c ran (initSt c)).2
  | .files => (c.qam && ran.any isFile) || (printThread (filesParWalk c ran (initSt c)).2).2 != .ok

/-- `ran` = the entries a run processes when the walker would yield `all` if never told to quit.
Single-threaded: the loop itself decides where to stop, so `ran = all`.  Multi-threaded: any order,
and any subset once some callback has returned `Quit` (the walker then stops "as soon as it can"). -/
def Sched (c : Cfg) (all ran : List Item) : Prop :=
  if c.parallel then ∃ rest, (ran ++ rest).Perm all ∧ (quitIssued c ran = false → rest = [])
  else ran = all

/-! ### A consumer closes the pipe -/

/-- `files`: the loop reached a write that failed with EPIPE. -/
def filesPipe (c : Cfg) : List Item → Bool
  | [] => false
  | .file _ _ wr :: rest =>
    if c.qam then false else
    match wr with
    | .pipe => true
    | .err => false
    | .ok => filesPipe c rest
  | _ :: rest => filesPipe c rest

/-- A write to stdout failed with EPIPE during the run. -/
def pipeHit (c : Cfg) (ran : List Item) : Bool :=
  match c.mode, c.parallel with
  | .search, false => (searchLoop c ran (initSt c)).2
  | .search, true => (parSearchLoop c ran (initSt c)).1.brokenPipe
  | .files, false => filesPipe c ran
  | .files, true => (printThread (filesParWalk c ran (initSt c)).2).2 == .pipe

end RgVerif.ExitSpec
