import RgVerif.Model.Core
/-
The per-file match limit (`-m N`) of the printers, as far as it decides what the sink answers
(property C16, last sentence).  `crates/printer/src/standard.rs` (`StandardSink::{begin,matched,context,
context_break}`, `should_quit`, `match_more_than_limit`; `json.rs` has the same logic): the sink counts
matches and, once the limit is reached, lets `after_context_remaining` more lines through.

  model   `pcStep` mirrors the counters, `answers` folds it over a stream of callbacks, `maxCountScript` is the
          resulting sink script for a given uninterrupted stream;
  spec    `quitIndex`: the sink refuses at the N-th `matched` callback if no after-context is configured,
          else at the A-th following callback that is a `matched` or an after-context line — "the first N
          matching lines plus the A trailing lines they are entitled to".
-/
namespace RgVerif.MaxCount
open RgVerif RgVerif.Searcher

/-- the counters of `StandardSink` that decide `should_quit` -/
structure PC where
  matchCount : Nat := 0
  afterRem : Nat := 0
  deriving Repr, DecidableEq

/-- `match_more_than_limit` -/
def moreThanLimit (limit : Option Nat) (pc : PC) : Bool :=
  match limit with
  | none => false
  | some l => decide (pc.matchCount > l)

/-- `should_quit` -/
def shouldQuit (limit : Option Nat) (pc : PC) : Bool :=
  match limit with
  | none => false
  | some l => if pc.matchCount < l then false else pc.afterRem == 0

/-- one callback: new counters and the answer (`true` = keep going) -/
def pcStep (limit : Option Nat) (A : Nat) (pc : PC) : Event → PC × Bool
  | .begin => ({ matchCount := 0, afterRem := 0 }, !(limit == some 0))
  | .matched _ _ _ =>
    let pc1 := { pc with matchCount := pc.matchCount + 1 }
    let pc2 := if moreThanLimit limit pc1 then { pc1 with afterRem := pc1.afterRem - 1 } else { pc1 with afterRem := A }
    (pc2, !shouldQuit limit pc2)
  | .context k _ _ _ =>
    let pc1 := if k == .after then { pc with afterRem := pc.afterRem - 1 } else pc
    (pc1, !shouldQuit limit pc1)
  | .contextBreak => (pc, true)
  | .binaryData _ => (pc, true)
  | .finish _ _ => (pc, true)

/-- the answers to a stream of callbacks, in order -/
def answers (limit : Option Nat) (A : Nat) : PC → List Event → List Bool
  | _, [] => []
  | pc, ev :: rest => (pcStep limit A pc ev).2 :: answers limit A (pcStep limit A pc ev).1 rest

/-- a list of answers (`true` = keep going) as a sink script -/
def scriptOf (as : List Bool) : Script :=
  fun k => if as[k]? == some false then .stop else .cont

/-- the limit as a sink script, for the uninterrupted stream `E` -/
def maxCountScript (limit : Option Nat) (A : Nat) (E : List Event) : Script :=
  scriptOf (answers limit A {} E)

/-- `SummarySink` (`crates/printer/src/summary.rs`; kinds Count / CountMatches, line-oriented search): it counts
the `matched` callbacks and refuses once `match_count >= limit` (`should_quit`); context callbacks are not
overridden (always "keep going"); `begin` refuses iff the limit is 0. -/
def scStep (limit : Option Nat) (mc : Nat) : Event → Nat × Bool
  | .begin => (0, !(limit == some 0))
  | .matched _ _ _ =>
    (mc + 1, !(match limit with
               | none => false
               | some l => decide (mc + 1 ≥ l)))
  | _ => (mc, true)

def summaryAnswers (limit : Option Nat) : Nat → List Event → List Bool
  | _, [] => []
  | mc, ev :: rest => (scStep limit mc ev).2 :: summaryAnswers limit (scStep limit mc ev).1 rest

def summaryScript (limit : Option Nat) (E : List Event) : Script := scriptOf (summaryAnswers limit 0 E)

/-- does the callback count against the trailing lines: a further match or an after-context line -/
def trailing : Event → Bool
  | .matched _ _ _ => true
  | .context .after _ _ _ => true
  | _ => false

def isMatched : Event → Bool
  | .matched _ _ _ => true
  | _ => false

/-- index (from `i`) of the `c`-th callback satisfying `p`, `c ≥ 1` -/
def nthIndex (p : Event → Bool) : Nat → Nat → List Event → Option Nat
  | _, _, [] => none
  | i, c, ev :: rest =>
    if p ev then (if c ≤ 1 then some i else nthIndex p (i + 1) (c - 1) rest) else nthIndex p (i + 1) c rest

/-- **spec**: where the sink refuses (stream without its leading `begin`, indices starting at `i`):
at the `N`-th match if `A = 0`, else at the `A`-th trailing callback after it -/
def quitFrom (N A : Nat) (i : Nat) (E : List Event) : Option Nat :=
  match nthIndex isMatched i N E with
  | none => none
  | some k => if A = 0 then some k else nthIndex trailing (k + 1) A (E.drop (k + 1 - i))

/-- **spec** for a whole stream starting with `begin` and a limit `N` -/
def quitIndex (N A : Nat) (E : List Event) : Option Nat :=
  if N = 0 then some 0 else quitFrom N A 1 (E.drop 1)

/-- first index of a refusal among the answers -/
def firstFalse : Nat → List Bool → Option Nat
  | _, [] => none
  | i, b :: rest => if b then firstFalse (i + 1) rest else some i

end RgVerif.MaxCount
