import RgVerif.Model.Process
/-
C18 — the contract in the property's words.
-/
namespace RgVerif.ProcessSpec
open RgVerif.Process

/-- "If the command exits unsuccessfully after its output was consumed, an error is reported, whereas a
command terminated because ripgrep stopped reading early is not treated as an error" — unless it
complained on stderr, or could not even be waited for. -/
def specCloseErr (consumedToEof : Bool) (ch : Child) : Bool :=
  match ch.wait with
  | .failed => true
  | .exited true => false
  | .exited false => consumedToEof || !ch.stderr.isEmpty

/-- gitignore-style precedence of an override set, front to back: remember the last glob that matches. -/
def lastHit : List PreGlob → Option PreGlob → Option PreGlob
  | [], acc => acc
  | g :: gs, acc => lastHit gs (if g.hit then some g else acc)

/-- A file is excluded by a non-empty `--pre-glob` set iff the last matching glob is negated, or nothing
matches although the set names files to include. -/
def specIgnored (globs : List PreGlob) : Bool :=
  match lastHit globs none with
  | some g => g.neg
  | none => globs.any (fun g => !g.neg)

/-- "Files not selected by --pre-glob or not recognised as compressed are searched directly." -/
def specStrategy (c : SelCfg) : Strategy :=
  if c.isStdin then .stdin
  else if c.pre ∧ (c.preGlobs = [] ∨ specIgnored c.preGlobs = false) then .preprocessor
  else if c.searchZip ∧ c.recognised then .decompress
  else .direct

end RgVerif.ProcessSpec
