import RgVerif.Spec.ExitSpec
namespace RgVerif.Driver.C15
open RgVerif RgVerif.Exit RgVerif.ExitSpec

/-
Requests
  c15.run   (cfg MODE par quiet stats messages implicit matchesPossible setupOk [configErr FLUSH]) PARSE (items ITEM…)
  c15.spec  (cfg …) (items ITEM…)        -- the contract applied to the whole list `all`
  c15.stats (cfg …) (items ITEM…)        -- the --stats summary: model S W | -   spec S W
  c15.guard (cfg …) (items ITEM…)        -- pipeHit of C15_pipe; kindIntact: --pre leaves the error kinds alone
MODE = search | files; PARSE = ok | err | special
ITEM = w (walker error) | s (skipped entry) | (f ID SR WR) | (pf ID SR WR) (file searched through --pre),
       SR = m | n | e | p (raw result of the search), WR = o | p | e
-/

def parseSr : Sx → Option SearchRes
  | .atom "m" => some (.ok true)
  | .atom "n" => some (.ok false)
  | .atom "e" => some .err
  | .atom "p" => some .pipe
  | _ => none

def parseWr : Sx → Option WriteRes
  | .atom "o" => some .ok
  | .atom "p" => some .pipe
  | .atom "e" => some .err
  | _ => none

/-- `(pf …)` = the file goes through `--pre` (the raw result is re-wrapped by `search_preprocessor`). -/
def parseItem : Sx → Option (Bool × Item)
  | .atom "w" => some (false, .walkErr)
  | .atom "s" => some (false, .skip)
  | .list [.atom "f", id, sr, wr] => do pure (false, .file (← id.nat?) (← parseSr sr) (← parseWr wr))
  | .list [.atom "pf", id, sr, wr] => do pure (true, .file (← id.nat?) (← parseSr sr) (← parseWr wr))
  | _ => none

def parseCfg8 (mode par quiet stats msgs impl mp setup : Sx) : Option Cfg := do
  let mode ← match mode with
    | .atom "search" => some Mode.search
    | .atom "files" => some Mode.files
    | _ => none
  pure { mode := mode, parallel := (← par.bool?), quiet := (← quiet.bool?), stats := (← stats.bool?),
         messages := (← msgs.bool?), implicitPath := (← impl.bool?), matchesPossible := (← mp.bool?),
         setupOk := (← setup.bool?) }

/-- `(cfg … setupOk)` or `(cfg … setupOk CONFIGERR FLUSH)`, FLUSH = o | p | e. -/
def parseCfg : Sx → Option Cfg
  | .list [.atom "cfg", mode, par, quiet, stats, msgs, impl, mp, setup] => parseCfg8 mode par quiet stats msgs impl mp setup
  | .list [.atom "cfg", mode, par, quiet, stats, msgs, impl, mp, setup, ce, fl] => do
    let c ← parseCfg8 mode par quiet stats msgs impl mp setup
    pure { c with configErr := (← ce.bool?), flush := (← parseWr fl) }
  | _ => none

def parseParse : Sx → Option Parse
  | .atom "ok" => some .ok
  | .atom "err" => some .err
  | .atom "special" => some .special
  | _ => none

def parseItems : Sx → Option (List (Bool × Item))
  | .list (.atom "items" :: xs) => xs.mapM parseItem
  | _ => none

def showDiag : Diag → String
  | .walk => "w"
  | .file id => s!"f:{id}"
  | .write id => s!"wr:{id}"
  | .nothingSearched => "ns"
  | .config => "cfg"
  | .fatal => "fatal"

def showList (xs : List String) : String :=
  if xs.isEmpty then "-" else ",".intercalate xs

def b (x : Bool) : String := if x then "1" else "0"

def handle (cmd : String) (args : List Sx) : String :=
  match cmd, args with
  | "c15.run", [cfg, p, items] =>
    match parseCfg cfg, parseParse p, parseItems items with
    | some c, some p, some raw =>
      let r := main c p (raw.map seen)
      s!"exit {r.exit} out {showList (r.out.map toString)} diags {showList (r.diags.map showDiag)}"
    | _, _, _ => "bad-op"
  | "c15.spec", [cfg, items] =>
    match parseCfg cfg, parseItems items with
    | some c, some raw =>
      let all := raw.map (·.2)
      let m := specMatched c all
      let e := specErrored c all
      s!"exit {specExitFull c all} matched {b m} errored {b e} out {showList ((all.filterMap (okId c)).map toString)} diags {showList ((all.filterMap (diagOf c)).map showDiag)}"
    | _, _ => "bad-op"
  | "c15.stats", [cfg, items] =>
    match parseCfg cfg, parseItems items with
    | some c, some raw =>
      let model := match statsPrinted c (raw.map seen) with
        | some st => s!"{st.searches} {st.withMatch}"
        | none => "-"
      let sp := specStats (raw.map (·.2))
      s!"model {model} spec {sp.searches} {sp.withMatch}"
    | _, _ => "bad-op"
  | "c15.guard", [cfg, items] =>
    match parseCfg cfg, parseItems items with
    | some c, some raw =>
      let ran := raw.map (·.2)
      s!"pipeHit {b (pipeHit c ran)} kindIntact {b (raw.map seen == ran)}"
    | _, _ => "bad-op"
  | _, _ => "bad-op"

end RgVerif.Driver.C15
