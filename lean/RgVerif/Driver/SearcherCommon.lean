import RgVerif.Model.Glue
import RgVerif.Spec.Grep
/-
Wire format shared by the searcher properties (C03, C16, C13, C01-searcher).

  cfg     (cfg (lt lf|crlf|nul|b<dec>) (inv 0|1) (a N) (b N) (pt 0|1) (ln 0|1) (son 0|1) (ml 0|1) [(bin none|quit N|convert N)])
  matcher (lit <needle-hex> (term -|<lt>) (nm -|<hex of byte set>) (cand -|<hex>))
            "haystack contains needle": find_at = first occurrence at or after `at`; other methods are the
            trait defaults, except find_candidate_line = Candidate(start of first occurrence of <cand>) when given
          (table (term -|<lt>) (nm -|<hex>) (sm (<hay-hex> -|<end>)…) (cand (<suffix-len> -|c <i>|k <i>)…)
                 (fa (<pos> -|<s> <e>)…))
            answers of a real matcher, precomputed by the harness: `sm` shortest_match(hay) by haystack,
            `cand` find_candidate_line(buf[len-suffix_len..]) by suffix length, `fa` find_at(buf, pos)
  sink    (sink all) | (sink stop <k>) | (sink err <k>)      answer at callback index k, `Ok(true)` elsewhere
  events  begin | m <ln|-> <off> <hex> | c b|a|o <ln|-> <off> <hex> | brk | bin <off> | fin <count> <binoff|->
          joined by `;`, then `|ok` or `|err`
-/
namespace RgVerif.Driver.SearcherCommon
open RgVerif RgVerif.Matcher RgVerif.Lines RgVerif.Searcher RgVerif.GrepSpec

def parseLT : Sx → Option LineTerm
  | .atom "lf" => some (.byte 10)
  | .atom "nul" => some (.byte 0)
  | .atom "crlf" => some .crlf
  | .atom s =>
    match s.toList with
    | 'b' :: ds => (String.ofList ds).toNat?.map LineTerm.byte
    | _ => none
  | _ => none

def parseOptLT : Sx → Option (Option LineTerm)
  | .atom "-" => some none
  | x => (parseLT x).map some

/-- optional `(bin none | quit <byte> | convert <byte>)`; absent = none -/
def parseBin : Option (List Sx) → Option BinaryDetection
  | none => some .none
  | some [.atom "none"] => some .none
  | some [.atom "quit", b] => (b.nat?).map BinaryDetection.quit
  | some [.atom "convert", b] => (b.nat?).map BinaryDetection.convert
  | _ => none

def parseCfg : Sx → Option Config
  | .list (.atom "cfg" :: fs) => do
    let lt ← Sx.field1 fs "lt" >>= parseLT
    let inv ← Sx.field1 fs "inv" >>= Sx.bool?
    let a ← Sx.field1 fs "a" >>= Sx.nat?
    let b ← Sx.field1 fs "b" >>= Sx.nat?
    let pt ← Sx.field1 fs "pt" >>= Sx.bool?
    let ln ← Sx.field1 fs "ln" >>= Sx.bool?
    let son ← Sx.field1 fs "son" >>= Sx.bool?
    let ml ← Sx.field1 fs "ml" >>= Sx.bool?
    let bin ← parseBin (Sx.field fs "bin")
    pure { lineTerm := lt, invertMatch := inv, afterContext := a, beforeContext := b, passthru := pt
         , lineNumber := ln, stopOnNonmatch := son, multiLine := ml, binary := bin }
  | _ => none

/-- index of the first occurrence of `needle` in `h` (the empty needle occurs at 0) -/
def findSub (needle : Bytes) : Bytes → Option Nat
  | [] => if needle.isEmpty then some 0 else none
  | b :: rest =>
    if needle.isPrefixOf (b :: rest) then some 0 else (findSub needle rest).map (· + 1)

def litFindAt (needle : Bytes) (h : Bytes) (at_ : Nat) : Option Span :=
  if at_ > h.length then none
  else (findSub needle (h.drop at_)).map fun i => ⟨at_ + i, at_ + i + needle.length⟩

def parseNm : Sx → Option (Option (Nat → Bool))
  | .atom "-" => some none
  | x => (x.bytes?).map fun bs => some fun b => bs.contains b

def litMatcher (needle : Bytes) (term : Option LineTerm) (nm : Option (Nat → Bool)) (cand : Option Bytes) : MatcherI :=
  let base := MatcherI.ofFindAt (litFindAt needle)
  { base with
    lineTerminator := term
    nonMatchingBytes := nm
    findCandidateLine :=
      match cand with
      | none => base.findCandidateLine
      | some c => fun h => (findSub c h).map LineMatchKind.candidate }

structure Table where
  sm : List (Bytes × Option Nat)
  cand : List (Nat × Option LineMatchKind)
  fa : List (Nat × Option Span)

def parseTableSm (xs : List Sx) : Option (List (Bytes × Option Nat)) :=
  xs.mapM fun x =>
    match x with
    | .list [h, .atom "-"] => do pure ((← h.bytes?), none)
    | .list [h, e] => do pure ((← h.bytes?), some (← e.nat?))
    | _ => none

def parseTableCand (xs : List Sx) : Option (List (Nat × Option LineMatchKind)) :=
  xs.mapM fun x =>
    match x with
    | .list [n, .atom "-"] => do pure ((← n.nat?), none)
    | .list [n, .atom "c", i] => do pure ((← n.nat?), some (.confirmed (← i.nat?)))
    | .list [n, .atom "k", i] => do pure ((← n.nat?), some (.candidate (← i.nat?)))
    | _ => none

def parseTableFa (xs : List Sx) : Option (List (Nat × Option Span)) :=
  xs.mapM fun x =>
    match x with
    | .list [p, .atom "-"] => do pure ((← p.nat?), none)
    | .list [p, s, e] => do pure ((← p.nat?), some ⟨(← s.nat?), (← e.nat?)⟩)
    | _ => none

/-- A matcher answering from a table computed for the buffer `buf`. A query that is not in the table
answers `missing` (the driver runs the model with two different `missing` values and refuses to
answer if the outcome depends on it). -/
def tableMatcher (buf : Bytes) (tb : Table) (term : Option LineTerm) (nm : Option (Nat → Bool))
    (missing : Bool) : MatcherI :=
  { findAt := fun h at_ =>
      if h == buf then
        match tb.fa.find? (fun p => p.1 == at_) with
        | some p => p.2
        | none => if missing then some ⟨at_, at_⟩ else none
      else if missing then some ⟨at_, at_⟩ else none
  , shortestAt := fun h at_ =>
      match (if at_ == 0 then tb.sm.find? (fun p => p.1 == h) else none) with
      | some p => p.2
      | none => if missing then some at_ else none
  , findCandidateLine := fun h =>
      match tb.cand.find? (fun p => p.1 == h.length) with
      | some p => p.2
      | none => if missing then some (.confirmed 0) else none
  , lineTerminator := term
  , nonMatchingBytes := nm }

/-- Matcher description → the matcher for a given buffer and `missing` default. -/
def parseMatcher : Sx → Option (Bytes → Bool → MatcherI)
  | .list (.atom "lit" :: needle :: fs) => do
    let needle ← needle.bytes?
    let term ← Sx.field1 fs "term" >>= parseOptLT
    let nm ← Sx.field1 fs "nm" >>= parseNm
    let cand ← Sx.field1 fs "cand" >>= fun x =>
      match x with
      | .atom "-" => some none
      | x => (x.bytes?).map some
    pure fun _ _ => litMatcher needle term nm cand
  | .list (.atom "table" :: fs) => do
    let term ← Sx.field1 fs "term" >>= parseOptLT
    let nm ← Sx.field1 fs "nm" >>= parseNm
    let sm ← Sx.field fs "sm" >>= parseTableSm
    let cand ← Sx.field fs "cand" >>= parseTableCand
    let fa ← Sx.field fs "fa" >>= parseTableFa
    pure fun buf missing => tableMatcher buf ⟨sm, cand, fa⟩ term nm missing
  | _ => none

def parseSink : Sx → Option Script
  | .list [.atom "sink", .atom "all"] => some allCont
  | .list [.atom "sink", .atom "stop", k] => (k.nat?).map fun k i => if i == k then .stop else .cont
  | .list [.atom "sink", .atom "err", k] => (k.nat?).map fun k i => if i == k then .err else .cont
  | _ => none

def showKind : CtxKind → String
  | .before => "b" | .after => "a" | .other => "o"

def showEvent : Event → String
  | .begin => "begin"
  | .matched ln off bs => s!"m {optNat ln} {off} {toHex bs}"
  | .context k ln off bs => s!"c {showKind k} {optNat ln} {off} {toHex bs}"
  | .contextBreak => "brk"
  | .binaryData off => s!"bin {off}"
  | .finish n bo => s!"fin {n} {optNat bo}"

def showEvents (es : List Event) : String := ";".intercalate (es.map showEvent)

def showRun (r : Run) : String :=
  showEvents r.events ++ (if r.isErr then "|err" else "|ok")

/-- `<op> cfg matcher inp sink` → the run of `Searcher::search_slice` in the model. -/
def handleModel (args : List Sx) : String :=
  match args with
  | [cfg, m, inp, sink] =>
    match parseCfg cfg, parseMatcher m, inp.bytes?, parseSink sink with
    | some cfg, some mk, some inp, some σ =>
      let r0 := showRun (searchSlice cfg (mk inp false) σ inp)
      let r1 := showRun (searchSlice cfg (mk inp true) σ inp)
      if r0 == r1 then r0 else "table-miss"
    | _, _, _, _ => "bad-op"
  | _ => "bad-op"

def parseBits (s : String) : Option (List Bool) :=
  if s == "-" then some []
  else s.toList.mapM fun c => if c == '1' then some true else if c == '0' then some false else none

/-- `<op> cfg selbits inp` → the grep model (`|ok` appended; the spec describes complete searches). -/
def handleSpec (args : List Sx) : String :=
  match args with
  | [cfg, .atom bits, inp] =>
    match parseCfg cfg, parseBits bits, inp.bytes? with
    | some cfg, some bits, some inp =>
      let ls := splitLines cfg.lineTerm.asByte inp
      if ls.length != bits.length then "bad-sel"
      else showEvents (grepSpecLines cfg (ls.zip bits)) ++ "|ok"
    | _, _, _ => "bad-op"
  | _ => "bad-op"

/-- `<op> lt inp` → lengths of the lines (`splitLines`) and of `stepLines` over the whole input. -/
def handleLines (args : List Sx) : String :=
  match args with
  | [lt, inp] =>
    match parseLT lt, inp.bytes? with
    | some lt, some inp =>
      let a := (splitLines lt.asByte inp).map (·.length)
      let b := (stepLines lt.asByte inp 0 inp.length).map fun sp => sp.e - sp.s
      natsToStr a ++ "|" ++ natsToStr b
    | _, _ => "bad-op"
  | _ => "bad-op"

/-- Which path `Core::match_by_line` takes at the start (`fast`/`slow`) or `multi`. -/
def handlePath (args : List Sx) : String :=
  match args with
  | [cfg, m] =>
    match parseCfg cfg, parseMatcher m with
    | some cfg, some mk =>
      let m := mk [] false
      if multiLineWithMatcher cfg m then "multi"
      else if isLineByLineFast cfg m (Core.new cfg true) then "fast" else "slow"
    | _, _ => "bad-op"
  | _ => "bad-op"

end RgVerif.Driver.SearcherCommon
