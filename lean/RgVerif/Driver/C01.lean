import RgVerif.Driver.SearcherCommon
import RgVerif.Spec.LineSafe
namespace RgVerif.Driver.C01
open RgVerif RgVerif.Searcher RgVerif.GrepSpec RgVerif.Driver.SearcherCommon

/-- `c01.linesafe cfg matcher inp` → `1`/`0`: the certificate check of theorem `C01_fast_cert`
(`table-miss` if the table lacks an answer the check needed). -/
def handleLineSafe (args : List Sx) : String :=
  match args with
  | [cfg, m, inp] =>
    match parseCfg cfg, parseMatcher m, inp.bytes? with
    | some cfg, some mk, some inp =>
      let go := fun (missing : Bool) =>
        let m := mk inp missing
        let sl := (splitLines cfg.lineTerm.asByte inp).map fun l => (l, lineSel cfg m l)
        lineSafeCheck cfg m inp sl
      if go false == go true then (if go false then "1" else "0") else "table-miss"
    | _, _, _ => "bad-op"
  | _ => "bad-op"

/-- `c01.guard lt inp` → `1` iff no line of the input ends in a bare `\n` under CRLF (guard of `C01_partial`). -/
def handleGuard (args : List Sx) : String :=
  match args with
  | [lt, inp] =>
    match parseLT lt, inp.bytes? with
    | some lt, some inp =>
      if (splitLines lt.asByte inp).all fun l => !bareLf lt l then "1" else "0"
    | _, _ => "bad-op"
  | _ => "bad-op"
where
  bareLf (lt : Lines.LineTerm) (line : Bytes) : Bool :=
    lt == .crlf && line.getLast? == some 10 && !(line.dropLast.getLast? == some 13)

/-- Request handler of property C01 (searcher level): `c01.model cfg matcher inp sink` (M),
`c01.spec cfg selbits inp` (S: grep model for the property's selection bits), `c01.linesafe`, `c01.guard`,
`c01.path cfg matcher`. -/
def handle (cmd : String) (args : List Sx) : String :=
  match cmd with
  | "c01.model" => handleModel args
  | "c01.spec" => handleSpec args
  | "c01.path" => handlePath args
  | "c01.linesafe" => handleLineSafe args
  | "c01.guard" => handleGuard args
  | _ => "bad-op"

end RgVerif.Driver.C01
