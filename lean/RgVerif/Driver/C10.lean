import RgVerif.Driver.C09
namespace RgVerif.Driver.C10
open RgVerif RgVerif.Matcher RgVerif.Replace RgVerif.Json RgVerif.Printer RgVerif.PrinterSpec RgVerif.Summary
open RgVerif.Driver.PrinterProto

def parseKind : Sx → Option Kind
  | .atom "count" => some .count
  | .atom "countmatches" => some .countMatches
  | .atom "l" => some .pathWithMatch
  | .atom "L" => some .pathWithoutMatch
  | .atom "quiet" => some .quiet
  | _ => none

def parseSum : Sx → Option SumCfg
  | .list (.atom "sum" :: fs) => do
    let kind ← (Sx.field1 fs "kind") >>= parseKind
    let stats ← (Sx.field1 fs "stats") >>= Sx.bool?
    let path ← (Sx.field1 fs "path") >>= optOf Sx.bytes?
    let max ← (Sx.field1 fs "max") >>= optOf Sx.nat?
    let exzero ← (Sx.field1 fs "exzero") >>= Sx.bool?
    let pterm ← (Sx.field1 fs "pterm") >>= optOf Sx.nat?
    pure { kind, stats, path, maxMatches := max, excludeZero := exzero, pathTerminator := pterm }
  | _ => none

def parseMode : Sx → Option Mode
  | .atom "standard" => some .standard
  | .atom "count" => some .count
  | .atom "countmatches" => some .countMatches
  | .atom "l" => some .filesWithMatches
  | .atom "L" => some .filesWithoutMatch
  | .atom "json" => some .json
  | _ => none

def showKind : Kind → String
  | .count => "count"
  | .countMatches => "countmatches"
  | .pathWithMatch => "l"
  | .pathWithoutMatch => "L"
  | .quiet => "quiet"

/-- number of events the Summary sink consumes -/
def sumConsumed (sc : SCfg) (c : SumCfg) (find : Oracle) : SumState → List Event → Nat → Nat
  | _, [], n => n
  | st, ev :: rest, n =>
    let (st', cont) := sumEvent sc c find st ev
    if cont then sumConsumed sc c find st' rest (n + 1) else n + 1

def parseStats : Sx → Option Stats
  | .list [.atom "stats", a, b, c, d, e, f] => do
    pure { searches := (← a.nat?), searchesWithMatch := (← b.nat?), bytesSearched := (← c.nat?)
         , bytesPrinted := (← d.nat?), matchedLines := (← e.nat?), matchCount := (← f.nat?) }
  | _ => none

def parseResult : Sx → Option FileResult
  | .list [.atom "r", hm, .atom "~"] => do pure { hasMatch := (← hm.bool?), stats := none }
  | .list [.atom "r", hm, st] => do pure { hasMatch := (← hm.bool?), stats := some (← parseStats st) }
  | _ => none

def handle (cmd : String) (args : List Sx) : String :=
  if cmd.startsWith "c09." then RgVerif.Driver.C09.handle cmd args else
  match cmd, args with
  | "c10.summary", [sc, sum, bufs, evs, bc] =>
    match parseSC sc, parseSum sum, bc.nat? with
    | some sc, some c, some bc =>
      match parseBufs bufs with
      | none => "bad-op"
      | some bufs =>
        match parseEvs sc bufs evs with
        | none => "bad-op"
        | some pevs =>
          let find := oracleOf pevs
          let evs := pevs.map (·.1)
          let fin := sumSearch sc c find evs bc
          let st0 : SumState := { stats := if c.hasStats then some {} else none }
          let consumed := if c.maxMatches == some 0 then 0 else sumConsumed sc c find st0 evs 0
          s!"out={toHex fin.out} mc={fin.matchCount} hasmatch={if sumHasMatch c fin then 1 else 0} " ++
          s!"consumed={consumed} stats={showOptStats fin.stats}"
    | _, _, _ => "bad-op"
  | "c10.counts", [sc, bufs, evs] =>
    match parseSC sc with
    | none => "bad-op"
    | some sc =>
      match parseBufs bufs with
      | none => "bad-op"
      | some bufs =>
        match parseEvs sc bufs evs with
        | none => "bad-op"
        | some pevs =>
          let find := oracleOf pevs
          let evs := pevs.map (·.1)
          let per := evs.filter Event.isMatched |>.map fun ev => (eventMatches sc find ev).length
          -- hypothesis of theorem matched_has_submatch: the matcher answers on the shown haystack from the start position
          let guard := evs.filter Event.isMatched |>.map fun ev =>
            match ev with
            | .matched buf rs re _ _ => if (find (shownHay sc buf rs re) (shownFrom sc rs)).isSome then 1 else 0
            | _ => 0
          s!"matched={matchedCount evs} submatches={subMatchTotal sc find evs} guard={natsToStr guard}; per={natsToStr per}"
  | "c10.normalize", [mode, inv, only, quiet, stats] =>
    match parseMode mode, inv.bool?, only.bool?, quiet.bool?, stats.bool? with
    | some mode, some inv, some only, some quiet, some stats =>
      let m := normalizeMode mode inv only
      let pr := match printerFor quiet m with
        | none => "std"
        | some none => "json"
        | some (some k) => "sum:" ++ showKind k
      s!"printer={pr} stats={if statsOn stats m then 1 else 0} quit_after_match={if !(statsOn stats m) && quiet then 1 else 0}"
    | _, _, _, _, _ => "bad-op"
  | "c10.exit", [m, q, e] =>
    match m.bool?, q.bool?, e.bool? with
    | some m, some q, some e => toString (exitCode m q e)
    | _, _, _ => "bad-op"
  | "c10.aggregate", (q :: so :: rs) =>
    match q.bool?, so.bool?, rs.mapM parseResult with
    | some q, some so, some rs =>
      let (m, st) := searchAll q so rs
      s!"matched={if m then 1 else 0} stats={showOptStats st}"
    | _, _, _ => "bad-op"
  | _, _ => "bad-op"

end RgVerif.Driver.C10
