import RgVerif.Spec.Utf16
namespace RgVerif.Driver.C17
open RgVerif RgVerif.Decode RgVerif.Utf16Spec

/-
Requests (LABEL = none | utf8 | utf16le | utf16be | latin1 | sjis; SNIFF = 0|1)
  c17.reader (cfg LABEL SNIFF) (chunks hex…)   -> hex   bytes the searcher reads through DecodeReaderBytes
  c17.slice  (cfg LABEL SNIFF) hex              -> hex   bytes search_slice searches
  c17.spec   (cfg LABEL SNIFF) hex              -> hex   the contract: UTF-8 equivalent
  c17.guard  (cfg LABEL SNIFF) hex              -> ok | f13 | label | second    (complement classes of c17Guard)
  c17.flush  (cfg LABEL SNIFF) hex              -> hex   the decoder's end-of-input output (empty unless the input ends in a truncated character)
  c17.dec16  BE (chunks hex…)                   -> hex   the streaming UTF-16 machine
  c17.spec16 BE hex                             -> hex   whole-string UTF-16 specification (own mark removed)
All decoders are streaming machines of Model/Decode.lean (UTF-16, UTF-8, single-byte table).
-/

/-- The decoders: all are the streaming machines of Model/Decode.lean. -/
def M : Enc → Machine := machines utf8Machine otherMachine

def other : Nat → Bytes → Bytes := otherSpec

def parseLabel : Sx → Option (Option Enc)
  | .atom "none" => some none
  | .atom "utf8" => some (some .utf8)
  | .atom "utf16le" => some (some .utf16le)
  | .atom "utf16be" => some (some .utf16be)
  | .atom "latin1" => some (some (.other 0))
  | .atom "sjis" => some (some (.other 1))
  | _ => none

def parseCfg : Sx → Option Cfg
  | .list [.atom "cfg", l, s] => do pure ⟨(← parseLabel l), (← s.bool?)⟩
  | _ => none

def parseChunks : Sx → Option (List Bytes)
  | .list (.atom "chunks" :: cs) => cs.mapM Sx.bytes?
  | _ => none

/-- which clause of `c17Guard` fails -/
def guardClass (c : Cfg) (bs : Bytes) : String :=
  if c17Guard c bs then "ok"
  else if !c.bomSniffing then "second"
  else match bomOf bs with
    | some (.utf8, n) =>
      match c.label with
      | none => "f13"
      | some .utf8 => "second"
      | some _ => "label"
    | _ => "second"

/-- what the decoder in use emits at end of input (its `finish`): non-empty iff the input ends in a truncated
character -/
def flushOf (c : Cfg) (bs : Bytes) : Bytes :=
  let p := plan c (bs.take 3)
  match p.decoder with
  | none => []
  | some e =>
    let m := M e
    m.finish (m.runChunks m.init [bs.drop p.strip]).1

def handle (cmd : String) (args : List Sx) : String :=
  match cmd, args with
  | "c17.reader", [cfg, chunks] =>
    match parseCfg cfg, parseChunks chunks with
    | some c, some chunks => toHex (readerOutput c M chunks)
    | _, _ => "bad-op"
  | "c17.slice", [cfg, bs] =>
    match parseCfg cfg, bs.bytes? with
    | some c, some bs => toHex (sliceSearched c M bs)
    | _, _ => "bad-op"
  | "c17.spec", [cfg, bs] =>
    match parseCfg cfg, bs.bytes? with
    | some c, some bs => toHex (searched other c bs)
    | _, _ => "bad-op"
  | "c17.guard", [cfg, bs] =>
    match parseCfg cfg, bs.bytes? with
    | some c, some bs => guardClass c bs
    | _, _ => "bad-op"
  | "c17.flush", [cfg, bs] =>
    match parseCfg cfg, bs.bytes? with
    | some c, some bs => toHex (flushOf c bs)
    | _, _ => "bad-op"
  | "c17.dec16", [be, chunks] =>
    match be.bool?, parseChunks chunks with
    | some be, some chunks => toHex ((utf16Machine be).decode chunks)
    | _, _ => "bad-op"
  | "c17.spec16", [be, bs] =>
    match be.bool?, bs.bytes? with
    | some be, some bs => toHex (decode16 be bs)
    | _, _ => "bad-op"
  | _, _ => "bad-op"

end RgVerif.Driver.C17
