import RgVerif.Driver.SearcherCommon
import RgVerif.Spec.MultiLine
namespace RgVerif.Driver.C13
open RgVerif RgVerif.Searcher RgVerif.MLSpec RgVerif.Driver.SearcherCommon

/-- `c13.spec cfg matcher inp` → the multi-line model of the input (S). -/
def handleMlSpec (args : List Sx) : String :=
  match args with
  | [cfg, m, inp] =>
    match parseCfg cfg, parseMatcher m, inp.bytes? with
    | some cfg, some mk, some inp =>
      let r0 := showEvents (mlSpec cfg (mk inp false) inp)
      let r1 := showEvents (mlSpec cfg (mk inp true) inp)
      if r0 == r1 then r0 ++ "|ok" else "table-miss"
    | _, _, _ => "bad-op"
  | _ => "bad-op"

/-- `c13.guard cfg matcher inp` → `1` iff the inverted scan cannot miss a match (`invertSafe`). -/
def handleGuard (args : List Sx) : String :=
  match args with
  | [cfg, m, inp] =>
    match parseCfg cfg, parseMatcher m, inp.bytes? with
    | some cfg, some mk, some inp =>
      let g0 := invertSafe cfg (mk inp false) inp
      let g1 := invertSafe cfg (mk inp true) inp
      if g0 == g1 then (if g0 then "1" else "0") else "table-miss"
    | _, _, _ => "bad-op"
  | _ => "bad-op"

/-- `c13.sane matcher inp` → `1` iff the table's spans lie inside the input at or after the search position
(`spanSaneB`, the matcher contract of `C13_context`). -/
def handleSane (args : List Sx) : String :=
  match args with
  | [m, inp] =>
    match parseMatcher m, inp.bytes? with
    | some mk, some inp =>
      let g0 := spanSaneB (mk inp false) inp
      let g1 := spanSaneB (mk inp true) inp
      if g0 == g1 then (if g0 then "1" else "0") else "table-miss"
    | _, _ => "bad-op"
  | _ => "bad-op"

/-- `c13.invsame cfg matcher inp` → `1` iff the inverted scan selects the lines the specification selects
(`invCoverSame`, the inversion clause of the guard of `C13_partial`). -/
def handleInvSame (args : List Sx) : String :=
  match args with
  | [cfg, m, inp] =>
    match parseCfg cfg, parseMatcher m, inp.bytes? with
    | some cfg, some mk, some inp =>
      let g0 := invCoverSame cfg (mk inp false) inp
      let g1 := invCoverSame cfg (mk inp true) inp
      if g0 == g1 then (if g0 then "1" else "0") else "table-miss"
    | _, _, _ => "bad-op"
  | _ => "bad-op"

/-- `c13.specinv cfg matcher inp` → `mlSpecInv`: the grep model for the lines outside the matches the inverted
scan finds (theorem `C13_inverted`). -/
def handleSpecInv (args : List Sx) : String :=
  match args with
  | [cfg, m, inp] =>
    match parseCfg cfg, parseMatcher m, inp.bytes? with
    | some cfg, some mk, some inp =>
      let r0 := showEvents (mlSpecInv cfg (mk inp false) inp)
      let r1 := showEvents (mlSpecInv cfg (mk inp true) inp)
      if r0 == r1 then r0 ++ "|ok" else "table-miss"
    | _, _, _ => "bad-op"
  | _ => "bad-op"

/-- `c13.invranges cfg matcher inp` → the line ranges `s:e …` of the matches the inverted scan finds (`invRanges`). -/
def handleInvRanges (args : List Sx) : String :=
  match args with
  | [cfg, m, inp] =>
    match parseCfg cfg, parseMatcher m, inp.bytes? with
    | some cfg, some mk, some inp =>
      let show_ := fun (ms : List Matcher.Span) => " ".intercalate (ms.map fun sp => s!"{sp.s}:{sp.e}")
      let r0 := show_ (invRanges cfg (mk inp false) inp)
      let r1 := show_ (invRanges cfg (mk inp true) inp)
      if r0 == r1 then (if r0.isEmpty then "-" else r0) else "table-miss"
    | _, _, _ => "bad-op"
  | _ => "bad-op"

/-- `c13.matches matcher inp` → the successive matches `s:e …` of the spec's iteration. -/
def handleMatches (args : List Sx) : String :=
  match args with
  | [m, inp] =>
    match parseMatcher m, inp.bytes? with
    | some mk, some inp =>
      let show_ := fun (ms : List Matcher.Span) => " ".intercalate (ms.map fun sp => s!"{sp.s}:{sp.e}")
      let r0 := show_ (mlMatches (mk inp false) inp)
      let r1 := show_ (mlMatches (mk inp true) inp)
      if r0 == r1 then (if r0.isEmpty then "-" else r0) else "table-miss"
    | _, _ => "bad-op"
  | _ => "bad-op"

/-- Request handler of property C13: `c13.model cfg matcher inp sink` (M: `Searcher::search_slice`, which
picks `MultiLine` when `ml 1` and the matcher can match the terminator), `c13.spec`, `c13.guard`,
`c13.matches`, `c13.sane`, `c13.invsame`, `c13.specinv`, `c13.path cfg matcher`. -/
def handle (cmd : String) (args : List Sx) : String :=
  match cmd with
  | "c13.model" => handleModel args
  | "c13.spec" => handleMlSpec args
  | "c13.guard" => handleGuard args
  | "c13.matches" => handleMatches args
  | "c13.sane" => handleSane args
  | "c13.invsame" => handleInvSame args
  | "c13.specinv" => handleSpecInv args
  | "c13.invranges" => handleInvRanges args
  | "c13.path" => handlePath args
  | _ => "bad-op"

end RgVerif.Driver.C13
