import RgVerif.Model.ReplaceMulti
import RgVerif.Driver.PrinterProto
/-
Driver ops for C19 under -U (`c19.ml…`); `Driver/C19.lean` delegates unknown `c19.ml…` commands here.

  c19.mlcut  LT HAYHEX RE                                   -> length of the haystack `replace_all` shows the matcher
  c19.mlprint LT HAYHEX RS RE ABSOFF LN|~ TMPLHEX (names (HEX IDX)…) (table CAPS…)
        CAPS = ~ | (caps G…)  G = ~ | (S E)      answers of captures_at(cut haystack, pos) for pos = 0, 1, …
     -> out=HEX dst=HEX spans=S:E …                          (bytes written for the block; replacement buffer; offsets)
  c19.mlprintc … same arguments, then (std …) as in Driver/PrinterProto: the block printed under that printer
        configuration (path, --column, -b, -o, --vimgrep) instead of the default one
-/
namespace RgVerif.Driver.C19Multi
open RgVerif RgVerif.Matcher RgVerif.Interp RgVerif.Replace RgVerif.Printer RgVerif.ReplaceMulti

def parseLT : Sx → Option LineTerm
  | .atom "lf" => some (.byte 10)
  | .atom "nul" => some (.byte 0)
  | .atom "crlf" => some .crlf
  | _ => none

def parseNames (ns : List Sx) : Option (List (Bytes × Nat)) :=
  ns.mapM fun n =>
    match n with
    | .list [a, b] => do pure ((← a.bytes?), (← b.nat?))
    | _ => none

def parseCaps : Sx → Option (Option Caps)
  | .atom "~" => some none
  | .list (.atom "caps" :: gs) => do
    let groups ← gs.mapM fun g =>
      match g with
      | .atom "~" => some (none : Option Span)
      | .list [a, b] => do pure (some ⟨(← a.nat?), (← b.nat?)⟩)
      | _ => none
    pure (some ⟨groups⟩)
  | _ => none

def optNatOf : Sx → Option (Option Nat)
  | .atom "~" => some none
  | x => (x.nat?).map some

def showSpans (xs : List Span) : String :=
  " ".intercalate (xs.map fun sp => s!"{sp.s}:{sp.e}")

def handle (cmd : String) (args : List Sx) : String :=
  match cmd, args with
  | "c19.mlcut", [lt, hay, re] =>
    match parseLT lt, hay.bytes?, re.nat? with
    | some lt, some hay, some re => toString (cutHaystack { lt, multiLine := true } hay re).length
    | _, _, _ => "bad-op"
  | "c19.mlprint", [lt, hay, rs, re, off, ln, t, .list (.atom "names" :: ns), .list (.atom "table" :: tab)] =>
    match parseLT lt, hay.bytes?, rs.nat?, re.nat?, off.nat?, optNatOf ln, t.bytes?, parseNames ns, tab.mapM parseCaps with
    | some lt, some hay, some rs, some re, some off, some ln, some t, some names, some tab =>
      let tabA := tab.toArray
      let sc : SCfg := { lt, multiLine := true }
      let capsAtOf : Bytes → Nat → Option Caps := fun _ pos => (tabA[pos]?).join
      let st := replaceAllMulti sc capsAtOf names hay rs re t
      let out := printReplacedBlock sc {} capsAtOf names hay rs re off ln t
      s!"out={toHex out} dst={toHex st.dst} spans={showSpans st.spans}"
    | _, _, _, _, _, _, _, _, _ => "bad-op"
  | "c19.mlprintc", [lt, hay, rs, re, off, ln, t, .list (.atom "names" :: ns), .list (.atom "table" :: tab), std] =>
    match parseLT lt, hay.bytes?, rs.nat?, re.nat?, off.nat?, optNatOf ln, t.bytes?, parseNames ns, tab.mapM parseCaps,
        RgVerif.Driver.PrinterProto.parseStd std with
    | some lt, some hay, some rs, some re, some off, some ln, some t, some names, some tab, some c =>
      let tabA := tab.toArray
      let sc : SCfg := { lt, multiLine := true }
      let capsAtOf : Bytes → Nat → Option Caps := fun _ pos => (tabA[pos]?).join
      let st := replaceAllMulti sc capsAtOf names hay rs re t
      let out := printReplacedBlock sc c capsAtOf names hay rs re off ln t
      s!"out={toHex out} dst={toHex st.dst} spans={showSpans st.spans}"
    | _, _, _, _, _, _, _, _, _, _ => "bad-op"
  | _, _ => "bad-op"

end RgVerif.Driver.C19Multi
