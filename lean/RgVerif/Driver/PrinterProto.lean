import Std.Data.HashMap
import RgVerif.Spec.PrinterSpec
/-
Wire format shared by the C09 and C10 drivers: searcher/printer configurations, event streams with the
matcher's answers as per-event tables, and canonical renderings of model outputs.

  (sc (lt lf|crlf|nul) (ml 0|1) (inv 0|1) (after N))
  (std (stats b) (heading b) (path HEX|~) (only b) (pm b) (pm1 b) (max N|~) (col b) (boff b)
       (ssearch HEX|~) (sctx HEX|~) (sfm HEX) (sfc HEX) (pterm N|~))
  (bufs HEX …)
  (evs EV …)   EV = (m BUFIDX RS RE OFF LN|~ TABLE) | (c b|a|o HEX OFF LN|~ TABLE) | (brk)
  TABLE = (t ENTRY …)  ENTRY = POS:~ | POS:S:E      answers of find_at(cut haystack, POS)
-/
namespace RgVerif.Driver.PrinterProto
open RgVerif RgVerif.Matcher RgVerif.Replace RgVerif.Json RgVerif.Printer RgVerif.PrinterSpec

def optOf {α : Type} (p : Sx → Option α) : Sx → Option (Option α)
  | .atom "~" => some none
  | x => (p x).map some

def parseLT : Sx → Option LineTerm
  | .atom "lf" => some (.byte 10)
  | .atom "nul" => some (.byte 0)
  | .atom "crlf" => some .crlf
  | _ => none

def parseSC (x : Sx) : Option SCfg :=
  match x with
  | .list (.atom "sc" :: fs) => do
    let lt ← (Sx.field1 fs "lt") >>= parseLT
    let ml ← (Sx.field1 fs "ml") >>= Sx.bool?
    let inv ← (Sx.field1 fs "inv") >>= Sx.bool?
    let after ← (Sx.field1 fs "after") >>= Sx.nat?
    pure { lt, multiLine := ml, invert := inv, afterContext := after }
  | _ => none

def parseStd (x : Sx) : Option StdCfg :=
  match x with
  | .list (.atom "std" :: fs) => do
    let stats ← (Sx.field1 fs "stats") >>= Sx.bool?
    let heading ← (Sx.field1 fs "heading") >>= Sx.bool?
    let path ← (Sx.field1 fs "path") >>= optOf Sx.bytes?
    let only ← (Sx.field1 fs "only") >>= Sx.bool?
    let pm ← (Sx.field1 fs "pm") >>= Sx.bool?
    let pm1 ← (Sx.field1 fs "pm1") >>= Sx.bool?
    let max ← (Sx.field1 fs "max") >>= optOf Sx.nat?
    let col ← (Sx.field1 fs "col") >>= Sx.bool?
    let boff ← (Sx.field1 fs "boff") >>= Sx.bool?
    let ssearch ← (Sx.field1 fs "ssearch") >>= optOf Sx.bytes?
    let sctx ← (Sx.field1 fs "sctx") >>= optOf Sx.bytes?
    let sfm ← (Sx.field1 fs "sfm") >>= Sx.bytes?
    let sfc ← (Sx.field1 fs "sfc") >>= Sx.bytes?
    let pterm ← (Sx.field1 fs "pterm") >>= optOf Sx.nat?
    pure { stats, heading, path, onlyMatching := only, perMatch := pm, perMatchOneLine := pm1, maxMatches := max
         , column := col, byteOffset := boff, sepSearch := ssearch, sepContext := sctx, sepFieldMatch := sfm
         , sepFieldContext := sfc, pathTerminator := pterm }
  | _ => none

/-- one table entry `POS:~` or `POS:S:E` -/
def parseAns : Sx → Option (Nat × Option Span)
  | .atom s =>
    match s.splitOn ":" with
    | [p, "~"] => do pure ((← p.toNat?), none)
    | [p, a, b] => do pure ((← p.toNat?), some ⟨(← a.toNat?), (← b.toNat?)⟩)
    | _ => none
  | _ => none

/-- answers of `find_at(haystack, pos)` for the positions the harness asked the real matcher about -/
structure Table where
  ans : Std.HashMap Nat (Option Span)

def parseTable : Sx → Option Table
  | .list (.atom "t" :: as) => do
    let xs ← as.mapM parseAns
    pure { ans := Std.HashMap.ofList xs }
  | _ => none

def Table.find (t : Table) (pos : Nat) : Option Span := (t.ans.get? pos).join

def parseKind : Sx → Option CtxKind
  | .atom "b" => some .before
  | .atom "a" => some .after
  | .atom "o" => some .other
  | _ => none

/-- An event together with the haystack its table answers for. -/
def parseEv (sc : SCfg) (bufs : Array Bytes) : Sx → Option (Event × Option (Bytes × Table))
  | .list [.atom "m", bi, rs, re, off, ln, tab] => do
    let buf ← bufs[← bi.nat?]?
    let rs ← rs.nat?
    let re ← re.nat?
    let t ← parseTable tab
    pure (.matched buf rs re (← off.nat?) (← optOf Sx.nat? ln), some (shownHay sc buf rs re, t))
  | .list [.atom "c", k, b, off, ln, tab] => do
    let bytes ← b.bytes?
    let t ← parseTable tab
    pure (.context (← parseKind k) bytes (← off.nat?) (← optOf Sx.nat? ln),
      some (shownHay sc bytes 0 bytes.length, t))
  | .list [.atom "brk"] => some (.contextBreak, none)
  | _ => none

def parseBufs : Sx → Option (Array Bytes)
  | .list (.atom "bufs" :: bs) => (bs.mapM Sx.bytes?).map List.toArray
  | _ => none

def parseEvs (sc : SCfg) (bufs : Array Bytes) : Sx → Option (List (Event × Option (Bytes × Table)))
  | .list (.atom "evs" :: es) => es.mapM (parseEv sc bufs)
  | _ => none

/-- The matcher as the model sees it: a function of the haystack and the position, answering from the table
recorded for that haystack (tables are keyed by haystack content). -/
def oracleOf (evs : List (Event × Option (Bytes × Table))) : Oracle :=
  let entries := evs.filterMap (·.2)
  fun hay pos =>
    -- several events can share a haystack (blocks near the end of a buffer): any of their tables may hold `pos`
    (entries.findSome? fun e =>
      if e.1.length == hay.length && e.1 == hay then e.2.ans.get? pos else none).join

/-- what each event's table must cover: `START:END:FROM` — the matcher is shown `bytes[START..END]` and asked from
position `FROM` (`-` for a context break). Line-oriented: the line's own content from 0 (0cdcce3); multi-line: the
buffer cut after the look-ahead, from the start of the range. -/
def cutOf (sc : SCfg) (bytes : Bytes) (rs re : Nat) : String :=
  if sc.multiLine then s!"0:{(cutHaystack sc bytes re).length}:{rs}"
  else s!"{rs}:{rs + (lineHaystack sc.lt bytes rs re).length}:0"

def cutsOf (sc : SCfg) (evs : List (Event × Option (Bytes × Table))) : String :=
  " ".intercalate (evs.map fun e => match e.1 with
    | .matched buf rs re _ _ => cutOf sc buf rs re
    | .context _ bytes _ _ => cutOf sc bytes 0 bytes.length
    | .contextBreak => "-")

def showData : Data → String
  | .text b => "t:" ++ toHex b
  | .bytes b => "b:" ++ toHex b

def showOptData : Option Data → String
  | none => "~"
  | some d => showData d

def showStats (s : Stats) : String :=
  s!"(searches {s.searches} with_match {s.searchesWithMatch} bytes_searched {s.bytesSearched} " ++
  s!"bytes_printed {s.bytesPrinted} matched_lines {s.matchedLines} matches {s.matchCount})"

def showOptStats : Option Stats → String
  | none => "~"
  | some s => showStats s

def showSubs (subs : List SubMatch) : String :=
  "[" ++ ",".intercalate (subs.map fun s => s!"{s.s}:{s.e}:{showData s.m}") ++ "]"

def showMsg : Msg → String
  | .begin p => s!"begin {showOptData p}"
  | .matched p l ln off subs => s!"match {showOptData p} {showData l} {optNat ln} {off} {showSubs subs}"
  | .context p l ln off subs => s!"context {showOptData p} {showData l} {optNat ln} {off} {showSubs subs}"
  | .end p bo st => s!"end {showOptData p} {optNat bo} {showStats st}"

def showBools (bs : List Bool) : String := String.ofList (bs.map fun b => if b then '1' else '0')

end RgVerif.Driver.PrinterProto
