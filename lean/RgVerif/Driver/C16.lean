import RgVerif.Driver.SearcherCommon
import RgVerif.Spec.MaxCount
import RgVerif.Driver.C02
namespace RgVerif.Driver.C16
open RgVerif RgVerif.Driver.SearcherCommon

/-- one callback per character: b begin, m matched, a / c / o after / before / other context, k break,
n binary notice, f finish -/
def kindEvent : Char → Option Searcher.Event
  | 'b' => some .begin
  | 'm' => some (.matched none 0 [])
  | 'a' => some (.context .after none 0 [])
  | 'c' => some (.context .before none 0 [])
  | 'o' => some (.context .other none 0 [])
  | 'k' => some .contextBreak
  | 'n' => some (.binaryData 0)
  | 'f' => some (.finish 0 none)
  | _ => none

/-- `c16.quitindex N A kinds` → `<model>|<spec>`: the index of the callback at which a printer sink with
`max_matches = N` first answers "stop" along the stream `kinds` (M: the counters of `StandardSink` folded over
the stream; S: the counting spec `quitIndex`), `-` if never. -/
def handleQuitIndex (args : List Sx) : String :=
  match args with
  | [n, a, .atom kinds] =>
    match n.nat?, a.nat?, kinds.toList.mapM kindEvent with
    | some n, some a, some evs =>
      optNat (MaxCount.firstFalse 0 (MaxCount.answers (some n) a {} evs)) ++ "|" ++ optNat (MaxCount.quitIndex n a evs)
    | _, _, _ => "bad-op"
  | _ => "bad-op"

/-- `c16.summaryquit N kinds` → `<model>|<spec>` for the Summary printer's sink (counts matches only). -/
def handleSummaryQuit (args : List Sx) : String :=
  match args with
  | [n, .atom kinds] =>
    match n.nat?, kinds.toList.mapM kindEvent with
    | some n, some evs =>
      optNat (MaxCount.firstFalse 0 (MaxCount.summaryAnswers (some n) 0 evs)) ++ "|" ++ optNat (MaxCount.quitIndex n 0 evs)
    | _, _ => "bad-op"
  | _ => "bad-op"

/-- Request handler of property C16: `c16.model cfg matcher inp sink` (M; the spec side of C16 is the
prefix rule, computed by the harness from the uninterrupted model/impl run), `c16.path cfg matcher`. -/
def handle (cmd : String) (args : List Sx) : String :=
  match cmd with
  | "c16.model" => handleModel args
  | "c16.spec" => handleSpec args
  | "c16.path" => handlePath args
  | "c16.quitindex" => handleQuitIndex args
  | "c16.summaryquit" => handleSummaryQuit args
  -- `c16.rbl cfg matcher inp (script …) cap|- heap|- sink`: `Searcher::search_reader` in the model
  -- (`Model/ReadByLine.searchReader`, the subject of `Props/C16Reader.lean`); same request as `c02.rbl`
  | "c16.rbl" => RgVerif.Driver.C02.handle "c02.rbl" args
  | _ => "bad-op"

end RgVerif.Driver.C16
