import RgVerif.Model.Sx
namespace RgVerif.Driver.C16
open RgVerif

/-- Request handler of property C16: `cmd` is the first token of the line, `args` the rest. -/
def handle (cmd : String) (args : List Sx) : String :=
  match cmd, args with
  | _, _ => "bad-op"

end RgVerif.Driver.C16
