import RgVerif.Driver.SearcherCommon
namespace RgVerif.Driver.C16
open RgVerif RgVerif.Driver.SearcherCommon

/-- Request handler of property C16: `c16.model cfg matcher inp sink` (M; the spec side of C16 is the
prefix rule, computed by the harness from the uninterrupted model/impl run), `c16.path cfg matcher`. -/
def handle (cmd : String) (args : List Sx) : String :=
  match cmd with
  | "c16.model" => handleModel args
  | "c16.spec" => handleSpec args
  | "c16.path" => handlePath args
  | _ => "bad-op"

end RgVerif.Driver.C16
