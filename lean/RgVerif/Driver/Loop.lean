import RgVerif.Model.Sx
/-
The driver loop shared by every `rgmodel-cNN` executable: one request per line on stdin,
one reply per line on stdout, flushed per line.  `ping` answers `pong`.
-/
namespace RgVerif.Driver
open RgVerif

partial def runLoop (handle : String → List Sx → String) : IO Unit := do
  let hin ← IO.getStdin
  let hout ← IO.getStdout
  let rec loop : IO Unit := do
    let line ← hin.getLine
    if line.isEmpty then return ()
    let reply :=
      match Sx.parseLine line with
      | some (Sx.atom "ping" :: _) => "pong"
      | some (Sx.atom cmd :: args) => handle cmd args
      | _ => "bad-op"
    hout.putStrLn reply
    hout.flush
    loop
  loop

end RgVerif.Driver
