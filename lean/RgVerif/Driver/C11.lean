import RgVerif.Model.Sx
import RgVerif.Model.Strip
import RgVerif.Model.NonMatching
import RgVerif.Model.Literal
import RgVerif.Model.RegexConfig
namespace RgVerif.Driver.C11
open RgVerif RgVerif.Rx

/-! ### wire format of the HIR

`(empty)` `(lit 6162)` `(cb 97-122 48-57)` `(cu 0-9 11-1114111)` `(look StartLF)`
`(rep MIN MAX|- GREEDY sub)` `(cap IDX sub)` `(concat x …)` `(alt x …)` -/

def lookNames : List (String × Look) :=
  [("Start", .Start), ("End", .End), ("StartLF", .StartLF), ("EndLF", .EndLF),
   ("StartCRLF", .StartCRLF), ("EndCRLF", .EndCRLF),
   ("WordAscii", .WordAscii), ("WordAsciiNegate", .WordAsciiNegate),
   ("WordUnicode", .WordUnicode), ("WordUnicodeNegate", .WordUnicodeNegate),
   ("WordStartAscii", .WordStartAscii), ("WordEndAscii", .WordEndAscii),
   ("WordStartUnicode", .WordStartUnicode), ("WordEndUnicode", .WordEndUnicode),
   ("WordStartHalfAscii", .WordStartHalfAscii), ("WordEndHalfAscii", .WordEndHalfAscii),
   ("WordStartHalfUnicode", .WordStartHalfUnicode), ("WordEndHalfUnicode", .WordEndHalfUnicode)]

def parseLook (s : String) : Option Look := (lookNames.find? (·.1 == s)).map (·.2)
def showLook (k : Look) : String := ((lookNames.find? (·.2 == k)).map (·.1)).getD "?"

def parseRange (x : Sx) : Option Range := do
  let s ← x.atom?
  match s.splitOn "-" with
  | [a, b] => pure ((← a.toNat?), (← b.toNat?))
  | _ => none

partial def parseHir : Sx → Option Hir
  | .list [.atom "empty"] => some .empty
  | .list [.atom "lit", b] => b.bytes?.map .lit
  | .list (.atom "cb" :: rs) => (rs.mapM parseRange).map .classB
  | .list (.atom "cu" :: rs) => (rs.mapM parseRange).map .classU
  | .list [.atom "look", .atom k] => (parseLook k).map .look
  | .list [.atom "rep", mn, mx, g, sub] => do
    let mn ← mn.nat?
    let mx ← match mx with
      | .atom "-" => some none
      | x => x.nat?.map some
    let g ← g.bool?
    let sub ← parseHir sub
    pure (.rep mn mx g sub)
  | .list [.atom "cap", i, sub] => do pure (.cap (← i.nat?) (← parseHir sub))
  | .list (.atom "concat" :: xs) => (xs.mapM parseHir).map fun l => .concat (HirList.ofList l)
  | .list (.atom "alt" :: xs) => (xs.mapM parseHir).map fun l => .alt (HirList.ofList l)
  | _ => none

def showRanges (rs : Ranges) : String :=
  String.join (rs.map fun r => s!" {r.1}-{r.2}")

mutual
def showHir : Hir → String
  | .empty => "(empty)"
  | .lit bs => s!"(lit {toHex bs})"
  | .classB rs => s!"(cb{showRanges rs})"
  | .classU rs => s!"(cu{showRanges rs})"
  | .look k => s!"(look {showLook k})"
  | .rep mn mx g sub => s!"(rep {mn} {optNat mx} {if g then 1 else 0} {showHir sub})"
  | .cap i sub => s!"(cap {i} {showHir sub})"
  | .concat xs => s!"(concat{showHirL xs})"
  | .alt xs => s!"(alt{showHirL xs})"
def showHirL : HirList → String
  | .nil => ""
  | .cons h t => " " ++ showHir h ++ showHirL t
end

def parseLT : Sx → Option LineTerm
  | .atom "crlf" => some .crlf
  | .atom s => if s.startsWith "b" then (s.drop 1).toNat?.map .byte else none
  | _ => none

def showStrip : Except StripErr Hir → String
  | .ok h => "ok " ++ showHir h
  | .error (.notAllowed b) => s!"err notallowed {b}"
  | .error (.invalidLineTerm b) => s!"err invalid {b}"

def b01 (b : Bool) : String := if b then "1" else "0"

/-- `(word lo-hi …)`: the non-ASCII part of the `\w` table used for Unicode word looks. -/
def parseWord : Sx → Option Ranges
  | .list (.atom "word" :: rs) => rs.mapM parseRange
  | _ => none

def handleBase (cmd : String) (args : List Sx) : Option String :=
  match cmd, args with
  | "c11.strip", [lt, h] =>
    match parseLT lt, parseHir h with
    | some lt, some h => some (showStrip (strip h lt))
    | _, _ => some "bad-op"
  | "c11.stripascii", [b, h] =>
    match b.nat?, parseHir h with
    | some b, some h => some (showStrip (stripAscii h b))
    | _, _ => some "bad-op"
  | "c11.nobyte", [b, h] =>
    match b.nat?, parseHir h with
    | some b, some h => some (b01 (noByte b h))
    | _, _ => some "bad-op"
  | "c11.needs", [b, h] =>
    match b.nat?, parseHir h with
    | some b, some h => some (b01 (needsByte b h))
    | _, _ => some "bad-op"
  | "c11.ban", [b, h] =>
    match b.nat?, parseHir h with
    | some b, some h => some (b01 (banned b h))
    | _, _ => some "bad-op"
  | "c11.nonmatching", [h] =>
    match parseHir h with
    | some h => some (toHex (nonMatching h))
    | none => some "bad-op"
  | "c11.echo", [h] =>
    match parseHir h with
    | some h => some (showHir h)
    | none => some "bad-op"
  | "c11.spans", [h, hay, w] =>
    match parseHir h, hay.bytes?, parseWord w with
    | some h, some hay, some w =>
      let sp := allSpans (lookAt (isWordWith w)) h hay
      some (" ".intercalate (sp.map fun p => s!"{p.1}:{p.2}") |> fun s => if s.isEmpty then "-" else s)
    | _, _, _ => some "bad-op"
  | "c11.ismatch", [h, hay, w] =>
    match parseHir h, hay.bytes?, parseWord w with
    | some h, some hay, some w => some (b01 (isMatch (lookAt (isWordWith w)) h hay))
    | _, _, _ => some "bad-op"
  | _, _ => none


/-! ### literal sequences on the wire: `inf` or `(seq E6162 I63 E-)` -/

def parseLit (x : Sx) : Option Lit := do
  let s ← x.atom?
  let cs := s.toList
  match cs with
  | 'E' :: rest => pure ⟨(← fromHex (String.ofList rest)), true⟩
  | 'I' :: rest => pure ⟨(← fromHex (String.ofList rest)), false⟩
  | _ => none

def parseSeq : Sx → Option Seq
  | .atom "inf" => some none
  | .list (.atom "seq" :: ls) => (ls.mapM parseLit).map some
  | _ => none

def showSeq : Seq → String
  | none => "inf"
  | some ls => "(seq" ++ String.join (ls.map fun l => (if l.exact then " E" else " I") ++ toHex l.bytes) ++ ")"

def handleLit (cmd : String) (args : List Sx) : Option String :=
  match cmd, args with
  | "c11.extract", [h] =>
    match parseHir h with
    | some h => let t := extract h; some (b01 t.pre ++ " " ++ showSeq t.seq)
    | none => some "bad-op"
  | "c11.finish", [sq] =>
    match parseSeq sq with
    | some sq => some (showSeq (finishUntagged sq))
    | none => some "bad-op"
  | "c11.covers", [a, b] =>
    match parseSeq a, parseSeq b with
    | some _, some none => some "1"
    | some none, some (some _) => some "0"
    | some (some L), some (some L') => some (b01 (covers L L'))
    | _, _ => some "bad-op"
  | "c11.gate", [lt, acc, h] =>
    match lt.bool?, acc.bool?, parseHir h with
    | some lt, some acc, some h => some (b01 (innerGate lt acc h))
    | _, _, _ => some "bad-op"
  | "c11.litsnobyte", [b, sq] =>
    match b.nat?, parseSeq sq with
    | some _, some none => some "1"
    | some b, some (some L) => some (b01 (litsNoByte b L))
    | _, _ => some "bad-op"
  | "c11.fastfind", [sq, hay] =>
    match parseSeq sq, hay.bytes? with
    | some (some L), some hay => some (optNat (fastFind L hay))
    | _, _ => some "bad-op"
  | _, _ => none

/-! ### configuration level (`config.rs`, `ast.rs`, `matcher.rs::build_many`) -/

/-- `(cfg ci cs ml dot u crlf w x F LT BAN)` with LT = `none` | `crlf` | `b<byte>`, BAN = `-` | byte -/
def parseCfg : Sx → Option Config
  | .list [.atom "cfg", ci, cs, ml, dot, u, crlf, w, x, f, lt, ban] => do
    let lt ← match lt with
      | .atom "none" => some none
      | l => (parseLT l).map some
    let ban ← match ban with
      | .atom "-" => some none
      | b => b.nat?.map some
    pure { caseInsensitive := (← ci.bool?), caseSmart := (← cs.bool?), multiLine := (← ml.bool?),
           dotMatchesNewLine := (← dot.bool?), unicode := (← u.bool?), crlf := (← crlf.bool?),
           word := (← w.bool?), wholeLine := (← x.bool?), fixedStrings := (← f.bool?),
           lineTerm := lt, ban := ban }
  | _ => none

def parsePats : Sx → Option (List Bytes)
  | .list (.atom "pats" :: ps) => ps.mapM Sx.bytes?
  | _ => none

mutual
partial def parseAst : Sx → Option Ast
  | .list [.atom "o"] => some .other
  | .list [.atom "l", c] => c.nat?.map .literal
  | .list [.atom "b", set] => (parseSet set).map .bracketed
  | .list [.atom "r", a] => (parseAst a).map .repetition
  | .list [.atom "g", a] => (parseAst a).map .group
  | .list (.atom "a" :: xs) => (xs.mapM parseAst).map fun l => .alternation (l.foldr .cons .nil)
  | .list (.atom "c" :: xs) => (xs.mapM parseAst).map fun l => .concat (l.foldr .cons .nil)
  | _ => none
partial def parseSet : Sx → Option ClassSet
  | .list [.atom "o"] => some .itemOther
  | .list [.atom "l", c] => c.nat?.map .itemLiteral
  | .list [.atom "rg", a, b] => do pure (.itemRange (← a.nat?) (← b.nat?))
  | .list [.atom "b", set] => (parseSet set).map .itemBracketed
  | .list (.atom "u" :: xs) => (xs.mapM parseSet).map fun l => .itemUnion (l.foldr .cons .nil)
  | .list [.atom "op", a, b] => do pure (.binaryOp (← parseSet a) (← parseSet b))
  | _ => none
end

def showLT : Option LineTerm → String
  | none => "none"
  | some .crlf => "crlf"
  | some (.byte b) => s!"b{b}"

def showBuildErr : BuildErr → String
  | .banned b => s!"err banned {b}"
  | .strip (.notAllowed b) => s!"err notallowed {b}"
  | .strip (.invalidLineTerm b) => s!"err invalid {b}"

def handleCfg (cmd : String) (args : List Sx) : Option String :=
  match cmd, args with
  | "c11.route", [cfg, pats] =>
    match parseCfg cfg, parsePats pats with
    | some cfg, some pats => some s!"fixed={b01 (cfg.isFixedStrings pats)} pattern={toHex (cfg.patternText pats)}"
    | _, _ => some "bad-op"
  | "c11.case", [cfg, ast, .list (.atom "upper" :: us)] =>
    match parseCfg cfg, parseAst ast, us.mapM Sx.nat? with
    | some cfg, some ast, some us =>
      let an := analyseAst (fun c => us.contains c) ast {}
      some s!"ci={b01 (cfg.isCaseInsensitive an)} lit={b01 an.anyLiteral} up={b01 an.anyUppercase}"
    | _, _, _ => some "bad-op"
  | "c11.build", [cfg, pats, tr, acc, opt, .list (.atom "norm" :: pairs)] =>
    -- `opt` is what the real optimiser returned; `(norm (raw normalised) …)` tabulates the real smart
    -- constructors on the trees the model hands to them (the harness checks each pair by rebuilding `raw`)
    match parseCfg cfg, parsePats pats, parseHir tr, acc.bool?, parseSeq opt,
          pairs.mapM (fun p => match p with
            | .list [a, b] => do pure (showHir (← parseHir a), (← parseHir b))
            | _ => none) with
    | some cfg, some pats, some tr, some acc, some opt, some tab =>
      let norm : Hir → Hir := fun h =>
        match tab.find? (fun p => p.1 == showHir h) with
        | some (_, n) => n
        | none => h
      -- the trees the model asks `norm` about, in order: after the `\r` pass (CRLF only), the final one
      let asked1 : String := match cfg.lineTerm with
        | some .crlf => if cfg.isFixedStrings pats || cfg.banRejects tr then "-" else
            match stripAscii tr 13 with
            | .ok h1 => showHir h1
            | .error _ => "-"
        | _ => "-"
      let asked2 : String := match cfg.configuredHir norm pats tr with
        | .ok h0 => showHir (cfg.wrap h0)
        | .error _ => "-"
      match cfg.build pats tr acc (fun _ => opt) norm with
      | .ok m =>
        some s!"ok lt={showLT m.lineTerm} vol={b01 m.verifyOnLine} nm={toHex m.nonMatching} lits={showSeq m.fastLits} ask1={asked1} ask2={asked2}"
      | .error e => some s!"{showBuildErr e} ask1={asked1}"
    | _, _, _, _, _, _ => some "bad-op"
  | "c11.confhir", [cfg, pats, tr] =>
    match parseCfg cfg, parsePats pats, parseHir tr with
    | some cfg, some pats, some tr =>
      match cfg.configuredHir id pats tr with
      | .ok h => some ("ok " ++ showHir h)
      | .error e => some (showBuildErr e)
    | _, _, _ => some "bad-op"
  | "c11.verify", [cfg, h] =>
    match parseCfg cfg, parseHir h with
    | some cfg, some h => some (b01 (cfg.verifyOnLine h))
    | _, _ => some "bad-op"
  | "c11.wrap", [cfg, h] =>
    match parseCfg cfg, parseHir h with
    | some cfg, some h => let w := cfg.wrap h; some s!"lt={showLT (cfg.lineTerminatorOf w)} hir={showHir w}"
    | _, _ => some "bad-op"
  | _, _ => none

/-- Request handler of property C11: `cmd` is the first token of the line, `args` the rest. -/
def handle (cmd : String) (args : List Sx) : String :=
  match handleBase cmd args with
  | some r => r
  | none =>
    match handleLit cmd args with
    | some r => r
    | none =>
      match handleCfg cmd args with
      | some r => r
      | none => "bad-op"

end RgVerif.Driver.C11
