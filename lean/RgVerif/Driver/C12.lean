import RgVerif.Model.Sx
import RgVerif.Model.GlobSet
import RgVerif.Spec.GlobDoc
import RgVerif.Lemmas.GlobDocSimple
import RgVerif.Lemmas.GlobDocStar
import RgVerif.Lemmas.GlobDocClass
import RgVerif.Lemmas.GlobDocAlt
import RgVerif.Lemmas.GlobDocStarP
namespace RgVerif.Driver.C12
open RgVerif RgVerif.Glob

/-- options travel as four bits `ci ls be ea` -/
def parseOpts (s : String) : Option Opts :=
  match s.toList with
  | [a, b, c, d] =>
    let bit (x : Char) : Option Bool := if x == '1' then some true else if x == '0' then some false else none
    do pure { ci := (← bit a), ls := (← bit b), be := (← bit c), ea := (← bit d) }
  | _ => none


/-- `(g <bits> cp cp …)` -/
def parseGlobSx : Sx → Option (Opts × List Nat)
  | .list (.atom "g" :: .atom bits :: cps) => do
    let o ← parseOpts bits
    let cs ← cps.mapM Sx.nat?
    pure (o, cs)
  | _ => none

def errName : PErr → String
  | .unclosedClass => "UnclosedClass"
  | .invalidRange => "InvalidRange"
  | .unopenedAlternates => "UnopenedAlternates"
  | .unclosedAlternates => "UnclosedAlternates"
  | .nestedAlternates => "NestedAlternates"
  | .danglingEscape => "DanglingEscape"
  | .fuel => "Fuel"

def stratName : Strat → String
  | .literal l => "Literal:" ++ toHex (utf8Str l)
  | .basenameLiteral l => "BasenameLiteral:" ++ toHex (utf8Str l)
  | .extension e => "Extension:" ++ toHex (utf8Str e)
  | .pfx l => "Prefix:" ++ toHex (utf8Str l)
  | .sfx l c => "Suffix:" ++ toHex (utf8Str l) ++ (if c then ":1" else ":0")
  | .requiredExt e => "RequiredExtension:" ++ toHex (utf8Str e)
  | .regex => "Regex"

def bits (bs : List Bool) : String := String.ofList (bs.map fun b => if b then '1' else '0')

def commaNats (ns : List Nat) : String := if ns.isEmpty then "-" else ",".intercalate (ns.map toString)

def handle (cmd : String) (args : List Sx) : String :=
  match cmd, args with
  | "c12.parse", [g] =>
    match parseGlobSx g with
    | none => "bad-op"
    | some (o, cs) =>
      match parse o cs with
      | .error e => "err " ++ errName e
      | .ok toks =>
        let gl : Glob := { opts := o, tokens := toks }
        s!"ok {stratName (strategyOf gl)} {toHex (toRegex o toks)} {if GlobDoc.okGlob (docOpts o) cs then 1 else 0} {if tokensValid toks then 1 else 0} {if simpleGlob o.be cs || okStarGlob o.be cs || okClassGlob o.be cs || okAltGlob o cs || okStarGlobP o.be cs then 1 else 0} {if GlobDoc.illegalDstar o.be cs then 1 else 0}"
  | "c12.set", [.list (.atom "globs" :: gs), .list (.atom "paths" :: ps)] =>
    match gs.mapM parseGlobSx, ps.mapM Sx.bytes? with
    | some gs, some ps =>
      match gs.mapM (fun (oc : Opts × List Nat) => match parse oc.1 oc.2 with
                      | .ok toks => some ({ opts := oc.1, tokens := toks } : Glob)
                      | .error _ => none) with
      | none => "err"
      | some globs =>
        let oks := gs.map fun oc => GlobDoc.okGlob (docOpts oc.1) oc.2
        let strats := globs.map strategyOf
        let one (p : Bytes) : String :=
          let c := candidate p
          let m := globs.map fun g => g.isMatch p
          let st := (globs.zip strats).map fun gs => stratAnswer gs.1 gs.2 c
          let d := (gs.zip oks).map fun (oc, ok) => ok && GlobDoc.docMatch (docOpts oc.1) oc.2 p
          s!"{commaNats (setMatches globs p)}|{bits m}|{bits st}|{bits d}|{if lastCompDots p then 1 else 0}"
        bits oks ++ " " ++ ";".intercalate (ps.map one)
    | _, _ => "bad-op"
  | "c12.into", [.list (.atom "buf" :: bs), .list (.atom "globs" :: gs), p] =>
    -- one `matches_candidate_into` call on the model, with the buffer the previous call left behind
    match bs.mapM Sx.nat?, gs.mapM parseGlobSx, p.bytes? with
    | some buf, some gs, some p =>
      match gs.mapM (fun (oc : Opts × List Nat) => match parse oc.1 oc.2 with
                      | .ok toks => some ({ opts := oc.1, tokens := toks } : Glob)
                      | .error _ => none) with
      | none => "err"
      | some globs => "ok " ++ commaNats ((GlobSet.new globs).matchesCandidateInto (candidate p) buf)
    | _, _, _ => "bad-op"
  | "c12.uchar", [ls, .list (.atom "members" :: ms), p] =>
    -- the documentation's sentences about `?` and `[ab]` for characters beyond ASCII
    match ls.bool?, ms.mapM Sx.nat?, p.bytes? with
    | some ls, some ms, some p => if GlobDoc.docOneChar ls (some ms) p then "1" else "0"
    | _, _, _ => "bad-op"
  | "c12.uchar", [ls, .atom "any", p] =>
    match ls.bool?, p.bytes? with
    | some ls, some p => if GlobDoc.docOneChar ls none p then "1" else "0"
    | _, _ => "bad-op"
  | "c12.cand", [p] =>
    match p.bytes? with
    | some p => let c := candidate p; s!"{toHex c.basename} {toHex c.ext}"
    | none => "bad-op"
  | _, _ => "bad-op"

end RgVerif.Driver.C12
