import RgVerif.Model.LineBuffer
import RgVerif.Model.ReadByLine
import RgVerif.Driver.SearcherCommon
import RgVerif.Spec.LineSafe
namespace RgVerif.Driver.C02
open RgVerif RgVerif.LineBuffer

/-- `(cfg <capacity> <lineterm> <e|limit> (bin none|quit b|convert b))` -/
def parseCfg : Sx → Option Config
  | .list [.atom "cfg", cap, lt, al, .list (.atom "bin" :: b)] => do
    let cap ← cap.nat?
    let lt ← lt.nat?
    let al ← match al with
      | .atom "e" => some Alloc.eager
      | x => (x.nat?).map Alloc.error
    let b ← match b with
      | [.atom "none"] => some BinDet.none
      | [.atom "quit", x] => (x.nat?).map BinDet.quit
      | [.atom "convert", x] => (x.nat?).map BinDet.convert
      | _ => none
    pure ⟨cap, lt, al, b⟩
  | _ => none

/-- `(script 3 1 i 7)`; `i` is an `Interrupted` error. -/
def parseScript : Sx → Option (List Step)
  | .list (.atom "script" :: xs) =>
    xs.mapM fun x =>
      match x with
      | .atom "i" => some Step.intr
      | x => (x.nat?).map Step.ret
  | _ => none

/-- `(ops f c3 f)` -/
def parseOps : Sx → Option (List Op)
  | .list (.atom "ops" :: xs) =>
    xs.mapM fun x =>
      match x with
      | .atom "f" => some Op.fill
      | .atom s =>
        match s.toList with
        | 'c' :: ds => (String.ofList ds).toNat?.map Op.consume
        | _ => none
      | _ => none
  | _ => none

def showRes : FillRes → String
  | .ok true => "t"
  | .ok false => "f"
  | .allocErr => "ealloc"
  | .fuel => "fuel"

def showState (s : LB) : String :=
  s!"{s.abs} {optNat s.binOff} {toHex s.buffer} {s.len}"

/-- Transcript of an op sequence: one `res abs bin buffer allocated` entry per op. -/
def transcript : LB → Reader → List Op → List String
  | _, _, [] => []
  | s, r, .fill :: ops =>
    let (s, r, res) := s.fill r
    (showRes res ++ " " ++ showState s) :: transcript s r ops
  | s, r, .consume n :: ops =>
    match s.consume n with
    | some s => ("c " ++ showState s) :: transcript s r ops
    | none => ["panic"]

def handle (cmd : String) (args : List Sx) : String :=
  match cmd, args with
  | "c02.lb", [cfg, inp, script, ops] =>
    match parseCfg cfg, inp.bytes?, parseScript script, parseOps ops with
    | some cfg, some inp, some script, some ops =>
      ";".intercalate (transcript (LB.init cfg) ⟨inp, script, 0⟩ ops)
    | _, _, _, _ => "bad-op"
  -- `c02.rbl cfg matcher inp (script …) cap|- heap|- sink`: `Searcher::search_reader` in the model
  -- (pass-through decoder with its BOM peek, roll buffer, ReadByLine over Core)
  | "c02.rbl", [cfg, m, inp, script, cap, heap, sink] =>
    let optN : Sx → Option (Option Nat) := fun x =>
      match x with
      | .atom "-" => some none
      | x => (x.nat?).map some
    match SearcherCommon.parseCfg cfg, SearcherCommon.parseMatcher m, inp.bytes?, parseScript script, optN cap,
          optN heap, SearcherCommon.parseSink sink with
    | some cfg, some mk, some inp, some script, some cap, some heap, some σ =>
      SearcherCommon.showRun (Searcher.searchReader cfg (mk inp false) σ heap cap ⟨inp, script, 0⟩)
    | _, _, _, _, _, _, _ => "bad-op"
  -- `c02.slice cfg matcher inp sink`: `Searcher::search_slice` in the model (the spec side of C02)
  | "c02.slice", [cfg, m, inp, sink] =>
    match SearcherCommon.parseCfg cfg, SearcherCommon.parseMatcher m, inp.bytes?, SearcherCommon.parseSink sink with
    | some cfg, some mk, some inp, some σ => SearcherCommon.showRun (Searcher.searchSlice cfg (mk inp false) σ inp)
    | _, _, _, _ => "bad-op"
  -- `c02.lb2 cfg inp1 (script …) (ops …) inp2 (script …) (ops …)`: one buffer used for two readers in
  -- sequence (`clear` in between); the transcript of the SECOND reader
  | "c02.lb2", [cfg, inp1, script1, ops1, inp2, script2, ops2] =>
    match parseCfg cfg, inp1.bytes?, parseScript script1, parseOps ops1, inp2.bytes?, parseScript script2,
          parseOps ops2 with
    | some cfg, some inp1, some script1, some ops1, some inp2, some script2, some ops2 =>
      let s1 := (run (LB.init cfg) ⟨inp1, script1, 0⟩ ops1).1
      ";".intercalate (transcript s1.clear ⟨inp2, script2, 0⟩ ops2)
    | _, _, _, _, _, _, _ => "bad-op"
  -- `c02.linesafe cfg matcher buf`: the executable certificate (`lineSafeCheck`, sound by
  -- `lineSafeCheck_sound`) of the hypothesis of theorem `C02_fast` for ONE window `buf` of the input,
  -- on the real matcher's answers for that window (`table-miss` if the table lacks an answer)
  | "c02.linesafe", [cfg, m, buf] =>
    match SearcherCommon.parseCfg cfg, SearcherCommon.parseMatcher m, buf.bytes? with
    | some cfg, some mk, some buf =>
      let go := fun (missing : Bool) =>
        let m := mk buf missing
        let sl := (GrepSpec.splitLines cfg.lineTerm.asByte buf).map fun l => (l, GrepSpec.lineSel cfg m l)
        GrepSpec.lineSafeCheck cfg m buf sl
      if go false == go true then (if go false then "1" else "0") else "table-miss"
    | _, _, _ => "bad-op"
  | "c02.spec", [cfg, inp, a, n] =>
    match parseCfg cfg, inp.bytes?, a.nat?, n.nat? with
    | some cfg, some inp, some a, some n => toHex (window (view cfg inp) a n)
    | _, _, _, _ => "bad-op"
  | _, _ => "bad-op"

end RgVerif.Driver.C02
