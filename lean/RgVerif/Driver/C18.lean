import RgVerif.Spec.ProcessSpec
namespace RgVerif.Driver.C18
open RgVerif RgVerif.Process RgVerif.ProcessSpec

/-
Requests
  c18.close   (reader OPEN EOF) (child WAIT STDERR)           -> ok|err OPEN EOF
  c18.consume (child WAIT STDERR) (reads n…) STOP             -> got N readerr B close ok|err      (STOP = - | k; n = bytes of a read, > 0)
  c18.spec.close CONSUMED (child WAIT STDERR)                  -> 0|1
  c18.pre OPENOK SPAWNOK SEARCH CLOSE                          -> ok|err        (SEARCH, CLOSE = ok|err)
  c18.decomp HASCMD SPAWNOK OPENOK SEARCH CLOSE                -> reader:<command|passthru|openerror> ok|err
  c18.select (cfg STDIN PRE ZIP RECOGNISED) (globs (NEG HIT)…) -> model STRATEGY spec STRATEGY
  c18.recognised HEXNAME                                       -> 0|1   some default decompression rule matches the file name
  c18.command HEXNAME                                          -> program and arguments of the matching decompression rule | -
  c18.pipes K ASYNC (prog 0|1 …) (sched CHOICE…)               -> prog N out N err N closed B done B canstep B
     CHOICE = c (child) | k (child killed by SIGPIPE) | rN (read N) | x (close) | dN (drain N)
WAIT = ok | fail | waiterr; STDERR = hex bytes | ioerr
-/

def parseWait : Sx → Option Wait
  | .atom "ok" => some (.exited true)
  | .atom "fail" => some (.exited false)
  | .atom "waiterr" => some .failed
  | _ => none

def parseStderr : Sx → Option Stderr
  | .atom "ioerr" => some .ioError
  | x => (x.bytes?).map .bytes

def parseChild : Sx → Option Child
  | .list [.atom "child", w, e] => do pure ⟨(← parseWait w), (← parseStderr e)⟩
  | _ => none

def parseReader : Sx → Option Reader
  | .list [.atom "reader", o, e] => do pure ⟨(← o.bool?), (← e.bool?)⟩
  | _ => none

def b (x : Bool) : String := if x then "1" else "0"

def showClose : CloseRes → String
  | .ok => "ok"
  | .err => "err"

def parseOutcome : Sx → Option (Outcome Unit)
  | .atom "ok" => some (.ok ())
  | .atom "err" => some .err
  | _ => none

def parseCloseRes : Sx → Option CloseRes
  | .atom "ok" => some .ok
  | .atom "err" => some .err
  | _ => none

def showOutcome : Outcome Unit → String
  | .ok _ => "ok"
  | .err => "err"

def showStrategy : Strategy → String
  | .stdin => "stdin"
  | .preprocessor => "preprocessor"
  | .decompress => "decompress"
  | .direct => "direct"

def parseGlob : Sx → Option PreGlob
  | .list [n, h] => do pure ⟨(← n.bool?), (← h.bool?)⟩
  | _ => none

def parseChoice (s : String) : Option Choice :=
  match s.toList with
  | ['c'] => some .child
  | ['k'] => some .childKill
  | ['x'] => some .close
  | 'r' :: ds => (String.ofList ds).toNat?.map .read
  | 'd' :: ds => (String.ofList ds).toNat?.map .drain
  | _ => none

def handle (cmd : String) (args : List Sx) : String :=
  match cmd, args with
  | "c18.close", [r, ch] =>
    match parseReader r, parseChild ch with
    | some r, some ch =>
      let (r', c) := close r ch
      s!"{showClose c} {b r'.stdoutOpen} {b r'.eof}"
    | _, _ => "bad-op"
  | "c18.consume", [ch, .list (.atom "reads" :: rs), stop] =>
    match parseChild ch, rs.mapM Sx.nat?, (match stop with | .atom "-" => some none | x => (x.nat?).map some) with
    | some ch, some rs, some stop =>
      if rs.any (· == 0) then "bad-op" else
      let (_, got, rerr, c) := consume ch (rs.map (· - 1)) stop {} 0
      s!"got {got} readerr {b rerr} close {showClose c}"
    | _, _, _ => "bad-op"
  | "c18.spec.close", [consumed, ch] =>
    match consumed.bool?, parseChild ch with
    | some e, some ch => b (specCloseErr e ch)
    | _, _ => "bad-op"
  | "c18.pre", [o, s, sr, cl] =>
    match o.bool?, s.bool?, parseOutcome sr, parseCloseRes cl with
    | some o, some s, some sr, some cl => showOutcome (searchPreprocessor o s sr cl)
    | _, _, _, _ => "bad-op"
  | "c18.decomp", [h, s, o, sr, cl] =>
    match h.bool?, s.bool?, o.bool?, parseOutcome sr, parseCloseRes cl with
    | some h, some s, some o, some sr, some cl =>
      let rd := decompBuild h s o
      let name := match rd with
        | .command => "command"
        | .passthru => "passthru"
        | .openError => "openerror"
      s!"reader:{name} {showOutcome (searchDecompress rd sr cl)}"
    | _, _, _, _, _ => "bad-op"
  | "c18.select", [.list [.atom "cfg", si, p, z, rec], .list (.atom "globs" :: gs)] =>
    match si.bool?, p.bool?, z.bool?, rec.bool?, gs.mapM parseGlob with
    | some si, some p, some z, some rec, some gs =>
      let c : SelCfg := { isStdin := si, pre := p, preGlobs := gs, searchZip := z, recognised := rec }
      s!"model {showStrategy (select c)} spec {showStrategy (specStrategy c)}"
    | _, _, _, _, _ => "bad-op"
  | "c18.recognised", [name] =>
    match name.bytes? with
    | some bs => b (recognisedName (String.ofList (bs.map Char.ofNat)))
    | none => "bad-op"
  | "c18.command", [name] =>
    match name.bytes? with
    | some bs =>
      match decompCommand (String.ofList (bs.map Char.ofNat)) with
      | some cmd => " ".intercalate cmd
      | none => "-"
    | none => "bad-op"
  | "c18.pipes", [k, a, .list (.atom "prog" :: ps), .list (.atom "sched" :: cs)] =>
    match k.nat?, a.bool?, ps.mapM Sx.bool?, cs.mapM (fun x => x.atom? >>= parseChoice) with
    | some k, some a, some prog, some sched =>
      let s := replay k a (initState prog) sched
      s!"prog {s.prog.length} out {s.out} err {s.err} closed {b s.closed} done {b (isDone s)} canstep {b (canStep k a s)}"
    | _, _, _, _ => "bad-op"
  | _, _ => "bad-op"

end RgVerif.Driver.C18
