import RgVerif.Model.Sx
import RgVerif.Model.Walk
import RgVerif.Model.WalkEvents
import RgVerif.Spec.Reach
import RgVerif.Spec.ReachDenied
/-
Driver of C06.

  c06.walk <which> (cfg (depth d|-) (size s|-) (follow 0|1) (samefs 0|1) (filter n…|-)) (forest N…) (roots N…)

`which` ∈ serial | events (the operational walkdir / WalkEventIter / Walk::next model) | parallel | reach | guard.  Nodes: `(f name size)`, `(d name ino dev (ign n…) kids…)`,
`(l name len -)`, `(l name len (f size))`, `(l name len (d ino))`.  `forest` is the whole file system the
roots live in (links may point anywhere in it); `roots` the paths given to the walker.
Ignore rules of the harness (gitignore semantics for the patterns `name`, `*`, `!name`, `!*`, coded 2n / 2n+1
with n = 0 for `*`): the innermost entered directory whose ignore file has a matching pattern decides, within a
file the last matching pattern; filter: rejects the listed names.  Reply: the reported items sorted, `e:1/2/3` entries,
`L:…` loop errors, `B:…` broken-link errors (order is not part of the property); duplicates are kept.
-/
namespace RgVerif.Driver.C06
open RgVerif RgVerif.Walk

def parseTarget : Sx → Option Target
  | .atom "-" => some .missing
  | .list [.atom "f", s] => do pure (.file (← s.nat?))
  | .list [.atom "d", i] => do pure (.dir (← i.nat?))
  | _ => none

partial def parseNode : Sx → Option Node
  | .list [.atom "f", n, s] => do pure (.file (← n.nat?) (← s.nat?))
  | .list [.atom "l", n, len, t] => do pure (.link (← n.nat?) (← len.nat?) (← parseTarget t))
  | .list (.atom "d" :: n :: ino :: dev :: .list (.atom "ign" :: ign) :: kids) => do
    let kids ← kids.mapM parseNode
    pure (.dir (← n.nat?) (← ino.nat?) (← dev.nat?) (← ign.mapM Sx.nat?) kids)
  | _ => none

def optNat? : Sx → Option (Option Nat)
  | .atom "-" => some none
  | x => (x.nat?).map some

def parseCfg (xs : List Sx) : Option Cfg := do
  let depth ← (Sx.field1 xs "depth") >>= optNat?
  let size ← (Sx.field1 xs "size") >>= optNat?
  let follow ← (Sx.field1 xs "follow") >>= Sx.bool?
  let samefs ← (Sx.field1 xs "samefs") >>= Sx.bool?
  let filt ← Sx.field xs "filter"
  let filter : Option (Path → Bool → Bool) ←
    match filt with
    | [.atom "-"] => some none
    | ns => do
      let ns ← ns.mapM Sx.nat?
      -- (fkind a|d|f): the harness's predicate rejects the listed names among all entries / directories
      -- only / non-directories only
      let kindOk : Bool → Bool ←
        match Sx.field1 xs "fkind" with
        | some (.atom "d") => some (fun isDir => isDir)
        | some (.atom "f") => some (fun isDir => !isDir)
        | some (.atom "a") => some (fun _ => true)
        | none => some (fun _ => true)
        | _ => none
      pure (some fun p isDir => !(kindOk isDir && ns.contains (p.getLast?.getD 0)))
  pure { maxDepth := depth, maxFilesize := size, followLinks := follow, sameFs := samefs,
         -- ignore files: innermost directory first; within a file the last matching pattern decides;
         -- pattern code 2·n = name n, 2·n+1 = `!`name n (whitelist), n = 0 stands for `*`
         ignored := fun igns name _ =>
           let verdict (l : List Nat) : Option Bool :=
             (l.reverse.find? (fun c => c / 2 == 0 || c / 2 == name)).map (fun c => c % 2 == 0)
           (igns.findSome? verdict).getD false,
         filter := filter }

def pathStr (p : Path) : String := "/".intercalate (p.map toString)

def outStr : Out → String
  | .entry p => "e:" ++ pathStr p
  | .loop p => "L:" ++ pathStr p
  | .broken p => "B:" ++ pathStr p

def insertSorted (x : String) : List String → List String
  | [] => [x]
  | y :: ys => if x ≤ y then x :: y :: ys else y :: insertSorted x ys

def sortStrs (xs : List String) : List String := xs.foldl (fun acc x => insertSorted x acc) []

def showOuts (os : List Out) : String :=
  let ss := sortStrs (os.map outStr)
  if ss.isEmpty then "-" else " ".intercalate ss

def handle (cmd : String) (args : List Sx) : String :=
  match cmd, args with
  | "c06.walk", [.atom which, .list (.atom "cfg" :: cfg), .list (.atom "forest" :: fs),
                 .list (.atom "roots" :: rs)] =>
    match parseCfg cfg, fs.mapM parseNode, rs.mapM parseNode with
    | some cfg, some forest, some roots =>
      let fuel := (dirInosL forest).length + 1
      match which with
      | "serial" => showOuts (serial cfg forest fuel roots)
      | "events" =>
        match serialEvents cfg forest 400000 roots with
        | some os => showOuts os
        | none => "fuel"
      | "parallel" => showOuts (parallel cfg forest fuel roots)
      | "reach" => showOuts (reach cfg forest fuel roots)
      | "guard" => if hazardFree cfg forest fuel roots then "1" else "0"
      | _ => "bad-op"
    | _, _, _ => "bad-op"
  | "c06.denied", [.atom which, .list (.atom "cfg" :: cfg), .list (.atom "denied" :: ds),
                   .list (.atom "forest" :: fs), .list (.atom "roots" :: rs)] =>
    -- EACCES error visits (outside the property): `par` / `ser` rule of Spec/ReachDenied.lean
    match parseCfg cfg, ds.mapM Sx.nat?, fs.mapM parseNode, rs.mapM parseNode with
    | some cfg, some ds, some forest, some roots =>
      let fuel := (dirInosL forest).length + 1
      let atLimit? : Option Bool := match which with
        | "par" => some true
        | "ser" => some false
        | _ => none
      match atLimit? with
      | some atLimit =>
        let ps := deniedVisits cfg forest (fun i => ds.contains i) atLimit fuel roots
        let ss := sortStrs (ps.map fun p => "D:" ++ pathStr p)
        if ss.isEmpty then "-" else " ".intercalate ss
      | none => "bad-op"
    | _, _, _, _ => "bad-op"
  | _, _ => "bad-op"

end RgVerif.Driver.C06
