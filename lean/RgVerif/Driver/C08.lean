import RgVerif.Spec.BlockSpec
namespace RgVerif.Driver.C08
open RgVerif RgVerif.BufWriter RgVerif.BlockSpec

/-
Requests (SEP = hex bytes | none; the empty separator of --heading is `-`)
  c08.par  SEP (blocks hex…)          -> hex   output of search_parallel when the lock order is `blocks`
  c08.parstats SEP (blocks hex…) TRAILER -> hex  search_parallel with --stats: the trailer follows straight on stdout (78b4250)
  c08.seq  SEP TERM (blocks hex…)     -> hex   output of search over `blocks` in traversal order
  c08.join SEP TERM (blocks hex…)     -> hex   contract: non-empty blocks joined by SEP++TERM
  c08.seqb SEP TERM (items (hex 0|1)…)-> hex   search; 1 = the block is a bare `binary file matches` message
  c08.files (blocks hex…)             -> hex   files_parallel
  c08.parseh (lines hN|b|z …)         -> blocks […] gaps […] stray a b bad 0|1    the --heading grammar's cut
  c08.parse (lines s|dN …)            -> blocks [N:len …] gaps [k …] stray a b   the block grammar's cut
  c08.parf SEP (items (hex 0|1)…)     -> hex   search_parallel when some searches fail part-way (1 = failed)
  c08.seqf SEP TERM (items (hex 0|1)…)-> hex   search, ditto
  c08.threads SORT ONEFILE LOW AVAIL  -> n     (LOW = - | n)
  c08.filesep MODE HEADING CTX SEP    -> SEP   (MODE = standard | other)
  c08.guard SEP TERM                  -> 0|1   guard of theorem C08
-/

def parseSep : Sx → Option (Option Bytes)
  | .atom "none" => some none
  | x => (x.bytes?).map some

def showSep : Option Bytes → String
  | none => "none"
  | some s => toHex s

def parseBlocks : Sx → Option (List Bytes)
  | .list (.atom "blocks" :: bs) => bs.mapM Sx.bytes?
  | _ => none

/-- `(HEX FAILED)`: the bytes a file's search had printed when it returned, and whether it failed -/
def parseItem : Sx → Option (Bytes × Bool)
  | .list [b, f] => do pure ((← b.bytes?), (← f.bool?))
  | _ => none

/-- `s` = separator line, `dN` = a line of file number N -/
def parseLine : Sx → Option Line
  | .atom "s" => some .sep
  | .atom t =>
    match t.toList with
    | 'd' :: ds => (String.ofList ds).toNat?.map fun p => Line.data p []
    | _ => none
  | _ => none

/-- `hN` = path line of file N, `b` = result line, `z` = blank line -/
def parseHLine : Sx → Option HLine
  | .atom "b" => some (.body [])
  | .atom "z" => some .blank
  | .atom t =>
    match t.toList with
    | 'h' :: ds => (String.ofList ds).toNat?.map HLine.head
    | _ => none
  | _ => none

def handle (cmd : String) (args : List Sx) : String :=
  match cmd, args with
  | "c08.par", [sep, bl] =>
    match parseSep sep, parseBlocks bl with
    | some sep, some bl => toHex (outPar sep bl)
    | _, _ => "bad-op"
  | "c08.parstats", [sep, bl, tr] =>
    match parseSep sep, parseBlocks bl, tr.bytes? with
    | some sep, some bl, some tr => toHex (outParStats sep bl tr)
    | _, _, _ => "bad-op"
  | "c08.seq", [sep, term, bl] =>
    match parseSep sep, term.bytes?, parseBlocks bl with
    | some sep, some term, some bl => toHex (outSeq sep term bl)
    | _, _, _ => "bad-op"
  | "c08.join", [sep, term, bl] =>
    match parseSep sep, term.bytes?, parseBlocks bl with
    | some sep, some term, some bl => toHex (joinSep (sepLine sep term) (nonempty bl))
    | _, _, _ => "bad-op"
  | "c08.parf", [sep, .list (.atom "items" :: its)] =>
    match parseSep sep, its.mapM parseItem with
    | some sep, some its => toHex (outParF sep its)
    | _, _ => "bad-op"
  | "c08.seqf", [sep, term, .list (.atom "items" :: its)] =>
    match parseSep sep, term.bytes?, its.mapM parseItem with
    | some sep, some term, some its => toHex (outSeqF sep term its)
    | _, _, _ => "bad-op"
  | "c08.parse", [.list (.atom "lines" :: ls)] =>
    match ls.mapM parseLine with
    | some ls =>
      let (blocks, gaps, stray, trailing) := parse ls
      let bs := " ".intercalate (blocks.map fun pb => s!"{pb.1}:{pb.2.length}")
      s!"blocks [{bs}] gaps [{natsToStr gaps}] stray {stray} {trailing}"
    | none => "bad-op"
  | "c08.parseh", [.list (.atom "lines" :: ls)] =>
    match ls.mapM parseHLine with
    | some ls =>
      let (blocks, gaps, stray, trailing, bad) := parseH ls
      let bs := " ".intercalate (blocks.map fun pb => s!"{pb.1}:{pb.2.length}")
      s!"blocks [{bs}] gaps [{natsToStr gaps}] stray {stray} {trailing} bad {if bad then 1 else 0}"
    | none => "bad-op"
  | "c08.seqb", [sep, term, .list (.atom "items" :: its)] =>
    match parseSep sep, term.bytes?, its.mapM parseItem with
    | some sep, some term, some its => toHex (outSeqB sep term its)
    | _, _, _ => "bad-op"
  | "c08.files", [bl] =>
    match parseBlocks bl with
    | some bl => toHex (outFilesPar bl)
    | none => "bad-op"
  | "c08.threads", [s, o, low, avail] =>
    match s.bool?, o.bool?, (match low with | .atom "-" => some none | x => (x.nat?).map some), avail.nat? with
    | some s, some o, some low, some avail => toString (threads s o low avail)
    | _, _, _, _ => "bad-op"
  | "c08.filesep", [mode, heading, ctx, sep] =>
    match (match mode with | .atom "standard" => some OutMode.standard | .atom "other" => some OutMode.other | _ => none),
          heading.bool?, ctx.bool?, parseSep sep with
    | some mode, some h, some c, some sep => showSep (fileSeparator mode h c sep)
    | _, _, _, _ => "bad-op"
  | "c08.guard", [sep, term] =>
    match parseSep sep, term.bytes? with
    | some sep, some term => if sep == none || term == [10] then "1" else "0"
    | _, _ => "bad-op"
  | _, _ => "bad-op"

end RgVerif.Driver.C08
