import RgVerif.Model.Sx
namespace RgVerif.Driver.C05
open RgVerif

/-- Request handler of property C05: `cmd` is the first token of the line, `args` the rest. -/
def handle (cmd : String) (args : List Sx) : String :=
  match cmd, args with
  | _, _ => "bad-op"

end RgVerif.Driver.C05
