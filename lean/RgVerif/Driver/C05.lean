import RgVerif.Model.Sx
import RgVerif.Model.IgnoreDir
import RgVerif.Spec.Precedence
namespace RgVerif.Driver.C05
open RgVerif RgVerif.Glob RgVerif.Gitignore RgVerif.IgnoreDir

def parseLineSx : Sx → Option (List Nat)
  | .list (.atom "l" :: cps) => cps.mapM Sx.nat?
  | _ => none

def parseLines (xs : List Sx) : Option (List (List Nat)) := xs.mapM parseLineSx

def mkGi (ci : Bool) (root : Bytes) (lines : List (List Nat)) : Gi :=
  { root := root, globs := buildGlobs ci lines }

def parseTok : Sx → Option FlagTok
  | .atom "h1" => some (.hidden true) | .atom "h0" => some (.hidden false)
  | .atom "n1" => some (.noIgnore true) | .atom "n0" => some (.noIgnore false)
  | .atom "d1" => some (.noIgnoreDot true) | .atom "d0" => some (.noIgnoreDot false)
  | .atom "e1" => some (.noIgnoreExclude true) | .atom "e0" => some (.noIgnoreExclude false)
  | .atom "f1" => some (.noIgnoreFiles true) | .atom "f0" => some (.noIgnoreFiles false)
  | .atom "g1" => some (.noIgnoreGlobal true) | .atom "g0" => some (.noIgnoreGlobal false)
  | .atom "p1" => some (.noIgnoreParent true) | .atom "p0" => some (.noIgnoreParent false)
  | .atom "v1" => some (.noIgnoreVcs true) | .atom "v0" => some (.noIgnoreVcs false)
  | .atom "r1" => some (.noRequireGit true) | .atom "r0" => some (.noRequireGit false)
  | .atom "u" => some .unrestricted
  | _ => none

/-- `-g` globs: `(l …)` plain, `(lg …)` under `--glob-case-insensitive`, `(li …)` given with `--iglob`;
the list is in command-line order -/
def parseOvGlob : Sx → Option (Nat × List Nat)
  | .list (.atom "l" :: cps) => do pure (0, ← cps.mapM Sx.nat?)
  | .list (.atom "lg" :: cps) => do pure (1, ← cps.mapM Sx.nat?)
  | .list (.atom "li" :: cps) => do pure (2, ← cps.mapM Sx.nat?)
  | _ => none

def ovGlobs (gs : List (Nat × List Nat)) : List GiGlob :=
  gs.filterMap fun (k, l) => match addLine (k != 0) l with
    | .glob g => some g
    | _ => none

/-- `hiargs.rs::globs`: the globs are added in command-line order, whichever flag gave them (`glob_order`); before
the repair every `-g` glob was added first and every `--iglob` glob after them -/
def ovModel (root : Bytes) (gs : List (Nat × List Nat)) : Gi :=
  { root := root, globs := ovGlobs gs }

/-- the documentation: "the glob given later in the command line takes precedence" -/
def ovSpec (root : Bytes) (gs : List (Nat × List Nat)) : Gi := { root := root, globs := ovGlobs gs }

def parseFlags (s : String) : Option Flags :=
  match s.toList.map (· == '1') with
  | [h, d, e, f, g, p, v, r] => some ⟨h, d, e, f, g, p, v, r⟩
  | _ => none

structure DirEntry where
  abs : Bytes
  dotGit : Bool
  rg : List (List Nat)
  ig : List (List Nat)
  gi : List (List Nat)
  ex : List (List Nat)

def parseDir : Sx → Option DirEntry
  | .list [.atom "d", p, g, .list (.atom "rg" :: a), .list (.atom "ig" :: b), .list (.atom "gi" :: c),
           .list (.atom "ex" :: d)] => do
    pure { abs := (← p.bytes?), dotGit := (← g.bool?), rg := (← parseLines a), ig := (← parseLines b),
           gi := (← parseLines c), ex := (← parseLines d) }
  | _ => none

def filesOf (ci : Bool) (tab : List DirEntry) (abs : Bytes) : DirFiles :=
  match tab.find? (fun e => e.abs == abs) with
  | some e => { dir := abs, custom := mkGi ci [] e.rg, ignore := mkGi ci [] e.ig,
                gitignore := mkGi ci [] e.gi, exclude := mkGi ci [] e.ex, dotGit := e.dotGit }
  | none => { dir := abs, custom := Gi.empty, ignore := Gi.empty, gitignore := Gi.empty,
              exclude := Gi.empty, dotGit := false }

def parseType : Sx → Option (Bool × Glob)
  | .list (.atom "t" :: neg :: cps) => do
    let neg ← neg.bool?
    let cs ← cps.mapM Sx.nat?
    let o : Glob.Opts := { ci := false, ls := true, be := true, ea := false }
    match parse o cs with
    | .ok toks => pure (neg, { opts := o, tokens := toks })
    | .error _ => none
  | _ => none

def handle (cmd : String) (args : List Sx) : String :=
  match cmd, args with
  | "c05.walk", [.list [.atom "flags", .atom fl], .list [.atom "ci", ci], .list [.atom "cwd", cwd],
                 .list (.atom "global" :: gl), .list (.atom "igfiles" :: igf), .list (.atom "globs" :: globs),
                 .list (.atom "types" :: tys), .list [.atom "typessel", tsel],
                 .list [.atom "root", rg, ra], .list (.atom "dirs" :: dirs), .list (.atom "entries" :: ents)] =>
    match parseFlags fl, ci.bool?, cwd.bytes?, parseLines gl,
          igf.mapM (fun x => match x with | .list (.atom "f" :: ls) => parseLines ls | _ => none),
          globs.mapM parseOvGlob, tys.mapM parseType, tsel.bool?, rg.bytes?, ra.bytes?, dirs.mapM parseDir,
          ents.mapM (fun e => match e with
            | .list (d :: comps) => do pure ((← d.bool?), (← comps.mapM Sx.bytes?))
            | _ => none) with
    | some fl, some ci, some cwd, some gl, some igf, some globs, some tys, some tsel, some rg, some ra,
      some dirs, some ents =>
      -- `WalkBuilder::add_ignore` builds the `--ignore-file` matchers with a fresh `GitignoreBuilder`, i.e. always
      -- case-sensitively, whatever `--ignore-file-case-insensitive` says (`xci` = false); the documented reading
      -- ("process ignore files case insensitively") applies the flag to them too (`xci` = ci)
      let mk (ov : Gi) (xci : Bool) : Matchers :=
        { overrides := ov, overrideWhitelists := (ov.globs.filter (fun g => !g.isWhitelist)).length,
          types := tys, typesSelected := tsel,
          explicit := if useIgnoreFiles fl then igf.map (mkGi xci []) else [],
          global := mkGi ci [] gl }
      let w : World := { opts := walkOpts fl, m := mk (ovModel cwd globs) false, rootGiven := rg, rootAbs := ra,
                         files := filesOf ci dirs }
      -- the model; the spec (all three repairs); the model with exactly one repair: re-basing, override order,
      -- case folding of --ignore-file files
      let wspec : World := { w with m := mk (ovSpec cwd globs) ci, fixRebase := true }
      let wr : World := { w with fixRebase := true }
      let wo : World := { w with m := mk (ovSpec cwd globs) false }
      let wx : World := { w with m := mk (ovModel cwd globs) ci }
      String.ofList (ents.flatMap fun (d, comps) =>
        [w, wspec, wr, wo, wx].map fun v => if entryVisited v comps d then '1' else '0')
    | _, _, _, _, _, _, _, _, _, _, _, _ => "bad-op"
  | "c05.flags", [.list (.atom "toks" :: ts)] =>
    match ts.mapM parseTok with
    | some ts =>
      let f := foldToks ts
      String.ofList ([f.hidden, f.no_ignore_dot, f.no_ignore_exclude, f.no_ignore_files, f.no_ignore_global,
        f.no_ignore_parent, f.no_ignore_vcs, f.no_require_git].map fun b => if b then '1' else '0')
    | none => "bad-op"
  | _, _ => "bad-op"

end RgVerif.Driver.C05
