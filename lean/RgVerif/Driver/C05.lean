import RgVerif.Model.Sx
import RgVerif.Model.IgnoreDir
import RgVerif.Spec.Precedence
namespace RgVerif.Driver.C05
open RgVerif RgVerif.Glob RgVerif.Gitignore RgVerif.IgnoreDir

def parseLineSx : Sx → Option (List Nat)
  | .list (.atom "l" :: cps) => cps.mapM Sx.nat?
  | _ => none

def parseLines (xs : List Sx) : Option (List (List Nat)) := xs.mapM parseLineSx

def mkGi (ci : Bool) (root : Bytes) (lines : List (List Nat)) : Gi :=
  { root := root, globs := buildGlobs ci lines }

def parseFlags (s : String) : Option Flags :=
  match s.toList.map (· == '1') with
  | [h, d, e, f, g, p, v, r] => some ⟨h, d, e, f, g, p, v, r⟩
  | _ => none

structure DirEntry where
  abs : Bytes
  dotGit : Bool
  rg : List (List Nat)
  ig : List (List Nat)
  gi : List (List Nat)
  ex : List (List Nat)

def parseDir : Sx → Option DirEntry
  | .list [.atom "d", p, g, .list (.atom "rg" :: a), .list (.atom "ig" :: b), .list (.atom "gi" :: c),
           .list (.atom "ex" :: d)] => do
    pure { abs := (← p.bytes?), dotGit := (← g.bool?), rg := (← parseLines a), ig := (← parseLines b),
           gi := (← parseLines c), ex := (← parseLines d) }
  | _ => none

def filesOf (ci : Bool) (tab : List DirEntry) (abs : Bytes) : DirFiles :=
  match tab.find? (fun e => e.abs == abs) with
  | some e => { dir := abs, custom := mkGi ci [] e.rg, ignore := mkGi ci [] e.ig,
                gitignore := mkGi ci [] e.gi, exclude := mkGi ci [] e.ex, dotGit := e.dotGit }
  | none => { dir := abs, custom := Gi.empty, ignore := Gi.empty, gitignore := Gi.empty,
              exclude := Gi.empty, dotGit := false }

def parseType : Sx → Option (Bool × Glob)
  | .list (.atom "t" :: neg :: cps) => do
    let neg ← neg.bool?
    let cs ← cps.mapM Sx.nat?
    let o : Glob.Opts := { ci := false, ls := true, be := true, ea := false }
    match parse o cs with
    | .ok toks => pure (neg, { opts := o, tokens := toks })
    | .error _ => none
  | _ => none

def handle (cmd : String) (args : List Sx) : String :=
  match cmd, args with
  | "c05.walk", [.list [.atom "flags", .atom fl], .list [.atom "ci", ci], .list [.atom "cwd", cwd],
                 .list (.atom "global" :: gl), .list (.atom "igfiles" :: igf), .list (.atom "globs" :: globs),
                 .list (.atom "types" :: tys), .list [.atom "typessel", tsel],
                 .list [.atom "root", rg, ra], .list (.atom "dirs" :: dirs), .list (.atom "entries" :: ents)] =>
    match parseFlags fl, ci.bool?, cwd.bytes?, parseLines gl,
          igf.mapM (fun x => match x with | .list (.atom "f" :: ls) => parseLines ls | _ => none),
          parseLines globs, tys.mapM parseType, tsel.bool?, rg.bytes?, ra.bytes?, dirs.mapM parseDir,
          ents.mapM (fun e => match e with
            | .list (d :: comps) => do pure ((← d.bool?), (← comps.mapM Sx.bytes?))
            | _ => none) with
    | some fl, some ci, some cwd, some gl, some igf, some globs, some tys, some tsel, some rg, some ra,
      some dirs, some ents =>
      let ov := mkGi false cwd globs
      let m : Matchers :=
        { overrides := ov, overrideWhitelists := (ov.globs.filter (fun g => !g.isWhitelist)).length,
          types := tys, typesSelected := tsel,
          explicit := if useIgnoreFiles fl then igf.map (mkGi ci []) else [],
          global := mkGi ci [] gl }
      let w : World := { opts := walkOpts fl, m := m, rootGiven := rg, rootAbs := ra, files := filesOf ci dirs }
      let wfix : World := { w with fixRebase := true }
      String.ofList (ents.flatMap fun (d, comps) =>
        [if entryVisited w comps d then '1' else '0', if entryVisited wfix comps d then '1' else '0'])
    | _, _, _, _, _, _, _, _, _, _, _, _ => "bad-op"
  | _, _ => "bad-op"

end RgVerif.Driver.C05
