import RgVerif.Model.Sx
import RgVerif.Model.ParWalk
/-
Driver of C07.  The harness serialises the real worker threads with the `verif-hooks` yield hook and
reports, for every *coarse* step (one worker running from one yield point to the next), the worker,
and — when the step was a successful `Stack::steal` round — the victim and the batch size it
observed.  `c07.run` replays that schedule in the model with `stepFn` (a coarse step is a fixed
sequence of fine model steps of the same worker) and answers, per coarse step, the yield point the
model predicts next for that worker, the deque lengths and the labels visited.
-/
namespace RgVerif.Driver.C07
open RgVerif RgVerif.ParWalk

partial def parseTree : Sx → Option Tree
  | .list (l :: ks) => do
    let l ← l.nat?
    let ks ← ks.mapM parseTree
    pure (.node [l] ks)
  | _ => none

/-- Name of the yield point a worker is parked at (`-` for program points without a hook). -/
def yieldName : Pc → String
  | .recv _ => "pop"
  | .steal _ _ => "steal"
  | .activate _ => "act"
  | .check _ => "isq"
  | .hold _ => "-"
  | .running (_ :: _) => "push"
  | .running [] => "-"
  | .setQuit => "setq"
  | .deact => "deact"
  | .sleep => "sleep"
  | .sendQuit _ => "push"
  | .exiting _ => "exit"
  | .exited _ => "done"

/-- Run through the program points that have no yield hook (`visit`, end of `run_one`). -/
def settle (n w : Nat) (quitAt : List Nat) : Nat → State → Option State
  | 0, s => some s
  | fuel + 1, s =>
    match s.pc w with
    | .hold _ =>
      let a := if quitAt.contains s.visited.length then Act.visitQuit else Act.visitCont
      (stepFn n s w a).bind (settle n w quitAt fuel)
    | .running [] => (stepFn n s w .go).bind (settle n w quitAt fuel)
    | _ => some s

/-- A whole `Stack::steal` round: fail on the victims before `v`, then take `k` from `v`;
without observation every attempt fails. -/
def stealRound (n w : Nat) (obs : Option (Nat × Nat)) : Nat → State → Option State
  | 0, _ => none
  | fuel + 1, s =>
    match s.pc w with
    | .steal _ [] => if obs.isNone then stepFn n s w .go else none
    | .steal _ (v :: _) =>
      match obs with
      | some (v', k) =>
        if v = v' then stepFn n s w (.stealOk k)
        else (stepFn n s w .stealFail).bind (stealRound n w obs fuel)
      | none => (stepFn n s w .stealFail).bind (stealRound n w obs fuel)
    | _ => none

/-- One coarse step of worker `w`. -/
def coarse (n w : Nat) (obs : Option (Nat × Nat)) (quitAt : List Nat) (s : State) : Option State :=
  match s.pc w with
  | .steal _ _ => (stealRound n w obs (n + 2) s).bind (settle n w quitAt 4)
  | .exited _ => none
  | _ => if obs.isSome then none else (stepFn n s w .go).bind (settle n w quitAt 4)

def lensStr (n : Nat) (s : State) : String :=
  ",".intercalate ((List.range n).map fun w => toString (s.dq w).length)

def labelsStr (ls : List Label) : String :=
  if ls.isEmpty then "-" else ",".intercalate (ls.map fun l => "/".intercalate (l.map toString))

def parseStep : Sx → Option (Nat × Option (Nat × Nat))
  | .list [w] => do pure ((← w.nat?), none)
  | .list [w, v, k] => do pure ((← w.nat?), some ((← v.nat?), (← k.nat?)))
  | _ => none

def runCoarse (n : Nat) (quitAt : List Nat) :
    List (Nat × Option (Nat × Nat)) → Nat → State → List String → (List String × State × Option Nat)
  | [], _, s, acc => (acc.reverse, s, none)
  | (w, obs) :: rest, i, s, acc =>
    match coarse n w obs quitAt s with
    | none => (acc.reverse, s, some i)
    | some s' =>
      let ev := s'.visited.drop s.visited.length
      let line := s!"{yieldName (s'.pc w)}/{lensStr n s'}/{labelsStr ev}/{s'.active}/{if s'.quitNow then 1 else 0}"
      runCoarse n quitAt rest (i + 1) s' (line :: acc)

def handle (cmd : String) (args : List Sx) : String :=
  match cmd, args with
  | "c07.run", [.list [.atom "threads", n], .list (.atom "quit" :: qs), .list (.atom "roots" :: rs),
               .list (.atom "sched" :: ss)] =>
    match n.nat?, rs.mapM parseTree, ss.mapM parseStep with
    | some n, some roots, some sched =>
      -- visit indices at which the visitor answers Quit (`-` = never)
      let quitAt : Option (List Nat) :=
        match qs with
        | [.atom "-"] => some []
        | xs => xs.mapM Sx.nat?
      match quitAt with
      | none => "bad-op"
      | some quitAt =>
        if n = 0 then "bad-op" else
        let s0 := init n roots
        let (lines, s, stuck) := runCoarse n quitAt sched 0 s0 []
        let body := " ".intercalate lines
        let tail :=
          match stuck with
          | some i =>
            let w : Nat := match sched[i]? with
              | some (w, _) => w
              | none => 0
            s!"stuck {i} {yieldName (s.pc w)}"
          | none => "ok"
        s!"{body} | {tail} | visited {labelsStr s.visited} | exited {if allExitedB n s then 1 else 0} | quit {if s.quitNow then 1 else 0} | mu0 {mu n s0} | mu {mu n s} | active {s.active} | init {lensStr n s0}"
    | _, _, _ => "bad-op"
  | "c07.mu", [.list [.atom "threads", n], .list (.atom "roots" :: rs)] =>
    match n.nat?, rs.mapM parseTree with
    | some n, some roots => toString (mu n (init n roots))
    | _, _ => "bad-op"
  | _, _ => "bad-op"

end RgVerif.Driver.C07
