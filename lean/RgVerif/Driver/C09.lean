import RgVerif.Driver.PrinterProto
namespace RgVerif.Driver.C09
open RgVerif RgVerif.Matcher RgVerif.Replace RgVerif.Json RgVerif.Printer RgVerif.PrinterSpec
open RgVerif.Driver.PrinterProto

/-- continue flags of the Standard sink, event by event (the model's own `stdEvent`) -/
def stdTrace (sc : SCfg) (c : StdCfg) (find : Oracle) : StdState → List Event → List Bool → StdState × List Bool
  | st, [], acc => (st, acc.reverse)
  | st, ev :: rest, acc =>
    let (st', cont) := stdEvent sc c find st ev
    if cont then stdTrace sc c find st' rest (true :: acc) else (st', (false :: acc).reverse)

/-- the spec's output for the events the sink processed, and whether every one of them satisfies the guard -/
def specTrace (sc : SCfg) (c : StdCfg) (find : Oracle) : StdState → List Event → Bytes → Bool → Bytes × Bool
  | _, [], acc, g => (acc, g)
  | st, ev :: rest, acc, g =>
    let w := eventOutput sc c find st.count st.total ev
    let g := g && eventGuard sc c find ev
    let (st', cont) := stdEvent sc c find st ev
    if cont then specTrace sc c find st' rest (acc ++ w) g else (acc ++ w, g)

def jsonTrace (sc : SCfg) (jc : JsonCfg) (find : Oracle) : JsonState → List Event → List Bool → List Bool
  | _, [], acc => acc.reverse
  | st, ev :: rest, acc =>
    let (st', cont) := jsonEvent sc jc find st ev
    if cont then jsonTrace sc jc find st' rest (true :: acc) else (false :: acc).reverse

def parseJC : Sx → Option JsonCfg
  | .list (.atom "jc" :: fs) => do
    let max ← (Sx.field1 fs "max") >>= optOf Sx.nat?
    let abe ← (Sx.field1 fs "abe") >>= Sx.bool?
    let path ← (Sx.field1 fs "path") >>= optOf Sx.bytes?
    pure { maxMatches := max, alwaysBeginEnd := abe, path }
  | _ => none

def parseShape : Sx → Option Shape
  | .list [.atom "shape", p, l, c, o, ps, s] => do
    pure { hasPath := (← p.bool?), hasLineNo := (← l.bool?), hasCol := (← c.bool?), hasOff := (← o.bool?)
         , pathSep := (← ps.nat?), sep := (← s.nat?) }
  | _ => none

def showOptBytes : Option Bytes → String
  | none => "~"
  | some b => toHex b

def handle (cmd : String) (args : List Sx) : String :=
  match cmd, args with
  | "c09.decimal", [n] =>
    match n.nat? with
    | some n => toHex (decimal n)
    | none => "bad-op"
  | "c09.parsenat", [b] =>
    match b.bytes? with
    | some b => toString (parseNat b)
    | none => "bad-op"
  | "c09.base64", [b] =>
    match b.bytes? with
    | some b => toHex (base64 b)
    | none => "bad-op"
  | "c09.unbase64", [b] =>
    match b.bytes? with
    | some b => (match unbase64 b with | some r => toHex r | none => "none")
    | none => "bad-op"
  | "c09.utf8", [b] =>
    match b.bytes? with
    | some b => if validUtf8 b then "1" else "0"
    | none => "bad-op"
  | "c09.data", [b] =>
    match b.bytes? with
    | some b =>
      let d := encodeData b
      -- model encoding, and the spec's reading of it
      showData d ++ " " ++ (match decodeData d with | some r => toHex r | none => "none")
    | none => "bad-op"
  | "c09.parse", [sh, b] =>
    match parseShape sh, b.bytes? with
    | some sh, some b =>
      match parseRecord sh b with
      | some (p, ln, col, off, text) => s!"{showOptBytes p} {optNat ln} {optNat col} {optNat off} {toHex text}"
      | none => "none"
    | _, _ => "bad-op"
  | "c09.cuts", [sc, bufs, evs] =>
    match parseSC sc with
    | none => "bad-op"
    | some sc =>
      match parseBufs bufs with
      | none => "bad-op"
      | some bufs =>
        match parseEvs sc bufs evs with
        | some evs => cutsOf sc evs
        | none => "bad-op"
  | "c09.standard", [sc, std, .list [.atom "w", cnt, tot], bufs, evs, bc] =>
    match parseSC sc, parseStd std, cnt.nat?, tot.nat?, bc.nat? with
    | some sc, some c, some cnt, some tot, some bc =>
      match parseBufs bufs with
      | none => "bad-op"
      | some bufs =>
        match parseEvs sc bufs evs with
        | none => "bad-op"
        | some pevs =>
          let find := oracleOf pevs
          let evs := pevs.map (·.1)
          let w : StdState := { count := cnt, total := tot }
          let fin := stdSearch sc c find w evs bc
          -- per-event trace with the same begin
          let st0 : StdState := { w with stats := if c.stats then some {} else none }
          let (st1, go) := stdBegin c st0
          let (st2, conts) := if go then stdTrace sc c find st1 evs [] else (st1, [])
          let (spec, guard) := if go then specTrace sc c find st1 evs [] true else ([], true)
          if st2.out != fin.out then "driver-inconsistent"
          else
            s!"out={toHex fin.out} begin={if go then 1 else 0} conts={showBools conts}- mc={fin.matchCount} " ++
            s!"stats={showOptStats fin.stats} spec={toHex spec} guard={if guard then 1 else 0}"
    | _, _, _, _, _ => "bad-op"
  | "c09.json", [sc, jc, bufs, evs, bc] =>
    match parseSC sc, parseJC jc, bc.nat? with
    | some sc, some jc, some bc =>
      match parseBufs bufs with
      | none => "bad-op"
      | some bufs =>
        match parseEvs sc bufs evs with
        | none => "bad-op"
        | some pevs =>
          let find := oracleOf pevs
          let evs := pevs.map (·.1)
          let fin := jsonSearch sc jc find evs bc
          let (st1, go) := jsonBegin jc {}
          let conts := if go then jsonTrace sc jc find st1 evs [] else []
          s!"panicked={if fin.panicked then 1 else 0} begin={if go then 1 else 0} conts={showBools conts}- " ++
          s!"msgs={";".intercalate (fin.msgs.map showMsg)}"
    | _, _, _ => "bad-op"
  | _, _ => "bad-op"

end RgVerif.Driver.C09
