import RgVerif.Spec.ReplaceAll
import RgVerif.Model.Replace
import RgVerif.Driver.C19Multi
namespace RgVerif.Driver.C19
open RgVerif RgVerif.Interp RgVerif.ReplaceSpec RgVerif.Matcher RgVerif.Replace

def parseLT : Sx → Option LineTerm
  | .atom "lf" => some (.byte 10)
  | .atom "nul" => some (.byte 0)
  | .atom "crlf" => some .crlf
  | _ => none

def parseNames (ns : List Sx) : Option (List (Bytes × Nat)) :=
  ns.mapM fun n =>
    match n with
    | .list [a, b] => do pure ((← a.bytes?), (← b.nat?))
    | _ => none

def parseCaps : Sx → Option (Option Caps)
  | .atom "~" => some none
  | .list (.atom "caps" :: gs) => do
    let groups ← gs.mapM fun g =>
      match g with
      | .atom "~" => some (none : Option Span)
      | .list [a, b] => do pure (some ⟨(← a.nat?), (← b.nat?)⟩)
      | _ => none
    pure (some ⟨groups⟩)
  | _ => none

def showSpans (xs : List Span) : String :=
  " ".intercalate (xs.map fun sp => s!"{sp.s}:{sp.e}")

/-- groups: `(groups g0 g1 …)` with `~` for a group that did not participate;
names: `(names (hexname idx) …)`. -/
def parseEnv (gs : List Sx) (ns : List Sx) : Option Env := do
  let groups ← gs.mapM fun g =>
    match g with
    | .atom "~" => some (none : Option Bytes)
    | x => (x.bytes?).map some
  let names ← ns.mapM fun n =>
    match n with
    | .list [a, b] => do pure ((← a.bytes?), (← b.nat?))
    | _ => none
  pure { group := fun i => (groups[i]?).join
       , nameIdx := fun nm => (names.find? (fun p => p.1 == nm)).map (·.2) }

def handle (cmd : String) (args : List Sx) : String :=
  match cmd, args with
  | "c19.interp", [t, .list (.atom "groups" :: gs), .list (.atom "names" :: ns)] =>
    match t.bytes?, parseEnv gs ns with
    | some t, some env => toHex (interpolate env t)
    | _, _ => "bad-op"
  | "c19.spec", [t, .list (.atom "groups" :: gs), .list (.atom "names" :: ns)] =>
    match t.bytes?, parseEnv gs ns with
    | some t, some env => toHex (expand env t)
    | _, _ => "bad-op"
  | "c19.guard", [t] =>
    match t.bytes? with
    | some t => if braceOk t then "1" else "0"
    | none => "bad-op"
  | "c19.trim", [lt, b, s, e] =>
    match parseLT lt, b.bytes?, s.nat?, e.nat? with
    | some lt, some b, some s, some e => toString (trimLineTerminator lt b s e)
    | _, _, _, _ => "bad-op"
  | "c19.print", [lt, only, pm, hay, rs, re, t, .list (.atom "names" :: ns), .list (.atom "table" :: tab)] =>
    match parseLT lt, only.bool?, pm.bool?, hay.bytes?, rs.nat?, re.nat?, t.bytes?, parseNames ns, tab.mapM parseCaps with
    | some lt, some only, some pm, some hay, some rs, some re, some t, some names, some tab =>
      let st := replaceAllLine lt (fun _ pos => (tab[pos]?).join) names hay rs re t
      -- records as `col:hex` (col `-` when the line went through sink_fast)
      " ".intercalate ((printRecords lt only pm (slice hay rs re) st).map fun r =>
        optNat r.col ++ ":" ++ toHex r.text)
    | _, _, _, _, _, _, _, _, _ => "bad-op"
  | "c19.sink", [lt, only, pm, inv, kind, hay, rs, re, t, .list (.atom "names" :: ns), .list (.atom "table" :: tab)] =>
    -- one delivered line (matched or context callback); for a context line of an inverted search the table is
    -- the matcher's answers on that line alone (cut at its content end), as `StandardSink::context` asks it
    let kind? : Option LineKind := match kind with
      | .atom "m" => some .matched
      | .atom "c" => some .context
      | _ => none
    match parseLT lt, only.bool?, pm.bool?, inv.bool?, kind?, hay.bytes?, rs.nat?, re.nat?, t.bytes?, parseNames ns, tab.mapM parseCaps with
    | some lt, some only, some pm, some inv, some kind, some hay, some rs, some re, some t, some names, some tab =>
      " ".intercalate ((sinkLine lt only pm inv kind (fun _ pos => (tab[pos]?).join) names hay rs re t).map fun r =>
        optNat r.col ++ ":" ++ toHex r.text)
    | _, _, _, _, _, _, _, _, _, _, _ => "bad-op"
  | "c19.replace", [lt, hay, rs, re, t, .list (.atom "names" :: ns), .list (.atom "table" :: tab)] =>
    match parseLT lt, hay.bytes?, rs.nat?, re.nat?, t.bytes?, parseNames ns, tab.mapM parseCaps with
    | some lt, some hay, some rs, some re, some t, some names, some tab =>
      -- the table was computed by the real matcher on the haystack the model cut
      let st := replaceAllLine lt (fun _ pos => (tab[pos]?).join) names hay rs re t
      (toHex st.dst ++ " " ++ showSpans st.spans).trimAscii.toString
    | _, _, _, _, _, _, _ => "bad-op"
  | _, _ =>
    -- multi-line replacement ops (`c19.ml…`) are served by the multi-line model's own handler
    if cmd.startsWith "c19.ml" then RgVerif.Driver.C19Multi.handle cmd args else "bad-op"

end RgVerif.Driver.C19
