import RgVerif.Driver.SearcherCommon
import RgVerif.Spec.MultiLine
import RgVerif.Driver.C02
namespace RgVerif.Driver.C03
open RgVerif RgVerif.Driver.SearcherCommon

/-- `c03.mlspec cfg matcher inp` → the grep model for the multi-line strategy (`mlSpec`: context windows, separators,
numbering and byte count of the grep model over the lines covered by the matches; every block one callback). -/
def handleMlSpec (args : List Sx) : String :=
  match args with
  | [cfg, m, inp] =>
    match parseCfg cfg, parseMatcher m, inp.bytes? with
    | some cfg, some mk, some inp =>
      let r0 := showEvents (MLSpec.mlSpec cfg (mk inp false) inp)
      let r1 := showEvents (MLSpec.mlSpec cfg (mk inp true) inp)
      if r0 == r1 then r0 ++ "|ok" else "table-miss"
    | _, _, _ => "bad-op"
  | _ => "bad-op"

/-- Request handler of property C03: `cmd` is the first token of the line, `args` the rest.
`c03.model cfg matcher inp sink` (M), `c03.spec cfg selbits inp` (S), `c03.lines lt inp`, `c03.path cfg matcher`, `c03.mlspec cfg matcher inp`. -/
def handle (cmd : String) (args : List Sx) : String :=
  match cmd with
  | "c03.model" => handleModel args
  | "c03.spec" => handleSpec args
  | "c03.lines" => handleLines args
  | "c03.path" => handlePath args
  | "c03.mlspec" => handleMlSpec args
  -- `c03.rbl cfg matcher inp (script …) cap|- heap|- sink`: `Searcher::search_reader` in the model
  -- (`Model/ReadByLine.searchReader`, the subject of `Props/C03Reader.lean`); same request as `c02.rbl`
  | "c03.rbl" => RgVerif.Driver.C02.handle "c02.rbl" args
  | _ => "bad-op"

end RgVerif.Driver.C03
