import RgVerif.Driver.SearcherCommon
namespace RgVerif.Driver.C03
open RgVerif RgVerif.Driver.SearcherCommon

/-- Request handler of property C03: `cmd` is the first token of the line, `args` the rest.
`c03.model cfg matcher inp sink` (M), `c03.spec cfg selbits inp` (S), `c03.lines lt inp`, `c03.path cfg matcher`. -/
def handle (cmd : String) (args : List Sx) : String :=
  match cmd with
  | "c03.model" => handleModel args
  | "c03.spec" => handleSpec args
  | "c03.lines" => handleLines args
  | "c03.path" => handlePath args
  | _ => "bad-op"

end RgVerif.Driver.C03
