import RgVerif.Driver.C02
import RgVerif.Model.BinaryOut
namespace RgVerif.Driver.C14
open RgVerif RgVerif.BinaryOut

def parseDet : Sx → Option Det
  | .atom "none" => some .none
  | .atom "quit" => some .quit
  | .atom "convert" => some .convert
  | _ => none

def showDet : Det → String
  | .none => "none"
  | .quit => "quit"
  | .convert => "convert"

def parseMode : Sx → Option BinaryMode
  | .atom "auto" => some .auto
  | .atom "binary" => some .searchAndSuppress
  | .atom "text" => some .asText
  | _ => none

/-- `(m off ln hex)`, `(c off ln hex)`, `(brk)`, `(bin off)` -/
def parseEv : Sx → Option Ev
  | .list [.atom "m", o, l, b] => do pure (.matched (← o.nat?) (← l.nat?) (← b.bytes?))
  | .list [.atom "c", o, l, b] => do pure (.context (← o.nat?) (← l.nat?) (← b.bytes?))
  | .list [.atom "brk"] => some .ctxBreak
  | .list [.atom "bin", o] => do pure (.binaryData (← o.nat?))
  | _ => none

/-- Request handler of property C14. -/
def handle (cmd : String) (args : List Sx) : String :=
  match cmd, args with
  -- the roll buffer model (same as C02's, any binary mode)
  | "c14.lb", _ => RgVerif.Driver.C02.handle "c02.lb" args
  | "c14.spec", _ => RgVerif.Driver.C02.handle "c02.spec" args
  | "c14.lb2", _ => RgVerif.Driver.C02.handle "c02.lb2" args
  -- `c14.det <auto|binary|text> <nullData> <explicit>`: detection mode a file gets
  | "c14.det", [m, nd, ex] =>
    match parseMode m, nd.bool?, ex.bool? with
    | some m, some nd, some ex => showDet (chooseDet ex (fromLowArgs m nd))
    | _, _, _ => "bad-op"
  -- `c14.print <det> <path> (events …)`: bytes written by the standard printer
  | "c14.print", [d, path, .list (.atom "events" :: evs)] =>
    match parseDet d, path.bytes?, evs.mapM parseEv with
    | some d, some path, some evs => toHex (render path (stdRun d evs))
    | _, _, _ => "bad-op"
  -- `c14.count <det> <binOff|-> <n>`: official match count of the summary printer
  | "c14.count", [d, bo, n] =>
    match parseDet d, n.nat? with
    | some d, some n =>
      let bo := match bo with | .atom "-" => some none | x => (x.nat?).map some
      match bo with
      | some bo => toString (summaryCount d bo n)
      | none => "bad-op"
    | _, _ => "bad-op"
  | _, _ => "bad-op"

end RgVerif.Driver.C14
