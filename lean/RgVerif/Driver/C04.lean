import RgVerif.Model.Sx
import RgVerif.Model.Gitignore
import RgVerif.Model.GitignoreRead
import RgVerif.Spec.GitSpec
import RgVerif.Props.C04
namespace RgVerif.Driver.C04
open RgVerif RgVerif.Glob RgVerif.Gitignore

def errName : PErr → String
  | .unclosedClass => "UnclosedClass"
  | .invalidRange => "InvalidRange"
  | .unopenedAlternates => "UnopenedAlternates"
  | .unclosedAlternates => "UnclosedAlternates"
  | .nestedAlternates => "NestedAlternates"
  | .danglingEscape => "DanglingEscape"
  | .fuel => "Fuel"

def b01 (b : Bool) : String := if b then "1" else "0"

/-- `(l cp cp …)` -/
def parseLineSx : Sx → Option (List Nat)
  | .list (.atom "l" :: cps) => cps.mapM Sx.nat?
  | _ => none

/-- code points → bytes for printing (lines on the wire are ASCII or already valid scalars) -/
def cpHex (l : List Nat) : String := toHex (utf8Str l)

def showVerdict (globs : List GiGlob) : Verdict → String
  | .none => "n"
  | .ignore i => match globs[i]? with
    | some g => s!"i:{cpHex g.original}:{cpHex g.actual}"
    | none => "i:?"
  | .whitelist i => match globs[i]? with
    | some g => s!"w:{cpHex g.original}:{cpHex g.actual}"
    | none => "w:?"

/-- `(ign (d comphex…) (lines (l …) …))` or `(ign (d comphex…) (bytes hex))` entries → per directory the lines
ripgrep's reader hands to `add_line` (code points) and the lines git's reader produces (byte strings).  With
`lines` both sides get the same lines (the spec gets their UTF-8 bytes); with `bytes` each side reads the file
its own way (`Model.rgReadLines` = `GitignoreBuilder::add`, `GitSpec.readLines` = `add_patterns_from_buffer`). -/
def parseIgn2 (xs : List Sx) : Option (List (List Bytes × List (List Nat) × List (List Nat))) :=
  xs.mapM fun x =>
    match x with
    | .list [.atom "ign", .list (.atom "d" :: comps), .list (.atom "lines" :: ls)] => do
      let comps ← comps.mapM Sx.bytes?
      let ls ← ls.mapM parseLineSx
      pure (comps, ls, ls.map utf8Str)
    | .list [.atom "ign", .list (.atom "d" :: comps), .list [.atom "bytes", h]] => do
      let comps ← comps.mapM Sx.bytes?
      let content ← h.bytes?
      pure (comps, rgReadLines content, GitSpec.readLines content)
    | .list [.atom "ign", .list (.atom "d" :: comps), .list [.atom "bytes"]] => do
      let comps ← comps.mapM Sx.bytes?
      pure (comps, [], [])
    | _ => none

def lookupIgn (tab : List (List Bytes × List (List Nat))) (d : List Bytes) : List (List Nat) :=
  match tab.find? (fun e => e.1 == d) with
  | some e => e.2
  | none => []

def handle (cmd : String) (args : List Sx) : String :=
  match cmd, args with
  | "c04.line", [ci, l] =>
    match ci.bool?, parseLineSx l with
    | some ci, some l =>
      let rg := match addLine ci l with
        | .skip => "skip"
        | .err e => "err:" ++ errName e
        | .glob g => s!"glob:{b01 g.isWhitelist}{b01 g.isOnlyDir}:{cpHex g.original}:{cpHex g.actual}:{toHex (toRegex g.glob.opts g.glob.tokens)}"
      let git := match GitSpec.parsePat l with
        | none => "skip"
        | some p => s!"pat:{b01 p.negative}{b01 p.mustBeDir}{b01 p.noDir}:{cpHex p.text}"
      rg ++ " " ++ git ++ (if Props.C04.okFileLine ci l then " ok1" else " ok0")
    | _, _ => "bad-op"
  | "c04.hit", [ci, l, .list (d :: comps)] =>
    -- what ONE line contributes for one relative path, on ripgrep's side and on git's side (the two sides of
    -- `LineAgree`): `-` no hit, `i` ignore, `w` whitelist
    match ci.bool?, parseLineSx l, d.bool?, comps.mapM Sx.bytes? with
    | some ci, some l, some d, some comps =>
      let sh (o : Option Bool) : String := match o with
        | none => "-"
        | some true => "i"
        | some false => "w"
      sh (mHit ci l (joinPath comps) d) ++ sh (sHit ci l comps d)
    | _, _, _, _ => "bad-op"
  | "c04.file", [ci, root, .list (.atom "lines" :: ls), .list (.atom "paths" :: ps)] =>
    match ci.bool?, root.bytes?, ls.mapM parseLineSx,
          ps.mapM (fun p => match p with
            | .list [d, h] => do pure ((← d.bool?), (← h.bytes?))
            | _ => none) with
    | some ci, some root, some ls, some ps =>
      let globs := buildGlobs ci ls
      ";".intercalate (ps.map fun (d, p) => showVerdict globs (matchedPathOrAnyParents root globs p d)
                                             ++ "," ++ showVerdict globs (matched root globs p d))
    | _, _, _, _ => "bad-op"
  | "c04.tree", [ci, .list (.atom "igns" :: igs), .list (.atom "paths" :: ps)] =>
    match ci.bool?, parseIgn2 igs,
          ps.mapM (fun p => match p with
            | .list (d :: comps) => do pure ((← d.bool?), (← comps.mapM Sx.bytes?))
            | _ => none) with
    | some ci, some tab, some ps =>
      let ignM := lookupIgn (tab.map fun e => (e.1, e.2.1))
      let ignS := lookupIgn (tab.map fun e => (e.1, e.2.2))
      -- the guard of theorem C04_partial, evaluated with the theorem's own predicate; the theorem speaks about ONE
      -- list of lines per directory, so both readers must have produced the same lines
      let guard := tab.all fun e => e.2.1 == e.2.2 && e.2.1.all (Props.C04.okFileLine ci)
      (if guard then "g1 " else "g0 ") ++ String.ofList (ps.flatMap fun (d, comps) =>
        [if rgSkipped ci ignM comps d then '1' else '0',
         if GitSpec.gitIgnored ci ignS comps d then '1' else '0'])
    | _, _, _ => "bad-op"
  | _, _ => "bad-op"

end RgVerif.Driver.C04
