import RgVerif.Lemmas.ReadByLineGLines
import RgVerif.Lemmas.ReadByLineSlice
namespace RgVerif.Searcher
open RgVerif RgVerif.Matcher RgVerif.Lines RgVerif.GrepSpec

/-- glue two runs: the second one only happens when the first ran to its end -/
def LR.andThen (r1 : LR) (r2 : LR) : LR :=
  match r1.out with
  | .done => { r2 with evs := r1.evs ++ r2.evs }
  | _ => r1

theorem lineRun_append (cfg : Config) (m : MatcherI) (σ : Script) (xs ys : List Bytes) :
    ∀ (k off : Nat) (ln : Option Nat) (hm : Bool),
      lineRun cfg m σ k off ln hm (xs ++ ys) =
        (lineRun cfg m σ k off ln hm xs).andThen
          (lineRun cfg m σ (k + (lineRun cfg m σ k off ln hm xs).evs.length)
            (lineRun cfg m σ k off ln hm xs).endOff (lineRun cfg m σ k off ln hm xs).ln
            (lineRun cfg m σ k off ln hm xs).hm ys) := by
  induction xs with
  | nil => intro k off ln hm; simp [lineRun, LR.andThen]
  | cons l xs ih =>
    intro k off ln hm
    simp only [List.cons_append, lineRun]
    cases hle : lineEv cfg m off ln l with
    | none =>
      dsimp only
      split
      · simp [LR.andThen]
      · exact ih _ _ _ _
    | some ev =>
      dsimp only
      cases hσ : σ k with
      | err => simp [LR.andThen]
      | stop => simp [LR.andThen]
      | cont =>
        dsimp only
        split
        · simp [LR.andThen]
        · rw [ih]
          generalize lineRun cfg m σ (k + 1) (off + l.length) (ln.map (· + count l cfg.lineTerm.asByte))
              (hm || lineSel cfg m l) xs = r
          obtain ⟨evs, out, e, l', h'⟩ := r
          cases out <;> simp [LR.andThen, Nat.add_assoc, Nat.add_comm 1]

/-- the slow path is taken in every state as soon as it is taken in the initial one -/
theorem isLineByLineFast_false_all (cfg : Config) (m : MatcherI) (b : Bool)
    (h : isLineByLineFast cfg m (Core.new cfg b) = false) (st : Core) : isLineByLineFast cfg m st = false := by
  unfold isLineByLineFast at h ⊢
  by_cases hp : cfg.passthru = true
  · simp [hp]
  · simp only [hp, Bool.false_eq_true, if_false] at h ⊢
    by_cases h1 : (cfg.stopOnNonmatch && (st.hasMatched || cfg.invertMatch)) = true
    · simp [h1]
    · simp only [h1, Bool.false_eq_true, if_false]
      by_cases h0 : (cfg.stopOnNonmatch && ((Core.new cfg b).hasMatched || cfg.invertMatch)) = true
      · -- then stop_on_nonmatch && invert, contradiction with h1
        exfalso
        apply h1
        simp only [Core.new, Bool.false_or, Bool.and_eq_true] at h0
        simp [h0.1, h0.2]
      · simp only [h0, Bool.false_eq_true, if_false] at h
        exact h

/-- the answer of `Sink::finish` -/
def finRes : Resp → Res Unit
  | .err => .err
  | _ => .ok ()

/-- **The search without context lines, as a function of the lines and the sink script.** -/
def specRun (cfg : Config) (m : MatcherI) (σ : Script) (ls : List Bytes) : List Event × Res Unit :=
  match σ 0 with
  | .err => ([.begin], .err)
  | .stop => ([.begin, .finish 0 none], finRes (σ 1))
  | .cont =>
    match (lineRun cfg m σ 1 0 (ln0 cfg) false ls).out with
    | .err => (.begin :: (lineRun cfg m σ 1 0 (ln0 cfg) false ls).evs, .err)
    | _ =>
      (.begin :: (lineRun cfg m σ 1 0 (ln0 cfg) false ls).evs
          ++ [.finish (lineRun cfg m σ 1 0 (ln0 cfg) false ls).endOff none],
        finRes (σ (1 + (lineRun cfg m σ 1 0 (ln0 cfg) false ls).evs.length)))

theorem finish_events (σ : Script) (st : Core) (n : Nat) (bo : Option Nat) :
    (finish σ st n bo).1.events = st.events ++ [.finish n bo] ∧
    (finish σ st n bo).2 = finRes (σ st.events.length) := by
  unfold finish emit
  dsimp only
  cases σ st.events.length <;> exact ⟨rfl, rfl⟩

theorem matchByLineSlow_bufferG {cfg : Config} (m : MatcherI) (σ : Script) (h : NoCtx' cfg) (buf : Bytes) (st : Core)
    (ls : List Bytes) (hg : GoodLines cfg.lineTerm.asByte ls) (hfl : ls.flatten = buf)
    (hpos : st.pos = 0) (hllc : st.lastLineCounted = 0) (hacl : st.afterContextLeft = 0)
    (hbo : st.binaryByteOffset = none) :
    ∃ st', matchByLineSlow cfg m σ buf st =
        (st', (lineRun cfg m σ st.events.length st.absoluteByteOffset st.lineNumber st.hasMatched ls).out.res) ∧
      AfterG cfg buf 0 ls st st'
        (lineRun cfg m σ st.events.length st.absoluteByteOffset st.lineNumber st.hasMatched ls) := by
  unfold matchByLineSlow
  have hsteps : stepLines cfg.lineTerm.asByte buf st.pos buf.length = spansFrom 0 ls := by
    rw [hpos]
    have := stepLines_good (t := cfg.lineTerm.asByte) (buf := buf) [] ls hg buf.length
      (by simp [hfl]) (by simp [hfl])
    simpa using this
  rw [hsteps]
  have := slowLoop_linesG m σ buf h ls [] st (by simp [hfl]) (by simp [hllc]) hacl hbo
  simpa [lnAt_zero cfg buf st hllc] using this

/-- **The slice strategy without context lines, for every sink script, in closed form.** -/
theorem sliceByLine_specRun {cfg : Config} (m : MatcherI) (σ : Script) (h : NoCtx' cfg) (inp : Bytes)
    (hslow : isLineByLineFast cfg m (Core.new cfg true) = false)
    (ls : List Bytes) (hg : GoodLines cfg.lineTerm.asByte ls) (hfl : ls.flatten = inp) :
    (sliceByLine cfg m σ inp).events = (specRun cfg m σ ls).1 ∧
      (sliceByLine cfg m σ inp).result = (specRun cfg m σ ls).2 := by
  unfold sliceByLine specRun
  dsimp only
  have hb0 : begin σ (Core.new cfg true) = emit σ (Core.new cfg true) .begin := rfl
  rw [hb0]
  have hlen0 : (Core.new cfg true).events.length = 0 := rfl
  rcases emit_cases σ (Core.new cfg true) .begin with ⟨hσ, heq⟩ | ⟨hσ, heq⟩ | ⟨hσ, heq⟩
  · -- the search runs
    rw [hlen0] at hσ
    rw [heq, hσ]
    dsimp only
    generalize hc0 : ({ Core.new cfg true with events := (Core.new cfg true).events ++ [Event.begin] } : Core) = c0
    have c_ev : c0.events = [Event.begin] := by rw [← hc0]; rfl
    have c_bin : c0.binaryByteOffset = none := by rw [← hc0]; rfl
    rw [if_pos rfl, detectBinary_none h.hbin c_bin]
    dsimp only
    obtain ⟨st', hrun, hA⟩ := matchByLineSlow_bufferG m σ h inp c0 ls hg hfl (by rw [← hc0]; rfl)
      (by rw [← hc0]; rfl) (by rw [← hc0]; rfl) c_bin
    have hk : c0.events.length = 1 := by rw [c_ev]; rfl
    have habs : c0.absoluteByteOffset = 0 := by rw [← hc0]; rfl
    have hln : c0.lineNumber = ln0 cfg := by rw [← hc0]; rfl
    have hhm : c0.hasMatched = false := by rw [← hc0]; rfl
    rw [hk, habs, hln, hhm] at hrun hA
    generalize hr : lineRun cfg m σ 1 0 (ln0 cfg) false ls = r at hrun hA ⊢
    have hfast : isLineByLineFast cfg m c0 = false := isLineByLineFast_false_all cfg m true hslow c0
    -- the loop
    have hloop : sliceLoop cfg m σ inp (inp.length + 1) c0 =
        (if inp = [] then c0 else st', match r.out with | .err => Res.err | _ => Res.ok ()) := by
      by_cases hne : inp = []
      · subst hne
        have hls : ls = [] := by
          cases hg with
          | nil => rfl
          | last l hu => simp at hfl; exact absurd hfl hu.1
          | cons l ls' ht _ => simp at hfl; exact absurd hfl.1 ht.ne_nil
        subst hls
        simp only [lineRun] at hr
        rw [← hr]
        simp [sliceLoop]
      · simp only [hne, if_false]
        have hd : (List.drop c0.pos inp).isEmpty = false := by
          rw [show c0.pos = 0 by rw [← hc0]; rfl]
          cases inp with
          | nil => exact absurd rfl hne
          | cons a r => rfl
        cases hl : inp.length with
        | zero => exact absurd (List.length_eq_zero_iff.mp hl) hne
        | succ n =>
          rw [sliceLoop, hd]
          simp only [Bool.false_eq_true, if_false, matchByLine, hfast, hrun]
          cases hout : r.out with
          | err => simp [Out.res]
          | stop => simp [Out.res]
          | done =>
            simp only [Out.res]
            have hls : ls ≠ [] := by intro hc; rw [hc] at hfl; exact hne hfl.symm
            have hpos := hA.pos hout hls
            rw [hfl] at hpos
            rw [sliceLoop]
            simp [hpos, hl]
    rw [hloop]
    by_cases hne : inp = []
    · subst hne
      have hls : ls = [] := by
        cases hg with
        | nil => rfl
        | last l hu => simp at hfl; exact absurd hfl hu.1
        | cons l ls' ht _ => simp at hfl; exact absurd hfl.1 ht.ne_nil
      subst hls
      simp only [lineRun] at hr
      rw [← hr]
      simp only [if_true]
      have hf := finish_events σ c0 (byteCount cfg c0) c0.binaryByteOffset
      simp only [Run.events]
      rw [hf.1, hf.2, c_ev]
      simp [byteCount, ite_self, ← hc0, Core.new]
    · simp only [hne, if_false]
      cases hout : r.out with
      | err =>
        simp only [Run.events]
        rw [hA.ev, c_ev]
        simp
      | stop =>
        dsimp only
        have hf := finish_events σ st' (byteCount cfg st') st'.binaryByteOffset
        simp only [Run.events]
        rw [hf.1, hf.2, hA.ev, c_ev]
        have he := hA.endp (by rw [hout]; decide)
        rw [habs] at he
        simp [byteCount, ite_self, hA.bin, ← he, Nat.add_comm]
      | done =>
        dsimp only
        have hf := finish_events σ st' (byteCount cfg st') st'.binaryByteOffset
        simp only [Run.events]
        rw [hf.1, hf.2, hA.ev, c_ev]
        have hls : ls ≠ [] := by intro hc; rw [hc] at hfl; exact hne hfl.symm
        have hpos := hA.pos hout hls
        have he := hA.endd hout
        rw [habs] at he
        simp [byteCount, ite_self, hA.bin, hpos, he, Nat.add_comm]
  · -- `begin` answered "stop"
    rw [hlen0] at hσ
    rw [heq, hσ]
    dsimp only
    rw [if_neg (by decide)]
    dsimp only
    have hf := finish_events σ ({ Core.new cfg true with events := (Core.new cfg true).events ++ [Event.begin] } : Core)
      (byteCount cfg { Core.new cfg true with events := (Core.new cfg true).events ++ [Event.begin] })
      ({ Core.new cfg true with events := (Core.new cfg true).events ++ [Event.begin] } : Core).binaryByteOffset
    simp only [Run.events]
    rw [hf.1, hf.2]
    simp [byteCount, ite_self, Core.new]
  · rw [hlen0] at hσ
    rw [heq, hσ]
    simp [Run.events, Core.new]

end RgVerif.Searcher
