import RgVerif.Lemmas.SearcherMaxCount
import RgVerif.Lemmas.SearcherStop
import RgVerif.Lemmas.SearcherSpecFacts
/-
The match limit as a sink script: first refusal, and the shape of grep-model streams.
-/
namespace RgVerif.MaxCount
open RgVerif RgVerif.Searcher RgVerif.GrepSpec

theorem maxCount_firstStop {N A k : Nat} {rest : List Event} (hnb : NoBegin rest)
    (hq : quitIndex N A (Event.begin :: rest) = some k) :
    FirstStop (maxCountScript (some N) A (Event.begin :: rest)) k ∧
      maxCountScript (some N) A (Event.begin :: rest) k = .stop := by
  rw [← firstFalse_eq_quitIndex N A rest hnb] at hq
  obtain ⟨_, h2, h3⟩ := firstFalse_spec _ 0 k hq
  simp only [Nat.sub_zero] at h2 h3
  have hk : maxCountScript (some N) A (Event.begin :: rest) k = .stop := by
    unfold maxCountScript; rw [h2]; simp
  refine ⟨⟨fun i hi => ?_, by rw [hk]; exact fun h => Resp.noConfusion h⟩, hk⟩
  unfold maxCountScript; rw [h3 i hi]; simp

theorem maxCount_never {N A : Nat} {rest : List Event} (hnb : NoBegin rest)
    (hq : quitIndex N A (Event.begin :: rest) = none) :
    maxCountScript (some N) A (Event.begin :: rest) = allCont := by
  rw [← firstFalse_eq_quitIndex N A rest hnb] at hq
  funext j
  unfold maxCountScript allCont
  have := firstFalse_none _ 0 hq j
  cases h : (answers (some N) A {} (Event.begin :: rest))[j]? with
  | none => simp
  | some b =>
    cases b with
    | true => simp
    | false => rw [h] at this; exact absurd rfl this

theorem maxCountScript_ne_err (limit : Option Nat) (A : Nat) (E : List Event) (k : Nat) :
    maxCountScript limit A E k ≠ .err := by
  unfold maxCountScript; split <;> exact fun h => Resp.noConfusion h

/-- a grep-model stream starts with `begin` and has no other `begin` -/
theorem grepSpecLines_shape (cfg : Config) (sl : List SLine) :
    ∃ rest, grepSpecLines cfg sl = Event.begin :: rest ∧ NoBegin rest := by
  rw [Searcher.grepSpecLines_eq]
  refine ⟨(List.range (effective cfg sl).length).flatMap (lineEvents cfg (effective cfg sl)) ++
      [Event.finish (offsetAt (effective cfg sl) (effective cfg sl).length) none], rfl, ?_⟩
  intro ev hev
  simp only [List.mem_append, List.mem_flatMap, List.mem_range, List.mem_singleton] at hev
  rcases hev with ⟨i, _, hi⟩ | rfl
  · rcases mem_lineEvents hi with rfl | ⟨k, _, rfl⟩
    · exact fun h => Event.noConfusion h
    · cases k <;> exact fun h => Event.noConfusion h
  · exact fun h => Event.noConfusion h

end RgVerif.MaxCount
