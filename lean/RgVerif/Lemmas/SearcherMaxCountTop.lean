import RgVerif.Lemmas.SearcherMaxCount
import RgVerif.Lemmas.SearcherStop
import RgVerif.Lemmas.SearcherSpecFacts
/-
The match limit as a sink script: first refusal, and the shape of grep-model streams.
-/
namespace RgVerif.MaxCount
open RgVerif RgVerif.Searcher RgVerif.GrepSpec

theorem scriptOf_firstStop {as : List Bool} {k : Nat} (h : firstFalse 0 as = some k) :
    FirstStop (scriptOf as) k ∧ scriptOf as k = .stop := by
  obtain ⟨_, h2, h3⟩ := firstFalse_spec _ 0 k h
  simp only [Nat.sub_zero] at h2 h3
  have hk : scriptOf as k = .stop := by unfold scriptOf; rw [h2]; simp
  refine ⟨⟨fun i hi => ?_, by rw [hk]; exact fun h => Resp.noConfusion h⟩, hk⟩
  unfold scriptOf; rw [h3 i hi]; simp

theorem scriptOf_never {as : List Bool} (h : firstFalse 0 as = none) : scriptOf as = allCont := by
  funext j
  unfold scriptOf allCont
  have := firstFalse_none _ 0 h j
  cases hj : as[j]? with
  | none => simp
  | some b =>
    cases b with
    | true => simp
    | false => rw [hj] at this; exact absurd rfl this

theorem scriptOf_ne_err (as : List Bool) (k : Nat) : scriptOf as k ≠ .err := by
  unfold scriptOf; split <;> exact fun h => Resp.noConfusion h

/-- the Summary sink first refuses where the Standard sink without after-context does: at the `N`-th match -/
theorem summary_phase (N : Nat) : ∀ (E : List Event) (i mc : Nat), mc < N → NoBegin E →
    firstFalse i (summaryAnswers (some N) mc E) = firstFalse i (answers (some N) 0 ⟨mc, 0⟩ E) := by
  intro E
  induction E with
  | nil => intro i mc _ _; rfl
  | cons ev rest ih =>
    intro i mc hmc hnb
    have hnb' : NoBegin rest := fun e he => hnb e (by simp [he])
    have hev : ev ≠ Event.begin := hnb ev (by simp)
    have hq : shouldQuit (some N) ⟨mc, 0⟩ = false := by simp [shouldQuit, hmc]
    cases ev with
    | begin => exact absurd rfl hev
    | matched ln off bs =>
      have hpc : (pcStep (some N) 0 ⟨mc, 0⟩ (Event.matched ln off bs)).1 = ⟨mc + 1, 0⟩ := by
        simp only [pcStep]; split <;> rfl
      simp only [summaryAnswers, answers, scStep, hpc, firstFalse]
      have ha : (pcStep (some N) 0 ⟨mc, 0⟩ (Event.matched ln off bs)).2 = !decide (mc + 1 ≥ N) := by
        simp only [pcStep]
        have : ∀ pc : PC, pc = ⟨mc + 1, 0⟩ → shouldQuit (some N) pc = decide (mc + 1 ≥ N) := by
          intro pc h; subst h
          by_cases hl : mc + 1 < N
          · simp [shouldQuit, hl]
          · simp [shouldQuit, hl]; omega
        split <;> (rw [this _ rfl])
      rw [ha]
      by_cases hge : mc + 1 ≥ N
      · simp [hge]
      · simp only [hge, decide_false, Bool.not_false, if_true]
        exact ih (i + 1) (mc + 1) (by omega) hnb'
    | context kind ln off bs =>
      have hpc : (pcStep (some N) 0 ⟨mc, 0⟩ (Event.context kind ln off bs)) = (⟨mc, 0⟩, true) := by
        simp only [pcStep]; split <;> simp [hq]
      simp only [summaryAnswers, answers, scStep, hpc, firstFalse, if_true]
      exact ih (i + 1) mc hmc hnb'
    | contextBreak =>
      simp only [summaryAnswers, answers, scStep, pcStep, firstFalse, if_true]
      exact ih (i + 1) mc hmc hnb'
    | binaryData o =>
      simp only [summaryAnswers, answers, scStep, pcStep, firstFalse, if_true]
      exact ih (i + 1) mc hmc hnb'
    | finish a b =>
      simp only [summaryAnswers, answers, scStep, pcStep, firstFalse, if_true]
      exact ih (i + 1) mc hmc hnb'

/-- **the Summary sink with limit `N` first refuses at the `N`-th `matched` callback** -/
theorem summary_firstFalse_eq_quitIndex (N : Nat) (rest : List Event) (hnb : NoBegin rest) :
    firstFalse 0 (summaryAnswers (some N) 0 (Event.begin :: rest)) = quitIndex N 0 (Event.begin :: rest) := by
  rw [← firstFalse_eq_quitIndex N 0 rest hnb]
  by_cases hN : N = 0
  · subst hN; simp [summaryAnswers, scStep, answers, pcStep, firstFalse]
  · have hb : (some N == some 0) = false := by simp [hN]
    simp only [summaryAnswers, scStep, answers, pcStep, hb, Bool.not_false, firstFalse, if_true]
    exact summary_phase N rest 1 0 (by omega) hnb

/-- a grep-model stream starts with `begin` and has no other `begin` -/
theorem grepSpecLines_shape (cfg : Config) (sl : List SLine) :
    ∃ rest, grepSpecLines cfg sl = Event.begin :: rest ∧ NoBegin rest := by
  rw [Searcher.grepSpecLines_eq]
  refine ⟨(List.range (effective cfg sl).length).flatMap (lineEvents cfg (effective cfg sl)) ++
      [Event.finish (offsetAt (effective cfg sl) (effective cfg sl).length) none], rfl, ?_⟩
  intro ev hev
  simp only [List.mem_append, List.mem_flatMap, List.mem_range, List.mem_singleton] at hev
  rcases hev with ⟨i, _, hi⟩ | rfl
  · rcases mem_lineEvents hi with rfl | ⟨k, _, rfl⟩
    · exact fun h => Event.noConfusion h
    · cases k <;> exact fun h => Event.noConfusion h
  · exact fun h => Event.noConfusion h

end RgVerif.MaxCount
