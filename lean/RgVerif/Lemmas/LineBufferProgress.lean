import RgVerif.Lemmas.LineBufferFill
/-
`LineBuffer::fill` makes progress: the window never shrinks, and it stays the same only at the end
of the input (what the "only leftover context" exit of `ReadByLine::fill` relies on).
-/
namespace RgVerif.LineBuffer
open RgVerif

theorem fillLoop_progress (fuel : Nat) (s : LB) (r : Reader) (hb : s.cfg.binary = .none)
    (hlen : s.buf.length ≤ s.len) (hl : s.last ≤ s.buf.length) (more : Bool)
    (hok : (fillLoop fuel s r).2.2 = .ok more) :
    s.last ≤ (fillLoop fuel s r).1.last ∧
    ((fillLoop fuel s r).1.last = s.last →
      (fillLoop fuel s r).1.last = (fillLoop fuel s r).1.buf.length ∧
        (NoZero r.script → (fillLoop fuel s r).2.1.data = [])) := by
  fun_induction fillLoop fuel s r
  case case1 => simp at hok
  case case2 s r he => simp at hok
  case case3 fu s0 r0 s1 he r1 hread ih =>
    obtain ⟨e1, e2, e3, e4, e5, e6, e7, e8⟩ := ensureCapacity_some s0 s1 hlen he
    have := ih (by rw [e1]; exact hb) (by omega) (by rw [e4, e2]; exact hl) hok
    rw [e4] at this
    exact ⟨this.1, fun h => ⟨(this.2 h).1, fun hz => (this.2 h).2 (NoZero.of_read hread hz)⟩⟩
  case case4 s0 r0 s1 he nb r1 hread hnb s2 =>
    obtain ⟨e1, e2, e3, e4, e5, e6, e7, e8⟩ := ensureCapacity_some s0 s1 hlen he
    have hnb0 : nb = [] := List.length_eq_zero_iff.1 hnb
    subst hnb0
    refine ⟨by show s0.last ≤ s1.buf.length; rw [e2]; exact hl, fun _ => ⟨rfl, fun hz => ?_⟩⟩
    exact read_zero_eof r0 r1 _ hz (by omega) hread
  case case5 s0 r0 s1 he nb r1 hread hnb oldend i hdet s2 =>
    obtain ⟨e1, e2, e3, e4, e5, e6, e7, e8⟩ := ensureCapacity_some s0 s1 hlen he
    have : s1.cfg.binary = .none := by rw [e1]; exact hb
    simp [LB.detect, this] at hdet
  case case6 s0 r0 s1 he nb r1 hread hnb oldend nb' bo hdet s2 i hrf =>
    obtain ⟨e1, e2, e3, e4, e5, e6, e7, e8⟩ := ensureCapacity_some s0 s1 hlen he
    have h1 : s0.last ≤ s1.buf.length := by rw [e2]; exact hl
    refine ⟨by show s0.last ≤ s1.buf.length + i + 1; omega, fun h => ?_⟩
    have : s1.buf.length + i + 1 = s0.last := h
    omega
  case case7 fu s0 r0 s1 he nb r1 hread hnb oldend nb' bo hdet s2 hrf ih =>
    obtain ⟨e1, e2, e3, e4, e5, e6, e7, e8⟩ := ensureCapacity_some s0 s1 hlen he
    obtain ⟨hrd, hfree, hsl⟩ := read_bytes r0 r1 _ nb hread
    have hb1 : s1.cfg.binary = .none := by rw [e1]; exact hb
    have hnb' : nb' = nb := by
      simp [LB.detect, hb1] at hdet
      exact hdet.1.symm
    have e2l : s1.buf.length = s0.buf.length := by rw [e2]
    have := ih (by show s1.cfg.binary = .none; exact hb1)
      (by show (s1.buf ++ nb').length ≤ s1.len; rw [hnb']; simp; omega)
      (by show s1.last ≤ (s1.buf ++ nb').length; rw [e4]; simp; omega) hok
    have hl2 : s2.last = s0.last := e4
    rw [hl2] at this
    exact ⟨this.1, fun h => ⟨(this.2 h).1, fun hz => (this.2 h).2 (NoZero.of_read hread hz)⟩⟩

/-- `fill` never shrinks the window, and leaves it as it is only at the end of the input -/
theorem fill_progress_window (s : LB) (r : Reader) (hb : s.cfg.binary = .none)
    (hlen : s.buf.length ≤ s.len) (hpl : s.pos ≤ s.last) (hl : s.last ≤ s.buf.length) (more : Bool)
    (hok : (s.fill r).2.2 = .ok more) :
    s.last - s.pos ≤ (s.fill r).1.last ∧
    ((s.fill r).1.last = s.last - s.pos →
      (s.fill r).1.last = (s.fill r).1.buf.length ∧ (NoZero r.script → (s.fill r).2.1.data = [])) := by
  unfold LB.fill at hok ⊢
  have hq : ¬ (s.cfg.binary.isQuit && s.binOff.isSome) = true := by simp [hb, BinDet.isQuit]
  rw [if_neg hq] at hok ⊢
  have hroll : s.roll.cfg.binary = .none ∧ s.roll.buf.length ≤ s.roll.len ∧ s.roll.last ≤ s.roll.buf.length ∧
      s.last - s.pos ≤ s.roll.last := by
    unfold LB.roll
    split
    · simp [hb]; omega
    · simp [hb]; omega
  have := fillLoop_progress _ s.roll r hroll.1 hroll.2.1 hroll.2.2.1 more hok
  refine ⟨by have := this.1; have := hroll.2.2.2; omega, fun h => this.2 ?_⟩
  have := this.1; have := hroll.2.2.2; omega

end RgVerif.LineBuffer
