import RgVerif.Lemmas.WalkTerm
/-
C06: every reported path is reported once (sibling names are distinct in every directory and among
the roots — true of any real file system).
-/
namespace RgVerif.Walk

def Out.path : Out → Path
  | .entry p => p
  | .loop p => p
  | .broken p => p

mutual
/-- Well-formed: the names in every directory are pairwise distinct. -/
def WfN : Node → Prop
  | .dir _ _ _ _ kids => (kids.map Node.name).Nodup ∧ WfL kids
  | .file _ _ => True
  | .link _ _ _ => True
def WfL : List Node → Prop
  | [] => True
  | k :: ks => WfN k ∧ WfL ks
end

mutual
theorem findDirN_wf (i : Nat) : (k : Node) → (d : DirView) → WfN k → findDirN i k = some d →
    (d.kids.map Node.name).Nodup ∧ WfL d.kids
  | .file _ _, d => by intro _ h; simp [findDirN] at h
  | .link _ _ _, d => by intro _ h; simp [findDirN] at h
  | .dir _ ino dev ign kids, d => by
    intro hw h
    unfold WfN at hw
    unfold findDirN at h
    split at h
    · cases h; exact hw
    · exact findDirL_wf i kids d hw.2 h
theorem findDirL_wf (i : Nat) : (ks : List Node) → (d : DirView) → WfL ks → findDirL i ks = some d →
    (d.kids.map Node.name).Nodup ∧ WfL d.kids
  | [], d => by intro _ h; simp [findDirL] at h
  | k :: ks, d => by
    intro hw h
    unfold WfL at hw
    unfold findDirL at h
    split at h
    · rename_i d' hd
      cases h
      exact findDirN_wf i k d hw.1 hd
    · exact findDirL_wf i ks d hw.2 h
end

theorem resolve_dir_wf {forest : List Node} {tgt : Target} {d : DirView} {via : Bool}
    (hw : WfL forest) (h : resolve forest tgt = .dir d via) :
    (d.kids.map Node.name).Nodup ∧ WfL d.kids := by
  cases tgt with
  | missing => simp [resolve] at h
  | file s => simp [resolve] at h
  | dir i =>
    simp only [resolve] at h
    split at h
    · rename_i d' hd
      cases h
      exact findDirL_wf i forest _ hw hd
    · cases h

/-- All outputs lie strictly below `p`. -/
def Below (p : Path) (outs : List Out) : Prop :=
  ∀ o, o ∈ outs → ∃ x rest, o.path = p ++ x :: rest

/-- All outputs lie at or below `q`. -/
def AtOrBelow (q : Path) (outs : List Out) : Prop :=
  ∀ o, o ∈ outs → ∃ rest, o.path = q ++ rest

def PathsNodup (outs : List Out) : Prop := (outs.map Out.path).Nodup

/-- What is assumed of the jump function (contents of a followed directory). -/
def JN (j : Contents) : Prop :=
  ∀ a d p rd ks, (ks.map Node.name).Nodup → WfL ks →
    PathsNodup (j a d p rd ks) ∧ Below p (j a d p rd ks)

theorem pathsNodup_nil : PathsNodup [] := by simp [PathsNodup]

theorem pathsNodup_single (o : Out) : PathsNodup [o] := by simp [PathsNodup]

theorem pathsNodup_cons_below {p : Path} {o : Out} {outs : List Out} (ho : o.path = p)
    (hn : PathsNodup outs) (hb : Below p outs) : PathsNodup (o :: outs) := by
  unfold PathsNodup at *
  simp only [List.map_cons, List.nodup_cons]
  refine ⟨?_, hn⟩
  intro hm
  obtain ⟨o', ho', he⟩ := List.mem_map.1 hm
  obtain ⟨x, rest, hx⟩ := hb o' ho'
  rw [ho, hx] at he
  have := congrArg List.length he
  simp at this

theorem below_to_atOrBelow {pp : Path} {name : Name} {outs : List Out}
    (h : Below (pp ++ [name]) outs) : AtOrBelow (pp ++ [name]) outs := by
  intro o ho
  obtain ⟨x, rest, hx⟩ := h o ho
  exact ⟨x :: rest, hx⟩

theorem atOrBelow_cons {q : Path} {o : Out} {outs : List Out} (ho : o.path = q)
    (h : AtOrBelow q outs) : AtOrBelow q (o :: outs) := by
  intro o' ho'
  rcases List.mem_cons.1 ho' with e | e
  · subst e; exact ⟨[], by simp [ho]⟩
  · exact h o' e

theorem atOrBelow_nil (q : Path) : AtOrBelow q [] := by intro o ho; cases ho

mutual
theorem reachEntry_nodup (cfg : Cfg) (forest : List Node) (hwf : WfL forest) (j : Contents) (hj : JN j)
    (rd : Option Nat) (anc : List Anc) (depth : Nat) (pp : Path) :
    (k : Node) → WfN k →
      PathsNodup (reachEntry cfg forest j rd anc depth pp k) ∧
      AtOrBelow (pp ++ [k.name]) (reachEntry cfg forest j rd anc depth pp k)
  | .file name size => by
    intro _
    unfold reachEntry
    split
    · exact ⟨pathsNodup_single _, atOrBelow_cons rfl (atOrBelow_nil _)⟩
    · exact ⟨pathsNodup_nil, atOrBelow_nil _⟩
  | .dir name ino dev ign kids => by
    intro hw
    unfold WfN at hw
    unfold reachEntry
    simp only [Node.name]
    split
    · split
      · have ih := reachKids_nodup cfg forest hwf j hj rd ((ino, ign) :: anc) (depth + 1)
          (pp ++ [name]) kids hw.1 hw.2
        have hb : Below (pp ++ [name])
            (reachKids cfg forest j rd ((ino, ign) :: anc) (depth + 1) (pp ++ [name]) kids) := by
          intro o ho
          obtain ⟨k, _, r, hr⟩ := ih.2 o ho
          exact ⟨k.name, r, hr⟩
        exact ⟨pathsNodup_cons_below rfl ih.1 hb,
          atOrBelow_cons rfl (below_to_atOrBelow hb)⟩
      · exact ⟨pathsNodup_single _, atOrBelow_cons rfl (atOrBelow_nil _)⟩
    · exact ⟨pathsNodup_nil, atOrBelow_nil _⟩
  | .link name len tgt => by
    intro _
    unfold reachEntry
    simp only [Node.name]
    split
    · split
      · exact ⟨pathsNodup_single _, atOrBelow_cons rfl (atOrBelow_nil _)⟩
      · rename_i d via hr
        split
        · exact ⟨pathsNodup_single _, atOrBelow_cons rfl (atOrBelow_nil _)⟩
        · split
          · split
            · have hk := resolve_dir_wf hwf hr
              have ih := hj ((d.ino, d.ign) :: anc) (depth + 1) (pp ++ [name]) rd d.kids hk.1 hk.2
              exact ⟨pathsNodup_cons_below rfl ih.1 ih.2,
                atOrBelow_cons rfl (below_to_atOrBelow ih.2)⟩
            · exact ⟨pathsNodup_single _, atOrBelow_cons rfl (atOrBelow_nil _)⟩
          · exact ⟨pathsNodup_nil, atOrBelow_nil _⟩
      · split
        · exact ⟨pathsNodup_single _, atOrBelow_cons rfl (atOrBelow_nil _)⟩
        · exact ⟨pathsNodup_nil, atOrBelow_nil _⟩
    · split
      · exact ⟨pathsNodup_single _, atOrBelow_cons rfl (atOrBelow_nil _)⟩
      · exact ⟨pathsNodup_nil, atOrBelow_nil _⟩
theorem reachKids_nodup (cfg : Cfg) (forest : List Node) (hwf : WfL forest) (j : Contents) (hj : JN j)
    (rd : Option Nat) (anc : List Anc) (depth : Nat) (pp : Path) :
    (ks : List Node) → (ks.map Node.name).Nodup → WfL ks →
      PathsNodup (reachKids cfg forest j rd anc depth pp ks) ∧
      (∀ o, o ∈ reachKids cfg forest j rd anc depth pp ks →
        ∃ k, k ∈ ks ∧ ∃ rest, o.path = pp ++ k.name :: rest)
  | [] => by
    intro _ _
    unfold reachKids
    exact ⟨pathsNodup_nil, by intro o ho; cases ho⟩
  | k :: ks => by
    intro hn hw
    unfold WfL at hw
    simp only [List.map_cons, List.nodup_cons] at hn
    unfold reachKids
    have h1 := reachEntry_nodup cfg forest hwf j hj rd anc depth pp k hw.1
    have h2 := reachKids_nodup cfg forest hwf j hj rd anc depth pp ks hn.2 hw.2
    refine ⟨?_, ?_⟩
    · unfold PathsNodup at *
      rw [List.map_append, List.nodup_append]
      refine ⟨h1.1, h2.1, ?_⟩
      intro a ha b hb e
      obtain ⟨o1, ho1, e1⟩ := List.mem_map.1 ha
      obtain ⟨o2, ho2, e2⟩ := List.mem_map.1 hb
      obtain ⟨r1, hr1⟩ := h1.2 o1 ho1
      obtain ⟨k', hk', r2, hr2⟩ := h2.2 o2 ho2
      rw [← e1, ← e2, hr1, hr2, List.append_assoc] at e
      have := List.append_cancel_left e
      simp only [List.singleton_append, List.cons.injEq] at this
      apply hn.1
      rw [this.1]
      exact List.mem_map.2 ⟨k', hk', rfl⟩
    · intro o ho
      rcases List.mem_append.1 ho with h | h
      · obtain ⟨r, hr⟩ := h1.2 o h
        exact ⟨k, by simp, r, by rw [hr, List.append_assoc]; rfl⟩
      · obtain ⟨k', hk', r, hr⟩ := h2.2 o h
        exact ⟨k', by simp [hk'], r, hr⟩
end

theorem reachKids_below (cfg : Cfg) (forest : List Node) (hwf : WfL forest) (j : Contents) (hj : JN j)
    (rd : Option Nat) (anc : List Anc) (depth : Nat) (pp : Path) (ks : List Node)
    (hn : (ks.map Node.name).Nodup) (hw : WfL ks) :
    PathsNodup (reachKids cfg forest j rd anc depth pp ks) ∧
    Below pp (reachKids cfg forest j rd anc depth pp ks) := by
  have h := reachKids_nodup cfg forest hwf j hj rd anc depth pp ks hn hw
  refine ⟨h.1, ?_⟩
  intro o ho
  obtain ⟨k, _, r, hr⟩ := h.2 o ho
  exact ⟨k.name, r, hr⟩

theorem reachContents_jn (cfg : Cfg) (forest : List Node) (hwf : WfL forest) :
    ∀ f, JN (reachContents cfg forest f) := by
  intro f
  induction f with
  | zero =>
    intro a d p rd ks _ _
    exact ⟨pathsNodup_nil, by intro o ho; cases ho⟩
  | succ f ih =>
    intro a d p rd ks hn hw
    simp only [reachContents]
    exact reachKids_below cfg forest hwf _ ih rd a d p ks hn hw

theorem stat_dir_wf {forest : List Node} {r : Node} {d : DirView} {via : Bool} (hwf : WfL forest)
    (hr : WfN r) (h : stat forest r = .dir d via) : (d.kids.map Node.name).Nodup ∧ WfL d.kids := by
  cases r with
  | file n s => simp [stat, lstat] at h
  | dir n ino dev ign kids =>
    simp only [stat, lstat, View.dir.injEq] at h
    unfold WfN at hr
    rw [← h.1]; exact hr
  | link n len tgt =>
    simp only [stat] at h
    exact resolve_dir_wf hwf h

theorem reachRoot_nodup (cfg : Cfg) (forest : List Node) (hwf : WfL forest) (fuel : Nat) (r : Node)
    (hr : WfN r) :
    PathsNodup (reachRoot cfg forest fuel r) ∧ AtOrBelow [r.name] (reachRoot cfg forest fuel r) := by
  unfold reachRoot
  split
  · exact ⟨pathsNodup_single _, atOrBelow_cons rfl (atOrBelow_nil _)⟩
  · rename_i d via hs
    split
    · have hk := stat_dir_wf hwf hr hs
      have ih := reachContents_jn cfg forest hwf fuel [(d.ino, d.ign)] 0 [r.name]
        (if cfg.sameFs then some d.dev else none) d.kids hk.1 hk.2
      refine ⟨pathsNodup_cons_below rfl ih.1 ih.2, atOrBelow_cons rfl ?_⟩
      intro o ho
      obtain ⟨x, rest, hx⟩ := ih.2 o ho
      exact ⟨x :: rest, hx⟩
    · exact ⟨pathsNodup_single _, atOrBelow_cons rfl (atOrBelow_nil _)⟩
  · exact ⟨pathsNodup_single _, atOrBelow_cons rfl (atOrBelow_nil _)⟩

theorem reach_pathsNodup (cfg : Cfg) (forest : List Node) (hwf : WfL forest) (fuel : Nat) :
    (roots : List Node) → (roots.map Node.name).Nodup → WfL roots →
      PathsNodup (reach cfg forest fuel roots) ∧
      (∀ o, o ∈ reach cfg forest fuel roots → ∃ r, r ∈ roots ∧ ∃ rest, o.path = r.name :: rest)
  | [] => by
    intro _ _
    exact ⟨pathsNodup_nil, by intro o ho; simp [reach] at ho⟩
  | r :: rs => by
    intro hn hw
    unfold WfL at hw
    simp only [List.map_cons, List.nodup_cons] at hn
    have h1 := reachRoot_nodup cfg forest hwf fuel r hw.1
    have h2 := reach_pathsNodup cfg forest hwf fuel rs hn.2 hw.2
    unfold reach at h2 ⊢
    simp only [List.flatMap_cons]
    refine ⟨?_, ?_⟩
    · unfold PathsNodup at *
      rw [List.map_append, List.nodup_append]
      refine ⟨h1.1, h2.1, ?_⟩
      intro a ha b hb e
      obtain ⟨o1, ho1, e1⟩ := List.mem_map.1 ha
      obtain ⟨o2, ho2, e2⟩ := List.mem_map.1 hb
      obtain ⟨r1, hr1⟩ := h1.2 o1 ho1
      obtain ⟨r', hr', r2, hr2⟩ := h2.2 o2 ho2
      rw [← e1, ← e2, hr1, hr2] at e
      simp only [List.singleton_append, List.cons.injEq] at e
      apply hn.1
      rw [e.1]
      exact List.mem_map.2 ⟨r', hr', rfl⟩
    · intro o ho
      rcases List.mem_append.1 ho with h | h
      · obtain ⟨rest, hr⟩ := h1.2 o h
        exact ⟨r, by simp, rest, by simpa using hr⟩
      · obtain ⟨r', hr', rest, hr⟩ := h2.2 o h
        exact ⟨r', by simp [hr'], rest, hr⟩

theorem nodup_of_map {α β : Type} (f : α → β) (l : List α) (h : (l.map f).Nodup) : l.Nodup := by
  unfold List.Nodup at *
  rw [List.pairwise_map] at h
  exact h.imp (fun hne e => hne (by rw [e]))

/-- Every path is reported at most once by the spec traversal. -/
theorem reach_nodup (cfg : Cfg) (forest : List Node) (hwf : WfL forest) (fuel : Nat) (roots : List Node)
    (hn : (roots.map Node.name).Nodup) (hw : WfL roots) : (reach cfg forest fuel roots).Nodup :=
  nodup_of_map Out.path _ (reach_pathsNodup cfg forest hwf fuel roots hn hw).1

end RgVerif.Walk
