import RgVerif.Lemmas.GlobDocClass
import RgVerif.Lemmas.GitStar
/-
C12_doc with one level of alternates: globs  R₀ { B₁ , … , Bₙ } R₁ { … } R₂ …  where the Rᵢ and the branches
Bⱼ are in the wildcard grammar (literals, `?`, single `*`, escapes).  `{a,b}` matches `a` or `b`; an empty
branch only counts under `empty_alternates`.
-/
namespace RgVerif.Glob
open RgVerif RgVerif.GlobDoc

/-! ### the parser inside and outside an open `{` -/

/-- where `push_token` puts a run of plain tokens -/
def pushToks (st : PState) (ts : List Tok) : PState :=
  match st.branches with
  | [] => { st with outer := st.outer ++ ts.map Token.s }
  | b :: bs => { st with branches := (b ++ ts) :: bs }

theorem pushToks_nil (st : PState) : pushToks st [] = st := by
  unfold pushToks; cases h : st.branches <;> cases st <;> simp_all

theorem push_eq_pushToks (st : PState) (t : Tok) : st.push t = pushToks st [t] := by
  unfold PState.push pushToks; cases st.branches <;> simp

theorem pushToks_append (st : PState) (a b : List Tok) : pushToks (pushToks st a) b = pushToks st (a ++ b) := by
  unfold pushToks; cases h : st.branches <;> simp [h]

def setCur (st : PState) (c : Option Nat) : PState := ⟨st.outer, st.branches, c⟩

theorem setCur_eq (st : PState) (c : Option Nat) : ({ st with cur := c } : PState) = setCur st c := rfl

theorem pushToks_setCur (st : PState) (ts : List Tok) (c : Option Nat) :
    pushToks (setCur st c) ts = setCur (pushToks st ts) c := by
  unfold pushToks setCur; cases h : st.branches <;> simp [h]

theorem setCur_setCur (st : PState) (a b : Option Nat) : setCur (setCur st a) b = setCur st b := rfl

theorem parseLoop_stepG (o : Opts) (c : Nat) (rest : List Nat) (fuel : Nat) (st : PState)
    (hok : okChar c = true) (hesc : (c == 92 && o.be) = false)
    (hss : ¬ (c = 42 ∧ rest.head? = some 42)) :
    parseLoop o (fuel + 1) st (c :: rest) =
      parseLoop o fuel (setCur (pushToks st [tokOf c]) (some c)) rest := by
  simp only [okChar, Bool.and_eq_true, decide_eq_true_eq, Bool.not_eq_eq_eq_not, Bool.not_true,
    Bool.or_eq_false_iff, beq_eq_false_iff_ne, ne_eq] at hok
  obtain ⟨_, ⟨⟨h91, h123⟩, h125⟩, h44⟩ := hok
  rw [← pushToks_setCur, ← push_eq_pushToks]
  generalize hR : parseLoop o fuel (PState.push (setCur st (some c)) (tokOf c)) rest = R
  unfold parseLoop
  simp only [setCur_eq]
  by_cases h63 : c = 63
  · subst h63
    simp only [BEq.rfl, ↓reduceIte]
    rw [← hR]; simp [tokOf]
  · by_cases h42 : c = 42
    · subst h42
      have hh : rest.head? ≠ some 42 := fun h => hss ⟨rfl, h⟩
      simp only [Nat.reduceBEq, Bool.false_eq_true, ↓reduceIte, BEq.rfl]
      rw [parseStar_single _ _ _ hh]
      rw [← hR]; simp [tokOf]
    · by_cases h92 : c = 92
      · subst h92
        have hbe : o.be = false := by simpa using hesc
        simp only [Nat.reduceBEq, Bool.false_eq_true, ↓reduceIte, BEq.rfl, hbe]
        rw [← hR]; simp [tokOf]
      · simp only [beq_iff_eq, h63, h42, h92, h91, h123, h125, h44, ↓reduceIte]
        rw [← hR]; simp [tokOf, h63, h42]

theorem parseLoop_simple_preG (o : Opts) (g rest : List Nat) (hg : simpleGlob o.be g = true)
    (hrest : rest.head? ≠ some 42) (fuel : Nat) (st : PState) (hf : (g ++ rest).length < fuel) :
    ∃ fuel' cur, rest.length < fuel' ∧
      parseLoop o fuel st (g ++ rest) =
        parseLoop o fuel' (setCur (pushToks st (simpleToks o.be g)) cur) rest := by
  induction g using simpleToks.induct (be := o.be) generalizing fuel st with
  | case1 =>
    refine ⟨fuel, st.cur, by simpa using hf, ?_⟩
    simp only [List.nil_append, simpleToks, pushToks_nil]
    rfl
  | case2 c hesc => simp [simpleGlob, hesc] at hg
  | case3 c hesc =>
    cases fuel with
    | zero => simp at hf
    | succ fuel =>
      have hesc' : (c == 92 && o.be) = false := by simpa using hesc
      simp only [simpleGlob, Bool.and_eq_true, hesc', Bool.not_false, and_true] at hg
      refine ⟨fuel, some c, by simp at hf; omega, ?_⟩
      simp only [List.cons_append, List.nil_append]
      rw [parseLoop_stepG o c rest fuel st hg hesc' (fun h => hrest h.2)]
      simp [simpleToks, hesc']
  | case4 c e g hesc ih =>
    simp only [Bool.and_eq_true, beq_iff_eq] at hesc
    obtain ⟨rfl, hbe⟩ := hesc
    simp only [simpleGlob, BEq.rfl, hbe, Bool.and_self, ↓reduceIte, Bool.and_eq_true,
      decide_eq_true_eq] at hg
    cases fuel with
    | zero => simp at hf
    | succ fuel =>
      obtain ⟨fuel', cur, hf', hrec⟩ := ih (by rw [hbe]; exact hg.2) fuel
        (setCur (pushToks st [.lit e]) (some e)) (by simp at hf ⊢; omega)
      refine ⟨fuel', cur, hf', ?_⟩
      have hst : setCur (pushToks st (simpleToks o.be (92 :: e :: g))) cur =
          setCur (pushToks (setCur (pushToks st [.lit e]) (some e)) (simpleToks o.be g)) cur := by
        rw [pushToks_setCur, pushToks_append, setCur_setCur]
        simp [simpleToks, hbe]
      rw [hst, ← hrec]
      generalize hR : parseLoop o fuel (setCur (pushToks st [.lit e]) (some e)) (g ++ rest) = R
      simp only [List.cons_append]
      unfold parseLoop
      simp only [Nat.reduceBEq, Bool.false_eq_true, ↓reduceIte, BEq.rfl, hbe, setCur_eq]
      rw [← hR, push_eq_pushToks]
      try simp only [setCur_setCur]
      rw [pushToks_setCur]
  | case5 c e g hesc ih =>
    have hesc' : (c == 92 && o.be) = false := by simpa using hesc
    simp only [simpleGlob, hesc', Bool.false_eq_true, ↓reduceIte, Bool.and_eq_true,
      Bool.not_eq_eq_eq_not, Bool.not_true, Bool.and_eq_false_iff, beq_eq_false_iff_ne, ne_eq] at hg
    cases fuel with
    | zero => simp at hf
    | succ fuel =>
      obtain ⟨fuel', cur, hf', hrec⟩ := ih hg.2 fuel
        (setCur (pushToks st [tokOf c]) (some c)) (by simp at hf ⊢; omega)
      refine ⟨fuel', cur, hf', ?_⟩
      try simp only [List.cons_append]
      rw [parseLoop_stepG o c (e :: (g ++ rest)) fuel st hg.1.1 hesc' (by
        rintro ⟨h1, h2⟩
        simp only [List.head?_cons, Option.some.injEq] at h2
        rcases hg.1.2 with h | h
        · exact h h1
        · exact h h2)]
      try simp only [List.cons_append] at hrec
      rw [hrec, pushToks_setCur, pushToks_append, setCur_setCur]
      simp [simpleToks, hesc']

/-! ### one alternation group in the parser -/

theorem parseLoop_open (o : Opts) (rest : List Nat) (fuel : Nat) (st : PState) (hb : st.branches = []) :
    parseLoop o (fuel + 1) st (123 :: rest) = parseLoop o fuel ⟨st.outer, [[]], some 123⟩ rest := by
  generalize hR : parseLoop o fuel ⟨st.outer, [[]], some 123⟩ rest = R
  unfold parseLoop
  simp only [Nat.reduceBEq, Bool.false_eq_true, ↓reduceIte, BEq.rfl, PState.depth, hb, List.length_nil]
  exact hR

theorem parseLoop_comma (o : Opts) (rest : List Nat) (fuel : Nat) (st : PState) (hb : st.branches ≠ []) :
    parseLoop o (fuel + 1) st (44 :: rest) = parseLoop o fuel ⟨st.outer, [] :: st.branches, some 44⟩ rest := by
  generalize hR : parseLoop o fuel ⟨st.outer, [] :: st.branches, some 44⟩ rest = R
  have hd : ¬ (1 + st.branches.length ≤ 1) := by
    cases h : st.branches with
    | nil => exact absurd h hb
    | cons b bs => simp
  unfold parseLoop
  simp only [Nat.reduceBEq, Bool.false_eq_true, ↓reduceIte, BEq.rfl, PState.depth, hd]
  exact hR

theorem parseLoop_closeBrace (o : Opts) (rest : List Nat) (fuel : Nat) (st : PState) :
    parseLoop o (fuel + 1) st (125 :: rest) =
      parseLoop o fuel ⟨st.outer ++ [.alts st.branches], [], some 125⟩ rest := by
  generalize hR : parseLoop o fuel ⟨st.outer ++ [.alts st.branches], [], some 125⟩ rest = R
  unfold parseLoop
  simp only [Nat.reduceBEq, Bool.false_eq_true, ↓reduceIte, BEq.rfl]
  exact hR

def joinComma : List (List Nat) → List Nat
  | [] => []
  | [b] => b
  | b :: b2 :: bs => b ++ 44 :: joinComma (b2 :: bs)

/-- the branch stack after the branches `bs` were read into a stack whose top is `top` -/
def finalBr (be : Bool) (top : List Tok) (olds : List (List Tok)) : List (List Nat) → List (List Tok)
  | [] => top :: olds
  | [b] => (top ++ simpleToks be b) :: olds
  | b :: b2 :: bs => finalBr be [] ((top ++ simpleToks be b) :: olds) (b2 :: bs)

theorem parseLoop_branches (o : Opts) (bs : List (List Nat)) (hne : bs ≠ [])
    (hbs : bs.all (simpleGlob o.be) = true) (rest : List Nat) (fuel : Nat)
    (outer : List Token) (top : List Tok) (olds : List (List Tok)) (cur : Option Nat)
    (hf : (joinComma bs ++ 125 :: rest).length < fuel) :
    ∃ fuel', rest.length < fuel' ∧
      parseLoop o fuel ⟨outer, top :: olds, cur⟩ (joinComma bs ++ 125 :: rest) =
        parseLoop o fuel' ⟨outer ++ [.alts (finalBr o.be top olds bs)], [], some 125⟩ rest := by
  induction bs generalizing fuel top olds cur with
  | nil => exact absurd rfl hne
  | cons b bs ih =>
    simp only [List.all_cons, Bool.and_eq_true] at hbs
    cases bs with
    | nil =>
      simp only [joinComma, finalBr] at hf ⊢
      obtain ⟨f1, c1, hf1, h1⟩ := parseLoop_simple_preG o b (125 :: rest) hbs.1 (by simp) fuel
        ⟨outer, top :: olds, cur⟩ hf
      obtain ⟨f, rfl⟩ : ∃ f, f1 = f + 1 := ⟨f1 - 1, by simp at hf1; omega⟩
      refine ⟨f, by simp at hf1; omega, ?_⟩
      rw [h1, parseLoop_closeBrace]
      simp [setCur, pushToks]
    | cons b2 bs' =>
      simp only [joinComma, List.append_assoc, List.cons_append, finalBr] at hf ⊢
      obtain ⟨f1, c1, hf1, h1⟩ := parseLoop_simple_preG o b (44 :: (joinComma (b2 :: bs') ++ 125 :: rest))
        hbs.1 (by simp) fuel ⟨outer, top :: olds, cur⟩ hf
      obtain ⟨f, rfl⟩ : ∃ f, f1 = f + 1 := ⟨f1 - 1, by simp at hf1; omega⟩
      obtain ⟨f2, hf2, h2⟩ := ih (by simp) hbs.2 f [] ((top ++ simpleToks o.be b) :: olds) (some 44)
        (by simp at hf1 ⊢; omega)
      refine ⟨f2, hf2, ?_⟩
      rw [h1, parseLoop_comma _ _ _ _ (by simp [setCur, pushToks])]
      simp only [setCur, pushToks]
      exact h2

theorem finalBr_nil (be : Bool) (olds : List (List Tok)) (bs : List (List Nat)) (hne : bs ≠ []) :
    finalBr be [] olds bs = (bs.map (simpleToks be)).reverse ++ olds := by
  induction bs generalizing olds with
  | nil => exact absurd rfl hne
  | cons b bs ih =>
    cases bs with
    | nil => simp [finalBr]
    | cons b2 bs' =>
      simp only [finalBr, List.nil_append]
      rw [ih _ (by simp)]
      simp

/-- a whole group `{b₁,…,bₙ}` seen from outside any group -/
theorem parseLoop_alt (o : Opts) (bs : List (List Nat)) (hne : bs ≠ [])
    (hbs : bs.all (simpleGlob o.be) = true) (rest : List Nat) (fuel : Nat) (st : PState)
    (hb : st.branches = []) (hf : (123 :: (joinComma bs ++ 125 :: rest)).length < fuel) :
    ∃ fuel', rest.length < fuel' ∧
      parseLoop o fuel st (123 :: (joinComma bs ++ 125 :: rest)) =
        parseLoop o fuel' ⟨st.outer ++ [.alts (bs.map (simpleToks o.be)).reverse], [], some 125⟩ rest := by
  obtain ⟨f, rfl⟩ : ∃ f, fuel = f + 1 := ⟨fuel - 1, by simp at hf; omega⟩
  obtain ⟨f2, hf2, h2⟩ := parseLoop_branches o bs hne hbs rest f st.outer [] [] (some 123)
    (by simp at hf ⊢; omega)
  refine ⟨f2, hf2, ?_⟩
  rw [parseLoop_open o _ f st hb, h2, finalBr_nil _ _ _ hne]
  simp

/-! ### the documentation's lexer inside and outside an open `{` -/

/-- where the lexer puts a run of atoms (outside a class) -/
def pushAtoms (st : LexSt) (as : List Atom) (cs : Bool) : LexSt :=
  match st.br with
  | none => { items := st.items ++ as.map Item.a, br := none, cls := none, compStart := cs }
  | some (d, c) => { items := st.items, br := some (d, c ++ as), cls := none, compStart := cs }

theorem pushAtoms_append (st : LexSt) (a b : List Atom) (c1 c2 : Bool) :
    pushAtoms (pushAtoms st a c1) b c2 = pushAtoms st (a ++ b) c2 := by
  unfold pushAtoms; cases h : st.br with
  | none => simp
  | some dc => obtain ⟨d, c⟩ := dc; simp

theorem lexGo_stepG (o : DocOpts) (c : Nat) (rest : List Nat) (st : LexSt) (hcls : st.cls = none)
    (hok : okChar c = true) (hesc : (c == 92 && o.be) = false)
    (hss : ¬ (c = 42 ∧ rest.head? = some 42)) :
    ∃ cs, lexGo o (c :: rest) st = lexGo o rest (pushAtoms st [trAtom (tokOf c)] cs) := by
  simp only [okChar, Bool.and_eq_true, decide_eq_true_eq, Bool.not_eq_eq_eq_not, Bool.not_true,
    Bool.or_eq_false_iff, beq_eq_false_iff_ne, ne_eq] at hok
  obtain ⟨hlt, ⟨⟨h91, h123⟩, h125⟩, h44⟩ := hok
  have hge : ¬ c ≥ 128 := by omega
  rw [lexGo.eq_def]
  simp only [hge, ↓reduceIte, hcls]
  have hpush : ∀ (x : Atom) (b : Bool), ∃ cs, st.push x b = pushAtoms st [x] cs := by
    intro x b
    unfold LexSt.push pushAtoms
    cases h : st.br with
    | none => exact ⟨b, by cases st; simp_all⟩
    | some dc => obtain ⟨d, c'⟩ := dc; exact ⟨false, by cases st; simp_all⟩
  by_cases h63 : c = 63
  · subst h63
    obtain ⟨cs, hcs⟩ := hpush .any false
    exact ⟨cs, by simp [tokOf, trAtom, hcs]⟩
  · by_cases h42 : c = 42
    · subst h42
      have hh : (rest.head? == some 42) = false := by
        simp only [beq_eq_false_iff_ne, ne_eq]; exact fun h => hss ⟨rfl, h⟩
      obtain ⟨cs, hcs⟩ := hpush .star false
      exact ⟨cs, by simp [tokOf, trAtom, hh, hcs]⟩
    · by_cases h92 : c = 92
      · subst h92
        have hbe : o.be = false := by simpa using hesc
        obtain ⟨cs, hcs⟩ := hpush (.lit 92) false
        exact ⟨cs, by simp [tokOf, trAtom, hbe, hcs]⟩
      · obtain ⟨cs, hcs⟩ := hpush (.lit c) (c == 47 && st.br.isNone)
        exact ⟨cs, by simp [tokOf, trAtom, h63, h42, h92, h91, h123, h125, h44, hcs]⟩

theorem pushAtoms_cls (st : LexSt) (as : List Atom) (cs : Bool) : (pushAtoms st as cs).cls = none := by
  unfold pushAtoms; cases h : st.br with
  | none => rfl
  | some dc => rfl

theorem lexGo_simple_preG (o : DocOpts) (g rest : List Nat) (hg : simpleGlob o.be g = true)
    (hrest : rest.head? ≠ some 42) (st : LexSt) (hcls : st.cls = none) :
    ∃ cs, lexGo o (g ++ rest) st = lexGo o rest (pushAtoms st ((simpleToks o.be g).map trAtom) cs) := by
  induction g using simpleToks.induct (be := o.be) generalizing st with
  | case1 =>
    refine ⟨st.compStart, ?_⟩
    simp only [List.nil_append, simpleToks, List.map_nil]
    congr 1
    unfold pushAtoms
    cases h : st.br with
    | none => cases st; simp_all
    | some dc => obtain ⟨d, c⟩ := dc; cases st; simp_all
  | case2 c hesc => simp [simpleGlob, hesc] at hg
  | case3 c hesc =>
    have hesc' : (c == 92 && o.be) = false := by simpa using hesc
    simp only [simpleGlob, Bool.and_eq_true, hesc', Bool.not_false, and_true] at hg
    obtain ⟨cs, hstep⟩ := lexGo_stepG o c rest st hcls hg hesc' (fun h => hrest h.2)
    exact ⟨cs, by simp only [List.cons_append, List.nil_append, hstep]; simp [simpleToks, hesc']⟩
  | case4 c e g hesc ih =>
    simp only [Bool.and_eq_true, beq_iff_eq] at hesc
    obtain ⟨rfl, hbe⟩ := hesc
    simp only [simpleGlob, BEq.rfl, hbe, Bool.and_self, ↓reduceIte, Bool.and_eq_true,
      decide_eq_true_eq] at hg
    have hge : ¬ e ≥ 128 := by omega
    have hpush : ∃ cs0, st.push (.lit e) false = pushAtoms st [.lit e] cs0 := by
      unfold LexSt.push pushAtoms
      cases h : st.br with
      | none => exact ⟨false, by cases st; simp_all⟩
      | some dc => obtain ⟨d, c'⟩ := dc; exact ⟨false, by cases st; simp_all⟩
    obtain ⟨cs0, hcs0⟩ := hpush
    obtain ⟨cs, hrec⟩ := ih (by rw [hbe]; exact hg.2) (pushAtoms st [.lit e] cs0) (pushAtoms_cls _ _ _)
    refine ⟨cs, ?_⟩
    try simp only [List.cons_append]
    rw [lexGo.eq_def]
    simp only [show ¬ (92 : Nat) ≥ 128 by omega, ↓reduceIte, hcls, Nat.reduceBEq, Bool.false_eq_true,
      BEq.rfl, hbe, hge, hcs0]
    rw [hrec, pushAtoms_append]
    simp [simpleToks, hbe, trAtom]
  | case5 c e g hesc ih =>
    have hesc' : (c == 92 && o.be) = false := by simpa using hesc
    simp only [simpleGlob, hesc', Bool.false_eq_true, ↓reduceIte, Bool.and_eq_true,
      Bool.not_eq_eq_eq_not, Bool.not_true, Bool.and_eq_false_iff, beq_eq_false_iff_ne, ne_eq] at hg
    obtain ⟨cs0, hstep⟩ := lexGo_stepG o c (e :: (g ++ rest)) st hcls hg.1.1 hesc' (by
      rintro ⟨h1, h2⟩
      simp only [List.head?_cons, Option.some.injEq] at h2
      rcases hg.1.2 with h | h
      · exact h h1
      · exact h h2)
    obtain ⟨cs, hrec⟩ := ih hg.2 (pushAtoms st [trAtom (tokOf c)] cs0) (pushAtoms_cls _ _ _)
    refine ⟨cs, ?_⟩
    try simp only [List.cons_append] at hstep hrec ⊢
    rw [hstep, hrec, pushAtoms_append]
    simp [simpleToks, hesc']

/-! ### one alternation group in the lexer -/

theorem lex_open (o : DocOpts) (rest : List Nat) (st : LexSt) (hbr : st.br = none) (hcls : st.cls = none) :
    lexGo o (123 :: rest) st = lexGo o rest ⟨st.items, some ([], []), none, false⟩ := by
  rw [lexGo.eq_def]
  simp [hcls, hbr]

theorem lex_comma (o : DocOpts) (rest : List Nat) (items : List Item) (d : List (List Atom)) (c : List Atom)
    (cs : Bool) :
    lexGo o (44 :: rest) ⟨items, some (d, c), none, cs⟩ = lexGo o rest ⟨items, some (d ++ [c], []), none, cs⟩ := by
  rw [lexGo.eq_def]
  simp

theorem lex_closeBrace (o : DocOpts) (rest : List Nat) (items : List Item) (d : List (List Atom))
    (c : List Atom) (cs : Bool) :
    lexGo o (125 :: rest) ⟨items, some (d, c), none, cs⟩ =
      lexGo o rest ⟨items ++ [.alt (d ++ [c])], none, none, false⟩ := by
  rw [lexGo.eq_def]
  simp

def atomsOf (be : Bool) (b : List Nat) : List Atom := (simpleToks be b).map trAtom

def finalLex (be : Bool) (d : List (List Atom)) (c : List Atom) : List (List Nat) → List (List Atom)
  | [] => d ++ [c]
  | [b] => d ++ [c ++ atomsOf be b]
  | b :: b2 :: bs => finalLex be (d ++ [c ++ atomsOf be b]) [] (b2 :: bs)

theorem lex_branches (o : DocOpts) (bs : List (List Nat)) (hne : bs ≠ [])
    (hbs : bs.all (simpleGlob o.be) = true) (rest : List Nat) (items : List Item)
    (d : List (List Atom)) (c : List Atom) (cs : Bool) :
    lexGo o (joinComma bs ++ 125 :: rest) ⟨items, some (d, c), none, cs⟩ =
      lexGo o rest ⟨items ++ [.alt (finalLex o.be d c bs)], none, none, false⟩ := by
  induction bs generalizing d c cs with
  | nil => exact absurd rfl hne
  | cons b bs ih =>
    simp only [List.all_cons, Bool.and_eq_true] at hbs
    cases bs with
    | nil =>
      simp only [joinComma, finalLex]
      obtain ⟨cs1, h1⟩ := lexGo_simple_preG o b (125 :: rest) hbs.1 (by simp) ⟨items, some (d, c), none, cs⟩ rfl
      rw [h1]
      simp only [pushAtoms, atomsOf]
      exact lex_closeBrace o rest items d _ cs1
    | cons b2 bs' =>
      simp only [joinComma, List.append_assoc, List.cons_append, finalLex]
      obtain ⟨cs1, h1⟩ := lexGo_simple_preG o b (44 :: (joinComma (b2 :: bs') ++ 125 :: rest)) hbs.1 (by simp)
        ⟨items, some (d, c), none, cs⟩ rfl
      rw [h1]
      simp only [pushAtoms, atomsOf]
      rw [lex_comma]
      exact ih (by simp) hbs.2 _ _ _

theorem finalLex_nil (be : Bool) (d : List (List Atom)) (bs : List (List Nat)) (hne : bs ≠ []) :
    finalLex be d [] bs = d ++ bs.map (atomsOf be) := by
  induction bs generalizing d with
  | nil => exact absurd rfl hne
  | cons b bs ih =>
    cases bs with
    | nil => simp [finalLex]
    | cons b2 bs' =>
      simp only [finalLex, List.nil_append]
      rw [ih _ (by simp)]
      simp

theorem lex_alt (o : DocOpts) (bs : List (List Nat)) (hne : bs ≠ [])
    (hbs : bs.all (simpleGlob o.be) = true) (rest : List Nat) (st : LexSt)
    (hbr : st.br = none) (hcls : st.cls = none) :
    lexGo o (123 :: (joinComma bs ++ 125 :: rest)) st =
      lexGo o rest ⟨st.items ++ [.alt (bs.map (atomsOf o.be))], none, none, false⟩ := by
  rw [lex_open o _ st hbr hcls, lex_branches o bs hne hbs rest st.items [] [] false, finalLex_nil _ _ _ hne]
  simp

/-! ### globs  R₀ {…} R₁ {…} … -/

inductive APiece where
  | run (g : List Nat)
  | alt (bs : List (List Nat))
  deriving Repr, DecidableEq

def APiece.text : APiece → List Nat
  | .run g => g
  | .alt bs => 123 :: (joinComma bs ++ [125])

def APiece.toks (be : Bool) : APiece → List Token
  | .run g => (simpleToks be g).map Token.s
  | .alt bs => [.alts (bs.map (simpleToks be)).reverse]

def APiece.items (be : Bool) : APiece → List Item
  | .run g => (atomsOf be g).map Item.a
  | .alt bs => [.alt (bs.map (atomsOf be))]

def aText (ps : List APiece) : List Nat := ps.flatMap APiece.text
def aToks (be : Bool) (ps : List APiece) : List Token := ps.flatMap (APiece.toks be)
def aItems (be : Bool) (ps : List APiece) : List Item := ps.flatMap (APiece.items be)

/-- a group has at least one branch, all in the wildcard grammar, and at least one that is kept -/
def altOk (be ea : Bool) (bs : List (List Nat)) : Bool :=
  !bs.isEmpty && bs.all (simpleGlob be) && (ea || bs.any fun b => !b.isEmpty)

def aOk (be ea : Bool) : List APiece → Bool
  | [] => true
  | .alt bs :: rest => altOk be ea bs && aOk be ea rest
  | [.run g] => simpleGlob be g
  | .run g :: .alt bs :: rest => simpleGlob be g && altOk be ea bs && aOk be ea rest
  | .run _ :: .run _ :: _ => false

theorem aText_cons (p : APiece) (ps : List APiece) : aText (p :: ps) = p.text ++ aText ps := by simp [aText]
theorem aToks_cons (be : Bool) (p : APiece) (ps : List APiece) : aToks be (p :: ps) = p.toks be ++ aToks be ps := by
  simp [aToks]
theorem aItems_cons (be : Bool) (p : APiece) (ps : List APiece) :
    aItems be (p :: ps) = p.items be ++ aItems be ps := by simp [aItems]

theorem aOk_tail (be ea : Bool) (p : APiece) (rest : List APiece) (h : aOk be ea (p :: rest) = true) :
    aOk be ea rest = true := by
  cases p with
  | alt bs => simp only [aOk, Bool.and_eq_true] at h; exact h.2
  | run g =>
    cases rest with
    | nil => rfl
    | cons q rest' =>
      cases q with
      | run g' => simp [aOk] at h
      | alt bs => simp only [aOk, Bool.and_eq_true] at h ⊢; exact ⟨h.1.2, h.2⟩

theorem aOk_run (be ea : Bool) (g : List Nat) (rest : List APiece) (h : aOk be ea (.run g :: rest) = true) :
    simpleGlob be g = true := by
  cases rest with
  | nil => simpa [aOk] using h
  | cons q rest' =>
    cases q with
    | run g' => simp [aOk] at h
    | alt bs => simp only [aOk, Bool.and_eq_true] at h; exact h.1.1

theorem aOk_alt (be ea : Bool) (bs : List (List Nat)) (rest : List APiece) (h : aOk be ea (.alt bs :: rest) = true) :
    altOk be ea bs = true := by
  simp only [aOk, Bool.and_eq_true] at h; exact h.1

theorem aText_head (be ea : Bool) (g : List Nat) (rest : List APiece) (h : aOk be ea (.run g :: rest) = true) :
    (aText rest).head? ≠ some 42 := by
  cases rest with
  | nil => simp [aText]
  | cons p rest =>
    cases p with
    | run g' => simp [aOk] at h
    | alt bs => simp [aText, APiece.text]

theorem parseLoop_apieces (o : Opts) (ps : List APiece) (hok : aOk o.be o.ea ps = true) (fuel : Nat)
    (st : PState) (hb : st.branches = []) (hf : (aText ps).length < fuel) :
    parseLoop o fuel st (aText ps) =
      .ok { outer := st.outer ++ aToks o.be ps, branches := [], cur := none } := by
  induction ps generalizing fuel st with
  | nil =>
    obtain ⟨f, rfl⟩ : ∃ f, fuel = f + 1 := ⟨fuel - 1, by omega⟩
    simp [aText, aToks, parseLoop, hb]
  | cons p rest ih =>
    have hrest := aOk_tail o.be o.ea p rest hok
    rw [aText_cons] at hf ⊢
    rw [aToks_cons]
    cases p with
    | run g =>
      simp only [APiece.text, APiece.toks] at hf ⊢
      obtain ⟨fuel', cur, hf', hrec⟩ := parseLoop_simple_pre o g (aText rest) (aOk_run o.be o.ea g rest hok)
        (aText_head o.be o.ea g rest hok) fuel st hb hf
      rw [hrec, ih hrest fuel' _ rfl hf']
      simp
    | alt bs =>
      have ha := aOk_alt o.be o.ea bs rest hok
      simp only [altOk, Bool.and_eq_true, Bool.not_eq_eq_eq_not, Bool.not_true, List.isEmpty_eq_false_iff] at ha
      simp only [APiece.text, APiece.toks, List.cons_append, List.append_assoc, List.nil_append] at hf ⊢
      obtain ⟨fuel', hf', hrec⟩ := parseLoop_alt o bs ha.1.1 ha.1.2 (aText rest) fuel st hb hf
      rw [hrec, ih hrest fuel' _ rfl hf']
      simp

theorem lexGo_apieces (o : DocOpts) (ps : List APiece) (hok : aOk o.be o.ea ps = true) (st : LexSt)
    (hbr : st.br = none) (hcls : st.cls = none) :
    lexGo o (aText ps) st = some (st.items ++ aItems o.be ps) := by
  induction ps generalizing st with
  | nil => rw [lexGo.eq_def]; simp [aText, aItems, hbr, hcls]
  | cons p rest ih =>
    have hrest := aOk_tail o.be o.ea p rest hok
    rw [aText_cons, aItems_cons]
    cases p with
    | run g =>
      simp only [APiece.text, APiece.items]
      obtain ⟨cs, hrec⟩ := lexGo_simple_pre o g (aText rest) (aOk_run o.be o.ea g rest hok)
        (aText_head o.be o.ea g rest hok) st hbr hcls
      rw [hrec, ih hrest _ rfl rfl]
      simp [itemsOf, atomsOf]
    | alt bs =>
      have ha := aOk_alt o.be o.ea bs rest hok
      simp only [altOk, Bool.and_eq_true, Bool.not_eq_eq_eq_not, Bool.not_true, List.isEmpty_eq_false_iff] at ha
      simp only [APiece.text, APiece.items, List.cons_append, List.append_assoc, List.nil_append]
      rw [lex_alt o bs ha.1.1 ha.1.2 (aText rest) st hbr hcls, ih hrest _ rfl rfl]
      simp

/-! ### meaning -/

theorem seqK_eq_amK (o : Opts) (ts : List Tok) (hts : ∀ t ∈ ts, simpleTok t = true) (K : Bytes → Bool)
    (p : Bytes) : seqK o ts K p = amK (docOpts o) (ts.map trAtom) K p := by
  induction ts generalizing p with
  | nil => rfl
  | cons t ts ih =>
    have ih' := fun p => ih (fun t ht => hts t (by simp [ht])) p
    have ht := hts t (by simp)
    cases t with
    | lit c =>
      have hc : c < 128 := by simpa [simpleTok] using ht
      simp only [List.map_cons, seqK, tokRests, trAtom, utf8Enc, hc, ↓reduceIte]
      cases p with
      | nil => simp [litRest, amK]
      | cons b p =>
        simp only [litRest, amK, sameChar_eq]
        cases h : eqB o.ci c b <;> simp [ih']
    | any =>
      simp only [List.map_cons, trAtom]
      cases p with
      | nil => simp [seqK, tokRests, amK]
      | cons b p =>
        simp only [seqK, tokRests, amK, wild_eq]
        cases h : anyOk o b <;> simp [ih']
    | star =>
      simp only [List.map_cons, trAtom, seqK, tokRests, amK]
      rw [star_any_eq]
      congr 1
      funext xr
      simp only [ih']
      congr 1
    | recPrefix => simp [simpleTok] at ht
    | recSuffix => simp [simpleTok] at ht
    | recZero => simp [simpleTok] at ht
    | cls n r => simp [simpleTok] at ht

theorem tokensK_run (o : Opts) (ts : List Tok) (rest : List Token) (k : Bytes → Bool) (p : Bytes) :
    tokensK o (ts.map Token.s ++ rest) k p = seqK o ts (tokensK o rest k) p := by
  induction ts generalizing p with
  | nil => rfl
  | cons t ts ih => simp only [List.map_cons, List.cons_append, tokensK, seqK]; congr 1; funext r; exact ih r

theorem and_any {α} (c : Bool) (L : List α) (g : α → Bool) (hL : L ≠ [] ∨ c = c) :
    (c && L.any g) = L.any fun l => c && g l := by
  cases c
  · simp
  · simp

/-- a continuation that is a disjunction can be pulled out -/
theorem amK_any {α} (o : DocOpts) (as : List Atom) (L : List α) (f : α → Bytes → Bool) (p : Bytes) :
    amK o as (fun r => L.any fun l => f l r) p = L.any fun l => amK o as (f l) p := by
  induction as generalizing p with
  | nil => rfl
  | cons a as ih =>
    have swap : ∀ (cond : Bytes × Bytes → Bool),
        ((splits p).any fun xr => cond xr && L.any fun l => amK o as (f l) xr.2) =
          L.any fun l => (splits p).any fun xr => cond xr && amK o as (f l) xr.2 := by
      intro cond
      apply Bool.eq_iff_iff.mpr
      simp only [List.any_eq_true, Bool.and_eq_true]
      constructor
      · rintro ⟨xr, hxr, hc, l, hl, hk⟩; exact ⟨l, hl, xr, hxr, hc, hk⟩
      · rintro ⟨l, hl, xr, hxr, hc, hk⟩; exact ⟨xr, hxr, hc, l, hl, hk⟩
    cases a with
    | lit c =>
      cases p with
      | nil => simp [amK]
      | cons b p => simp only [amK, ih]; exact and_any _ _ _ (Or.inr rfl)
    | any =>
      cases p with
      | nil => simp [amK]
      | cons b p => simp only [amK, ih]; exact and_any _ _ _ (Or.inr rfl)
    | cls n r =>
      cases p with
      | nil => simp [amK]
      | cons b p => simp only [amK, ih]; exact and_any _ _ _ (Or.inr rfl)
    | star => simp only [amK, ih]; exact swap _
    | dirs => simp only [amK, ih]; exact swap _
    | rest =>
      simp only [amK, ih]
      have := swap (fun _ => true)
      simpa using this

def keptOf (o : DocOpts) (bs : List (List Atom)) : List (List Atom) :=
  if o.ea then bs else bs.filter fun b => !b.isEmpty

/-- the documented meaning of a list of items, in continuation form -/
def itemsK (o : DocOpts) : List Item → (Bytes → Bool) → Bytes → Bool
  | [], k, p => k p
  | .a x :: rest, k, p => amK o [x] (itemsK o rest k) p
  | .alt bs :: rest, k, p => (keptOf o bs).any fun b => amK o b (itemsK o rest k) p

theorem expand_any (o : DocOpts) (items : List Item) (alts : List (List Atom)) (k : Bytes → Bool)
    (h : expand o items = some alts) (p : Bytes) :
    (alts.any fun as => amK o as k p) = itemsK o items k p := by
  induction items generalizing alts p with
  | nil =>
    simp only [expand, Option.some.injEq] at h
    subst h; simp [itemsK, amK]
  | cons it items ih =>
    cases it with
    | a x =>
      simp only [expand, Option.map_eq_some_iff] at h
      obtain ⟨tails, ht, rfl⟩ := h
      have hk : itemsK o items k = fun r => tails.any fun tl => amK o tl k r := by
        funext r; exact (ih tails ht r).symm
      simp only [List.any_map, Function.comp, itemsK]
      rw [hk, amK_any]
      congr 1
      funext tl
      exact amK_append o [x] tl k p
    | alt bs =>
      have hexp : expand o (.alt bs :: items) =
          if (keptOf o bs).isEmpty then none
          else (expand o items).map fun tails => (keptOf o bs).flatMap fun b => tails.map (b ++ ·) := rfl
      rw [hexp] at h
      by_cases hke : (keptOf o bs).isEmpty = true
      · simp [hke] at h
      · simp only [hke, Bool.false_eq_true, ↓reduceIte, Option.map_eq_some_iff] at h
        obtain ⟨tails, ht, rfl⟩ := h
        have hk : itemsK o items k = fun r => tails.any fun tl => amK o tl k r := by
          funext r; exact (ih tails ht r).symm
        simp only [itemsK, List.any_flatMap, List.any_map, Function.comp]
        congr 1
        funext b
        rw [hk, amK_any]
        congr 1
        funext tl
        exact amK_append o b tl k p

theorem itemsK_atoms (o : DocOpts) (as : List Atom) (rest : List Item) (k : Bytes → Bool) (p : Bytes) :
    itemsK o (as.map Item.a ++ rest) k p = amK o as (itemsK o rest k) p := by
  induction as generalizing p with
  | nil => rfl
  | cons a as ih =>
    simp only [List.map_cons, List.cons_append, itemsK]
    rw [show amK o (a :: as) (itemsK o rest k) p = amK o [a] (amK o as (itemsK o rest k)) p from
      amK_append o [a] as _ p]
    congr 1
    funext r
    exact ih r

theorem any_congr_mem' {α} (l : List α) (f g : α → Bool) (h : ∀ x ∈ l, f x = g x) : l.any f = l.any g := by
  induction l with
  | nil => rfl
  | cons a l ih => simp only [List.any_cons, h a (by simp), ih (fun x hx => h x (by simp [hx]))]

theorem atomsOf_isEmpty (be : Bool) (b : List Nat) : (atomsOf be b).isEmpty = (simpleToks be b).isEmpty := by
  simp [atomsOf]

/-- the token meaning of a group is the documented meaning of the group -/
theorem alts_eq (o : Opts) (bs : List (List Nat)) (hok : altOk o.be o.ea bs = true) (K : Bytes → Bool)
    (restT : List Token) (k : Bytes → Bool) (hK : tokensK o restT k = K) (p : Bytes) :
    tokensK o (.alts (bs.map (simpleToks o.be)).reverse :: restT) k p =
      (keptOf (docOpts o) (bs.map (atomsOf o.be))).any fun b => amK (docOpts o) b K p := by
  simp only [altOk, Bool.and_eq_true, Bool.not_eq_eq_eq_not, Bool.not_true, List.isEmpty_eq_false_iff,
    Bool.or_eq_true, List.any_eq_true] at hok
  obtain ⟨⟨_, hbs⟩, hkeep⟩ := hok
  -- both sides as a disjunction over the branches as written
  have hL : ∀ (f : List Tok → Bool),
      (keptBranches o (bs.map (simpleToks o.be)).reverse).any f =
        bs.any fun b => (!(simpleToks o.be b).isEmpty || o.ea) && f (simpleToks o.be b) := by
    intro f
    unfold keptBranches
    rw [List.filter_reverse, List.any_reverse, List.any_filter, List.any_map]
    rfl
  have hR : ∀ (f : List Atom → Bool),
      (keptOf (docOpts o) (bs.map (atomsOf o.be))).any f =
        bs.any fun b => (!(simpleToks o.be b).isEmpty || o.ea) && f (atomsOf o.be b) := by
    intro f
    unfold keptOf
    have hea : (docOpts o).ea = o.ea := rfl
    rw [hea]
    cases o.ea
    · simp only [Bool.false_eq_true, ↓reduceIte, List.any_filter, List.any_map, Bool.or_false]
      congr 1; funext b; simp [Function.comp, atomsOf_isEmpty]
    · simp only [↓reduceIte, List.any_map, Bool.or_true, Bool.true_and]; rfl
  have hne : (keptBranches o (bs.map (simpleToks o.be)).reverse).isEmpty = false := by
    have := hL (fun _ => true)
    simp only [Bool.and_true] at this
    have hany : (bs.any fun b => !(simpleToks o.be b).isEmpty || o.ea) = true := by
      rcases hkeep with hea | ⟨b, hb, hbne⟩
      · obtain ⟨b0, tl, rfl⟩ := List.exists_cons_of_ne_nil (by assumption : bs ≠ [])
        simp [hea]
      · simp only [List.any_eq_true, Bool.or_eq_true, Bool.not_eq_eq_eq_not, Bool.not_true]
        refine ⟨b, hb, Or.inl ?_⟩
        have hsg := List.all_eq_true.mp hbs b hb
        cases hst : (simpleToks o.be b).isEmpty with
        | false => rfl
        | true =>
          have : b = [] := simpleToks_eq_nil hsg (by simpa using hst)
          subst this; simp at hbne
    rw [hany] at this
    cases hk : keptBranches o (bs.map (simpleToks o.be)).reverse with
    | nil => rw [hk] at this; simp at this
    | cons x xs => rfl
  simp only [tokensK, hne, Bool.false_eq_true, ↓reduceIte]
  rw [hL, hR, hK]
  apply any_congr_mem'
  intro b hb
  have hsg := List.all_eq_true.mp hbs b hb
  rw [seqK_eq_amK o _ (simpleToks_simple o.be b hsg) K p]
  rfl

theorem tokensK_apieces (o : Opts) (ps : List APiece) (hok : aOk o.be o.ea ps = true) (k : Bytes → Bool)
    (p : Bytes) : tokensK o (aToks o.be ps) k p = itemsK (docOpts o) (aItems o.be ps) k p := by
  induction ps generalizing p with
  | nil => rfl
  | cons q rest ih =>
    have hrest := aOk_tail o.be o.ea q rest hok
    have ih' : tokensK o (aToks o.be rest) k = itemsK (docOpts o) (aItems o.be rest) k := by
      funext r; exact ih hrest r
    rw [aToks_cons, aItems_cons]
    cases q with
    | run g =>
      simp only [APiece.toks, APiece.items]
      rw [tokensK_run, itemsK_atoms, seqK_eq_amK o _ (simpleToks_simple o.be g (aOk_run o.be o.ea g rest hok)), ih']
      rfl
    | alt bs =>
      simp only [APiece.toks, APiece.items, List.singleton_append, itemsK]
      exact alts_eq o bs (aOk_alt o.be o.ea bs rest hok) _ _ k ih' p

/-- **C12_doc with one level of alternates** -/
theorem doc_apieces (o : Opts) (ps : List APiece) (hok : aOk o.be o.ea ps = true)
    (hexp : (expand (docOpts o) (aItems o.be ps)).isSome = true)
    (hne : aToks o.be ps ≠ [.s .recPrefix]) (p : Bytes) :
    ∃ toks, parse o (aText ps) = .ok toks ∧ okGlob (docOpts o) (aText ps) = true ∧
      tokMatch o toks p = docMatch (docOpts o) (aText ps) p := by
  obtain ⟨alts, halts⟩ := Option.isSome_iff_exists.mp hexp
  have hod : onlyDirs (aItems o.be ps) = false := by
    -- no item is `dirs`: runs give wildcard atoms, groups give `alt` items
    unfold onlyDirs
    cases hps : ps with
    | nil => simp [aItems]
    | cons q rest =>
      simp only [Bool.and_eq_false_iff, Bool.not_eq_eq_eq_not, Bool.not_true, List.isEmpty_eq_false_iff,
        List.all_eq_false]
      by_cases hi : aItems o.be (q :: rest) = []
      · left; simp [hi]
      · right
        obtain ⟨it, its, hits⟩ := List.exists_cons_of_ne_nil hi
        refine ⟨it, by rw [hits]; simp, ?_⟩
        -- the first item is not `.a .dirs`
        have hmem : it ∈ aItems o.be (q :: rest) := by rw [hits]; simp
        unfold aItems at hmem
        rw [List.mem_flatMap] at hmem
        obtain ⟨q', hq', hit⟩ := hmem
        cases q' with
        | alt bs => simp only [APiece.items, List.mem_singleton] at hit; subst hit; simp
        | run g =>
          simp only [APiece.items, atomsOf, List.mem_map] at hit
          obtain ⟨a, ⟨t, ht, rfl⟩, rfl⟩ := hit
          have hsg : simpleGlob o.be g = true := by
            -- every run of a well-formed glob is in the wildcard grammar
            have : ∀ (ps : List APiece), aOk o.be o.ea ps = true → APiece.run g ∈ ps → simpleGlob o.be g = true := by
              intro ps
              induction ps with
              | nil => intro _ h; simp at h
              | cons x xs ihx =>
                intro hok' hm
                rcases List.mem_cons.mp hm with rfl | hm
                · exact aOk_run o.be o.ea g xs hok'
                · exact ihx (aOk_tail o.be o.ea x xs hok') hm
            exact this ps hok (by rw [hps]; exact hq')
          have := simpleToks_no_dirs o.be g t ht
          simpa using this
  have hlex : docLex (docOpts o) (aText ps) = some alts := by
    unfold docLex
    have hbe : (docOpts o).be = o.be := rfl
    have hea : (docOpts o).ea = o.ea := rfl
    rw [lexGo_apieces (docOpts o) ps (by rw [hbe, hea]; exact hok) _ rfl rfl]
    simp only [List.nil_append, hbe, hod, Bool.false_eq_true, ↓reduceIte]
    exact halts
  have hparse : parse o (aText ps) = .ok (aToks o.be ps) := by
    unfold parse
    rw [parseLoop_apieces o ps hok _ _ rfl (by omega)]
    simp [PState.depth]
  refine ⟨_, hparse, by simp [okGlob, hlex], ?_⟩
  unfold docMatch
  rw [hlex]
  simp only
  rw [tokMatch_eq _ _ _ hne, tokensK_apieces o ps hok, ← expand_any (docOpts o) _ alts _ halts p]
  apply any_congr_mem'
  intro as _
  exact (atomsMatch_eq_amK (docOpts o) as p).symm

/-! ### a decidable guard -/

/-- split the text of one group body at its commas (no escapes are interpreted: a `\,` makes the re-rendering
differ from the input only if the grammar excludes it anyway) -/
def splitComma : List Nat → List Nat → List (List Nat)
  | [], cur => [cur]
  | 92 :: e :: rest, cur => splitComma rest (cur ++ [92, e])
  | c :: rest, cur => if c == 44 then cur :: splitComma rest [] else splitComma rest (cur ++ [c])

def scanAlt (be : Bool) : Nat → List Nat → List Nat → List APiece
  | 0, g, cur => if (cur ++ g).isEmpty then [] else [.run (cur ++ g)]
  | _ + 1, [], cur => if cur.isEmpty then [] else [.run cur]
  | f + 1, 92 :: e :: rest, cur =>
    if be then scanAlt be f rest (cur ++ [92, e]) else scanAlt be f (e :: rest) (cur ++ [92])
  | f + 1, 123 :: rest, cur =>
    let body := rest.takeWhile (· != 125)
    let after := (rest.dropWhile (· != 125)).drop 1
    (if cur.isEmpty then [] else [.run cur]) ++ [.alt (splitComma body [])] ++ scanAlt be f after []
  | f + 1, c :: rest, cur => scanAlt be f rest (cur ++ [c])

/-- globs with one level of alternates over wildcard runs -/
def okAltGlob (o : Opts) (g : List Nat) : Bool :=
  let ps := scanAlt o.be (g.length + 1) g []
  aText ps == g && aOk o.be o.ea ps && (expand (docOpts o) (aItems o.be ps)).isSome &&
  decide (aToks o.be ps ≠ [.s .recPrefix])

theorem doc_okAltGlob (o : Opts) (g : List Nat) (hg : okAltGlob o g = true) (p : Bytes) :
    ∃ toks, parse o g = .ok toks ∧ okGlob (docOpts o) g = true ∧
      tokMatch o toks p = docMatch (docOpts o) g p := by
  unfold okAltGlob at hg
  simp only [Bool.and_eq_true, beq_iff_eq, decide_eq_true_eq] at hg
  rw [← hg.1.1.1]
  exact doc_apieces o _ hg.1.1.2 hg.1.2 hg.2 p

-- `*.{c,h}`, `{a,b*}x`, `a{,b}` with and without `empty_alternates`
example : okAltGlob ⟨false, false, true, false⟩ [42, 46, 123, 99, 44, 104, 125] = true ∧
    okAltGlob ⟨false, true, true, false⟩ [123, 97, 44, 98, 42, 125, 120] = true ∧
    okAltGlob ⟨false, false, true, true⟩ [97, 123, 44, 98, 125] = true ∧
    okAltGlob ⟨false, false, true, false⟩ [97, 123, 44, 98, 125] = true ∧
    -- outside: `{}` without `empty_alternates`, nested braces, `**` in a branch
    okAltGlob ⟨false, false, true, false⟩ [123, 125] = false ∧
    okAltGlob ⟨false, false, true, false⟩ [123, 123, 97, 125, 125] = false ∧
    okAltGlob ⟨false, false, true, false⟩ [123, 42, 42, 125] = false := by decide

end RgVerif.Glob
