import RgVerif.Lemmas.PrinterMulti
import RgVerif.Lemmas.PrinterIter
/-
Helper lemmas for C09/C10: `sink_slow_multi_line_only_matching` (`-U -o`).  For matches that are sorted and
disjoint (which `find_iter_at_in_context` guarantees for a sane matcher), the loop prints, line by line, one
record per non-empty intersection of a match with the line (terminator excluded): the intersected bytes, the line's
number, and the offset / column of the *match start*.
-/
namespace RgVerif.Lemmas.PrinterOnly
open RgVerif RgVerif.Matcher RgVerif.Replace RgVerif.Printer RgVerif.PrinterSpec
open RgVerif.Lemmas.PrinterRecord RgVerif.Lemmas.PrinterStd RgVerif.Lemmas.PrinterMulti

/-- non-empty intersection of the match `m` with the line `[ls, le)` -/
def inter (ls le : Nat) (m : Span) : Option (Span × Nat × Nat) :=
  if max ls m.s < min le m.e then some (m, max ls m.s, min le m.e) else none

/-- what `-U -o` writes for one piece -/
def renderPiece (sc : SCfg) (c : StdCfg) (s : Sunk) (count : Nat) (p : Span × Nat × Nat) : Bytes :=
  writePrelude c false (s.absOff + p.1.s) (s.lineNo.map (· + count)) (some (p.1.s + 1))
    ++ slice s.bytes p.2.1 p.2.2 ++ sc.lt.bytes

/-- matches in increasing order, disjoint, each well-formed -/
def Sorted (ms : List Span) : Prop := ms.Pairwise (fun a b => a.e ≤ b.s) ∧ ∀ m ∈ ms, m.s ≤ m.e

theorem inter_none_of_le (ls le : Nat) (m : Span) (h : m.e ≤ ls) : inter ls le m = none := by
  unfold inter
  have : ¬ (max ls m.s < min le m.e) := by omega
  simp [this]

theorem inter_none_of_ge (ls le : Nat) (m : Span) (h : le ≤ ls) : inter ls le m = none := by
  unfold inter
  have : ¬ (max ls m.s < min le m.e) := by omega
  simp [this]

theorem filterMap_inter_congr (ls ls' le : Nat) (rest : List Span) (bound : Nat)
    (h : ∀ r ∈ rest, bound ≤ r.s) (h1 : ls ≤ bound) (h2 : ls' ≤ bound) :
    rest.filterMap (inter ls le) = rest.filterMap (inter ls' le) := by
  induction rest with
  | nil => rfl
  | cons r rest ih =>
    have hr := h r (by simp)
    have hi : inter ls le r = inter ls' le r := by
      unfold inter
      have e1 : max ls r.s = r.s := by omega
      have e2 : max ls' r.s = r.s := by omega
      rw [e1, e2]
    simp only [List.filterMap_cons, hi]
    rw [ih (fun x hx => h x (List.mem_cons_of_mem _ hx))]

/-- The piece loop of one line. -/
theorem onlyMatchingGo_spec (sc : SCfg) (c : StdCfg) (s : Sunk) (count le : Nat) (hs : Sorted s.ms) :
    ∀ (fuel ls midx : Nat) (acc : Bytes), ls ≤ le → midx < s.ms.length → (le - ls) + (s.ms.length - midx) < fuel →
      (onlyMatchingGo sc c s count fuel ls le midx acc).1 =
        acc ++ ((s.ms.drop midx).filterMap (inter ls le)).flatMap (renderPiece sc c s count) ∧
      midx ≤ (onlyMatchingGo sc c s count fuel ls le midx acc).2 ∧
      (onlyMatchingGo sc c s count fuel ls le midx acc).2 < s.ms.length ∧
      (∀ j, midx ≤ j → j < (onlyMatchingGo sc c s count fuel ls le midx acc).2 → ∀ hj : j < s.ms.length, s.ms[j].e ≤ le) := by
  intro fuel
  induction fuel with
  | zero => intro ls midx acc _ _ h; omega
  | succ fuel ih =>
    intro ls midx acc hle hmid hf
    rw [onlyMatchingGo]
    by_cases heq : (ls == le) = true
    · have : ls = le := by simpa using heq
      subst this
      simp only [beq_self_eq_true, ↓reduceIte]
      refine ⟨?_, Nat.le_refl _, hmid, fun j h1 h2 => by omega⟩
      have : (s.ms.drop midx).filterMap (inter ls ls) = [] := by
        apply List.filterMap_eq_nil_iff.mpr
        intro m _
        exact inter_none_of_ge ls ls m (Nat.le_refl _)
      simp [this]
    · have hne : ls ≠ le := by simpa using heq
      have hlt : ls < le := by omega
      simp only [heq, Bool.false_eq_true, ↓reduceIte]
      have hget : s.ms[midx]? = some s.ms[midx] := by simp [hmid]
      rw [hget]
      simp only
      have hdrop : s.ms.drop midx = s.ms[midx] :: s.ms.drop (midx + 1) := List.drop_eq_getElem_cons hmid
      have hpw : (s.ms.drop midx).Pairwise (fun a b => a.e ≤ b.s) :=
        List.Pairwise.sublist (List.drop_sublist _ _) hs.1
      rw [hdrop, List.pairwise_cons] at hpw
      have hrest : ∀ r ∈ s.ms.drop (midx + 1), s.ms[midx].e ≤ r.s := hpw.1
      have hwf : s.ms[midx].s ≤ s.ms[midx].e := hs.2 _ (List.getElem_mem hmid)
      by_cases h1 : s.ms[midx].e ≤ ls
      · simp only [h1, ↓reduceIte]
        rw [hdrop, List.filterMap_cons, inter_none_of_le ls le _ h1]
        by_cases h2 : midx + 1 < s.ms.length
        · simp only [h2, ↓reduceIte]
          obtain ⟨e1, e2, e3, e4⟩ := ih ls (midx + 1) acc hle h2 (by omega)
          refine ⟨e1, by omega, e3, ?_⟩
          intro j hj1 hj2 hj
          by_cases hjm : j = midx
          · subst hjm; omega
          · exact e4 j (by omega) hj2 hj
        · simp only [h2, ↓reduceIte]
          have : s.ms.drop (midx + 1) = [] := List.drop_eq_nil_of_le (by omega)
          refine ⟨by simp [this], Nat.le_refl _, hmid, fun j h1 h2 => by omega⟩
      · simp only [h1, ↓reduceIte]
        by_cases h3 : ls < s.ms[midx].s
        · simp only [h3, ↓reduceIte]
          have hup2 : min le s.ms[midx].s ≤ le := by omega
          obtain ⟨e1, e2, e3, e4⟩ := ih (min le s.ms[midx].s) midx acc hup2 hmid (by omega)
          refine ⟨?_, e2, e3, e4⟩
          rw [e1, hdrop, List.filterMap_cons, List.filterMap_cons]
          have hm : inter (min le s.ms[midx].s) le s.ms[midx] = inter ls le s.ms[midx] := by
            unfold inter
            have a1 : max ls s.ms[midx].s = s.ms[midx].s := by omega
            have a2 : max (min le s.ms[midx].s) s.ms[midx].s = s.ms[midx].s := by omega
            rw [a1, a2]
          rw [hm, filterMap_inter_congr (min le s.ms[midx].s) ls le _ s.ms[midx].e hrest (by omega) (by omega)]
        · simp only [h3, ↓reduceIte]
          have hup2 : min le s.ms[midx].e ≤ le := by omega
          obtain ⟨e1, e2, e3, e4⟩ := ih (min le s.ms[midx].e) midx
            (acc ++ writePrelude c false (s.absOff + s.ms[midx].s) (s.lineNo.map (· + count)) (some (s.ms[midx].s + 1))
              ++ slice s.bytes ls (min le s.ms[midx].e) ++ sc.lt.bytes) hup2 hmid (by omega)
          refine ⟨?_, e2, e3, e4⟩
          rw [e1, hdrop, List.filterMap_cons, List.filterMap_cons]
          have hm1 : inter ls le s.ms[midx] = some (s.ms[midx], ls, min le s.ms[midx].e) := by
            unfold inter
            have a1 : max ls s.ms[midx].s = ls := by omega
            have a2 : ls < min le s.ms[midx].e := by omega
            simp [a1, a2]
          have hm2 : inter (min le s.ms[midx].e) le s.ms[midx] = none := by
            unfold inter
            have : ¬ (max (min le s.ms[midx].e) s.ms[midx].s < min le s.ms[midx].e) := by omega
            simp [this]
          rw [hm1, hm2,
            filterMap_inter_congr (min le s.ms[midx].e) ls le _ s.ms[midx].e hrest (by omega) (by omega)]
          simp [renderPiece, List.append_assoc]

/-- matches that ended before the line do not intersect it -/
theorem filterMap_take_nil (ms : List Span) (ls le midx : Nat)
    (h : ∀ j, j < midx → ∀ hj : j < ms.length, ms[j].e ≤ ls) :
    (ms.take midx).filterMap (inter ls le) = [] := by
  apply List.filterMap_eq_nil_iff.mpr
  intro m hm
  obtain ⟨j, hj, rfl⟩ := List.getElem_of_mem hm
  have hj' : j < midx := by simp at hj; omega
  have hjl : j < ms.length := by simp at hj; omega
  rw [List.getElem_take]
  exact inter_none_of_le ls le _ (h j hj' hjl)

/-- The pieces `-U -o` prints for a line `[ls, le)` whose terminator-free part ends at `le'`. -/
def linePieces (sc : SCfg) (c : StdCfg) (s : Sunk) (count ls le' : Nat) : Bytes :=
  (s.ms.filterMap (inter ls le')).flatMap (renderPiece sc c s count)

/-- The loop over the lines of a block (any spans with increasing starts). -/
theorem onlyMatchingLines_spec (sc : SCfg) (c : StdCfg) (s : Sunk) (hs : Sorted s.ms) :
    ∀ (spans : List (Nat × Nat)) (count midx : Nat), midx < s.ms.length →
      (∀ p ∈ spans, p.1 ≤ trimLineTerminator sc.lt s.bytes p.1 p.2) →
      spans.Pairwise (fun a b => a.2 ≤ b.1) →
      (∀ p ∈ spans, ∀ j, j < midx → ∀ hj : j < s.ms.length, s.ms[j].e ≤ p.1) →
      sinkSlowMultiLineOnlyMatchingGo sc c s count midx spans =
        (spans.zipIdx count).flatMap
          (fun q => linePieces sc c s q.2 q.1.1 (trimLineTerminator sc.lt s.bytes q.1.1 q.1.2)) := by
  intro spans
  induction spans with
  | nil => intro count midx _ _ _ _; simp [sinkSlowMultiLineOnlyMatchingGo]
  | cons p rest ih =>
    intro count midx hmid htr hpw hinv
    obtain ⟨ls, le⟩ := p
    simp only [sinkSlowMultiLineOnlyMatchingGo, List.zipIdx_cons, List.flatMap_cons]
    have hle := htr (ls, le) (by simp)
    simp only at hle
    obtain ⟨e1, e2, e3, e4⟩ := onlyMatchingGo_spec sc c s count (trimLineTerminator sc.lt s.bytes ls le) hs
      ((trimLineTerminator sc.lt s.bytes ls le - ls) + s.ms.length + 1) ls midx [] hle hmid (by omega)
    rw [show onlyMatchingGo sc c s count ((trimLineTerminator sc.lt s.bytes ls le - ls) + s.ms.length + 1) ls
          (trimLineTerminator sc.lt s.bytes ls le) midx [] =
        ((onlyMatchingGo sc c s count ((trimLineTerminator sc.lt s.bytes ls le - ls) + s.ms.length + 1) ls
          (trimLineTerminator sc.lt s.bytes ls le) midx []).1,
         (onlyMatchingGo sc c s count ((trimLineTerminator sc.lt s.bytes ls le - ls) + s.ms.length + 1) ls
          (trimLineTerminator sc.lt s.bytes ls le) midx []).2) from rfl]
    simp only
    rw [List.pairwise_cons] at hpw
    have hnext : ∀ q ∈ rest, ∀ j, j < (onlyMatchingGo sc c s count
          ((trimLineTerminator sc.lt s.bytes ls le - ls) + s.ms.length + 1) ls
          (trimLineTerminator sc.lt s.bytes ls le) midx []).2 → ∀ hj : j < s.ms.length, s.ms[j].e ≤ q.1 := by
      intro q hq j hj hjl
      have hq1 : le ≤ q.1 := hpw.1 q hq
      have htl := trim_le sc.lt s.bytes ls le
      by_cases hjm : j < midx
      · have := hinv (ls, le) (by simp) j hjm hjl
        simp only at this
        omega
      · have := e4 j (by omega) hj hjl
        omega
    rw [ih (count + 1) _ e3 (fun q hq => htr q (List.mem_cons_of_mem _ hq)) hpw.2 hnext, e1]
    simp only [List.nil_append, linePieces]
    congr 1
    -- matches before `midx` ended before this line
    have hsplit : s.ms = s.ms.take midx ++ s.ms.drop midx := (List.take_append_drop midx s.ms).symm
    conv => rhs; rw [hsplit, List.filterMap_append]
    rw [filterMap_take_nil s.ms ls _ midx (fun j hj hjl => by
      have := hinv (ls, le) (by simp) j hj hjl
      simpa using this)]
    simp

theorem spansFrom_props (lt : LineTerm) (bytes : Bytes) :
    ∀ (lines : List Bytes) (pre post : Bytes), bytes = pre ++ lines.flatten ++ post →
      (∀ l ∈ lines, l ≠ [] ∧ crlfLineOk lt l = true) →
      (∀ p ∈ spansFrom pre.length lines, pre.length ≤ p.1 ∧ p.1 ≤ trimLineTerminator lt bytes p.1 p.2) ∧
      (spansFrom pre.length lines).Pairwise (fun a b => a.2 ≤ b.1) := by
  intro lines
  induction lines with
  | nil => intro pre post _ _; simp [spansFrom]
  | cons line rest ih =>
    intro pre post hb hall
    have hline := hall line (by simp)
    have hbytes : bytes = pre ++ line ++ (rest.flatten ++ post) := by rw [hb]; simp
    obtain ⟨htle, _⟩ := trim_then_term lt pre line (rest.flatten ++ post) hline.1 hline.2
    rw [← hbytes] at htle
    have hrec := ih (pre ++ line) post (by rw [hb]; simp) (fun l hl => hall l (List.mem_cons_of_mem _ hl))
    simp only [List.length_append] at hrec
    simp only [spansFrom, List.mem_cons, List.pairwise_cons]
    refine ⟨?_, ?_, hrec.2⟩
    · intro p hp
      rcases hp with hp | hp
      · subst hp; exact ⟨Nat.le_refl _, htle⟩
      · have := hrec.1 p hp
        exact ⟨by omega, this.2⟩
    · intro p hp
      have := (hrec.1 p hp).1
      simpa using this

/-- **`-U -o`, byte level**: `sink_slow_multi_line_only_matching` prints, line by line, one record per non-empty
intersection of a match with the line (its terminator excluded): the intersected bytes, the line's number, and the
byte offset / column of the start of the *match* — so a match spanning k lines gives k records and an empty match
gives none (the C10 finding class `multiline-only-matching-records`). -/
theorem sinkSlowMultiLine_only_eq (sc : SCfg) (c : StdCfg) (s : Sunk) (hne : s.ms ≠ []) (hs : Sorted s.ms)
    (ho : c.onlyMatching = true)
    (hok : (splitLines sc.lt.asByte s.bytes).all (crlfLineOk sc.lt) = true) :
    sinkSlowMultiLine sc c s =
      ((lineSpans sc.lt.asByte s.bytes).zipIdx 0).flatMap
        (fun q => linePieces sc c s q.2 q.1.1 (trimLineTerminator sc.lt s.bytes q.1.1 q.1.2)) := by
  unfold sinkSlowMultiLine
  simp only [ho, ↓reduceIte]
  have hpos : 0 < s.ms.length := List.length_pos_iff.mpr hne
  have hp := spansFrom_props sc.lt s.bytes (splitLines sc.lt.asByte s.bytes) [] []
    (by simp [splitLines_flatten])
    (fun l hl => ⟨splitLines_ne_nil _ _ l hl, List.all_eq_true.mp hok l hl⟩)
  simp only [List.length_nil] at hp
  exact onlyMatchingLines_spec sc c s hs (lineSpans sc.lt.asByte s.bytes) 0 0 hpos
    (fun p hp' => (hp.1 p hp').2) hp.2 (fun _ _ j hj => by omega)

/-! ### the matches of a sane matcher are sorted and disjoint -/

open RgVerif.Lemmas.PrinterIter in
theorem iterGo_sorted (find : Nat → Option Span) (len d : Nat) (keep : Span → Bool) (tr : Span → Span)
    (hs : Sane find len)
    (htr : ∀ m, (tr m).s = m.s + d ∧ (tr m).e ≤ m.e + d ∧ (keep m = true → m.s ≤ m.e → (tr m).s ≤ (tr m).e)) :
    ∀ (fuel lastEnd : Nat) (lastMatch : Option Nat) (acc : List Span),
      (∀ m ∈ acc, m.e ≤ lastEnd + d) → Sorted acc →
      Sorted (iterGo id find len (gstep keep tr) fuel lastEnd lastMatch acc) := by
  intro fuel
  induction fuel with
  | zero => intro le lm acc _ h; simpa [iterGo] using h
  | succ fuel ih =>
    intro le lm acc hacc hsorted
    rw [iterGo_succ]
    by_cases h : le > len
    · simpa [h] using hsorted
    · simp only [h, ↓reduceIte]
      cases hf : find le with
      | none => simpa using hsorted
      | some m =>
        simp only
        have hge := hs.ge le m hf
        have hme := hs.le le m hf
        obtain ⟨t1, t2, t3⟩ := htr m
        have hnew : keep m = true → Sorted (acc ++ [tr m]) := by
          intro hk
          refine ⟨?_, ?_⟩
          · rw [List.pairwise_append]
            refine ⟨hsorted.1, by simp, ?_⟩
            intro a ha b hb
            simp only [List.mem_singleton] at hb
            subst hb
            have := hacc a ha
            omega
          · intro x hx
            rcases List.mem_append.mp hx with hx | hx
            · exact hsorted.2 x hx
            · simp only [List.mem_singleton] at hx; subst hx
              exact t3 hk hme
        have hbound : ∀ k, m.e ≤ k → ∀ x ∈ acc ++ [tr m], x.e ≤ k + d := by
          intro k hk x hx
          rcases List.mem_append.mp hx with hx | hx
          · have := hacc x hx; omega
          · simp only [List.mem_singleton] at hx; subst hx; omega
        rcases gstep_cases keep tr acc m with ⟨hst, _⟩ | ⟨hst, hk⟩
        · by_cases h1 : (m.s == m.e) = true
          · simp only [h1, ↓reduceIte]
            by_cases h2 : (some m.e == lm) = true
            · simp only [h2, ↓reduceIte]
              exact ih _ _ _ (fun x hx => by have := hacc x hx; omega) hsorted
            · simp only [h2, Bool.false_eq_true, ↓reduceIte, hst]
              exact hsorted
          · simp only [h1, Bool.false_eq_true, ↓reduceIte, hst]
            exact hsorted
        · by_cases h1 : (m.s == m.e) = true
          · simp only [h1, ↓reduceIte]
            by_cases h2 : (some m.e == lm) = true
            · simp only [h2, ↓reduceIte]
              exact ih _ _ _ (fun x hx => by have := hacc x hx; omega) hsorted
            · simp only [h2, Bool.false_eq_true, ↓reduceIte, hst]
              exact ih _ _ _ (hbound (m.e + 1) (by omega)) (hnew hk)
          · simp only [h1, Bool.false_eq_true, ↓reduceIte, hst]
            exact ih _ _ _ (hbound m.e (Nat.le_refl _)) (hnew hk)

open RgVerif.Lemmas.PrinterIter in
/-- What every printer records for a range: sorted, disjoint, well-formed matches (sane matcher). -/
theorem findIterInContext_sorted (sc : SCfg) (find : Oracle) (bytes : Bytes) (rs re : Nat)
    (hs : Sane (find (shownHay sc bytes rs re)) (shownHay sc bytes rs re).length) :
    Sorted (shiftSpans rs (findIterInContext sc find bytes rs re)) := by
  have h : Sorted (findIterInContext sc find bytes rs re) := by
    rw [findIterInContext_shown]
    by_cases hml : sc.multiLine = true
    · simp only [hml, ↓reduceIte]
      refine iterGo_sorted _ _ 0 _ _ hs ?_ _ _ none [] (by simp) ⟨by simp, by simp⟩
      intro m
      refine ⟨by simp [trML], by simp only [trML]; omega, ?_⟩
      intro hk hme
      have := (beyondRange_false_iff re _ m.s).mp (by simpa [keepML] using hk)
      simp only [trML]
      rcases this with h | ⟨_, h⟩ <;> omega
    · simp only [hml, Bool.false_eq_true, ↓reduceIte]
      refine iterGo_sorted _ _ rs _ _ hs ?_ _ _ none [] (by simp) ⟨by simp, by simp⟩
      intro m
      exact ⟨by simp [trLine], by simp [trLine], fun _ hme => by simp only [trLine]; omega⟩
  unfold shiftSpans
  refine ⟨?_, ?_⟩
  · rw [List.pairwise_map]
    exact h.1.imp (fun {a b} hab => by simp only; omega)
  · intro m hm
    obtain ⟨m0, hm0, rfl⟩ := List.mem_map.mp hm
    have := h.2 m0 hm0
    simp only
    omega

end RgVerif.Lemmas.PrinterOnly
