import RgVerif.Lemmas.GlobDocStar
/-
C12_doc with bracket classes: globs made of wildcard runs and classes `[…]`, `[!…]`, `[^…]` with single
characters and ranges, `]` first and `-` first or last literal.  `parse_class` and the documentation's reading
produce the same list of ranges; the regex class has exactly the documented members (`inCls_eq_clsHas`).
-/
namespace RgVerif.Glob
open RgVerif RgVerif.GlobDoc

inductive CItem where
  | one (c : Nat)
  | range (lo hi : Nat)
  deriving Repr, DecidableEq

/-- a class as written: optional `!`/`^`, optional literal first `]` or `-`, items, optional literal last `-` -/
structure ClsSpec where
  neg : Option Nat
  first : Option Nat
  items : List CItem
  trail : Bool
  deriving Repr, DecidableEq

def CItem.text : CItem → List Nat
  | .one c => [c]
  | .range lo hi => [lo, 45, hi]

def CItem.rng : CItem → Nat × Nat
  | .one c => (c, c)
  | .range lo hi => (lo, hi)

/-- characters that may stand for themselves inside a class -/
def clsChar (c : Nat) : Bool := decide (c < 128) && c != 93 && c != 45 && c != 92

def CItem.ok : CItem → Bool
  | .one c => clsChar c
  | .range lo hi => clsChar lo && clsChar hi && decide (lo ≤ hi)

def itemsText (items : List CItem) : List Nat := items.flatMap CItem.text

/-- the text after `[` up to and including the closing `]` -/
def ClsSpec.text (s : ClsSpec) : List Nat :=
  s.neg.toList ++ s.first.toList ++ itemsText s.items ++ (if s.trail then [45] else []) ++ [93]

def ClsSpec.ranges (s : ClsSpec) : List (Nat × Nat) :=
  (s.first.map fun c => (c, c)).toList ++ s.items.map CItem.rng ++ (if s.trail then [(45, 45)] else [])

def ClsSpec.isNeg (s : ClsSpec) : Bool := s.neg.isSome

def lastIsOne : List CItem → Bool
  | [] => false
  | [.one _] => true
  | [.range _ _] => false
  | _ :: x :: xs => lastIsOne (x :: xs)

def ClsSpec.wf (s : ClsSpec) : Bool :=
  (s.neg == none || s.neg == some 33 || s.neg == some 94) &&
  (s.first == none || s.first == some 93 || s.first == some 45) &&
  s.items.all CItem.ok &&
  (!s.trail || lastIsOne s.items) &&
  (s.first.isSome || !s.items.isEmpty) &&
  -- without `!`/`^` the first written character must not look like a negation
  (s.neg.isSome || s.first.isSome ||
    (match s.items with
     | .one c :: _ => c != 33 && c != 94
     | .range lo _ :: _ => lo != 33 && lo != 94
     | [] => false))

/-! ### `parse_class` -/

theorem classLoop_items (items : List CItem) (hok : items.all CItem.ok = true) (tail : List Nat)
    (ranges : List (Nat × Nat)) (first : Bool) :
    classLoop (itemsText items ++ tail) ranges first false =
      (if items.isEmpty then classLoop tail ranges first false
       else classLoop tail (ranges ++ items.map CItem.rng) false false) := by
  induction items generalizing ranges first with
  | nil => simp [itemsText]
  | cons it items ih =>
    simp only [List.all_cons, Bool.and_eq_true] at hok
    simp only [itemsText, List.flatMap_cons, List.append_assoc, List.isEmpty_cons, Bool.false_eq_true,
      ↓reduceIte, List.map_cons]
    have ih' := ih hok.2
    simp only [itemsText] at ih'
    cases it with
    | one c =>
      simp only [CItem.ok, clsChar, Bool.and_eq_true, decide_eq_true_eq, bne_iff_ne, ne_eq] at hok
      obtain ⟨⟨⟨⟨_, h93⟩, h45⟩, _⟩, _⟩ := hok
      simp only [CItem.text, List.cons_append, List.nil_append, classLoop, beq_iff_eq, h93, h45,
        ↓reduceIte, Bool.false_eq_true, CItem.rng]
      rw [ih' (ranges ++ [(c, c)]) false]
      cases items <;> simp
    | range lo hi =>
      simp only [CItem.ok, clsChar, Bool.and_eq_true, decide_eq_true_eq, bne_iff_ne, ne_eq] at hok
      obtain ⟨⟨⟨⟨⟨⟨_, hl93⟩, hl45⟩, _⟩, ⟨⟨⟨_, hh93⟩, hh45⟩, _⟩⟩, hle⟩, _⟩ := hok
      have hlt : ¬ hi < lo := by omega
      simp only [CItem.text, List.cons_append, List.nil_append, classLoop, beq_iff_eq, hl93, hl45, hh93, hh45,
        ↓reduceIte, Bool.false_eq_true, BEq.rfl, setLastHi, List.getLast?_append, List.getLast?_singleton,
        Option.some_or, hlt, List.dropLast_concat, CItem.rng]
      rw [ih' (ranges ++ [(lo, hi)]) false]
      cases items <;> simp

theorem classLoop_close (trail : Bool) (rest : List Nat) (R : List (Nat × Nat)) :
    classLoop ((if trail then [45] else []) ++ 93 :: rest) R false false =
      .ok (R ++ (if trail then [(45, 45)] else []), rest) := by
  cases trail <;> simp [classLoop]

/-- the class body after the optional negation -/
def ClsSpec.body (s : ClsSpec) : List Nat :=
  s.first.toList ++ (itemsText s.items ++ ((if s.trail then [45] else []) ++ [93]))

theorem ClsSpec.text_eq (s : ClsSpec) : s.text = s.neg.toList ++ s.body := by
  simp [ClsSpec.text, ClsSpec.body]

theorem classLoop_body (s : ClsSpec) (hw : s.wf = true) (rest : List Nat) :
    classLoop (s.body ++ rest) [] true false = .ok (s.ranges, rest) := by
  obtain ⟨neg, first, items, trail⟩ := s
  simp only [ClsSpec.wf, Bool.and_eq_true, Bool.or_eq_true, beq_iff_eq] at hw
  obtain ⟨⟨⟨⟨⟨_, hfirst⟩, hitems⟩, htr⟩, hne⟩, _⟩ := hw
  simp only [ClsSpec.body, ClsSpec.ranges, List.append_assoc, List.cons_append, List.nil_append]
  have hclose := fun R => classLoop_close trail rest R
  rcases hfirst with (rfl | rfl) | rfl
  · have hi : items.isEmpty = false := by simpa using hne
    simp only [Option.toList_none, List.nil_append, Option.map_none]
    rw [classLoop_items items hitems _ [] true, hi]
    simp only [Bool.false_eq_true, ↓reduceIte, List.nil_append]
    exact hclose _
  · simp only [Option.toList_some, List.cons_append, List.nil_append, Option.map_some,
      classLoop, BEq.rfl, ↓reduceIte]
    rw [classLoop_items items hitems _ [(93, 93)] false]
    cases hi : items.isEmpty
    · simp only [Bool.false_eq_true, ↓reduceIte]; rw [hclose]; simp
    · have hnil : items = [] := by simpa using hi
      subst hnil
      have htf : trail = false := by
        rcases htr with h | h
        · simpa using h
        · simp [lastIsOne] at h
      subst htf
      simp [classLoop]
  · simp only [Option.toList_some, List.cons_append, List.nil_append, Option.map_some,
      classLoop, Nat.reduceBEq, Bool.false_eq_true, BEq.rfl, ↓reduceIte]
    rw [classLoop_items items hitems _ [(45, 45)] false]
    cases hi : items.isEmpty
    · simp only [Bool.false_eq_true, ↓reduceIte]; rw [hclose]; simp
    · have hnil : items = [] := by simpa using hi
      subst hnil
      have htf : trail = false := by
        rcases htr with h | h
        · simpa using h
        · simp [lastIsOne] at h
      subst htf
      simp [classLoop]

theorem classNeg_spec (s : ClsSpec) (hw : s.wf = true) (rest : List Nat) :
    classNeg (s.text ++ rest) = (s.isNeg, s.body ++ rest) := by
  rw [ClsSpec.text_eq]
  obtain ⟨neg, first, items, trail⟩ := s
  simp only [ClsSpec.wf, Bool.and_eq_true, Bool.or_eq_true, beq_iff_eq] at hw
  obtain ⟨⟨⟨⟨⟨hneg, hfirst⟩, _⟩, _⟩, _⟩, hlook⟩ := hw
  simp only [ClsSpec.isNeg, ClsSpec.body]
  rcases hneg with (rfl | rfl) | rfl
  · simp only [Option.toList_none, List.nil_append, Option.isSome_none]
    rcases hfirst with (rfl | rfl) | rfl
    · simp only [Option.isSome_none, Bool.false_eq_true, false_or] at hlook
      cases items with
      | nil => simp at hlook
      | cons it items' =>
        cases it <;> simp only [Bool.and_eq_true, bne_iff_ne, ne_eq] at hlook <;>
          simp [classNeg, itemsText, CItem.text, hlook.1, hlook.2]
    · simp [classNeg]
    · simp [classNeg]
  · simp [classNeg]
  · simp [classNeg]

theorem parseClass_spec (s : ClsSpec) (hw : s.wf = true) (rest : List Nat) :
    parseClass (s.text ++ rest) = .ok (.cls s.isNeg s.ranges, rest) := by
  unfold parseClass
  rw [classNeg_spec s hw rest]
  simp only [classLoop_body s hw rest]

/-! ### the documentation's lexer in class mode -/

theorem lex_cls_char (o : DocOpts) (c : Nat) (g : List Nat) (st : LexSt) (k : ClsSt)
    (hc : clsChar c = true) (hst : st.cls = some k) (hd : k.dash = false) :
    lexGo o (c :: g) st =
      lexGo o g { st with cls := some { k with items := flushPend k, pend := some c, first := false } } := by
  simp only [clsChar, Bool.and_eq_true, decide_eq_true_eq, bne_iff_ne, ne_eq] at hc
  obtain ⟨⟨⟨hlt, h93⟩, h45⟩, h92⟩ := hc
  have hge : ¬ c ≥ 128 := by omega
  rw [lexGo.eq_def]
  simp only [hge, ↓reduceIte, hst, beq_iff_eq, h93, h45, h92, hd]
  cases hp : k.pend <;> simp

theorem lex_cls_range (o : DocOpts) (lo hi : Nat) (g : List Nat) (st : LexSt) (k : ClsSt)
    (hlo : clsChar lo = true) (hhi : clsChar hi = true) (hle : lo ≤ hi)
    (hst : st.cls = some k) (hd : k.dash = false) :
    lexGo o (lo :: 45 :: hi :: g) st =
      lexGo o g { st with cls := some { k with items := flushPend k ++ [(lo, hi)], pend := none,
                                                  dash := false, first := false } } := by
  rw [lex_cls_char o lo _ st k hlo hst hd]
  simp only [clsChar, Bool.and_eq_true, decide_eq_true_eq, bne_iff_ne, ne_eq] at hhi
  obtain ⟨⟨⟨hlt, h93⟩, h45⟩, h92⟩ := hhi
  have hge : ¬ hi ≥ 128 := by omega
  rw [lexGo.eq_def]
  simp only [show ¬ (45 : Nat) ≥ 128 by omega, ↓reduceIte, Nat.reduceBEq, Bool.false_eq_true, BEq.rfl,
    Option.isSome_some, hd, Bool.not_false, Bool.and_self]
  rw [lexGo.eq_def]
  simp only [hge, ↓reduceIte, beq_iff_eq, h93, h45, h92, hle]

theorem flushPend_mk (neg : Bool) (items : List (Nat × Nat)) (first dash : Bool) (pend : Option Nat) :
    flushPend ⟨neg, items, first, pend, dash⟩ = items ++ (pend.map fun x => (x, x)).toList := by
  cases pend <;> simp [flushPend]

/-- running the lexer over the items of a class: the logical list of ranges grows by the items' ranges -/
theorem lex_cls_items (o : DocOpts) (items : List CItem) (hok : items.all CItem.ok = true) (tail : List Nat)
    (st : LexSt) (k : ClsSt) (hst : st.cls = some k) (hd : k.dash = false) (hne : items ≠ []) :
    ∃ k' : ClsSt, k'.neg = k.neg ∧ flushPend k' = flushPend k ++ items.map CItem.rng ∧ k'.dash = false ∧
      k'.first = false ∧ k'.pend.isSome = lastIsOne items ∧
      lexGo o (itemsText items ++ tail) st = lexGo o tail { st with cls := some k' } := by
  induction items generalizing st k with
  | nil => exact absurd rfl hne
  | cons it items ih =>
    simp only [List.all_cons, Bool.and_eq_true] at hok
    simp only [itemsText, List.flatMap_cons, List.append_assoc, List.map_cons]
    -- the state after the first item
    obtain ⟨k1, hk1neg, hk1fl, hk1d, hk1f, hk1p, hstep⟩ :
        ∃ k1 : ClsSt, k1.neg = k.neg ∧ flushPend k1 = flushPend k ++ [it.rng] ∧ k1.dash = false ∧
          k1.first = false ∧ k1.pend.isSome = lastIsOne [it] ∧
          ∀ g, lexGo o (it.text ++ g) st = lexGo o g { st with cls := some k1 } := by
      cases it with
      | one c =>
        refine ⟨{ k with items := flushPend k, pend := some c, first := false }, rfl, ?_, hd, rfl, rfl, ?_⟩
        · simp [flushPend, CItem.rng]
        · intro g; exact lex_cls_char o c g st k (by simpa [CItem.ok] using hok.1) hst hd
      | range lo hi =>
        simp only [CItem.ok, Bool.and_eq_true, decide_eq_true_eq] at hok
        refine ⟨{ k with items := flushPend k ++ [(lo, hi)], pend := none, dash := false, first := false },
          rfl, ?_, rfl, rfl, rfl, ?_⟩
        · simp [flushPend, CItem.rng]
        · intro g; exact lex_cls_range o lo hi g st k hok.1.1.1 hok.1.1.2 hok.1.2 hst hd
    by_cases hi : items = []
    · subst hi
      refine ⟨k1, hk1neg, by simpa using hk1fl, hk1d, hk1f, hk1p, ?_⟩
      simp only [List.flatMap_nil, List.nil_append]
      exact hstep tail
    · obtain ⟨k', hneg', hfl', hd', hf', hp', hgo⟩ :=
        ih hok.2 { st with cls := some k1 } k1 rfl hk1d hi
      refine ⟨k', by rw [hneg', hk1neg], by rw [hfl', hk1fl]; simp, hd', hf', ?_, ?_⟩
      · rw [hp']
        cases items with
        | nil => exact absurd rfl hi
        | cons x xs => cases it <;> rfl
      · rw [hstep]
        simp only [itemsText] at hgo
        rw [hgo]

theorem lex_cls_close (o : DocOpts) (trail : Bool) (rest : List Nat) (st : LexSt) (k : ClsSt)
    (hst : st.cls = some k) (hbr : st.br = none) (hd : k.dash = false) (hf : k.first = false)
    (hp : trail = true → k.pend.isSome = true) :
    lexGo o ((if trail then [45] else []) ++ 93 :: rest) st =
      lexGo o rest { items := st.items ++ [.a (.cls k.neg (flushPend k ++ if trail then [(45, 45)] else []))],
                     br := none, cls := none, compStart := false } := by
  cases trail
  · simp only [Bool.false_eq_true, ↓reduceIte, List.nil_append, List.append_nil]
    rw [lexGo.eq_def]
    simp [hst, hf, hd, LexSt.push, hbr]
  · simp only [↓reduceIte, List.cons_append, List.nil_append]
    have hp' := hp rfl
    rw [lexGo.eq_def]
    simp only [show ¬ (45 : Nat) ≥ 128 by omega, ↓reduceIte, hst, Nat.reduceBEq, Bool.false_eq_true, BEq.rfl,
      hf, hp', hd, Bool.not_false, Bool.and_self]
    rw [lexGo.eq_def]
    simp [hf, LexSt.push, hbr, flushPend]

theorem lexGo_class (o : DocOpts) (s : ClsSpec) (hw : s.wf = true) (rest : List Nat) (st : LexSt)
    (hbr : st.br = none) (hcls : st.cls = none) :
    lexGo o (91 :: (s.text ++ rest)) st =
      lexGo o rest { items := st.items ++ [.a (.cls s.isNeg s.ranges)], br := none, cls := none,
                     compStart := false } := by
  have hw' := hw
  obtain ⟨neg, first, items, trail⟩ := s
  simp only [ClsSpec.wf, Bool.and_eq_true, Bool.or_eq_true, beq_iff_eq] at hw'
  obtain ⟨⟨⟨⟨⟨hneg, hfirst⟩, hitems⟩, htr⟩, hne⟩, hlook⟩ := hw'
  -- 1. the opening bracket and the negation
  have hopen : lexGo o (91 :: (ClsSpec.text ⟨neg, first, items, trail⟩ ++ rest)) st =
      lexGo o (ClsSpec.body ⟨neg, first, items, trail⟩ ++ rest)
        { st with cls := some ⟨neg.isSome, [], true, none, false⟩ } := by
    have hcn := classNeg_spec ⟨neg, first, items, trail⟩ hw rest
    rw [ClsSpec.text_eq]
    rw [lexGo.eq_def]
    simp only [show ¬ (91 : Nat) ≥ 128 by omega, ↓reduceIte, hcls, Nat.reduceBEq, Bool.false_eq_true, BEq.rfl]
    rcases hneg with (rfl | rfl) | rfl
    · -- no negation: the head of the body is neither `!` nor `^`
      rw [ClsSpec.text_eq] at hcn
      simp only [Option.toList_none, List.nil_append, ClsSpec.isNeg, Option.isSome_none] at hcn ⊢
      have hh : ((ClsSpec.body ⟨none, first, items, trail⟩ ++ rest).head? == some 33 ||
          (ClsSpec.body ⟨none, first, items, trail⟩ ++ rest).head? == some 94) = false := by
        generalize ClsSpec.body ⟨none, first, items, trail⟩ ++ rest = b at hcn
        cases b with
        | nil => rfl
        | cons x xs =>
          simp only [List.head?_cons, Bool.or_eq_false_iff, beq_eq_false_iff_ne, ne_eq,
            Option.some.injEq]
          constructor
          · rintro rfl; simp [classNeg] at hcn
          · rintro rfl; simp [classNeg] at hcn
      simp only [hh, Bool.false_eq_true, ↓reduceIte]
    · simp
    · simp
  rw [hopen]
  -- 2. the literal first character
  obtain ⟨k2, hk2neg, hk2fl, hk2d, hk2p, hk2first, hgo2⟩ :
      ∃ k2 : ClsSt, k2.neg = neg.isSome ∧ flushPend k2 = (first.map fun c => (c, c)).toList ∧ k2.dash = false ∧
        k2.pend = none ∧ (k2.first = false ∨ first = none) ∧
        lexGo o (ClsSpec.body ⟨neg, first, items, trail⟩ ++ rest)
            { st with cls := some ⟨neg.isSome, [], true, none, false⟩ } =
          lexGo o (itemsText items ++ ((if trail then [45] else []) ++ 93 :: rest)) { st with cls := some k2 } := by
    rcases hfirst with (rfl | rfl) | rfl
    · exact ⟨⟨neg.isSome, [], true, none, false⟩, rfl, rfl, rfl, rfl, Or.inr rfl, by simp [ClsSpec.body]⟩
    · refine ⟨⟨neg.isSome, [(93, 93)], false, none, false⟩, rfl, rfl, rfl, rfl, Or.inl rfl, ?_⟩
      simp only [ClsSpec.body, Option.toList_some, List.cons_append, List.nil_append, List.append_assoc]
      rw [lexGo.eq_def]
      simp
    · refine ⟨⟨neg.isSome, [(45, 45)], false, none, false⟩, rfl, rfl, rfl, rfl, Or.inl rfl, ?_⟩
      simp only [ClsSpec.body, Option.toList_some, List.cons_append, List.nil_append, List.append_assoc]
      rw [lexGo.eq_def]
      simp
  rw [hgo2]
  -- 3. the items, 4. the closing bracket
  by_cases hi : items = []
  · subst hi
    have hfs : k2.first = false := by
      rcases hk2first with h | h
      · exact h
      · subst h; simp at hne
    have htf : trail = false := by
      rcases htr with h | h
      · simpa using h
      · simp [lastIsOne] at h
    subst htf
    simp only [itemsText, List.flatMap_nil, List.nil_append]
    rw [lex_cls_close o false rest { st with cls := some k2 } k2 rfl hbr hk2d hfs (by simp)]
    simp [ClsSpec.isNeg, ClsSpec.ranges, hk2neg, hk2fl]
  · obtain ⟨k', hneg', hfl', hd', hf', hp', hgo⟩ :=
      lex_cls_items o items hitems ((if trail then [45] else []) ++ 93 :: rest)
        { st with cls := some k2 } k2 rfl hk2d hi
    rw [hgo, lex_cls_close o trail rest { st with cls := some k' } k' rfl hbr hd' hf' (by
      intro ht
      rw [hp']
      rcases htr with h | h
      · simp [ht] at h
      · exact h)]
    simp [ClsSpec.isNeg, ClsSpec.ranges, hneg', hk2neg, hfl', hk2fl]

/-! ### globs made of wildcard runs and classes -/

theorem parseLoop_class (o : Opts) (s : ClsSpec) (hw : s.wf = true) (rest : List Nat) (fuel : Nat)
    (st : PState) (hb : st.branches = []) :
    parseLoop o (fuel + 1) st (91 :: (s.text ++ rest)) =
      parseLoop o fuel { outer := st.outer ++ [.s (.cls s.isNeg s.ranges)], branches := [], cur := some 93 } rest := by
  generalize hR : parseLoop o fuel ⟨st.outer ++ [.s (.cls s.isNeg s.ranges)], [], some 93⟩ rest = R
  unfold parseLoop
  simp only [Nat.reduceBEq, Bool.false_eq_true, ↓reduceIte, BEq.rfl, parseClass_spec s hw rest, PState.push, hb]
  exact hR

inductive Piece where
  | run (g : List Nat)
  | cls (s : ClsSpec)
  deriving Repr, DecidableEq

def Piece.text : Piece → List Nat
  | .run g => g
  | .cls s => 91 :: s.text

def Piece.toks (be : Bool) : Piece → List Tok
  | .run g => simpleToks be g
  | .cls s => [.cls s.isNeg s.ranges]

def piecesText (ps : List Piece) : List Nat := ps.flatMap Piece.text
def piecesToks (be : Bool) (ps : List Piece) : List Tok := ps.flatMap (Piece.toks be)

/-- wildcard runs are in the wildcard grammar and are not adjacent; classes are well formed -/
def piecesOk (be : Bool) : List Piece → Bool
  | [] => true
  | .cls s :: rest => s.wf && piecesOk be rest
  | [.run g] => simpleGlob be g
  | .run g :: .cls s :: rest => simpleGlob be g && s.wf && piecesOk be rest
  | .run _ :: .run _ :: _ => false

theorem piecesText_cons (p : Piece) (ps : List Piece) : piecesText (p :: ps) = p.text ++ piecesText ps := by
  simp [piecesText]
theorem piecesToks_cons (be : Bool) (p : Piece) (ps : List Piece) :
    piecesToks be (p :: ps) = p.toks be ++ piecesToks be ps := by
  simp [piecesToks]

theorem piecesText_head (be : Bool) (g : List Nat) (rest : List Piece) (h : piecesOk be (.run g :: rest) = true) :
    (piecesText rest).head? ≠ some 42 := by
  cases rest with
  | nil => simp [piecesText]
  | cons p rest =>
    cases p with
    | run g' => simp [piecesOk] at h
    | cls s => simp [piecesText, Piece.text]

theorem piecesOk_tail (be : Bool) (p : Piece) (rest : List Piece) (h : piecesOk be (p :: rest) = true) :
    piecesOk be rest = true := by
  cases p with
  | cls s => simp only [piecesOk, Bool.and_eq_true] at h; exact h.2
  | run g =>
    cases rest with
    | nil => rfl
    | cons q rest' =>
      cases q with
      | run g' => simp [piecesOk] at h
      | cls s => simp only [piecesOk, Bool.and_eq_true] at h ⊢; exact ⟨h.1.2, h.2⟩

theorem piecesOk_run (be : Bool) (g : List Nat) (rest : List Piece) (h : piecesOk be (.run g :: rest) = true) :
    simpleGlob be g = true := by
  cases rest with
  | nil => simpa [piecesOk] using h
  | cons q rest' =>
    cases q with
    | run g' => simp [piecesOk] at h
    | cls s => simp only [piecesOk, Bool.and_eq_true] at h; exact h.1.1

theorem parseLoop_pieces (o : Opts) (ps : List Piece) (hok : piecesOk o.be ps = true) (fuel : Nat)
    (st : PState) (hb : st.branches = []) (hf : (piecesText ps).length < fuel) :
    parseLoop o fuel st (piecesText ps) =
      .ok { outer := st.outer ++ (piecesToks o.be ps).map Token.s, branches := [], cur := none } := by
  induction ps generalizing fuel st with
  | nil =>
    obtain ⟨f, rfl⟩ : ∃ f, fuel = f + 1 := ⟨fuel - 1, by omega⟩
    simp [piecesText, piecesToks, parseLoop, hb]
  | cons p rest ih =>
    have hrest := piecesOk_tail o.be p rest hok
    rw [piecesText_cons] at hf ⊢
    rw [piecesToks_cons]
    cases p with
    | run g =>
      simp only [Piece.text, Piece.toks] at hf ⊢
      obtain ⟨fuel', cur, hf', hrec⟩ := parseLoop_simple_pre o g (piecesText rest) (piecesOk_run o.be g rest hok)
        (piecesText_head o.be g rest hok) fuel st hb hf
      rw [hrec, ih hrest fuel' _ rfl hf']
      simp
    | cls s =>
      have hw : s.wf = true := by simp only [piecesOk, Bool.and_eq_true] at hok; exact hok.1
      simp only [Piece.text, Piece.toks, List.cons_append] at hf ⊢
      obtain ⟨f, rfl⟩ : ∃ f, fuel = f + 1 := ⟨fuel - 1, by simp at hf; omega⟩
      rw [parseLoop_class o s hw _ f st hb, ih hrest f _ rfl (by simp at hf ⊢; omega)]
      simp

theorem lexGo_pieces (o : DocOpts) (ps : List Piece) (hok : piecesOk o.be ps = true) (st : LexSt)
    (hbr : st.br = none) (hcls : st.cls = none) :
    lexGo o (piecesText ps) st = some (st.items ++ ((piecesToks o.be ps).map trAtom).map Item.a) := by
  induction ps generalizing st with
  | nil => rw [lexGo.eq_def]; simp [piecesText, piecesToks, hbr, hcls]
  | cons p rest ih =>
    have hrest := piecesOk_tail o.be p rest hok
    rw [piecesText_cons, piecesToks_cons]
    cases p with
    | run g =>
      simp only [Piece.text, Piece.toks]
      obtain ⟨cs, hrec⟩ := lexGo_simple_pre o g (piecesText rest) (piecesOk_run o.be g rest hok)
        (piecesText_head o.be g rest hok) st hbr hcls
      rw [hrec, ih hrest _ rfl rfl]
      simp [itemsOf]
    | cls s =>
      have hw : s.wf = true := by simp only [piecesOk, Bool.and_eq_true] at hok; exact hok.1
      simp only [Piece.text, Piece.toks, List.cons_append]
      rw [lexGo_class o s hw _ st hbr hcls, ih hrest _ rfl rfl]
      simp [trAtom]

theorem spec_ranges_ascii (s : ClsSpec) (hw : s.wf = true) :
    s.ranges.all (fun r => decide (r.1 < 128) && decide (r.2 < 128)) = true := by
  obtain ⟨neg, first, items, trail⟩ := s
  simp only [ClsSpec.wf, Bool.and_eq_true, Bool.or_eq_true, beq_iff_eq] at hw
  obtain ⟨⟨⟨⟨⟨_, hfirst⟩, hitems⟩, _⟩, _⟩, _⟩ := hw
  simp only [ClsSpec.ranges, List.all_append, Bool.and_eq_true]
  refine ⟨⟨?_, ?_⟩, by cases trail <;> simp⟩
  · rcases hfirst with (rfl | rfl) | rfl <;> simp
  · simp only [List.all_map, List.all_eq_true, Function.comp]
    intro it hit
    have := List.all_eq_true.mp hitems it hit
    cases it with
    | one c =>
      simp only [CItem.ok, clsChar, Bool.and_eq_true, decide_eq_true_eq] at this
      simp [CItem.rng, this.1.1.1]
    | range lo hi =>
      simp only [CItem.ok, clsChar, Bool.and_eq_true, decide_eq_true_eq] at this
      simp [CItem.rng, this.1.1.1.1.1, this.1.2.1.1.1]

/-- every token of such a glob is a wildcard token or an ASCII class -/
theorem piecesToks_kind (be : Bool) (ps : List Piece) (hok : piecesOk be ps = true) :
    ∀ t ∈ piecesToks be ps, simpleTok t = true ∨ asciiCls t = true := by
  induction ps with
  | nil => simp [piecesToks]
  | cons p rest ih =>
    have hrest := piecesOk_tail be p rest hok
    rw [piecesToks_cons]
    intro t ht
    rcases List.mem_append.mp ht with ht | ht
    · cases p with
      | run g => exact Or.inl (simpleToks_simple be g (piecesOk_run be g rest hok) t ht)
      | cls s =>
        have hw : s.wf = true := by simp only [piecesOk, Bool.and_eq_true] at hok; exact hok.1
        simp only [Piece.toks, List.mem_singleton] at ht
        subst ht
        exact Or.inr (by simpa [asciiCls] using spec_ranges_ascii s hw)
    · exact ih hrest t ht

/-- **C12_doc with classes** -/
theorem doc_pieces (o : Opts) (ps : List Piece) (hok : piecesOk o.be ps = true) (p : Bytes) :
    ∃ toks, parse o (piecesText ps) = .ok toks ∧ okGlob (docOpts o) (piecesText ps) = true ∧
      tokMatch o toks p = docMatch (docOpts o) (piecesText ps) p := by
  have hkind := piecesToks_kind o.be ps hok
  have hstar : ∀ t ∈ piecesToks o.be ps, starTok t = true := by
    intro t ht
    rcases hkind t ht with h | h <;> simp [starTok, h]
  have hflat : (piecesToks o.be ps).flatMap trAtoms = (piecesToks o.be ps).map trAtom := by
    generalize piecesToks o.be ps = ts at hkind
    induction ts with
    | nil => rfl
    | cons t ts ih =>
      rw [List.flatMap_cons, List.map_cons, ih (fun x hx => hkind x (by simp [hx]))]
      rcases hkind t (by simp) with h | h <;> cases t <;> simp_all [trAtoms, simpleTok, asciiCls]
  have hnd : ∀ t ∈ piecesToks o.be ps, trAtom t ≠ Atom.dirs := by
    intro t ht
    rcases hkind t ht with h | h <;> cases t <;> simp_all [trAtom, simpleTok, asciiCls]
  have hlex : docLex (docOpts o) (piecesText ps) = some [(piecesToks o.be ps).map trAtom] := by
    unfold docLex
    rw [lexGo_pieces (docOpts o) ps hok _ rfl rfl]
    simp only [List.nil_append]
    have hod : onlyDirs (((piecesToks o.be ps).map trAtom).map Item.a) = false := by
      unfold onlyDirs
      cases hts : piecesToks o.be ps with
      | nil => simp
      | cons t ts =>
        have := hnd t (by rw [hts]; simp)
        simp only [List.map_cons, List.isEmpty_cons, Bool.not_false, List.all_cons, Bool.true_and,
          Bool.and_eq_false_iff]
        left
        simp only [beq_eq_false_iff_ne, ne_eq, Item.a.injEq]
        exact this
    have hbe : (docOpts o).be = o.be := rfl
    simp only [hbe] at hod ⊢
    rw [hod]
    exact expand_atoms' _ _
  have hparse : parse o (piecesText ps) = .ok ((piecesToks o.be ps).map Token.s) := by
    unfold parse
    rw [parseLoop_pieces o ps hok _ _ rfl (by omega)]
    simp [PState.depth]
  have hne : (piecesToks o.be ps).map Token.s ≠ [.s .recPrefix] := by
    intro h
    cases hts : piecesToks o.be ps with
    | nil => simp [hts] at h
    | cons t ts =>
      rw [hts] at h
      simp only [List.map_cons, List.cons.injEq, Token.s.injEq] at h
      rcases hkind t (by rw [hts]; simp) with h' | h' <;> rw [h.1] at h' <;> simp [simpleTok, asciiCls] at h'
  refine ⟨_, hparse, by simp [okGlob, hlex], ?_⟩
  unfold docMatch
  rw [hlex]
  simp only [List.any_cons, List.any_nil, Bool.or_false]
  rw [tokMatch_eq _ _ _ hne, tokensK_eq_atomsMatch_star o _ hstar p, hflat]

/-! ### a decidable guard (best-effort decomposition, re-rendered and compared) -/

def scanItems : Nat → List Nat → List CItem → Option (List CItem × Bool × List Nat)
  | 0, _, _ => none
  | _ + 1, [], _ => none
  | _ + 1, 93 :: rest, acc => some (acc, false, rest)
  | _ + 1, 45 :: 93 :: rest, acc => some (acc, true, rest)
  | f + 1, lo :: 45 :: hi :: rest, acc =>
    if hi == 93 then scanItems f (45 :: hi :: rest) (acc ++ [.one lo])
    else scanItems f rest (acc ++ [.range lo hi])
  | f + 1, c :: rest, acc => scanItems f rest (acc ++ [.one c])

def scanClass (g : List Nat) : Option (ClsSpec × List Nat) :=
  let ng : Option Nat × List Nat := match g with
    | 33 :: r => (some 33, r)
    | 94 :: r => (some 94, r)
    | r => (none, r)
  let fg : Option Nat × List Nat := match ng.2 with
    | 93 :: r => (some 93, r)
    | 45 :: r => (some 45, r)
    | r => (none, r)
  (scanItems (fg.2.length + 1) fg.2 []).map fun r => (⟨ng.1, fg.1, r.1, r.2.1⟩, r.2.2)

def flushRun (cur : List Nat) : List Piece := if cur.isEmpty then [] else [.run cur]

def scanPieces (be : Bool) : Nat → List Nat → List Nat → List Piece
  | 0, g, cur => flushRun (cur ++ g)
  | _ + 1, [], cur => flushRun cur
  | f + 1, 91 :: rest, cur =>
    match scanClass rest with
    | some (s, rest') => flushRun cur ++ [.cls s] ++ scanPieces be f rest' []
    | none => flushRun (cur ++ 91 :: rest)
  | f + 1, 92 :: e :: rest, cur =>
    if be then scanPieces be f rest (cur ++ [92, e]) else scanPieces be f (e :: rest) (cur ++ [92])
  | f + 1, c :: rest, cur => scanPieces be f rest (cur ++ [c])

/-- globs made of wildcard runs and bracket classes -/
def okClassGlob (be : Bool) (g : List Nat) : Bool :=
  let ps := scanPieces be (g.length + 1) g []
  piecesText ps == g && piecesOk be ps

theorem doc_okClassGlob (o : Opts) (g : List Nat) (hg : okClassGlob o.be g = true) (p : Bytes) :
    ∃ toks, parse o g = .ok toks ∧ okGlob (docOpts o) g = true ∧
      tokMatch o toks p = docMatch (docOpts o) g p := by
  unfold okClassGlob at hg
  simp only [Bool.and_eq_true, beq_iff_eq] at hg
  rw [← hg.1]
  exact doc_pieces o _ hg.2 p

-- `a[!b-d]*.[ch]`, `[]a]`, `[a-]x`, `[^-z]?`
example : okClassGlob true [97, 91, 33, 98, 45, 100, 93, 42, 46, 91, 99, 104, 93] = true ∧
    okClassGlob true [91, 93, 97, 93] = true ∧ okClassGlob true [91, 97, 45, 93, 120] = true ∧
    okClassGlob true [91, 94, 45, 122, 93, 63] = true ∧
    -- outside: `[a-c-e]`, `[\]]`, `[c-a]`
    okClassGlob true [91, 97, 45, 99, 45, 101, 93] = false ∧ okClassGlob true [91, 92, 93, 93] = false ∧
    okClassGlob true [91, 99, 45, 97, 93] = false := by decide

end RgVerif.Glob
