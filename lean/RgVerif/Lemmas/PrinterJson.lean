import RgVerif.Model.Json
/-
Helper lemmas for C09: the base64 encoder of `jsont.rs` is inverted by the RFC 4648 decoder.
-/
namespace RgVerif.Lemmas.PrinterJson
open RgVerif RgVerif.Json

theorem b64val_b64char_all : ∀ i, i < 64 → b64val (b64char i) = some i := by decide

theorem b64char_ne_pad_all : ∀ i, i < 64 → b64char i ≠ 61 := by decide

theorem b64val_b64char {i : Nat} (h : i < 64) : b64val (b64char i) = some i :=
  b64val_b64char_all i h

theorem b64char_ne_pad {i : Nat} (h : i < 64) : (b64char i == 61) = false := by
  have := b64char_ne_pad_all i h
  simp [this]

theorem unbase64_one (b0 : Nat) (h0 : b0 < 256) : unbase64 (base64 [b0]) = some [b0] := by
  have e1 : b0 / 4 % 64 < 64 := Nat.mod_lt _ (by omega)
  have e2 : b0 * 16 % 64 < 64 := Nat.mod_lt _ (by omega)
  simp only [base64, unbase64, List.isEmpty_nil, beq_self_eq_true, Bool.and_self, if_true,
    b64val_b64char e1, b64val_b64char e2]
  congr 2
  omega

theorem unbase64_two (b0 b1 : Nat) (h0 : b0 < 256) (h1 : b1 < 256) :
    unbase64 (base64 [b0, b1]) = some [b0, b1] := by
  have e1 : (b0 * 256 + b1) / 1024 % 64 < 64 := Nat.mod_lt _ (by omega)
  have e2 : (b0 * 256 + b1) / 16 % 64 < 64 := Nat.mod_lt _ (by omega)
  have e3 : (b0 * 256 + b1) * 4 % 64 < 64 := Nat.mod_lt _ (by omega)
  simp only [base64, unbase64, List.isEmpty_nil, beq_self_eq_true, Bool.and_self, if_true,
    b64val_b64char e1, b64val_b64char e2, b64val_b64char e3, b64char_ne_pad e3, Bool.false_eq_true, if_false]
  congr 2
  · omega
  · congr 1
    omega

theorem base64_roundtrip (b : Bytes) (h : ∀ x ∈ b, x < 256) : unbase64 (base64 b) = some b := by
  fun_induction base64 b with
  | case1 => simp [unbase64]
  | case2 b0 => exact unbase64_one b0 (h b0 (by simp))
  | case3 b0 b1 => exact unbase64_two b0 b1 (h b0 (by simp)) (h b1 (by simp))
  | case4 b0 b1 b2 rest g ih =>
    have h0 : b0 < 256 := h b0 (by simp)
    have h1 : b1 < 256 := h b1 (by simp)
    have h2 : b2 < 256 := h b2 (by simp)
    have hr : ∀ x ∈ rest, x < 256 := fun x hx => h x (by simp [hx])
    have e1 : g / 262144 % 64 < 64 := Nat.mod_lt _ (by omega)
    have e2 : g / 4096 % 64 < 64 := Nat.mod_lt _ (by omega)
    have e3 : g / 64 % 64 < 64 := Nat.mod_lt _ (by omega)
    have e4 : g % 64 < 64 := Nat.mod_lt _ (by omega)
    have hg : g = b0 * 65536 + b1 * 256 + b2 := rfl
    simp only [unbase64, b64char_ne_pad e4, Bool.and_false, Bool.false_eq_true, if_false,
      b64val_b64char e1, b64val_b64char e2, b64val_b64char e3, b64val_b64char e4, ih hr]
    congr 2
    · omega
    · congr 1
      · omega
      · congr 1
        omega

end RgVerif.Lemmas.PrinterJson
