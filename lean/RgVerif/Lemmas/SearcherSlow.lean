import RgVerif.Lemmas.SearcherCtx
/-
The slow line-by-line path (`match_by_line_slow`) under the invariant.
-/
namespace RgVerif.Searcher
open RgVerif RgVerif.Matcher RgVerif.Lines RgVerif.GrepSpec

/-- some line before `p` is selected -/
def hasSel (sl : List SLine) (p : Nat) : Bool := (List.range p).any (selAt sl)

theorem hasSel_succ (sl : List SLine) (p : Nat) : hasSel sl (p + 1) = (hasSel sl p || selAt sl p) := by
  simp [hasSel, List.range_succ, List.any_append]

/-- state of the slow loop before it looks at line `p`; `v` lines are decided -/
structure SlowInv (cfg : Config) (sl : List SLine) (v p : Nat) (st : Core) : Prop where
  inv : Inv cfg sl v st
  vp : v ≤ p
  unsel : Unsel sl v p
  acl : AclOK cfg.afterContext sl v st.afterContextLeft
  zero : v < p → st.afterContextLeft = 0
  pt : cfg.passthru = true → v = p
  hm : st.hasMatched = hasSel sl p

/-- with `stop_on_nonmatch`, only the last line may be an unselected line after a selected one -/
def StopOK (cfg : Config) (sl : List SLine) : Prop :=
  cfg.stopOnNonmatch = true → ∀ j, j + 1 < sl.length → selAt sl j = false → hasSel sl j = false

/-- the slow loop ends through the `stop_on_nonmatch` exit at the last line -/
def stopsAtEnd (cfg : Config) (sl : List SLine) : Bool :=
  cfg.stopOnNonmatch && !selAt sl (sl.length - 1) && hasSel sl (sl.length - 1)

theorem ite_stop {α : Type} {c h : Bool} {P : Prop} [Decidable P] (himp : (c && h) = true → P) (a b : α) :
    (if (c && !false && h) = true then a else b) = (if (c && !false && h && decide P) = true then a else b) := by
  cases c <;> cases h <;> simp_all

section
variable {t : Nat} {buf : Bytes} {sl : List SLine} {cfg : Config} {m : MatcherI}

/-- one iteration of the `while let` loop of `match_by_line_slow`, on line `p` -/
theorem slow_iter (L : Layout t buf sl) (ht : cfg.lineTerm.asByte = t) (hbin : cfg.binary = .none)
    (hsel : ∀ j, j < sl.length → selAt sl j = lineSel cfg m (bytesAt sl j)) (hstop : StopOK cfg sl)
    {v p : Nat} {st : Core} (hS : SlowInv cfg sl v p st) (hp : p < sl.length) (rest : List Span) :
    ∃ st' v', SlowInv cfg sl v' (p + 1) st' ∧ st'.pos = offsetAt sl (p + 1) ∧
      slowLoop cfg m allCont buf (span sl p :: rest) st =
        (if cfg.stopOnNonmatch && !selAt sl p && hasSel sl p && decide (p + 1 = sl.length)
         then (st', .ok false) else slowLoop cfg m allCont buf rest st') := by
  have hI := hS.inv
  have hsl : slice buf (span sl p).s (span sl p).e = bytesAt sl p := L.slice_line p hp
  have hsucc : ((m.shortestMatch (withoutTerminator (slice buf (span sl p).s (span sl p).e) cfg.lineTerm)).isSome
      != cfg.invertMatch) = selAt sl p := by rw [hsl, hsel p hp]; rfl
  rw [slowLoop]
  simp only [hsucc]
  cases hs : selAt sl p
  · -- unselected line
    have hu1 : Unsel sl v (p + 1) := by
      intro j h1 h2
      by_cases hj : j = p
      · subst hj; exact hs
      · exact hS.unsel j h1 (by omega)
    have hstopc : (cfg.stopOnNonmatch && hasSel sl p) = true → p + 1 = sl.length := by
      intro h
      simp only [Bool.and_eq_true] at h
      apply Classical.byContradiction; intro hne
      have := hstop h.1 p (by omega) hs
      rw [this] at h; exact Bool.noConfusion h.2
    by_cases hacl : 1 ≤ st.afterContextLeft
    · -- delivered as after-context
      have hvp : v = p := by
        apply Classical.byContradiction; intro hne
        have := hS.zero (by have := hS.vp; omega); omega
      subst hvp
      have hI0 : Inv cfg sl v { st with pos := (span sl v).e } := hI.of_fields rfl rfl rfl rfl rfl rfl rfl
      have hk := kind_after (cfg := cfg) hS.acl (Nat.le_refl v) hu1 (by omega)
      obtain ⟨st1, e1, hI1, hacl1, hf1⟩ := sinkAfter_step L ht hbin hI0 hp hk
      refine ⟨st1, v + 1, ⟨hI1, Nat.le_refl _, fun j h1 h2 => by omega, ?_, fun h => by omega, fun _ => rfl, ?_⟩,
        by rw [hf1.1]; rfl, ?_⟩
      · rw [hacl1]; exact aclOK_step hS.acl hs hacl
      · rw [hf1.2.1, hasSel_succ, hs]; simpa using hS.hm
      · simp only [Bool.false_eq_true, if_false, ge_iff_le, hacl, if_true, e1]
        have hm1 : st1.hasMatched = hasSel sl v := by rw [hf1.2.1]; exact hS.hm
        rw [hm1]
        exact ite_stop hstopc _ _
    · have hacl0 : st.afterContextLeft = 0 := by omega
      by_cases hpt : cfg.passthru = true
      · -- delivered as other-context
        have hvp : v = p := hS.pt hpt
        subst hvp
        have hI0 : Inv cfg sl v { st with pos := (span sl v).e } := hI.of_fields rfl rfl rfl rfl rfl rfl rfl
        have hk := kind_other (cfg := cfg) hS.acl (Nat.le_refl v) hu1 (by omega) hpt
        obtain ⟨st1, e1, hI1, hacl1, hf1⟩ := sinkOther_step L ht hbin hI0 hp hk
        refine ⟨st1, v + 1, ⟨hI1, Nat.le_refl _, fun j h1 h2 => by omega, ?_, fun h => by omega, fun _ => rfl, ?_⟩,
          by rw [hf1.1]; rfl, ?_⟩
        · rw [hacl1]
          have : AclOK cfg.afterContext sl v 0 := by simpa [hacl0] using hS.acl
          simpa [hacl0] using aclOK_zero_mono this (Nat.le_succ v) hu1
        · rw [hf1.2.1, hasSel_succ, hs]; simpa using hS.hm
        · simp only [Bool.false_eq_true, if_false, ge_iff_le, hacl, hpt, if_true, e1]
          have hm1 : st1.hasMatched = hasSel sl v := by rw [hf1.2.1]; exact hS.hm
          rw [hm1]
          exact ite_stop hstopc _ _
      · -- not delivered (yet)
        have hptf : cfg.passthru = false := by simpa using hpt
        refine ⟨{ st with pos := (span sl p).e }, v,
          ⟨hI.of_fields rfl rfl rfl rfl rfl rfl rfl, by have := hS.vp; omega, hu1, hS.acl, fun _ => hacl0,
            fun h => by rw [hptf] at h; exact Bool.noConfusion h, ?_⟩, rfl, ?_⟩
        · rw [hasSel_succ, hs]; simpa using hS.hm
        · simp only [Bool.false_eq_true, if_false, ge_iff_le, hacl, hptf]
          have hm1 : st.hasMatched = hasSel sl p := hS.hm
          rw [hm1]
          exact ite_stop hstopc _ _
  · -- selected line
    have hI1 : Inv cfg sl v { st with pos := (span sl p).e, hasMatched := true } :=
      hI.of_fields rfl rfl rfl rfl rfl rfl rfl
    obtain ⟨v', st2, e2, hI2, hv'p, hskip, hacl2, hf2⟩ :=
      beforeCtx_step L ht hbin hI1 hS.vp hp hS.unsel hs hS.acl hS.zero hS.pt
    obtain ⟨st3, e3, hI3, hacl3, hf3⟩ := sinkMatched_step L ht hbin hI2 hv'p hp hskip (kind_matched hs)
    refine ⟨st3, p + 1, ⟨hI3, Nat.le_refl _, fun j h1 h2 => by omega, ?_, fun h => by omega, fun _ => rfl, ?_⟩,
      by rw [hf3.1, hf2.1]; rfl, ?_⟩
    · rw [hacl3]; exact aclOK_match hs
    · rw [hf3.2.1, hf2.2.1, hasSel_succ, hs]; simp
    · have : (span sl p).s = offsetAt sl p := rfl
      simp only [if_true, this, e2, e3]
      simp


/-- the whole `while let` loop of `match_by_line_slow` over the lines `p … n-1` -/
theorem slowLoop_spec (L : Layout t buf sl) (ht : cfg.lineTerm.asByte = t) (hbin : cfg.binary = .none)
    (hsel : ∀ j, j < sl.length → selAt sl j = lineSel cfg m (bytesAt sl j)) (hstop : StopOK cfg sl) :
    ∀ (d p v : Nat) (st : Core), p + d = sl.length → SlowInv cfg sl v p st →
      ∃ st' v', SlowInv cfg sl v' sl.length st' ∧ (0 < d → st'.pos = offsetAt sl sl.length) ∧ (d = 0 → st' = st) ∧
        slowLoop cfg m allCont buf ((List.range' p d).map (span sl)) st
          = (st', .ok (!(decide (0 < d) && stopsAtEnd cfg sl))) := by
  intro d
  induction d with
  | zero =>
    intro p v st hp hS
    have : p = sl.length := by omega
    subst this
    exact ⟨st, v, hS, by simp, fun _ => rfl, by simp [slowLoop]⟩
  | succ d ih =>
    intro p v st hp hS
    obtain ⟨st1, v1, hS1, hpos1, e1⟩ := slow_iter (m := m) L ht hbin hsel hstop hS (by omega)
      ((List.range' (p + 1) d).map (span sl))
    rw [List.range'_succ, List.map_cons, e1]
    by_cases hlast : p + 1 = sl.length
    · have hd : d = 0 := by omega
      subst hd
      have hS1' : SlowInv cfg sl v1 sl.length st1 := by rw [← hlast]; exact hS1
      refine ⟨st1, v1, hS1', fun _ => by rw [← hlast]; exact hpos1, fun h => by omega, ?_⟩
      have hn : sl.length - 1 = p := by omega
      simp only [stopsAtEnd, hn, hlast, decide_true, Bool.and_true, List.range'_zero, List.map_nil, slowLoop]
      cases (cfg.stopOnNonmatch && !selAt sl p && hasSel sl p) <;> simp
    · obtain ⟨st2, v2, hS2, hpos2, hst2, e2⟩ := ih (p + 1) v1 st1 (by omega) hS1
      have hd : 0 < d := by omega
      refine ⟨st2, v2, hS2, fun _ => hpos2 hd, fun h => by omega, ?_⟩
      simp only [hlast, decide_false, Bool.and_false, Bool.false_eq_true, if_false, e2]
      simp [hd]

/-- at the end of the buffer everything still undecided is not delivered by the model either -/
theorem SlowInv.final {v : Nat} {st : Core} (hS : SlowInv cfg sl v sl.length st) :
    st.events = Event.begin :: (List.range sl.length).flatMap (lineEvents cfg sl) := by
  rw [hS.inv.ev, flatMap_skip cfg sl v sl.length hS.vp]
  intro j h1 h2
  have hptf : cfg.passthru = false := by
    cases hp : cfg.passthru
    · rfl
    · have := hS.pt hp; omega
  exact kind_none hS.acl h1 hS.unsel h2 (by rw [hS.zero (by omega)]; omega) hptf (Or.inr (Nat.le_refl _))

theorem slowLoop_append (cfg : Config) (m : MatcherI) (σ : Script) (buf : Bytes) (xs ys : List Span) (st : Core) :
    slowLoop cfg m σ buf (xs ++ ys) st =
      match slowLoop cfg m σ buf xs st with
      | (st', .ok true) => slowLoop cfg m σ buf ys st'
      | r => r := by
  induction xs generalizing st with
  | nil => simp [slowLoop]
  | cons x xs ih =>
    simp only [List.cons_append, slowLoop]
    split
    · split
      · rfl
      · exact ih _
    · rename_i st1 r hne _
      cases r with
      | err => rfl
      | ok b =>
        cases b with
        | false => rfl
        | true => exact absurd rfl hne

theorem slowInv_init (cfg : Config) (sl : List SLine) (b : Bool) :
    SlowInv cfg sl 0 0 { Core.new cfg b with events := [Event.begin] } := by
  refine ⟨⟨by simp [Core.new, off_zero], by simp [Core.new], fun h => by omega,
    ⟨0, Nat.le_refl _, fun _ => by simp [Core.new, off_zero], ?_⟩, rfl, rfl, by simp⟩,
    Nat.le_refl _, fun j h1 h2 => by omega, ?_, fun h => by omega, fun _ => rfl, ?_⟩
  · simp [Core.new, lineNo]
  · exact aclOK_init _ _
  · simp [Core.new, hasSel]

end
end RgVerif.Searcher
