import RgVerif.Lemmas.ReadByLineStep
/-
`last_line_visited` is irrelevant once it lies at least `max_context + 1` whole lines behind the
search position (what `Core::roll` relies on when it forgets it).
-/
namespace RgVerif.Searcher
open RgVerif RgVerif.Matcher RgVerif.Lines RgVerif.GrepSpec

/-- the region `[v, p)` of `buf` ends with the `max_context + 1` (or more) terminated lines `Z`,
preceded by whole lines -/
structure Far (cfg : Config) (buf : Bytes) (v p : Nat) (Z : List Bytes) : Prop where
  vp : v ≤ p
  pl : p ≤ buf.length
  x : ∃ x, slice buf v p = x ++ Z.flatten ∧ (x = [] ∨ x.getLast? = some cfg.lineTerm.asByte)
  term : AllTerm cfg.lineTerm.asByte Z
  many : cfg.maxContext + 1 ≤ Z.length

theorem allTerm_flatten_pos {t : Nat} {Z : List Bytes} (h : AllTerm t Z) (hne : Z ≠ []) : 0 < Z.flatten.length := by
  cases Z with
  | nil => exact absurd rfl hne
  | cons z zs =>
    have := (h z (by simp)).length_pos
    simp only [List.flatten_cons, List.length_append]
    omega

theorem allTerm_flatten_getLast {t : Nat} {Z : List Bytes} (h : AllTerm t Z) (hne : Z ≠ []) :
    Z.flatten.getLast? = some t := by
  rcases snoc_cases Z with rfl | ⟨init, x, rfl⟩
  · exact absurd rfl hne
  · obtain ⟨body, rfl, _⟩ := h x (by simp)
    simp

theorem allTerm_append {t : Nat} {a b : List Bytes} (ha : AllTerm t a) (hb : AllTerm t b) : AllTerm t (a ++ b) := by
  intro x hx
  simp only [List.mem_append] at hx
  cases hx with
  | inl h => exact ha x h
  | inr h => exact hb x h

/-- where before-context starts when `last_line_visited` is far behind: `bc` lines before `p` -/
theorem Far.before_start {cfg : Config} {buf : Bytes} {v p : Nat} {Z : List Bytes} (F : Far cfg buf v p Z)
    (bc : Nat) (h1 : 1 ≤ bc) (h2 : bc ≤ cfg.maxContext) :
    v + preceding (slice buf v p) cfg.lineTerm.asByte (bc - 1)
      = p - ((Z.drop (Z.length - bc)).flatten).length ∧
    v < v + preceding (slice buf v p) cfg.lineTerm.asByte (bc - 1) ∧
    ((Z.drop (Z.length - bc)).flatten).length ≤ p - v := by
  obtain ⟨x, hx, hxt⟩ := F.x
  have hlen : (slice buf v p).length = p - v := by
    unfold Lines.slice; simp; have := F.pl; omega
  -- the region as a list of terminated lines
  have hX : AllTerm cfg.lineTerm.asByte (splitLines cfg.lineTerm.asByte x) := by
    cases hxt with
    | inl h0 => rw [h0]; intro y hy; simp [splitLines] at hy
    | inr h0 => exact goodLines_allTerm_of_last (splitLines_good _ _) (by rw [splitLines_flatten]; exact h0)
  have hall := allTerm_append hX F.term
  have hflat : (splitLines cfg.lineTerm.asByte x ++ Z).flatten = slice buf v p := by
    rw [List.flatten_append, splitLines_flatten, hx]
  have hZne : Z ≠ [] := by intro h; have := F.many; rw [h] at this; simp at this
  have hne : splitLines cfg.lineTerm.asByte x ++ Z ≠ [] := by simp [hZne]
  have hp := preceding_allTerm hall hne (bc - 1)
  rw [hflat] at hp
  have hk : (splitLines cfg.lineTerm.asByte x ++ Z).length - 1 - (bc - 1)
      = (splitLines cfg.lineTerm.asByte x).length + (Z.length - bc) := by
    have := F.many
    simp only [List.length_append]; omega
  rw [hk, List.take_append] at hp
  simp only [List.take_of_length_le (Nat.le_add_right _ _), Nat.add_sub_cancel_left] at hp
  rw [List.flatten_append, List.length_append, splitLines_flatten] at hp
  have hsplit : Z.flatten.length = ((Z.take (Z.length - bc)).flatten).length + ((Z.drop (Z.length - bc)).flatten).length := by
    rw [← List.length_append, ← List.flatten_append, List.take_append_drop]
  have htot : p - v = x.length + Z.flatten.length := by rw [← hlen, hx]; simp
  have hpos : 0 < ((Z.take (Z.length - bc)).flatten).length := by
    apply allTerm_flatten_pos (t := cfg.lineTerm.asByte)
    · intro y hy; exact F.term y (List.mem_of_mem_take hy)
    · intro h0
      have := congrArg List.length h0
      simp at this
      have := F.many
      omega
  have := F.vp
  refine ⟨by omega, by omega, by omega⟩

theorem slice_split (buf : Bytes) (a b c : Nat) (hab : a ≤ b) (hbc : b ≤ c) (hc : c ≤ buf.length) :
    slice buf a c = slice buf a b ++ slice buf b c := by
  unfold Lines.slice
  have h1 : buf.take c = buf.take b ++ (buf.take c).drop b := by
    have := (List.take_append_drop b (buf.take c)).symm
    rw [List.take_take, show min b c = b by omega] at this
    exact this
  rw [h1, List.drop_append_of_le_length (by simp; omega)]
  congr 1
  rw [List.drop_append_of_le_length (by simp; omega)]
  have : List.drop b (List.take b buf) = [] := List.drop_eq_nil_of_le (by simp; omega)
  rw [this]; simp

/-- one more terminated line behind the region -/
theorem Far.extend {cfg : Config} {buf : Bytes} {v p : Nat} {Z : List Bytes} (F : Far cfg buf v p Z) (l : Bytes)
    (hl : slice buf p (p + l.length) = l) (ht : Term cfg.lineTerm.asByte l) (hp : p + l.length ≤ buf.length) :
    Far cfg buf v (p + l.length) (Z ++ [l]) := by
  obtain ⟨x, hx, hxt⟩ := F.x
  refine ⟨by have := F.vp; omega, hp, ⟨x, ?_, hxt⟩, ?_, by have := F.many; simp; omega⟩
  · rw [slice_split buf v p (p + l.length) F.vp (by omega) hp, hx, hl]
    simp
  · exact allTerm_append F.term (fun y hy => by simp at hy; rw [hy]; exact ht)

theorem Far.lt {cfg : Config} {buf : Bytes} {v p : Nat} {Z : List Bytes} (F : Far cfg buf v p Z) : v < p := by
  obtain ⟨x, hx, _⟩ := F.x
  have hlen : (slice buf v p).length = p - v := by
    unfold Lines.slice; simp; have := F.pl; omega
  have hpos : 0 < Z.flatten.length := allTerm_flatten_pos F.term (by
    intro h; have := F.many; rw [h] at this; simp at this)
  have := congrArg List.length hx
  rw [hlen, List.length_append] at this
  omega

/-- how far the two `last_line_visited` may be apart: equal up to the shift, or -- when `Core::roll`
has reset the reader's -- both at least `max_context + 1` whole lines (the same ones) behind the
position `p`; without context lines the value is never looked at -/
def XRel (cfg : Config) (B w : Bytes) (d : Nat) (s1 s2 : Core) (p : Nat) : Prop :=
  s1.lastLineVisited = s2.lastLineVisited + d ∨
    (s2.lastLineVisited = 0 ∧
      ∃ Z, Far cfg w s2.lastLineVisited p Z ∧ Far cfg B s1.lastLineVisited (p + d) Z) ∨
    cfg.maxContext = 0

end RgVerif.Searcher
