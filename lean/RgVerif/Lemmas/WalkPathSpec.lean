import RgVerif.Spec.ReachPath
import RgVerif.Lemmas.WalkTerm
/-
C06: the recursive spec `reach` reports exactly the items of the path-wise spec `Reported`.
-/
namespace RgVerif.Walk

theorem mem_reachKids_of_mem_entry (cfg : Cfg) (forest : List Node) (j : Contents) (rd : Option Nat)
    (anc : List Anc) (depth : Nat) (pp : Path) (o : Out) (k : Node) :
    (ks : List Node) → k ∈ ks → o ∈ reachEntry cfg forest j rd anc depth pp k →
      o ∈ reachKids cfg forest j rd anc depth pp ks
  | [] => by intro h; cases h
  | k' :: ks => by
    intro hk ho
    unfold reachKids
    rcases List.mem_cons.1 hk with e | e
    · subst e; exact List.mem_append_left _ ho
    · exact List.mem_append_right _ (mem_reachKids_of_mem_entry cfg forest j rd anc depth pp o k ks e ho)

/-- What `entryOut` says about a child is the first thing `reachEntry` reports for it. -/
theorem entryOut_mem (cfg : Cfg) (forest : List Node) (j : Contents) (rd : Option Nat)
    (anc : List Anc) (depth : Nat) (pp : Path) (k : Node) (o : Out)
    (h : entryOut cfg forest anc pp k = some o) : o ∈ reachEntry cfg forest j rd anc depth pp k := by
  cases k with
  | file name size =>
    by_cases hacc : accepted cfg anc (pp ++ [name]) name (.file size) = true
    · simp [entryOut, hacc] at h; subst h; simp [reachEntry, hacc]
    · simp [entryOut, hacc] at h
  | dir name ino dev ign kids =>
    by_cases hacc : accepted cfg anc (pp ++ [name]) name (.dir ⟨ino, dev, ign, kids⟩ false) = true
    · simp [entryOut, hacc] at h; subst h; simp [reachEntry, hacc]
    · simp [entryOut, hacc] at h
  | link name len tgt =>
    cases hf : cfg.followLinks with
    | false =>
      by_cases hacc : accepted cfg anc (pp ++ [name]) name (.symlink len) = true
      · simp [entryOut, hf, hacc] at h; subst h; simp [reachEntry, hf, hacc]
      · simp [entryOut, hf, hacc] at h
    | true =>
      cases hr : resolve forest tgt with
      | broken => simp [entryOut, hf, hr] at h; subst h; simp [reachEntry, hf, hr]
      | file sz =>
        by_cases hacc : accepted cfg anc (pp ++ [name]) name (.file sz) = true
        · simp [entryOut, hf, hr, hacc] at h; subst h; simp [reachEntry, hf, hr, hacc]
        · simp [entryOut, hf, hr, hacc] at h
      | symlink l =>
        by_cases hacc : accepted cfg anc (pp ++ [name]) name (.symlink l) = true
        · simp [entryOut, hf, hr, hacc] at h; subst h; simp [reachEntry, hf, hr, hacc]
        · simp [entryOut, hf, hr, hacc] at h
      | dir d via =>
        by_cases hl : inAnc anc d.ino = true
        · simp [entryOut, hf, hr, hl] at h; subst h; simp [reachEntry, hf, hr, hl]
        · by_cases hacc : accepted cfg anc (pp ++ [name]) name (.dir d true) = true
          · simp [entryOut, hf, hr, hl, hacc] at h; subst h; simp [reachEntry, hf, hr, hl, hacc]
          · simp [entryOut, hf, hr, hl, hacc] at h

section
variable (cfg : Cfg) (forest : List Node) (r : Node)

mutual
theorem reachEntry_sound (jump : Contents)
    (hj : ∀ a d p ks, Listed cfg forest r a d p ks →
      ∀ o, o ∈ jump a d p (rootDevOf cfg forest r) ks → ReportedBelow cfg forest r o)
    (anc : List Anc) (depth : Nat) (pp : Path) (ks : List Node)
    (hL : Listed cfg forest r anc depth pp ks) :
    (k : Node) → k ∈ ks → ∀ o,
      o ∈ reachEntry cfg forest jump (rootDevOf cfg forest r) anc depth pp k →
      ReportedBelow cfg forest r o
  | .file name size => by
    intro hk o ho
    unfold reachEntry at ho
    split at ho
    · rename_i hacc
      simp only [List.mem_singleton] at ho
      subst ho
      exact .child hL hk (by simp [entryOut, hacc])
    · cases ho
  | .dir name ino dev ign kids => by
    intro hk o ho
    unfold reachEntry at ho
    split at ho
    · rename_i hacc
      rcases List.mem_cons.1 ho with e | e
      · subst e
        exact .child hL hk (by simp [entryOut, hacc])
      · split at e
        · rename_i hc
          simp only [Bool.and_eq_true] at hc
          exact reachKids_sound jump hj ((ino, ign) :: anc) (depth + 1) (pp ++ [name]) kids
            (.real hL hk hacc hc.1 hc.2) kids (fun _ h => h) o e
        · cases e
    · cases ho
  | .link name len tgt => by
    intro hk o ho
    cases hf : cfg.followLinks with
    | false =>
      by_cases hacc : accepted cfg anc (pp ++ [name]) name (.symlink len) = true
      · simp [reachEntry, hf, hacc] at ho; subst ho
        exact .child hL hk (by simp [entryOut, hf, hacc])
      · simp [reachEntry, hf, hacc] at ho
    | true =>
      cases hr : resolve forest tgt with
      | broken =>
        simp [reachEntry, hf, hr] at ho; subst ho
        exact .child hL hk (by simp [entryOut, hf, hr])
      | file sz =>
        by_cases hacc : accepted cfg anc (pp ++ [name]) name (.file sz) = true
        · simp [reachEntry, hf, hr, hacc] at ho; subst ho
          exact .child hL hk (by simp [entryOut, hf, hr, hacc])
        · simp [reachEntry, hf, hr, hacc] at ho
      | symlink l =>
        by_cases hacc : accepted cfg anc (pp ++ [name]) name (.symlink l) = true
        · simp [reachEntry, hf, hr, hacc] at ho; subst ho
          exact .child hL hk (by simp [entryOut, hf, hr, hacc])
        · simp [reachEntry, hf, hr, hacc] at ho
      | dir d via =>
        by_cases hl : inAnc anc d.ino = true
        · simp [reachEntry, hf, hr, hl] at ho; subst ho
          exact .child hL hk (by simp [entryOut, hf, hr, hl])
        · have hl' : inAnc anc d.ino = false := by simpa using hl
          by_cases hacc : accepted cfg anc (pp ++ [name]) name (.dir d true) = true
          · simp only [reachEntry, hf, hr, hl', hacc, if_true, Bool.false_eq_true, if_false,
              List.mem_cons] at ho
            rcases ho with e | e
            · subst e
              exact .child hL hk (by simp [entryOut, hf, hr, hl', hacc])
            · split at e
              · rename_i hc
                simp only [Bool.and_eq_true] at hc
                exact hj _ _ _ _ (.link hL hk hf hr hl' hacc hc.1 hc.2) o e
              · cases e
          · simp [reachEntry, hf, hr, hl', hacc] at ho
theorem reachKids_sound (jump : Contents)
    (hj : ∀ a d p ks, Listed cfg forest r a d p ks →
      ∀ o, o ∈ jump a d p (rootDevOf cfg forest r) ks → ReportedBelow cfg forest r o)
    (anc : List Anc) (depth : Nat) (pp : Path) (ks : List Node)
    (hL : Listed cfg forest r anc depth pp ks) :
    (ks' : List Node) → (∀ k, k ∈ ks' → k ∈ ks) → ∀ o,
      o ∈ reachKids cfg forest jump (rootDevOf cfg forest r) anc depth pp ks' →
      ReportedBelow cfg forest r o
  | [] => by intro _ o ho; unfold reachKids at ho; cases ho
  | k :: ks' => by
    intro hsub o ho
    unfold reachKids at ho
    rcases List.mem_append.1 ho with e | e
    · exact reachEntry_sound jump hj anc depth pp ks hL k (hsub k (by simp)) o e
    · exact reachKids_sound jump hj anc depth pp ks hL ks' (fun x hx => hsub x (by simp [hx])) o e
end

theorem reachContents_sound : ∀ (f : Nat) (a : List Anc) (d : Nat) (p : Path) (ks : List Node),
    Listed cfg forest r a d p ks →
    ∀ o, o ∈ reachContents cfg forest f a d p (rootDevOf cfg forest r) ks → ReportedBelow cfg forest r o := by
  intro f
  induction f with
  | zero => intro a d p ks _ o ho; cases ho
  | succ f ih =>
    intro a d p ks hL o ho
    simp only [reachContents] at ho
    exact reachKids_sound cfg forest r _ ih a d p ks hL ks (fun _ h => h) o ho

/-- A listed directory is reached by the recursion with fuel to spare, and whatever the recursion
reports there is part of what it reports for the root. -/
theorem listed_contained {anc : List Anc} {depth : Nat} {pp : Path} {ks : List Node}
    (hL : Listed cfg forest r anc depth pp ks) :
    ∃ f, free forest anc < f + 1 ∧
      ∀ o, o ∈ reachKids cfg forest (reachContents cfg forest f) (rootDevOf cfg forest r) anc depth pp ks →
        o ∈ reachRoot cfg forest (dirCount forest + 1) r := by
  induction hL with
  | @root d via hs hd =>
    refine ⟨dirCount forest, ?_, ?_⟩
    · have := free_le_dirCount forest [(d.ino, d.ign)]; omega
    · intro o ho
      unfold reachRoot
      simp only [hs, hd, if_true]
      apply List.mem_cons_of_mem
      simpa [reachContents, rootDevOf, hs] using ho
  | @real anc depth pp ks name ino dev ign kids hL hk hacc hdev hdep ih =>
    obtain ⟨f, hlt, hsub⟩ := ih
    refine ⟨f, Nat.lt_of_le_of_lt (free_cons_le forest _ anc) hlt, ?_⟩
    intro o ho
    apply hsub
    apply mem_reachKids_of_mem_entry cfg forest _ _ anc depth pp o _ ks hk
    unfold reachEntry
    simp only [hacc, if_true, hdev, hdep, Bool.and_self]
    exact List.mem_cons_of_mem _ ho
  | @link anc depth pp ks name len tgt d via hL hk hf hr hl hacc hdev hdep ih =>
    obtain ⟨f, hlt, hsub⟩ := ih
    have hlt2 := free_cons_lt forest d.ino d.ign anc (resolve_dir_mem hr) hl
    cases f with
    | zero => omega
    | succ f' =>
      refine ⟨f', by omega, ?_⟩
      intro o ho
      apply hsub
      apply mem_reachKids_of_mem_entry cfg forest _ _ anc depth pp o _ ks hk
      unfold reachEntry
      simp only [hf, if_true, hr, hl, Bool.false_eq_true, if_false, hacc, hdev, hdep, Bool.and_self]
      apply List.mem_cons_of_mem
      simpa [reachContents] using ho

theorem reportedBelow_complete {o : Out} (h : ReportedBelow cfg forest r o) :
    o ∈ reachRoot cfg forest (dirCount forest + 1) r := by
  cases h with
  | rootBroken hs => unfold reachRoot; simp [hs]
  | rootEntry hs =>
    unfold reachRoot
    cases hv : stat forest r with
    | broken => exact absurd hv hs
    | file s => simp
    | symlink l => simp
    | dir d via => simp
  | @child anc depth pp ks k o hL hk he =>
    obtain ⟨f, _, hsub⟩ := listed_contained cfg forest r hL
    apply hsub
    exact mem_reachKids_of_mem_entry cfg forest _ _ anc depth pp o k ks hk
      (entryOut_mem cfg forest _ _ anc depth pp k o he)

theorem reachRoot_sound (fuel : Nat) {o : Out} (h : o ∈ reachRoot cfg forest fuel r) :
    ReportedBelow cfg forest r o := by
  unfold reachRoot at h
  cases hs : stat forest r with
  | broken => simp [hs] at h; subst h; exact .rootBroken hs
  | file s => simp [hs] at h; subst h; exact .rootEntry (by rw [hs]; simp)
  | symlink l => simp [hs] at h; subst h; exact .rootEntry (by rw [hs]; simp)
  | dir d via =>
    simp only [hs, List.mem_cons] at h
    rcases h with e | e
    · subst e; exact .rootEntry (by rw [hs]; simp)
    · split at e
      · rename_i hd
        have hrd : (if cfg.sameFs then some d.dev else none) = rootDevOf cfg forest r := by
          simp [rootDevOf, hs]
        rw [hrd] at e
        exact reachContents_sound cfg forest r fuel _ _ _ _ (.root hs hd) o e
      · cases e

end

/-- The recursive spec and the path-wise spec agree (for every fuel that the termination theorem
shows sufficient). -/
theorem reach_iff_reported (cfg : Cfg) (forest : List Node) (fuel : Nat) (roots : List Node)
    (hf : dirCount forest + 1 ≤ fuel) (o : Out) :
    o ∈ reach cfg forest fuel roots ↔ Reported cfg forest roots o := by
  unfold reach Reported
  rw [List.mem_flatMap]
  constructor
  · rintro ⟨r, hr, ho⟩
    exact ⟨r, hr, reachRoot_sound cfg forest r fuel ho⟩
  · rintro ⟨r, hr, ho⟩
    refine ⟨r, hr, ?_⟩
    rw [reachRoot_stable cfg forest fuel r hf]
    exact reportedBelow_complete cfg forest r ho

end RgVerif.Walk
